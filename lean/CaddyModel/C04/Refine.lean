/-
C04 — refinement: every lock region is one atomic step of the abstract pool (`Spec.SpecStep`)
or invisible.  The linearization points are the pool-lock regions: `lnLookup`/`lsLookup`
(begin / join / store), `ctorOk` (commit), `lnFailDel` (abort), `del1` (release).
-/
import CaddyModel.C04.Reach
import CaddyModel.C04.Spec

namespace CaddyModel.C04

theorem abs_updEnt_same (s : G) (e : Nat) (f : Entry → Entry)
    (h : entryState (f (s.ent e)) = entryState (s.ent e)) : abs (updEnt s e f) = abs s := by
  funext k
  simp only [abs, absKey, updEnt]
  cases s.pool k with
  | none => rfl
  | some e' =>
    by_cases hee : e' = e
    · subst hee; simp [h]
    · simp [hee]

theorem abs_updEnt_mapped {s : G} (hi : Inv s) {k e : Nat} (hp : s.pool k = some e) (f : Entry → Entry) :
    abs (updEnt s e f) = setKey (abs s) k (entryState (f (s.ent e))) := by
  funext k'
  simp only [abs, absKey, updEnt, setKey]
  by_cases hk : k' = k
  · subst hk; simp [hp]
  · simp only [hk, if_false]
    cases hp' : s.pool k' with
    | none => rfl
    | some e' =>
      have hne : e' ≠ e := by
        intro hee; subst hee
        have h1 := (hi.pool k' e' hp').2
        have h2 := (hi.pool k e' hp).2
        exact hk (h1.symm.trans h2)
      simp [hne]

theorem abs_alloc {s : G} (hi : Inv s) (k : Nat) (E : Entry) :
    abs (alloc s k E) = setKey (abs s) k (entryState E) := by
  funext k'
  simp only [abs, absKey, alloc, setKey]
  by_cases hk : k' = k
  · subst hk; simp
  · simp only [hk, if_false]
    cases hp' : s.pool k' with
    | none => rfl
    | some e' =>
      have hne : e' ≠ s.next := by have := (hi.pool k' e' hp').1; omega
      simp [hne]

theorem abs_unmapUpd {s : G} (hi : Inv s) {k e : Nat} (hp : s.pool k = some e) (f : Entry → Entry) :
    abs (updEnt (setPool s k none) e f) = setKey (abs s) k .absent := by
  funext k'
  simp only [abs, absKey, updEnt, setPool, setKey]
  by_cases hk : k' = k
  · subst hk; simp
  · simp only [hk, if_false]
    cases hp' : s.pool k' with
    | none => rfl
    | some e' =>
      have hne : e' ≠ e := by
        intro hee; subst hee
        have h1 := (hi.pool k' e' hp').2
        have h2 := (hi.pool k e' hp).2
        exact hk (h1.symm.trans h2)
      simp [hne]

theorem abs_key_of_pool {s : G} {k e : Nat} (hp : s.pool k = some e) : abs s k = entryState (s.ent e) := by
  simp [abs, absKey, hp]

theorem toNat_succ {r : Int} (h : 0 ≤ r) : (r + 1).toNat = r.toNat + 1 := by omega

theorem abs_bumpVal (s : G) : abs (bumpVal s) = abs s := rfl

theorem step_of_eq {a a' a'' : Abs} {l : SpecLabel} (h : SpecStep a l a'') (e : a' = a'') : SpecStep a l a' :=
  e ▸ h

theorem entryState_none {E : Entry} (h : E.value = none) : entryState E = .pending E.refs.toNat := by
  simp [entryState, h]

theorem entryState_some {E : Entry} {v : Nat} (h : E.value = some v) : entryState E = .live v E.refs.toNat := by
  simp [entryState, h]

/-- **refinement / linearizability.** Every region of every reachable execution is the atomic
    step `specLabel` of the abstract pool on the abstraction of the state (or leaves it unchanged). -/
theorem refines_spec_inv {s s' : G} {l : Label} (hi : Inv s) (hx : excluded s l = false)
    (hs : gstep s l = some s') : SpecStep (abs s) (specLabel s l) (abs s') := by
  cases l with
  | lnLookup k =>
    simp only [gstep] at hs
    · cases hp : s.pool k with
      | some e =>
        rw [hp] at hs; cases hs
        obtain ⟨he, _⟩ := hi.pool k e hp
        have hnn := ent_refs_nonneg (hi.ent e he)
        simp only [specLabel, hp]
        cases hv : (s.ent e).value with
        | none =>
          refine step_of_eq (SpecStep.joinPending _ k _ ((abs_key_of_pool hp).trans (entryState_none hv))) ?_
          rw [abs_updEnt_mapped hi hp]; congr 1
          rw [entryState_none (by exact hv)]; simp [toNat_succ hnn]
        | some v =>
          refine step_of_eq (SpecStep.joinLive _ k _ _ ((abs_key_of_pool hp).trans (entryState_some hv))) ?_
          rw [abs_updEnt_mapped hi hp]; congr 1
          rw [entryState_some (by exact hv)]; simp [toNat_succ hnn]
      | none =>
        rw [hp] at hs; cases hs
        simp only [specLabel, hp]
        refine step_of_eq (SpecStep.begin _ k (by simp [abs, absKey, hp])) ?_
        rw [abs_alloc hi]; congr 1
  | ctorOk e =>
    simp only [gstep] at hs
    split at hs
    · rename_i hg
      cases hs
      have hE := hi.ent e hg.1
      obtain ⟨hm, _, hw, _, _, _⟩ := ent_ctor_facts hE hg.2
      have hp := pool_of_inPool hm
      have hv : (s.ent e).value = none := by
        obtain ⟨_, _, _, _, _, _, h7, _⟩ := hE
        exact (h7 hw).1
      simp only [specLabel]
      refine step_of_eq (SpecStep.commit _ _ s.nextVal _ ((abs_key_of_pool hp).trans (entryState_none hv))) ?_
      rw [abs_bumpVal, abs_updEnt_mapped hi hp]; congr 1
    · cases hs
  | ctorErr e =>
    simp only [gstep] at hs
    split at hs
    · cases hs
      rw [abs_updEnt_same s e _ (by simp [entryState])]
      exact SpecStep.tau _
    · cases hs
  | lnFailDel e =>
    simp only [gstep] at hs
    split at hs
    · rename_i hg
      cases hs
      have hE := hi.ent e hg.1
      obtain ⟨hm, herr, _, _⟩ := ent_failing_facts hE hg.2
      have hp := pool_of_inPool hm
      have hv := (ent_failed_facts hE herr).2.1
      simp only [specLabel]
      refine step_of_eq (SpecStep.abort _ _ _ ((abs_key_of_pool hp).trans (entryState_none hv))) ?_
      rw [abs_unmapUpd hi hp]
    · cases hs
  | lnRead e =>
    simp only [gstep] at hs
    split at hs
    · split at hs <;> cases hs <;>
        (rw [abs_updEnt_same s e _ (by simp [entryState])]; exact SpecStep.tau _)
    · cases hs
  | lsLookup k =>
    simp only [gstep] at hs
    · cases hp : s.pool k with
      | some e =>
        rw [hp] at hs; cases hs
        obtain ⟨he, _⟩ := hi.pool k e hp
        have hnn := ent_refs_nonneg (hi.ent e he)
        simp only [specLabel, hp]
        cases hv : (s.ent e).value with
        | none =>
          refine step_of_eq (SpecStep.joinPending _ k _ ((abs_key_of_pool hp).trans (entryState_none hv))) ?_
          rw [abs_bumpVal, abs_updEnt_mapped hi hp]; congr 1
          rw [entryState_none (by exact hv)]; simp [toNat_succ hnn]
        | some v =>
          refine step_of_eq (SpecStep.joinLive _ k _ _ ((abs_key_of_pool hp).trans (entryState_some hv))) ?_
          rw [abs_bumpVal, abs_updEnt_mapped hi hp]; congr 1
          rw [entryState_some (by exact hv)]; simp [toNat_succ hnn]
      | none =>
        rw [hp] at hs; cases hs
        simp only [specLabel, hp]
        refine step_of_eq (SpecStep.store _ k s.nextVal (by simp [abs, absKey, hp])) ?_
        rw [abs_bumpVal, abs_alloc hi]; congr 1
  | lspLookup k =>
    simp only [gstep] at hs
    · cases hp : s.pool k with
      | some e =>
        rw [hp] at hs; cases hs
        obtain ⟨he, _⟩ := hi.pool k e hp
        have hnn := ent_refs_nonneg (hi.ent e he)
        simp only [specLabel, hp]
        cases hv : (s.ent e).value with
        | none =>
          refine step_of_eq (SpecStep.joinPending _ k _ ((abs_key_of_pool hp).trans (entryState_none hv))) ?_
          rw [abs_bumpVal, abs_updEnt_mapped hi hp]; congr 1
          rw [entryState_none (by exact hv)]; simp [toNat_succ hnn]
        | some v =>
          refine step_of_eq (SpecStep.joinLive _ k _ _ ((abs_key_of_pool hp).trans (entryState_some hv))) ?_
          rw [abs_bumpVal, abs_updEnt_mapped hi hp]; congr 1
          rw [entryState_some (by exact hv)]; simp [toNat_succ hnn]
      | none =>
        rw [hp] at hs; cases hs
        simp only [specLabel, hp]
        refine step_of_eq (SpecStep.store _ k s.nextVal (by simp [abs, absKey, hp])) ?_
        rw [abs_bumpVal, abs_alloc hi]; congr 1
  | lsRead e v =>
    simp only [gstep] at hs
    split at hs
    · split at hs <;> cases hs <;>
        (rw [abs_updEnt_same s e _ (by simp [entryState])]; exact SpecStep.tau _)
    · cases hs
  | del1 k ho =>
    cases ho with
    | none => simp [excluded] at hx
    | some h =>
      simp only [gstep] at hs
      split at hs
      · rename_i hg
        cases hs
        obtain ⟨hh, hpos, hk⟩ := hg
        have hE := hi.ent h hh
        obtain ⟨hm, _, _, _, hv, _, _, _, _⟩ := ent_holder_facts hE hpos
        obtain ⟨_, _, _, hr1⟩ := ent_holder_mapped hE hpos
        have hp : s.pool k = some h := by rw [← hk]; exact pool_of_inPool hm
        obtain ⟨v, hv⟩ := Option.isSome_iff_exists.mp hv
        have ha : abs s k = .live v (s.ent h).refs.toNat := (abs_key_of_pool hp).trans (entryState_some hv)
        simp only [specLabel]
        unfold del1Code
        have hp' : (updEnt s h fun E => { E with holders := E.holders - 1 }).pool k = some h := hp
        rw [hp']
        have hrefs : ((updEnt s h fun E => { E with holders := E.holders - 1 }).ent h).refs = (s.ent h).refs := by
          simp [updEnt]
        simp only [hrefs]
        split
        · rename_i hz
          have : setPool (updEnt s h fun E => { E with holders := E.holders - 1 }) k none
              = updEnt (setPool s k none) h fun E => { E with holders := E.holders - 1 } := rfl
          have h1 : (s.ent h).refs.toNat = 1 := by omega
          rw [h1] at ha
          refine step_of_eq (SpecStep.releaseLast _ k v ha) ?_
          rw [this, updEnt_updEnt, abs_unmapUpd hi hp]
        · rename_i hz
          obtain ⟨n, hn⟩ : ∃ n, (s.ent h).refs.toNat = n + 2 := ⟨(s.ent h).refs.toNat - 2, by omega⟩
          rw [hn] at ha
          refine step_of_eq (SpecStep.releaseSome _ k v n ha) ?_
          rw [updEnt_updEnt, abs_updEnt_mapped hi hp]; congr 1
          rw [entryState_some (by exact hv)]
          simp only [KeyState.live.injEq, true_and]
          show ((s.ent h).refs - 1).toNat = n + 1
          omega
      · cases hs
  | del2 e =>
    simp only [gstep] at hs
    split at hs
    · split at hs
      · cases hs; rw [abs_updEnt_same s e _ (by simp [entryState])]; exact SpecStep.tau _
      · split at hs <;> cases hs <;>
          (rw [abs_updEnt_same s e _ (by simp [entryState])]; exact SpecStep.tau _)
    · cases hs
  | del3 e =>
    simp only [gstep] at hs
    split at hs
    · cases hs
      rw [abs_updEnt_same s e _ (by simp [entryState])]
      exact SpecStep.tau _
    · cases hs
  | refs k => simp only [gstep] at hs; cases hs; exact SpecStep.tau _
  | range => simp only [gstep] at hs; cases hs; exact SpecStep.tau _

end CaddyModel.C04
