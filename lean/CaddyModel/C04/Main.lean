import CaddyModel.Util.DrvMain
import CaddyModel.C04.Driver

def main (args : List String) : IO Unit :=
  CaddyModel.drvMain "C04" CaddyModel.C04.handle CaddyModel.C04.witnessLines args
