import CaddyModel.C04.Props
open CaddyModel.C04
#print axioms placeholder_init
