import CaddyModel.C04.Props
open CaddyModel.C04
#print axioms inv_reachable
#print axioms one_live_value
#print axioms ctor_starts_only_when_key_unheld
#print axioms ctor_once_per_live_period
#print axioms dtor_exactly_once_after_last_release
#print axioms released_entry_destructed_at_quiescence
#print axioms not_destructed_before_own_release
#print axioms never_returns_destructed_lnRead
#print axioms never_returns_destructed_lsRead
#print axioms failed_acquisition_returns_no_value
#print axioms failed_ctor_leaves_absent
#print axioms failed_entry_is_inert
#print axioms refs_eq_acq_minus_rel
#print axioms references_report
#print axioms references_exact_at_quiescence
#print axioms delete_never_panics
#print axioms references_partial
#print axioms runSched_reachable
#print axioms mixed_use_full_fails
#print axioms loadOrStore_returns_nil
#print axioms references_full_fails
#print axioms one_undestructed_value_full_fails
#print axioms range_failing_ctor_deadlock_reachable
#print axioms stuck_disabled
#print axioms stuck_forever
