/-
C04 — the small abstract account the property talks about: a usage pool whose operations
take effect ATOMICALLY.  Per key the pool is

  absent | pending n | live v n

`pending n`: a constructor is running, `n` callers (the constructing one included) wait for
its outcome; `live v n`: value `v` is shared by `n` callers.  `released` collects the values
whose last reference was dropped (their destructor is due, exactly once).

A concrete execution is linearizable if every lock region of the Go code is either invisible
at this level (a stutter) or exactly one of these atomic steps — `Props.refines_spec`.
-/
import CaddyModel.C04.Model

namespace CaddyModel.C04

inductive KeyState where
  | absent
  | pending (n : Nat)
  | live (v : Nat) (n : Nat)
deriving DecidableEq, Repr

abbrev Abs := Nat → KeyState

inductive SpecLabel where
  | tau                       -- not visible in the pool
  | begin (k : Nat)           -- first caller of an absent key starts constructing
  | join (k : Nat)            -- a further caller attaches to a pending or live key
  | commit (k v : Nat)        -- the constructor succeeded with value v
  | abort (k : Nat)           -- the constructor failed: the key is absent again
  | store (k v : Nat)         -- LoadOrStore on an absent key
  | release (k : Nat)         -- Delete: one reference fewer; the last one removes the key
deriving DecidableEq, Repr

def setKey (a : Abs) (k : Nat) (x : KeyState) : Abs := fun i => if i = k then x else a i

/-- the atomic pool -/
inductive SpecStep : Abs → SpecLabel → Abs → Prop where
  | tau (a) : SpecStep a .tau a
  | begin (a k) : a k = .absent → SpecStep a (.begin k) (setKey a k (.pending 1))
  | joinPending (a k n) : a k = .pending n → SpecStep a (.join k) (setKey a k (.pending (n + 1)))
  | joinLive (a k v n) : a k = .live v n → SpecStep a (.join k) (setKey a k (.live v (n + 1)))
  | commit (a k v n) : a k = .pending n → SpecStep a (.commit k v) (setKey a k (.live v n))
  | abort (a k n) : a k = .pending n → SpecStep a (.abort k) (setKey a k .absent)
  | store (a k v) : a k = .absent → SpecStep a (.store k v) (setKey a k (.live v 1))
  | releaseSome (a k v n) : a k = .live v (n + 2) → SpecStep a (.release k) (setKey a k (.live v (n + 1)))
  | releaseLast (a k v) : a k = .live v 1 → SpecStep a (.release k) (setKey a k .absent)

/-- what one entry in the map means: no value yet = its constructor is pending -/
def entryState (E : Entry) : KeyState :=
  match E.value with
  | none => .pending E.refs.toNat
  | some v => .live v E.refs.toNat

/-- abstraction map: what the map of the concrete state means -/
def absKey (s : G) (k : Nat) : KeyState :=
  match s.pool k with
  | none => .absent
  | some e => entryState (s.ent e)

def abs (s : G) : Abs := fun k => absKey s k

/-- the atomic step a lock region amounts to (computed in the state before the region) -/
def specLabel (s : G) : Label → SpecLabel
  | .lnLookup k => match s.pool k with
    | none => .begin k
    | some _ => .join k
  | .ctorOk e => .commit (s.ent e).key s.nextVal
  | .lnFailDel e => .abort (s.ent e).key
  | .lsLookup k => match s.pool k with
    | none => .store k s.nextVal
    | some _ => .join k
  | .lspLookup k => match s.pool k with
    | none => .store k s.nextVal
    | some _ => .join k
  | .del1 k _ => .release k
  | _ => .tau

end CaddyModel.C04
