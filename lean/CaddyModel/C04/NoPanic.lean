/-
C04 — the panic in `Delete` ("deleted more than stored") is unreachable, for EVERY client — also
one that deletes keys it does not hold, and with the `else` branch of LoadOrStore: an entry in
the map always has refs ≥ 1 (it is created with 1 and removed in the very region that brings it
to 0), so `refs - 1` is never negative.  Over-deleting returns (false, nil) instead.
-/
import CaddyModel.C04.Step

namespace CaddyModel.C04

/-- entries in the map are allocated, stored under their own key, and have refs ≥ 1 -/
def MapOk (s : G) : Prop :=
  ∀ k e, s.pool k = some e → e < s.next ∧ (s.ent e).key = k ∧ 1 ≤ (s.ent e).refs

theorem mapOk_upd {s : G} {e : Nat} {f : Entry → Entry} (h : MapOk s)
    (hk : (f (s.ent e)).key = (s.ent e).key) (hr : (s.ent e).refs ≤ (f (s.ent e)).refs) :
    MapOk (updEnt s e f) := by
  intro k i hp
  obtain ⟨h1, h2, h3⟩ := h k i hp
  by_cases hie : i = e
  · subst hie
    have : (updEnt s i f).ent i = f (s.ent i) := by simp [updEnt]
    rw [this]; exact ⟨h1, hk.trans h2, Int.le_trans h3 hr⟩
  · have : (updEnt s e f).ent i = s.ent i := by simp [updEnt, hie]
    rw [this]; exact ⟨h1, h2, h3⟩

theorem mapOk_alloc {s : G} {k : Nat} {E : Entry} (h : MapOk s) (hk : E.key = k) (hr : 1 ≤ E.refs) :
    MapOk (alloc s k E) := by
  intro k' i hp
  by_cases hkk : k' = k
  · subst hkk
    have : i = s.next := by simpa [alloc] using hp.symm
    subst this
    exact ⟨Nat.lt_succ_self _, by simp [alloc, hk], by simp [alloc, hr]⟩
  · have hp' : s.pool k' = some i := by simpa [alloc, hkk] using hp
    obtain ⟨h1, h2, h3⟩ := h k' i hp'
    have hne : i ≠ s.next := by omega
    exact ⟨Nat.lt_succ_of_lt h1, by simp [alloc, hne, h2], by simp [alloc, hne, h3]⟩

/-- key `k` is cleared and entry `e` (created for key `k`) is updated arbitrarily -/
theorem mapOk_unmapUpd {s : G} {k e : Nat} {f : Entry → Entry} (h : MapOk s)
    (hk : (s.ent e).key = k ∨ s.next ≤ e) : MapOk (updEnt (setPool s k none) e f) := by
  intro k' i hp
  by_cases hkk : k' = k
  · subst hkk; simp [updEnt, setPool] at hp
  · have hp' : s.pool k' = some i := by simpa [updEnt, setPool, hkk] using hp
    obtain ⟨h1, h2, h3⟩ := h k' i hp'
    have hne : i ≠ e := by
      intro hie; subst hie
      rcases hk with hk | hk
      · exact hkk (h2.symm.trans hk)
      · omega
    have : (updEnt (setPool s k none) e f).ent i = s.ent i := by simp [updEnt, setPool, hne]
    rw [this]; exact ⟨h1, h2, h3⟩

theorem mapOk_del1Code {s : G} (h : MapOk s) (k : Nat) : MapOk (del1Code s k) := by
  unfold del1Code
  cases hp : s.pool k with
  | none => exact h
  | some e =>
    obtain ⟨h1, h2, h3⟩ := h k e hp
    simp only
    split
    · exact mapOk_unmapUpd h (Or.inl h2)
    · rename_i hz
      intro k' i hp'
      have hp'' : s.pool k' = some i := hp'
      obtain ⟨a, b, c⟩ := h k' i hp''
      by_cases hie : i = e
      · subst hie
        have : (updEnt s i fun E => { E with refs := E.refs - 1 }).ent i = { s.ent i with refs := (s.ent i).refs - 1 } := by
          simp [updEnt]
        rw [this]
        refine ⟨a, b, ?_⟩
        show 1 ≤ (s.ent i).refs - 1
        omega
      · have : (updEnt s e fun E => { E with refs := E.refs - 1 }).ent i = s.ent i := by simp [updEnt, hie]
        rw [this]; exact ⟨a, b, c⟩

theorem mapOk_bump {s : G} (h : MapOk s) : MapOk (bumpVal s) := h

theorem mapOk_step {s s' : G} {l : Label} (h : MapOk s) (hs : gstep s l = some s') : MapOk s' := by
  cases l with
  | lnLookup k =>
    simp only [gstep] at hs
    split at hs
    · cases hs; exact mapOk_upd h rfl (by show _ ≤ _ + 1; omega)
    · cases hs; exact mapOk_alloc h rfl (by simp [newCtorEntry])
  | ctorOk e =>
    simp only [gstep] at hs
    split at hs
    · cases hs; exact mapOk_bump (mapOk_upd h rfl (Int.le_refl _))
    · cases hs
  | ctorErr e =>
    simp only [gstep] at hs
    split at hs
    · cases hs; exact mapOk_upd h rfl (Int.le_refl _)
    · cases hs
  | lnFailDel e =>
    simp only [gstep] at hs
    split at hs
    · cases hs; exact mapOk_unmapUpd h (Or.inl rfl)
    · cases hs
  | lnRead e =>
    simp only [gstep] at hs
    split at hs
    · split at hs <;> cases hs <;> exact mapOk_upd h rfl (Int.le_refl _)
    · cases hs
  | lsLookup k =>
    simp only [gstep] at hs
    split at hs
    · cases hs; exact mapOk_bump (mapOk_upd h rfl (by show _ ≤ _ + 1; omega))
    · cases hs; exact mapOk_bump (mapOk_alloc h rfl (by simp [newStoredEntry]))
  | lspLookup k =>
    simp only [gstep] at hs
    split at hs
    · cases hs; exact mapOk_bump (mapOk_upd h rfl (by show _ ≤ _ + 1; omega))
    · cases hs; exact mapOk_bump (mapOk_alloc h rfl (by simp [newPlainEntry]))
  | lsRead e v =>
    simp only [gstep] at hs
    split at hs
    · split at hs <;> cases hs <;> exact mapOk_upd h rfl (Int.le_refl _)
    · cases hs
  | del1 k ho =>
    cases ho with
    | none =>
      simp only [gstep] at hs
      cases hs; exact mapOk_del1Code h k
    | some hd =>
      simp only [gstep] at hs
      split at hs
      · cases hs
        exact mapOk_del1Code (mapOk_upd h rfl (Int.le_refl _)) k
      · cases hs
  | del2 e =>
    simp only [gstep] at hs
    split at hs
    · split at hs
      · cases hs; exact mapOk_upd h rfl (Int.le_refl _)
      · split at hs <;> cases hs <;> exact mapOk_upd h rfl (Int.le_refl _)
    · cases hs
  | del3 e =>
    simp only [gstep] at hs
    split at hs
    · cases hs; exact mapOk_upd h rfl (Int.le_refl _)
    · cases hs
  | refs k => simp only [gstep] at hs; cases hs; exact h
  | range => simp only [gstep] at hs; cases hs; exact h

theorem mapOk_run : ∀ (ls : List Label) (s s' : G), MapOk s → runLabels s ls = some s' → MapOk s'
  | [], s, s', h, hr => by simp only [runLabels] at hr; cases hr; exact h
  | l :: ls, s, s', h, hr => by
    simp only [runLabels] at hr
    cases hg : gstep s l with
    | none => rw [hg] at hr; cases hr
    | some s1 => rw [hg] at hr; exact mapOk_run ls s1 s' (mapOk_step h hg) hr

theorem mapOk_init : MapOk G.init := by
  intro k e h; simp [G.init] at h

end CaddyModel.C04
