import CaddyModel.C04.Model
namespace CaddyModel.C04
theorem placeholder_init : G.init.next = 0 := rfl
end CaddyModel.C04
