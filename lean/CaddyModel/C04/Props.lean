/-
C04 — property theorems.

Statement: for a usage pool used concurrently, each key has at most one live value at a time:
its constructor runs once per live period and its destructor runs exactly once, after the last
holder released it and never earlier.  No caller ever receives a value whose destructor has
already run or runs before that caller's own release, a failed constructor leaves the key
absent, and the reported reference count always equals successful acquisitions minus releases.

Quantifier: all interleavings.  Here: every state `s` with `Reachable s`, i.e. reached from the
empty pool by ANY finite sequence of lock regions (`Label`s) of ANY number of goroutines on ANY
keys, with ONE explicit, decidable exclusion (`excluded`): a `Delete` by a caller that holds
nothing (the documented client contract).  (Before the fix round a second exclusion was needed —
the `else` branch of `LoadOrStore` — and two clauses were false; `Witness.lean` keeps the old
behaviour as `…_old_code_fails` theorems.)
A caller "holds" entry `e` from the region that hands it `e`'s value to the first region of its
`Delete` (`holders`).
-/
import CaddyModel.C04.Reach
import CaddyModel.C04.Refine
import CaddyModel.C04.Values
import CaddyModel.C04.NoPanic
import CaddyModel.C04.Witness
import CaddyModel.C04.Clients
import CaddyModel.C04.Places
import CaddyModel.C04.Stuck
import CaddyModel.C04.ClientTrace
import CaddyModel.C04.GenTie

namespace CaddyModel.C04

/-! ### at most one live value per key -/

/-- **one live value.** Among all entries ever created for a key, at most one is in the map or
    has a holder — and if one has a holder, it is the one in the map. -/
theorem one_live_value {s : G} (h : Reachable s) {e e' : Nat} (he : e < s.next) (he' : e' < s.next)
    (hk : (s.ent e).key = (s.ent e').key)
    (hl : 0 < (s.ent e).holders ∨ inPool s e = true) (hl' : 0 < (s.ent e').holders ∨ inPool s e' = true) :
    e = e' := by
  have hi := inv_reachable h
  have m1 : inPool s e = true := by
    rcases hl with hl | hl
    · exact (ent_holder_facts (hi.ent e he) hl).1
    · exact hl
  have m2 : inPool s e' = true := by
    rcases hl' with hl | hl
    · exact (ent_holder_facts (hi.ent e' he') hl).1
    · exact hl
  have p1 := pool_of_inPool m1
  have p2 := pool_of_inPool m2
  rw [hk, p2] at p1
  exact (Option.some.inj p1).symm

/-- a key that is absent from the map has no holder at all: the constructor of a new value
    (which starts only in the `lnLookup` region that finds the key absent) never runs while an
    earlier value of the key is still held -/
theorem ctor_starts_only_when_key_unheld {s : G} (h : Reachable s) {k e : Nat} (hp : s.pool k = none)
    (he : e < s.next) (hk : (s.ent e).key = k) : (s.ent e).holders = 0 := by
  have hi := inv_reachable h
  by_cases hh : 0 < (s.ent e).holders
  · have m := (ent_holder_facts (hi.ent e he) hh).1
    have := pool_of_inPool m
    rw [hk, hp] at this; cases this
  · omega

/-! ### constructor once per live period -/

/-- **constructor once.** The constructor of an entry completes at most once; while it runs
    nobody holds the entry and nothing was destructed; every holder of a `LoadOrNew` entry
    holds the result of exactly one completed constructor call. -/
theorem ctor_once_per_live_period {s : G} (h : Reachable s) {e : Nat} (he : e < s.next) :
    (s.ent e).ctorRuns ≤ 1
    ∧ (0 < (s.ent e).ctor → (s.ent e).ctorRuns = 0 ∧ (s.ent e).holders = 0 ∧ (s.ent e).ctor = 1 ∧ inPool s e = true)
    ∧ (0 < (s.ent e).holders → (s.ent e).viaCtor = true → (s.ent e).ctorRuns = 1 ∧ (s.ent e).ctor = 0) := by
  have hE := (inv_reachable h).ent e he
  refine ⟨(ent_once hE).2.1, ?_, ?_⟩
  · intro hc
    obtain ⟨hm, _, hw, h1, _, h0⟩ := ent_ctor_facts hE hc
    obtain ⟨_, _, _, _, _, _, _, _, _⟩ := hE
    have : (s.ent e).holders = 0 := by simp_all
    exact ⟨h0, this, h1, hm⟩
  · intro hh hv
    obtain ⟨_, _, _, _, _, _, _, hc, hr⟩ := ent_holder_facts hE hh
    exact ⟨hr hv, hc⟩

/-! ### destructor exactly once, after the last release, never earlier -/

/-- **destructor once, after the last release.** The destructor of an entry's value runs at most
    once; it has run, or a `Delete` call is on its way to run it (`del2`/`del3`), only if the entry
    left the map at reference count 0 with no holder and nobody waiting for it; and for every
    such released entry exactly one `Delete` call owns the (single) destructor call — or, for a
    value that is not a Destructor (`plain`: a reverse-proxy *Host, listenerPool's nil), the single
    decision that there is nothing to destruct (`skipped`); such a value is never destructed. -/
theorem dtor_exactly_once_after_last_release {s : G} (h : Reachable s) {e : Nat} (he : e < s.next) :
    (s.ent e).destructed ≤ 1
    ∧ (0 < (s.ent e).del2 + (s.ent e).del3 + (s.ent e).destructed + (s.ent e).skipped →
        (s.ent e).holders = 0 ∧ (s.ent e).refs = 0 ∧ inPool s e = false
        ∧ (s.ent e).waiters = 0 ∧ (s.ent e).lsWaiters = 0)
    ∧ (inPool s e = false → (s.ent e).err = false →
        (s.ent e).del2 + (s.ent e).del3 + (s.ent e).destructed + (s.ent e).skipped = 1)
    ∧ ((s.ent e).plain = true → (s.ent e).destructed = 0 ∧ (s.ent e).del3 = 0)
    ∧ ((s.ent e).plain = false → (s.ent e).skipped = 0) := by
  have hE := (inv_reachable h).ent e he
  refine ⟨(ent_once hE).1, ?_, ?_, ?_, ?_⟩
  rotate_left 2
  · intro hp
    obtain ⟨_, _, _, _, _, _, _, _, _, _, h11, _⟩ := hE
    exact ⟨(h11 hp).2.1, (h11 hp).1⟩
  · intro hp
    obtain ⟨_, _, _, _, _, _, _, _, _, _, _, h12⟩ := hE
    exact h12 hp
  · intro hd
    obtain ⟨hm, _, hh, hr, hw, hl, _, _, _⟩ := ent_dying_facts hE hd
    exact ⟨hh, hr, hm, hw, hl⟩
  · intro hm herr
    exact (ent_released_facts hE hm herr).2.2.1

/-- at quiescence (no `Delete` call in progress on the entry) a released entry's destructor has
    run exactly once -/
theorem released_entry_destructed_at_quiescence {s : G} (h : Reachable s) {e : Nat} (he : e < s.next)
    (hm : inPool s e = false) (herr : (s.ent e).err = false)
    (hq : (s.ent e).del2 = 0 ∧ (s.ent e).del3 = 0) (hp : (s.ent e).plain = false) : (s.ent e).destructed = 1 := by
  have := (dtor_exactly_once_after_last_release h he).2.2.1 hm herr
  have := (dtor_exactly_once_after_last_release h he).2.2.2.2 hp
  omega

/-! ### what callers receive -/

/-- **not destructed before the caller's own release.** As long as a caller holds an entry, the
    entry is the one in the map, has a value, its destructor has not run and no `Delete` call is
    on its way to run it. -/
theorem not_destructed_before_own_release {s : G} (h : Reachable s) {e : Nat} (he : e < s.next)
    (hh : 0 < (s.ent e).holders) :
    (s.ent e).destructed = 0 ∧ (s.ent e).del2 = 0 ∧ (s.ent e).del3 = 0 ∧ inPool s e = true
      ∧ (s.ent e).value.isSome = true ∧ (s.ent e).err = false := by
  obtain ⟨hm, hd, h2, h3, hv, herr, _, _, _⟩ := ent_holder_facts ((inv_reachable h).ent e he) hh
  exact ⟨hd, h2, h3, hm, hv, herr⟩

/-- **never returns a destructed value (LoadOrNew, loaded path).** When the second region of
    `LoadOrNew` reads an entry without error, it hands out a non-nil value of the entry that is in
    the map, not destructed and not about to be. -/
theorem never_returns_destructed_lnRead {s s' : G} {e : Nat} (h : Reachable s)
    (hs : gstep s (.lnRead e) = some s') (hok : (lnReadRet s e).2 = false) :
    (lnReadRet s e).1.isSome = true ∧ (s.ent e).destructed = 0 ∧ (s.ent e).del2 = 0 ∧ (s.ent e).del3 = 0
      ∧ inPool s e = true ∧ (s'.ent e).holders = (s.ent e).holders + 1 := by
  simp only [gstep] at hs
  split at hs
  · rename_i hg
    have hE := (inv_reachable h).ent e hg.1
    have herr : (s.ent e).err = false := hok
    obtain ⟨hm, hv, hd, h2, h3⟩ := ent_waiter_read hE (by omega) hg.2.2 herr
    rw [herr] at hs
    simp only [Bool.false_eq_true, if_false] at hs
    cases hs
    refine ⟨hv, hd, h2, h3, hm, ?_⟩
    simp [updEnt]
  · cases hs

/-- **… LoadOrStore, loaded path.** When the second region of `LoadOrStore` finds that the loaded
    entry's constructor did not fail, it hands out a non-nil value of the entry that is in the map,
    not destructed and not about to be, and becomes a holder. -/
theorem never_returns_destructed_lsRead {s s' : G} {e v : Nat} (h : Reachable s)
    (hs : gstep s (.lsRead e v) = some s') (hx : (s.ent e).err = false) :
    (lsReadRet s e).isSome = true ∧ (s.ent e).destructed = 0 ∧ (s.ent e).del2 = 0 ∧ (s.ent e).del3 = 0
      ∧ inPool s e = true ∧ (s'.ent e).holders = (s.ent e).holders + 1 := by
  simp only [gstep] at hs
  split at hs
  · rename_i hg
    have hE := (inv_reachable h).ent e hg.1
    obtain ⟨hm, hv, hd, h2, h3⟩ := ent_waiter_read hE (by omega) hg.2.2 hx
    rw [hx] at hs
    simp only [Bool.false_eq_true, if_false] at hs
    cases hs
    refine ⟨?_, hd, h2, h3, hm, ?_⟩
    · simp [lsReadRet, hv]
    · simp [updEnt]
  · cases hs

/-- **mixed use is safe: LoadOrStore after a failed constructor.** When the loaded entry's
    constructor failed, `LoadOrStore` hands out nothing and counts on nothing: the entry is no
    longer in the map, gets no holder, no value and keeps its error; only the caller's increment
    stays behind on it (`deadRefs`) — the call starts over.  (The old code adopted the orphaned
    entry and returned (nil, true): `Witness.mixed_use_old_code_fails`.) -/
theorem loadOrStore_after_failed_ctor_starts_over {s s' : G} {e v : Nat} (h : Reachable s)
    (hs : gstep s (.lsRead e v) = some s') (hx : (s.ent e).err = true) :
    inPool s e = false ∧ s'.pool = s.pool ∧ (s'.ent e).holders = 0 ∧ (s'.ent e).value = none
      ∧ (s'.ent e).err = true ∧ (s'.ent e).lsWaiters + 1 = (s.ent e).lsWaiters := by
  simp only [gstep] at hs
  split at hs
  · rename_i hg
    have hE := (inv_reachable h).ent e hg.1
    obtain ⟨hh, hv, _, _, _⟩ := ent_failed_facts hE hx
    have hm : inPool s e = false := by
      obtain ⟨_, h2, _, h4, _⟩ := hE
      have := (h4 hx).2.2.2.2.2.2
      cases hmm : inPool s e
      · rfl
      · rw [hmm] at this; rw [hg.2.2] at h2; simp at this h2; omega
    first
      | (rw [hx] at hs; simp only [if_true] at hs)
      | skip
    cases hs
    refine ⟨hm, rfl, ?_, ?_, ?_, ?_⟩
    · simp [updEnt, hh]
    · simp [updEnt, hv]
    · simp [updEnt, hx]
    · simp [updEnt]; omega
  · cases hs

/-- a `LoadOrNew` whose (second-region) read sees the constructor's error hands out no value -/
theorem failed_acquisition_returns_no_value {s : G} {e : Nat} (h : Reachable s) (he : e < s.next)
    (herr : (lnReadRet s e).2 = true) : (lnReadRet s e).1 = none :=
  (ent_failed_facts ((inv_reachable h).ent e he) herr).2.1

/-- **values are never shared between entries**, so the entry-level statements above are
    statements about values: if a caller holds an entry with value `v`, no entry holding `v` has
    been destructed or is about to be — `v`'s destructor has not run. -/
theorem held_value_not_destructed {s : G} (h : Reachable s) {e e' v : Nat} (he : e < s.next) (he' : e' < s.next)
    (hh : 0 < (s.ent e).holders) (hv : (s.ent e).value = some v) (hv' : (s.ent e').value = some v) :
    e' = e ∧ (s.ent e').destructed = 0 ∧ (s.ent e').del3 = 0 := by
  obtain ⟨ls, hc, hr⟩ := h
  have hval := valInv_run ls G.init s valInv_init hc hr
  have := hval.inj e' e v he' he hv' hv
  subst this
  obtain ⟨hd, _, h3, _⟩ := not_destructed_before_own_release ⟨ls, hc, hr⟩ he hh
  exact ⟨rfl, hd, h3⟩

/-! ### failed constructor -/

/-- **a failed constructor leaves the key absent.** The region that removes the placeholder
    removes *its own* placeholder (the code's "this *should* be safe, I think"), so the key is
    absent afterwards and no other entry was touched; the failed entry never has a holder or a
    value and is never destructed. -/
theorem failed_ctor_leaves_absent {s s' : G} {e : Nat} (h : Reachable s)
    (hs : gstep s (.lnFailDel e) = some s') :
    s.pool (s.ent e).key = some e ∧ s'.pool (s.ent e).key = none
      ∧ (∀ k, k ≠ (s.ent e).key → s'.pool k = s.pool k)
      ∧ (s.ent e).holders = 0 ∧ (s.ent e).value = none ∧ (s.ent e).destructed = 0 := by
  simp only [gstep] at hs
  split at hs
  · rename_i hg
    have hE := (inv_reachable h).ent e hg.1
    obtain ⟨hm, herr, _, _⟩ := ent_failing_facts hE hg.2
    obtain ⟨hh, hv, hd, _, _⟩ := ent_failed_facts hE herr
    cases hs
    refine ⟨pool_of_inPool hm, by simp [updEnt, setPool], ?_, hh, hv, hd⟩
    intro k hk
    simp [updEnt, setPool, hk]
  · cases hs

theorem failed_entry_is_inert {s : G} (h : Reachable s) {e : Nat} (he : e < s.next)
    (herr : (s.ent e).err = true) :
    (s.ent e).holders = 0 ∧ (s.ent e).value = none ∧ (s.ent e).destructed = 0 :=
  let ⟨a, b, c, _, _⟩ := ent_failed_facts ((inv_reachable h).ent e he) herr
  ⟨a, b, c⟩

/-! ### the reference count -/

/-- **refs = acquisitions − releases.** `refs` of every entry equals the number of callers that
    incremented it and have not decremented it: constructing + failing + waiting + holding (+ the
    increments of acquisitions that ended in an error, which exist only on entries no longer in
    the map). -/
theorem refs_eq_acq_minus_rel {s : G} (h : Reachable s) {e : Nat} (he : e < s.next) :
    (s.ent e).refs = (((s.ent e).ctor + (s.ent e).failing + (s.ent e).waiters + (s.ent e).lsWaiters
        + (s.ent e).holders + (s.ent e).deadRefs : Nat) : Int) :=
  ((inv_reachable h).ent e he).1

/-- what `References(k)` (evaluated atomically) reports: the holders of the key plus the calls
    in flight on the entry, at least 1; and an absent key has no holder. -/
theorem references_report {s : G} (h : Reachable s) (k : Nat) :
    match refsNow s k with
    | some r => ∃ e, s.pool k = some e ∧ e < s.next ∧ 1 ≤ r ∧
        r = (((s.ent e).holders + ((s.ent e).ctor + (s.ent e).failing + (s.ent e).waiters + (s.ent e).lsWaiters) : Nat) : Int)
    | none => ∀ e, e < s.next → (s.ent e).key = k → (s.ent e).holders = 0 := by
  have hi := inv_reachable h
  unfold refsNow
  cases hp : s.pool k with
  | none =>
    simp only [Option.map]
    intro e he hk
    exact ctor_starts_only_when_key_unheld h hp he hk
  | some e =>
    simp only [Option.map]
    obtain ⟨he, _⟩ := hi.pool k e hp
    obtain ⟨h1, h2, _⟩ := ent_mapped_refs (hi.ent e he) (inPool_of_pool hi hp)
    refine ⟨e, rfl, he, h2, ?_⟩
    rw [h1]; congr 1; omega

/-- at quiescence (no acquisition in flight on the entry) `References(k)` = number of holders -/
theorem references_exact_at_quiescence {s : G} (h : Reachable s) {k e : Nat} (hp : s.pool k = some e)
    (hq : (s.ent e).ctor = 0 ∧ (s.ent e).failing = 0 ∧ (s.ent e).waiters = 0 ∧ (s.ent e).lsWaiters = 0) :
    refsNow s k = some ((s.ent e).holders : Int) := by
  have hi := inv_reachable h
  obtain ⟨he, _⟩ := hi.pool k e hp
  obtain ⟨h1, _⟩ := ent_mapped_refs (hi.ent e he) (inPool_of_pool hi hp)
  simp only [refsNow, hp, Option.map]
  rw [h1]; congr 2; omega

/-- `Delete` by a holder finds the holder's entry, never underflows (no panic), and removes the
    entry exactly when the count reaches 0 -/
theorem delete_never_panics {s : G} (h : Reachable s) {k e : Nat} (he : e < s.next)
    (hh : 0 < (s.ent e).holders) (hk : (s.ent e).key = k) :
    s.pool k = some e ∧ 0 ≤ (s.ent e).refs - 1 := by
  obtain ⟨hm, _, _, hr⟩ := ent_holder_mapped ((inv_reachable h).ent e he) hh
  refine ⟨?_, by omega⟩
  rw [← hk]; exact pool_of_inPool hm

/-- **the panic of `Delete` is unreachable — for every client.** After ANY schedule (no exclusion:
    also callers that delete what they do not hold) the
    entry `Delete(k)` finds has refs ≥ 1, so the thread-level model never produces the event `Dp`.
    ("Deleting too many times will panic" is not what the code does: it returns (false, nil).) -/
theorem delete_panic_unreachable (ls : List Label) (s : G) (hr : runLabels G.init ls = some s)
    (k e : Nat) (hp : s.pool k = some e) : ¬ ((s.ent e).refs - 1 < 0) := by
  have := (mapOk_run ls G.init s mapOk_init hr k e hp).2.2
  omega

/-- **References is atomic.** `References(k)` is a single region under the pool read lock; what it
    returns is `refsNow` of ONE state: `(n, true)` with `n ≥ 1` = holders + calls in flight of the
    entry in the map, or `(0, false)` when nobody holds the key — never `(0, true)`.
    (Old code: `Witness.references_old_code_fails`.) -/
theorem references_never_zero_for_present_key {s : G} (h : Reachable s) (k : Nat) :
    gstep s (.refs k) = some s ∧ refsNow s k ≠ some 0 := by
  refine ⟨rfl, ?_⟩
  have := references_report h k
  intro h0
  rw [h0] at this
  obtain ⟨_, _, _, h1, _⟩ := this
  omega

/-! ### progress: no call waits for ever -/

/-- **no deadlock.** No lock is held across a region boundary except the write lock of an entry
    under construction, and the goroutine that holds it is never blocked.  In every reachable
    state: the constructing / failing call of an entry can always take its next region; a call
    waiting for an entry's lock (`waiters`, `lsWaiters`, `del2`) can take its next region unless
    the entry is write-locked, and then exactly one constructing or failing call — which is
    enabled — owns that lock; the destructor call is enabled; and the first region of every method
    and `References` / `Range` are always enabled.  (Old `Range`:
    `Witness.range_old_code_deadlock_configuration`.) -/
theorem progress {s : G} (h : Reachable s) {e : Nat} (he : e < s.next) :
    (0 < (s.ent e).ctor → (gstep s (.ctorOk e)).isSome = true ∧ (gstep s (.ctorErr e)).isSome = true)
    ∧ (0 < (s.ent e).failing → (gstep s (.lnFailDel e)).isSome = true)
    ∧ (0 < (s.ent e).del3 → (gstep s (.del3 e)).isSome = true)
    ∧ ((s.ent e).wlocked = false →
        (0 < (s.ent e).waiters → (gstep s (.lnRead e)).isSome = true)
        ∧ (∀ v, 0 < (s.ent e).lsWaiters → (gstep s (.lsRead e v)).isSome = true)
        ∧ (0 < (s.ent e).del2 → (gstep s (.del2 e)).isSome = true))
    ∧ ((s.ent e).wlocked = true → (s.ent e).ctor + (s.ent e).failing = 1)
    ∧ (∀ k, (gstep s (.lnLookup k)).isSome = true ∧ (gstep s (.lsLookup k)).isSome = true
        ∧ (gstep s (.refs k)).isSome = true ∧ (gstep s .range).isSome = true
        ∧ (0 < (s.ent e).holders → (gstep s (.del1 (s.ent e).key (some e))).isSome = true)) := by
  have hE := (inv_reachable h).ent e he
  refine ⟨?_, ?_, ?_, ?_, ?_, ?_⟩
  · intro hc; simp [gstep, he, hc]
  · intro hf; simp [gstep, he, hf]
  · intro hd; simp [gstep, he, hd]
  · intro hw
    refine ⟨?_, ?_, ?_⟩
    · intro hh; simp only [gstep, he, hh, hw, and_self, if_true]; split <;> rfl
    · intro v hh; simp only [gstep, he, hh, hw, and_self, if_true]; split <;> rfl
    · intro hh; simp only [gstep, he, hh, hw, and_self, if_true]; split
      · rfl
      · split <;> rfl
  · intro hw
    obtain ⟨_, h2, _⟩ := hE
    rw [hw] at h2; simpa using h2
  · intro k
    refine ⟨?_, ?_, rfl, rfl, ?_⟩
    · simp only [gstep]; split <;> rfl
    · simp only [gstep]; split <;> rfl
    · intro hh; simp [gstep, he, hh]

/-! ### non-vacuity: concrete reachable states (kernel-evaluated) -/

/-- A: LoadOrNew(0) constructs; B: LoadOrNew(0) loads; A: Delete; B: Delete … destructor -/
def exRun : List Label :=
  [.lnLookup 0, .lnLookup 0, .ctorOk 0, .lnRead 0, .del1 0 (some 0), .del1 0 (some 0), .del2 0, .del3 0]

example : cleanRun G.init exRun = true := by decide
example : (runLabels G.init exRun).map (fun s => ((s.ent 0).destructed, (s.ent 0).refs, inPool s 0)) = some (1, 0, false) := by decide
-- two holders, refs = 2, in the map, not destructed (hypotheses of the holder theorems are inhabited)
example : (runLabels G.init (exRun.take 4)).map (fun s => ((s.ent 0).holders, (s.ent 0).refs, inPool s 0, (s.ent 0).destructed))
    = some (2, 2, true, 0) := by decide
-- a failing constructor with a waiter: the waiter reads the error, the key is absent
example : (runLabels G.init [.lnLookup 0, .lnLookup 0, .ctorErr 0, .lnFailDel 0, .lnRead 0]).map
    (fun s => (s.pool 0, (s.ent 0).holders, (s.ent 0).refs, (s.ent 0).deadRefs)) = some (none, 0, 2, 2) := by decide
-- over-deleting: the second Delete finds nothing (hypothesis of `delete_panic_unreachable` with a contract-breaking client)
example : (runLabels G.init [.lsLookup 0, .del1 0 none, .del1 0 none]).map (fun s => (s.pool 0, (s.ent 0).refs)) = some (none, 0) := by decide
-- a released entry and a new live entry of the same key
example : (runLabels G.init [.lsLookup 0, .del1 0 (some 0), .lsLookup 0]).map
    (fun s => (s.pool 0, (s.ent 0).del2, (s.ent 1).holders)) = some (some 1, 1, 1) := by decide

/-! ### linearizability: refinement of the atomic pool -/

/-- a finite execution of the atomic pool of `Spec.lean` -/
inductive SpecRun : Abs → List SpecLabel → Abs → Prop where
  | nil (a) : SpecRun a [] a
  | cons {a b c l ls} : SpecStep a l b → SpecRun b ls c → SpecRun a (l :: ls) c

/-- **refinement (one region).** In every reachable state every non-excluded lock region is
    exactly one atomic step of the abstract pool — `begin`/`join`/`store` at the first region of
    LoadOrNew/LoadOrStore, `commit` when the constructor's value is published, `abort` when the
    failed placeholder is removed, `release` at the first region of Delete — or invisible. -/
theorem refines_spec {s s' : G} {l : Label} (h : Reachable s) (hx : excluded s l = false)
    (hs : gstep s l = some s') : SpecStep (abs s) (specLabel s l) (abs s') :=
  refines_spec_inv (inv_reachable h) hx hs

/-- **refinement (whole schedules).** Every schedule of lock regions, of any length and any number
    of goroutines, is — seen through the abstraction map — an execution of the atomic pool: each
    operation takes effect at one instant between its call and its return. -/
theorem refines_spec_run : ∀ (ls : List Label) (s s' : G), Reachable s → cleanRun s ls = true →
    runLabels s ls = some s' → ∃ sl, sl.length = ls.length ∧ SpecRun (abs s) sl (abs s')
  | [], s, s', _, _, hr => by
    simp only [runLabels] at hr; cases hr
    exact ⟨[], rfl, SpecRun.nil _⟩
  | l :: ls, s, s', h, hc, hr => by
    simp only [runLabels] at hr
    simp only [cleanRun, Bool.and_eq_true, Bool.not_eq_true'] at hc
    cases hg : gstep s l with
    | none => rw [hg] at hr; cases hr
    | some s1 =>
      rw [hg] at hr
      have hc2 := hc.2
      rw [hg] at hc2
      obtain ⟨sl, hl, hrun⟩ := refines_spec_run ls s1 s' (reachable_step h hc.1 hg) hc2 hr
      exact ⟨specLabel s l :: sl, by simp [hl], SpecRun.cons (refines_spec h hc.1 hg) hrun⟩

-- non-vacuity: two callers share value 1 of key 0 (`live 1 2`); after both released it the key is absent
example : (runLabels G.init (exRun.take 4)).map (fun s => abs s 0) = some (.live 1 2) := by decide
example : (runLabels G.init exRun).map (fun s => abs s 0) = some .absent := by decide
example : (runLabels G.init [.lnLookup 0, .lsLookup 0]).map (fun s => (abs s 0, specLabel s (.ctorErr 0))) = some (.pending 2, .tau) := by decide

/-! ### the executable thread-level model stays inside the proved state space -/

/-- **every case the driver runs stays inside the proved state space**: for all programs, thread
    counts and schedules, if no excluded label was executed the final state is reachable (so the
    invariant and every property theorem hold in it) -/
theorem runSched_reachable (nk : Nat) (progs : List (List Op)) (sched : List Nat) :
    (runSched nk progs sched).clean = true → Reachable (runSched nk progs sched).g := by
  unfold runSched
  exact drain_reachable nk _ _ (foldl_tstep_reachable nk sched _ (fun _ => reachable_init))

-- non-vacuity: a 3-thread case whose run is clean, the former F12 case (now clean), and a contract-breaking one
example : (runSched 1 [[.ln 0 true, .cdel 0], [.ln 0 true, .cdel 0], [.refs 0]] [0, 0, 1, 1, 2, 2, 0]).clean = true := by decide
example : (runSched 1 [[.ln 0 false], [.ls 0, .cdel 0], [.ln 0 true]] [0, 1, 0, 0, 1]).clean = true := by decide
example : (runSched 1 [[.ln 0 true], [.del 0]] [0, 0, 1]).clean = false := by decide


/-! ### clients: what a config, a handler, a listener wrapper can rely on

A client of a pool (a `Logging` with its `writerKeys`, a reverse-proxy `Handler` with its provisioned
`Upstreams`, a `deleteListener`) is a named thread of the executable model: it remembers what it
acquired (`Thread.held`) and releases exactly that.  `holders` — the ghost counter all theorems
above speak about — IS that bookkeeping (`books_runSched`, any programs, any schedule, no
hypothesis), so the theorems become statements about clients. -/

/-- **the ghost counter is the clients' bookkeeping**: in every state the driver can reach,
    `holders e` = number of `(key, e)` references the threads remember -/
theorem holders_eq_client_books (nk : Nat) (progs : List (List Op)) (sched : List Nat) (e : Nat)
    (he : e < (runSched nk progs sched).g.next) :
    ((runSched nk progs sched).g.ent e).holders = holdCount (runSched nk progs sched).threads e :=
  (books_runSched nk progs sched).count e he

/-- **a client that still remembers a reference has a live value**: the entry is the one in the
    map, it has a value, its destructor has not run and no Delete is on its way to run it -/
theorem client_holds_live_value (nk : Nat) (progs : List (List Op)) (sched : List Nat)
    (hc : (runSched nk progs sched).clean = true) {th : Thread} (hth : th ∈ (runSched nk progs sched).threads)
    {k e : Nat} (hx : (k, e) ∈ th.held) :
    e < (runSched nk progs sched).g.next ∧ inPool (runSched nk progs sched).g e = true
      ∧ ((runSched nk progs sched).g.ent e).value.isSome = true
      ∧ ((runSched nk progs sched).g.ent e).destructed = 0
      ∧ ((runSched nk progs sched).g.ent e).del2 = 0 ∧ ((runSched nk progs sched).g.ent e).del3 = 0 := by
  have hb := books_runSched nk progs sched
  have hr := runSched_reachable nk progs sched hc
  have he : e < (runSched nk progs sched).g.next := hb.ok th hth (k, e) hx
  have h1 : 0 < heldOf e th := by
    unfold heldOf
    exact List.countP_pos_iff.mpr ⟨(k, e), hx, by simp⟩
  have h2 : heldOf e th ≤ holdCount (runSched nk progs sched).threads e := heldOf_le_holdCount e hth
  have hh : 0 < ((runSched nk progs sched).g.ent e).holders := by rw [hb.count e he]; omega
  obtain ⟨hd, h2', h3, hm, hv, _⟩ := not_destructed_before_own_release hr he hh
  exact ⟨he, hm, hv, hd, h2', h3⟩

/-- **a value is closed iff no client holds it** (when no call is in flight on its entry): its
    destructor has run — exactly once — if and only if no thread remembers a reference to it
    (for a value that is not a Destructor: the pool has let go of it, `skipped = 1`, iff …);
    and then the entry is no longer in the map -/
theorem closed_iff_no_client_holds (nk : Nat) (progs : List (List Op)) (sched : List Nat)
    (hc : (runSched nk progs sched).clean = true) {e : Nat} (he : e < (runSched nk progs sched).g.next)
    (hv : ((runSched nk progs sched).g.ent e).value.isSome = true)
    (hq : quietEntry ((runSched nk progs sched).g.ent e)) :
    (((runSched nk progs sched).g.ent e).destructed + ((runSched nk progs sched).g.ent e).skipped = 1
        ↔ holdCount (runSched nk progs sched).threads e = 0)
    ∧ (holdCount (runSched nk progs sched).threads e = 0 → inPool (runSched nk progs sched).g e = false)
    ∧ (((runSched nk progs sched).g.ent e).plain = false →
        (((runSched nk progs sched).g.ent e).destructed = 1 ↔ holdCount (runSched nk progs sched).threads e = 0)) := by
  have hb := books_runSched nk progs sched
  have hi := inv_reachable (runSched_reachable nk progs sched hc)
  rw [← hb.count e he]
  exact ent_closed_iff_unheld (hi.ent e he) hv hq

/-- **when every client has released everything and every call has returned, the pool is empty
    and every value has been destructed exactly once** -/
theorem all_clients_released_pool_empty (nk : Nat) (progs : List (List Op)) (sched : List Nat)
    (hc : (runSched nk progs sched).clean = true)
    (hall : ∀ th ∈ (runSched nk progs sched).threads, th.held = [])
    (hq : ∀ e, e < (runSched nk progs sched).g.next → quietEntry ((runSched nk progs sched).g.ent e)) :
    (∀ k, (runSched nk progs sched).g.pool k = none)
    ∧ ∀ e, e < (runSched nk progs sched).g.next → ((runSched nk progs sched).g.ent e).value.isSome = true →
        ((runSched nk progs sched).g.ent e).destructed + ((runSched nk progs sched).g.ent e).skipped = 1 := by
  have hb := books_runSched nk progs sched
  have hi := inv_reachable (runSched_reachable nk progs sched hc)
  have hzero : ∀ e, holdCount (runSched nk progs sched).threads e = 0 :=
    fun e => holdCount_of_nothing_held e hall
  constructor
  · intro k
    cases hp : (runSched nk progs sched).g.pool k with
    | none => rfl
    | some e =>
      obtain ⟨he, _⟩ := hi.pool k e hp
      have hh : ((runSched nk progs sched).g.ent e).holders = 0 := by rw [hb.count e he]; exact hzero e
      have := ent_quiet_unheld_unmapped (hi.ent e he) (hq e he) hh
      rw [inPool_of_pool hi hp] at this
      cases this
  · intro e he hv
    have hh : ((runSched nk progs sched).g.ent e).holders = 0 := by rw [hb.count e he]; exact hzero e
    exact ((ent_closed_iff_unheld (hi.ent e he) hv (hq e he)).1).mpr hh

-- non-vacuity: two configs share a writer; after the first closed its logs the second still holds a live
-- value; after both did, the pool is empty and the value destructed once
example : let y := runSched 1 [[.ln 0 true, .cdel 0], [.ln 0 true]] [0, 0, 1, 1, 0]
    (y.clean, y.threads.map (·.held), (y.g.ent 0).destructed, holdCount y.threads 0) = (true, [[], [(0, 0)]], 0, 1) := by
  decide
example : let y := runSched 1 [[.ln 0 true, .cdel 0], [.ln 0 true, .cdel 0]] []
    (y.clean, y.threads.map (·.held), y.g.pool 0, (y.g.ent 0).destructed) = (true, [[], []], none, 1) := by decide

/-- **the in-flight counters are the threads' program counters**: in every state the driver can reach
    (any programs, any schedule, no hypothesis) each of `ctor failing waiters lsWaiters del2 del3` of
    every allocated entry is the number of threads parked at that place for that entry -/
theorem inflight_counters_are_thread_pcs (nk : Nat) (progs : List (List Op)) (sched : List Nat) (p : Place) (e : Nat)
    (he : e < (runSched nk progs sched).g.next) :
    placeOf ((runSched nk progs sched).g.ent e) p = placeCount (runSched nk progs sched).threads p e :=
  (placeBooks_runSched nk progs sched).count p e he

/-- **`end:ok` means quiescent**: when every thread has finished its program (what the driver prints as
    `end:ok`) no call is in flight on any entry -/
theorem finished_means_quiet (nk : Nat) (progs : List (List Op)) (sched : List Nat)
    (hall : allFinished (runSched nk progs sched).threads = true) {e : Nat}
    (he : e < (runSched nk progs sched).g.next) : quietEntry ((runSched nk progs sched).g.ent e) :=
  finished_quiet (placeBooks_runSched nk progs sched) hall he

/-- **every client finished and released everything ⇒ the pool is empty and every value is let go of
    exactly once** (destructed once if it is a Destructor, skipped once if it is not) — no side
    hypothesis about calls in flight any more -/
theorem all_clients_finished_pool_empty (nk : Nat) (progs : List (List Op)) (sched : List Nat)
    (hc : (runSched nk progs sched).clean = true)
    (hfin : allFinished (runSched nk progs sched).threads = true)
    (hall : ∀ th ∈ (runSched nk progs sched).threads, th.held = []) :
    (∀ k, (runSched nk progs sched).g.pool k = none)
    ∧ ∀ e, e < (runSched nk progs sched).g.next → ((runSched nk progs sched).g.ent e).value.isSome = true →
        ((runSched nk progs sched).g.ent e).destructed + ((runSched nk progs sched).g.ent e).skipped = 1 :=
  all_clients_released_pool_empty nk progs sched hc hall (fun _ he => finished_means_quiet nk progs sched hfin he)

-- non-vacuity: three handlers provision the same upstream and clean up (hosts client: values are not Destructors)
example : let y := runSched 1 [[.lsp 0, .closeAll], [.lsp 0, .closeAll], [.lsp 0, .closeAll]] [0, 1, 2, 0, 1, 2]
    (y.clean, allFinished y.threads, y.g.pool 0, (y.g.ent 0).skipped, (y.g.ent 0).destructed) = (true, true, none, 1, 0) := by
  decide

/-- **the executable model never gets stuck**: for all programs and schedules (no hypothesis) no thread is
    ever at a program counter that does not fit its operation, and every label a thread issues is enabled
    in the net — its token is at the place it is taken from, the entry is not write-locked when the thread
    has checked that, and the reference a `Delete` gives back is one the thread holds, on an entry created
    for the key it deletes.  The answer of `drv_C04` never contains `model-stuck`. -/
theorem never_stuck (nk : Nat) (progs : List (List Op)) (sched : List Nat) :
    (runSched nk progs sched).stuck = false :=
  (sound_runSched nk progs sched).ns

/-- **what a client remembers is stored under the key it remembers it for**: in a clean run a reference
    `(k, e)` in a thread's `held` list means `pool k = some e` -/
theorem client_reference_is_in_the_map_under_its_key (nk : Nat) (progs : List (List Op)) (sched : List Nat)
    (hc : (runSched nk progs sched).clean = true) {th : Thread} (hth : th ∈ (runSched nk progs sched).threads)
    {k e : Nat} (hx : (k, e) ∈ th.held) : (runSched nk progs sched).g.pool k = some e := by
  have hk : ((runSched nk progs sched).g.ent e).key = k := (sound_runSched nk progs sched).hkey th hth (k, e) hx
  have hm := (client_holds_live_value nk progs sched hc hth hx).2.1
  rw [← hk]; exact pool_of_inPool hm

-- non-vacuity: a contract-breaking run (not clean) is not stuck either
example : let y := runSched 1 [[.ln 0 true], [.del 0, .del 0]] [0, 0, 1, 1, 1, 1]
    (y.clean, y.stuck, y.g.pool 0) = (false, false, none) := by decide

/-! ### the clause for client traces: no close event before the last release -/

/-- **no close event precedes the last release, and none happens twice — at every point of every client
    trace.**  After ANY schedule prefix of a clean run (and after its completion): an entry has at most one
    close event (a Delete on its way to the destructor, the destructor call, or the decision that there
    is nothing to destruct), and as soon as there is one, no thread remembers a reference to the entry any
    more and the pool counts none. -/
theorem no_close_before_last_release (nk : Nat) (progs : List (List Op)) (sched : List Nat)
    (hc : (runPrefix nk progs sched).clean = true) {e : Nat} (he : e < (runPrefix nk progs sched).g.next) :
    closeEvents ((runPrefix nk progs sched).g.ent e) ≤ 1
    ∧ (0 < closeEvents ((runPrefix nk progs sched).g.ent e) →
        holdCount (runPrefix nk progs sched).threads e = 0 ∧ ((runPrefix nk progs sched).g.ent e).refs = 0) := by
  have hb := prefix_books nk progs sched
  obtain ⟨h1, h2⟩ := close_events_after_last_release (prefix_reachable nk progs sched hc) he
  refine ⟨h1, fun hd => ?_⟩
  obtain ⟨hh, hr⟩ := h2 hd
  rw [← hb.count e he]
  exact ⟨hh, hr⟩

/-- **the same for client programs, with no hypothesis left.**  Programs built from whole log set-ups
    (`logSetupOp`, whatever their outcome: ready, bad level, failing encoder), `openWriter` / `provisionUpstream`
    acquisitions, conditional Deletes and the cleanup `closeAll` contain no unconditional Delete; for them, for
    every number of configs, every schedule and every prefix of it: at most one close event per value, and
    never while any config still remembers a reference — in particular a log whose set-up failed after its
    writer was opened keeps the writer alive for every other config until it, too, has closed its logs. -/
theorem client_traces_never_close_early (nk : Nat) (progs : List (List Op)) (sched : List Nat)
    (hp : ∀ p ∈ progs, NoRawDelete p) {e : Nat} (he : e < (runPrefix nk progs sched).g.next) :
    closeEvents ((runPrefix nk progs sched).g.ent e) ≤ 1
    ∧ (0 < closeEvents ((runPrefix nk progs sched).g.ent e) → holdCount (runPrefix nk progs sched).threads e = 0) :=
  let h := no_close_before_last_release nk progs sched (client_run_clean nk progs sched hp).1 he
  ⟨h.1, fun hd => (h.2 hd).1⟩

-- non-vacuity (the scenario of the log set-up glue): config 0 sets up a log that fails on its level after
-- opening writer 0, config 1 sets up a working log on the same writer; after config 0 has closed its logs the
-- writer has no close event and config 1 still remembers it; after both have, exactly one
example : let y := runPrefix 1 [[logSetupOp 0 .badLevel, .closeAll], [logSetupOp 0 .good, .closeAll]] [0, 0, 1, 1, 0]
    (y.clean, closeEvents (y.g.ent 0), holdCount y.threads 0, (y.g.ent 0).refs) = (true, 0, 1, 1) := by decide
example : let y := runSched 1 [[logSetupOp 0 .badLevel, .closeAll], [logSetupOp 0 .good, .closeAll]] [0, 0, 1, 1, 0]
    (y.clean, closeEvents (y.g.ent 0), (y.g.ent 0).destructed, holdCount y.threads 0) = (true, 1, 1, 0) := by decide
example : NoRawDelete [logSetupOp 0 .badLevel, logSetupOp 1 .encoderFails, .closeAll] := by
  intro op hop k; simp [logSetupOp] at hop; rcases hop with h | h | h <;> (subst h; simp)

-- non-vacuity (listener glue, whole calls): config 0 and config 1 both listen on address 0, config 1's second
-- bind is refused: the usage count is 2 = the listeners the configs have open; nobody is inside a call
example : let y := (runAtomicSys 1 [[listenerOp (.listen 0)],
      [listenerOp (.listen 0), listenerOp (.listenFails 0)]] [0, 1, 1]).1
    (y.clean, y.g.pool 0, (y.g.ent 0).refs, holdCount y.threads 0, y.threads.all (fun th => th.pc == .idle))
      = (true, some 0, 2, 2, true) := by decide

-- non-vacuity (per-request client): handler 0 has static upstream 0; a request whose dynamic source returns the
-- SAME address 0 (and address 1) leaves every count as it was; `per_request_client_keeps_count` applies
example : let y := (runGroupsSys 2 [[handlerLoadOps [0], requestOps [0, 1]]] [0, 0]).1
    (y.clean, y.g.pool 0, (y.g.ent 0).refs, holdCount y.threads 0, y.g.pool 1, y.threads.all (fun th => th.pc == .idle))
      = (true, some 0, 1, 1, none, true) := by decide
example : ∀ p ∈ [[handlerLoadOps [0], requestOps [0, 1], [Op.closeAll]]], ∀ grp ∈ p, NoRawDelete grp := by
  intro p hp grp hg
  simp at hp; subst hp
  simp at hg
  rcases hg with h | h | h
  · subst h; exact noRaw_handlerLoadOps _
  · subst h; exact noRaw_requestOps _
  · subst h; intro op hop k; simp at hop; subst hop; simp

-- the log-writer client: config 0 opens writers 0 and 1, config 1 opens writer 0 and fails to open writer 1;
-- after config 0 closed its logs (closeAll) config 1 still holds writer 0 alive; after both closed, nothing is left
example : let y := runSched 2 [[.ln 0 true, .ln 1 true, .closeAll], [.ln 0 true, .ln 1 false]] [0, 0, 0, 1, 1, 0, 0, 0, 0, 0, 0]
    (y.clean, y.threads.map (·.held), (y.g.ent 0).destructed, (y.g.ent 1).destructed, y.g.pool 1) = (true, [[], [(0, 0)]], 0, 1, none) := by
  decide

end CaddyModel.C04
