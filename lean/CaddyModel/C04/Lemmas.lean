/-
C04 — the inductive invariant and its preservation by every lock region.

`EntInv m E` is the per-entry invariant (`m` = "the entry is the one stored in the map under
its key"); it is linear arithmetic over the place counters plus a few Boolean side conditions.
`Inv s` = every allocated entry satisfies `EntInv`, and the map only points at allocated
entries created for that key.
-/
import CaddyModel.C04.Model

namespace CaddyModel.C04

def EntInv (m : Bool) (E : Entry) : Prop :=
  -- refs = number of increments not yet undone = tokens in the places that own an increment
  E.refs = ((E.ctor + E.failing + E.waiters + E.lsWaiters + E.holders + E.deadRefs : Nat) : Int)
  -- write-locked exactly while its (single) constructing goroutine has not unlocked it
  ∧ E.ctor + E.failing = (if E.wlocked then 1 else 0)
  ∧ (E.err = false → E.failing = 0)
  -- failed entry: no value, no holder, never destructed; in the map exactly until `lnFailDel`
  ∧ (E.err = true → E.value = none ∧ E.holders = 0 ∧ E.del2 = 0 ∧ E.del3 = 0 ∧ E.destructed = 0
        ∧ E.ctor = 0 ∧ E.failing = (if m then 1 else 0))
  -- live entry (in the map): not being destructed, refs ≥ 1
  ∧ (E.err = false → m = true → E.del2 = 0 ∧ E.del3 = 0 ∧ E.destructed = 0 ∧ 1 ≤ E.refs)
  -- released entry (removed at refs = 0): nobody counts on it; exactly one Delete call owns its destruction
  ∧ (E.err = false → m = false → E.refs = 0 ∧ E.del2 + E.del3 + E.destructed = 1)
  ∧ (E.wlocked = true → E.value = none ∧ E.holders = 0)
  ∧ (E.wlocked = false → E.err = false → E.value.isSome = true)
  ∧ (if E.viaCtor then E.ctorRuns + E.ctor = 1 else E.ctorRuns = 0 ∧ E.ctor = 0 ∧ E.failing = 0)

structure Inv (s : G) : Prop where
  ent : ∀ e, e < s.next → EntInv (inPool s e) (s.ent e)
  pool : ∀ k e, s.pool k = some e → e < s.next ∧ (s.ent e).key = k

/-! ### entry-level facts (pure arithmetic) -/

section entry
variable {m : Bool} {E : Entry}

set_option hygiene false in
macro "ent_tac" : tactic =>
  `(tactic| (
    revert m E
    intro m E
    obtain ⟨key, refs, value, err, wlocked, viaCtor, ctor, failing, waiters, lsWaiters,
      holders, deadRefs, del2, del3, destructed, ctorRuns, refReaders⟩ := E
    simp only [EntInv]
    cases err <;> cases wlocked <;> cases viaCtor <;> cases m <;> simp <;> intros <;> (try simp_all) 
    all_goals omega))

theorem ent_holder_mapped (h : EntInv m E) (hh : 0 < E.holders) :
    m = true ∧ E.err = false ∧ E.wlocked = false ∧ 1 ≤ E.refs := by
  ent_tac

theorem ent_ctor_facts (h : EntInv m E) (hh : 0 < E.ctor) :
    m = true ∧ E.err = false ∧ E.wlocked = true ∧ E.ctor = 1 ∧ E.viaCtor = true ∧ E.ctorRuns = 0 := by
  ent_tac

theorem ent_failing_facts (h : EntInv m E) (hh : 0 < E.failing) :
    m = true ∧ E.err = true ∧ E.wlocked = true ∧ E.failing = 1 := by
  ent_tac

theorem ent_lookup_ln (h : EntInv m E) (hm : m = true) :
    EntInv m { E with refs := E.refs + 1, waiters := E.waiters + 1 } := by
  ent_tac

theorem ent_lookup_ls (h : EntInv m E) (hm : m = true) :
    EntInv m { E with refs := E.refs + 1, lsWaiters := E.lsWaiters + 1 } := by
  ent_tac

theorem ent_newCtor (k : Nat) : EntInv true (newCtorEntry k) := by
  simp [EntInv, newCtorEntry]

theorem ent_newStored (k v : Nat) : EntInv true (newStoredEntry k v) := by
  simp [EntInv, newStoredEntry]

theorem ent_ctorOk (v : Nat) (h : EntInv m E) (hh : 0 < E.ctor) :
    EntInv m { E with value := some v, wlocked := false, ctor := E.ctor - 1,
                      holders := E.holders + 1, ctorRuns := E.ctorRuns + 1 } := by
  ent_tac

theorem ent_ctorErr (h : EntInv m E) (hh : 0 < E.ctor) :
    EntInv m { E with err := true, ctor := E.ctor - 1, failing := E.failing + 1, ctorRuns := E.ctorRuns + 1 } := by
  ent_tac

theorem ent_lnFailDel (h : EntInv m E) (hh : 0 < E.failing) :
    EntInv false { E with wlocked := false, failing := E.failing - 1, deadRefs := E.deadRefs + 1 } := by
  ent_tac

theorem ent_lnRead_err (h : EntInv m E) (hh : 0 < E.waiters) (he : E.err = true) :
    EntInv m { E with waiters := E.waiters - 1, deadRefs := E.deadRefs + 1 } := by
  ent_tac

theorem ent_lnRead_ok (h : EntInv m E) (hh : 0 < E.waiters) (he : E.err = false) :
    EntInv m { E with waiters := E.waiters - 1, holders := E.holders + 1 } := by
  ent_tac

theorem ent_lsRead_ok (h : EntInv m E) (hh : 0 < E.lsWaiters) (he : E.err = false) (hw : E.wlocked = false) :
    EntInv m { E with lsWaiters := E.lsWaiters - 1, holders := E.holders + 1 } := by
  ent_tac

theorem ent_del1_zero (h : EntInv m E) (hh : 0 < E.holders) (hz : E.refs - 1 = 0) :
    EntInv false { E with holders := E.holders - 1, refs := E.refs - 1, del2 := E.del2 + 1 } := by
  ent_tac

theorem ent_del1_pos (h : EntInv m E) (hh : 0 < E.holders) (hz : ¬ E.refs - 1 = 0) :
    EntInv m { E with holders := E.holders - 1, refs := E.refs - 1 } := by
  ent_tac

theorem ent_del2_facts (h : EntInv m E) (hh : 0 < E.del2) (hw : E.wlocked = false) :
    m = false ∧ E.err = false ∧ E.value.isSome = true ∧ E.refs = 0 ∧ E.destructed = 0 := by
  ent_tac

theorem ent_del2 (h : EntInv m E) (hh : 0 < E.del2) :
    EntInv m { E with del2 := E.del2 - 1, del3 := E.del3 + 1 } := by
  ent_tac

theorem ent_del3_facts (h : EntInv m E) (hh : 0 < E.del3) :
    m = false ∧ E.err = false ∧ E.refs = 0 ∧ E.destructed = 0 ∧ E.holders = 0 := by
  ent_tac

theorem ent_del3 (h : EntInv m E) (hh : 0 < E.del3) :
    EntInv m { E with del3 := E.del3 - 1, destructed := E.destructed + 1 } := by
  ent_tac

theorem ent_refReaders (n : Nat) (h : EntInv m E) : EntInv m { E with refReaders := n } := by
  ent_tac

end entry

end CaddyModel.C04
