/-
C04 — the inductive invariant and its preservation by every lock region.

`EntInv m E` is the per-entry invariant (`m` = "the entry is the one stored in the map under
its key"); it is linear arithmetic over the place counters plus a few Boolean side conditions.
`Inv s` = every allocated entry satisfies `EntInv`, and the map only points at allocated
entries created for that key.
-/
import CaddyModel.C04.Model

namespace CaddyModel.C04

def EntInv (m : Bool) (E : Entry) : Prop :=
  -- refs = number of increments not yet undone = tokens in the places that own an increment
  E.refs = ((E.ctor + E.failing + E.waiters + E.lsWaiters + E.holders + E.deadRefs : Nat) : Int)
  -- write-locked exactly while its (single) constructing goroutine has not unlocked it
  ∧ E.ctor + E.failing = (if E.wlocked then 1 else 0)
  ∧ (E.err = false → E.failing = 0)
  -- failed entry: no value, no holder, never destructed; in the map exactly until `lnFailDel`
  ∧ (E.err = true → E.value = none ∧ E.holders = 0 ∧ E.del2 = 0 ∧ E.del3 = 0 ∧ E.destructed = 0
        ∧ E.ctor = 0 ∧ E.failing = (if m then 1 else 0) ∧ E.skipped = 0)
  -- live entry (in the map): not being destructed, refs ≥ 1
  ∧ (E.err = false → m = true → E.del2 = 0 ∧ E.del3 = 0 ∧ E.destructed = 0 ∧ 1 ≤ E.refs ∧ E.skipped = 0)
  -- released entry (removed at refs = 0): nobody counts on it; exactly one Delete call owns its destruction
  ∧ (E.err = false → m = false → E.refs = 0 ∧ E.del2 + E.del3 + E.destructed + E.skipped = 1)
  ∧ (E.wlocked = true → E.value = none ∧ E.holders = 0)
  ∧ (E.wlocked = false → E.err = false → E.value.isSome = true)
  ∧ (if E.viaCtor then E.ctorRuns + E.ctor = 1 else E.ctorRuns = 0 ∧ E.ctor = 0 ∧ E.failing = 0)
  -- increments of failed acquisitions that already returned exist only on entries no longer in the map
  ∧ (m = true → E.deadRefs = 0)
  -- a value that is not a Destructor is never destructed; only such values are skipped; constructors make Destructors
  ∧ (E.plain = true → E.del3 = 0 ∧ E.destructed = 0 ∧ E.viaCtor = false)
  ∧ (E.plain = false → E.skipped = 0)

structure Inv (s : G) : Prop where
  ent : ∀ e, e < s.next → EntInv (inPool s e) (s.ent e)
  pool : ∀ k e, s.pool k = some e → e < s.next ∧ (s.ent e).key = k

/-! ### entry-level facts (pure arithmetic) -/

section entry
variable {m : Bool} {E : Entry}

set_option hygiene false in
macro "ent_tac" : tactic =>
  `(tactic| (
    revert m E
    intro m E
    obtain ⟨key, refs, value, err, wlocked, viaCtor, ctor, failing, waiters, lsWaiters,
      holders, deadRefs, del2, del3, destructed, ctorRuns, plain, skipped⟩ := E
    simp only [EntInv]
    cases err <;> cases wlocked <;> cases viaCtor <;> cases m <;> cases plain <;> simp <;> intros <;>
      first | omega | (subst_vars; simp_all; done) | (subst_vars; simp_all; omega)))

theorem ent_holder_mapped (h : EntInv m E) (hh : 0 < E.holders) :
    m = true ∧ E.err = false ∧ E.wlocked = false ∧ 1 ≤ E.refs := by
  ent_tac

theorem ent_ctor_facts (h : EntInv m E) (hh : 0 < E.ctor) :
    m = true ∧ E.err = false ∧ E.wlocked = true ∧ E.ctor = 1 ∧ E.viaCtor = true ∧ E.ctorRuns = 0 := by
  ent_tac

theorem ent_failing_facts (h : EntInv m E) (hh : 0 < E.failing) :
    m = true ∧ E.err = true ∧ E.wlocked = true ∧ E.failing = 1 := by
  ent_tac

theorem ent_lookup_ln (h : EntInv m E) (hm : m = true) :
    EntInv m { E with refs := E.refs + 1, waiters := E.waiters + 1 } := by
  ent_tac

theorem ent_lookup_ls (h : EntInv m E) (hm : m = true) :
    EntInv m { E with refs := E.refs + 1, lsWaiters := E.lsWaiters + 1 } := by
  ent_tac

theorem ent_newCtor (k : Nat) : EntInv true (newCtorEntry k) := by
  simp [EntInv, newCtorEntry]

theorem ent_newStored (k v : Nat) : EntInv true (newStoredEntry k v) := by
  simp [EntInv, newStoredEntry]

theorem ent_newPlain (k v : Nat) : EntInv true (newPlainEntry k v) := by
  simp [EntInv, newPlainEntry]

theorem ent_ctorOk (v : Nat) (h : EntInv m E) (hh : 0 < E.ctor) :
    EntInv m { E with value := some v, wlocked := false, ctor := E.ctor - 1,
                      holders := E.holders + 1, ctorRuns := E.ctorRuns + 1 } := by
  ent_tac

theorem ent_ctorErr (h : EntInv m E) (hh : 0 < E.ctor) :
    EntInv m { E with err := true, ctor := E.ctor - 1, failing := E.failing + 1, ctorRuns := E.ctorRuns + 1 } := by
  ent_tac

theorem ent_lnFailDel (h : EntInv m E) (hh : 0 < E.failing) :
    EntInv false { E with wlocked := false, failing := E.failing - 1, deadRefs := E.deadRefs + 1 } := by
  ent_tac

theorem ent_lnRead_err (h : EntInv m E) (hh : 0 < E.waiters) (he : E.err = true) (hw : E.wlocked = false) :
    EntInv m { E with waiters := E.waiters - 1, deadRefs := E.deadRefs + 1 } := by
  ent_tac

theorem ent_lnRead_ok (h : EntInv m E) (hh : 0 < E.waiters) (he : E.err = false) (hw : E.wlocked = false) :
    EntInv m { E with waiters := E.waiters - 1, holders := E.holders + 1 } := by
  ent_tac

theorem ent_lsRead_ok (h : EntInv m E) (hh : 0 < E.lsWaiters) (he : E.err = false) (hw : E.wlocked = false) :
    EntInv m { E with lsWaiters := E.lsWaiters - 1, holders := E.holders + 1 } := by
  ent_tac

theorem ent_del1_zero (h : EntInv m E) (hh : 0 < E.holders) (hz : E.refs - 1 = 0) :
    EntInv false { E with holders := E.holders - 1, refs := E.refs - 1, del2 := E.del2 + 1 } := by
  ent_tac

theorem ent_del1_pos (h : EntInv m E) (hh : 0 < E.holders) (hz : ¬ E.refs - 1 = 0) :
    EntInv m { E with holders := E.holders - 1, refs := E.refs - 1 } := by
  ent_tac

theorem ent_del2_facts (h : EntInv m E) (hh : 0 < E.del2) (hw : E.wlocked = false) :
    m = false ∧ E.err = false ∧ E.value.isSome = true ∧ E.refs = 0 ∧ E.destructed = 0 := by
  ent_tac

theorem ent_del2 (h : EntInv m E) (hh : 0 < E.del2) (hp : E.plain = false) :
    EntInv m { E with del2 := E.del2 - 1, del3 := E.del3 + 1 } := by
  ent_tac

theorem ent_del2_plain (h : EntInv m E) (hh : 0 < E.del2) (hp : E.plain = true) :
    EntInv m { E with del2 := E.del2 - 1, skipped := E.skipped + 1 } := by
  ent_tac

theorem ent_del3_facts (h : EntInv m E) (hh : 0 < E.del3) :
    m = false ∧ E.err = false ∧ E.refs = 0 ∧ E.destructed = 0 ∧ E.holders = 0 := by
  ent_tac

theorem ent_del3 (h : EntInv m E) (hh : 0 < E.del3) :
    EntInv m { E with del3 := E.del3 - 1, destructed := E.destructed + 1 } := by
  ent_tac

theorem ent_lsRead_err (h : EntInv m E) (hh : 0 < E.lsWaiters) (he : E.err = true) (hw : E.wlocked = false) :
    EntInv m { E with lsWaiters := E.lsWaiters - 1, deadRefs := E.deadRefs + 1 } := by
  ent_tac

/-- what a holder can rely on -/
theorem ent_holder_facts (h : EntInv m E) (hh : 0 < E.holders) :
    m = true ∧ E.destructed = 0 ∧ E.del2 = 0 ∧ E.del3 = 0 ∧ E.value.isSome = true ∧ E.err = false
      ∧ E.wlocked = false ∧ E.ctor = 0 ∧ (E.viaCtor = true → E.ctorRuns = 1) := by
  ent_tac

theorem ent_once (h : EntInv m E) :
    E.destructed ≤ 1 ∧ E.ctorRuns ≤ 1 ∧ E.del2 + E.del3 + E.destructed + E.skipped ≤ 1 := by
  ent_tac

/-- the destructor runs (or is about to run) only on an entry nobody counts on any more -/
theorem ent_dying_facts (h : EntInv m E) (hh : 0 < E.del2 + E.del3 + E.destructed + E.skipped) :
    m = false ∧ E.err = false ∧ E.holders = 0 ∧ E.refs = 0 ∧ E.waiters = 0 ∧ E.lsWaiters = 0 ∧ E.ctor = 0
      ∧ E.failing = 0 ∧ E.del2 + E.del3 + E.destructed + E.skipped = 1 := by
  ent_tac

theorem ent_failed_facts (h : EntInv m E) (hh : E.err = true) :
    E.holders = 0 ∧ E.value = none ∧ E.destructed = 0 ∧ E.del2 = 0 ∧ E.del3 = 0 := by
  ent_tac

theorem ent_mapped_refs (h : EntInv m E) (hm : m = true) :
    E.refs = ((E.ctor + E.failing + E.waiters + E.lsWaiters + E.holders : Nat) : Int) ∧ 1 ≤ E.refs
      ∧ E.destructed = 0 ∧ E.del2 = 0 ∧ E.del3 = 0 := by
  ent_tac

theorem ent_released_facts (h : EntInv m E) (hm : m = false) (he : E.err = false) :
    E.refs = 0 ∧ E.holders = 0 ∧ E.del2 + E.del3 + E.destructed + E.skipped = 1 ∧ E.value.isSome = true
      ∧ E.wlocked = false := by
  ent_tac

theorem ent_refs_nonneg (h : EntInv m E) : 0 ≤ E.refs := by
  ent_tac

theorem ent_waiter_read (h : EntInv m E) (hh : 0 < E.waiters + E.lsWaiters) (hw : E.wlocked = false) (he : E.err = false) :
    m = true ∧ E.value.isSome = true ∧ E.destructed = 0 ∧ E.del2 = 0 ∧ E.del3 = 0 := by
  ent_tac

/-- no call is in flight on the entry -/
def quietEntry (E : Entry) : Prop :=
  E.ctor = 0 ∧ E.failing = 0 ∧ E.waiters = 0 ∧ E.lsWaiters = 0 ∧ E.del2 = 0 ∧ E.del3 = 0

theorem ent_closed_iff_unheld (h : EntInv m E) (hv : E.value.isSome = true) (hq : quietEntry E) :
    (E.destructed + E.skipped = 1 ↔ E.holders = 0) ∧ (E.holders = 0 → m = false)
      ∧ (E.plain = false → (E.destructed = 1 ↔ E.holders = 0)) := by
  unfold quietEntry at hq
  ent_tac

theorem ent_quiet_unheld_unmapped (h : EntInv m E) (hq : quietEntry E) (hh : E.holders = 0) : m = false := by
  unfold quietEntry at hq
  ent_tac

end entry

/-! ### frame lemmas: how the helpers of the model act on `Inv` -/

theorem inPool_updEnt (s : G) (e : Nat) (f : Entry → Entry)
    (hk : (f (s.ent e)).key = (s.ent e).key) (i : Nat) :
    inPool (updEnt s e f) i = inPool s i := by
  unfold inPool updEnt
  by_cases h : i = e
  · subst h; simp [hk]
  · simp [h]

theorem inv_upd {s : G} {e : Nat} {f : Entry → Entry} (h : Inv s)
    (hk : (f (s.ent e)).key = (s.ent e).key)
    (hE : e < s.next → EntInv (inPool s e) (f (s.ent e))) : Inv (updEnt s e f) := by
  constructor
  · intro i hi
    rw [inPool_updEnt s e f hk i]
    by_cases hie : i = e
    · subst hie
      have : (updEnt s i f).ent i = f (s.ent i) := by simp [updEnt]
      rw [this]; exact hE hi
    · have : (updEnt s e f).ent i = s.ent i := by simp [updEnt, hie]
      rw [this]; exact h.ent i hi
  · intro k i hp
    have hp' : s.pool k = some i := hp
    obtain ⟨h1, h2⟩ := h.pool k i hp'
    refine ⟨h1, ?_⟩
    by_cases hie : i = e
    · subst hie
      have : (updEnt s i f).ent i = f (s.ent i) := by simp [updEnt]
      rw [this, hk]; exact h2
    · have : (updEnt s e f).ent i = s.ent i := by simp [updEnt, hie]
      rw [this]; exact h2

theorem inv_bump {s : G} (h : Inv s) : Inv (bumpVal s) := ⟨h.ent, h.pool⟩

/-- a fresh entry stored under a key that was absent -/
theorem inv_alloc {s : G} {k : Nat} {E : Entry} (h : Inv s) (hn : s.pool k = none)
    (hk : E.key = k) (hE : EntInv true E) : Inv (alloc s k E) := by
  constructor
  · intro i hi
    have hi' : i < s.next + 1 := hi
    by_cases hin : i = s.next
    · subst hin
      have h1 : (alloc s k E).ent s.next = E := by simp [alloc]
      have h2 : inPool (alloc s k E) s.next = true := by simp [inPool, alloc, hk]
      rw [h1, h2]; exact hE
    · have hlt : i < s.next := by omega
      have h1 : (alloc s k E).ent i = s.ent i := by simp [alloc, hin]
      have h2 : inPool (alloc s k E) i = inPool s i := by
        unfold inPool
        rw [h1]
        by_cases hki : (s.ent i).key = k
        · have : s.pool (s.ent i).key = none := by rw [hki]; exact hn
          rw [this]
          have hne : s.next ≠ i := by omega
          simp [alloc, hki, hne]
        · simp [alloc, hki]
      rw [h1, h2]; exact h.ent i hlt
  · intro k' i hp
    by_cases hkk : k' = k
    · subst hkk
      have : i = s.next := by simpa [alloc] using hp.symm
      subst this
      exact ⟨Nat.lt_succ_self _, by simp [alloc, hk]⟩
    · have hp' : s.pool k' = some i := by simpa [alloc, hkk] using hp
      obtain ⟨h1, h2⟩ := h.pool k' i hp'
      have hne : i ≠ s.next := by omega
      exact ⟨Nat.lt_succ_of_lt h1, by simp [alloc, hne, h2]⟩

/-- the entry stored under `k` is removed from the map and updated in the same region -/
theorem inv_unmapUpd {s : G} {k e : Nat} {f : Entry → Entry} (h : Inv s) (hp : s.pool k = some e)
    (hk : (f (s.ent e)).key = (s.ent e).key)
    (hE : EntInv false (f (s.ent e))) : Inv (updEnt (setPool s k none) e f) := by
  obtain ⟨he, hke⟩ := h.pool k e hp
  constructor
  · intro i hi
    have hi' : i < s.next := hi
    by_cases hie : i = e
    · subst hie
      have h1 : (updEnt (setPool s k none) i f).ent i = f (s.ent i) := by simp [updEnt, setPool]
      have h2 : inPool (updEnt (setPool s k none) i f) i = false := by
        simp [inPool, updEnt, setPool, hk, hke]
      rw [h1, h2]; exact hE
    · have h1 : (updEnt (setPool s k none) e f).ent i = s.ent i := by simp [updEnt, setPool, hie]
      have h2 : inPool (updEnt (setPool s k none) e f) i = inPool s i := by
        unfold inPool
        rw [h1]
        by_cases hki : (s.ent i).key = k
        · have : s.pool (s.ent i).key = some e := by rw [hki]; exact hp
          rw [this]
          have hne : e ≠ i := fun h => hie h.symm
          simp [updEnt, setPool, hki, hne]
        · simp [updEnt, setPool, hki]
      rw [h1, h2]; exact h.ent i hi'
  · intro k' i hp'
    by_cases hkk : k' = k
    · subst hkk; simp [updEnt, setPool] at hp'
    · have hp'' : s.pool k' = some i := by simpa [updEnt, setPool, hkk] using hp'
      obtain ⟨h1, h2⟩ := h.pool k' i hp''
      refine ⟨h1, ?_⟩
      by_cases hie : i = e
      · subst hie
        have : (updEnt (setPool s k none) i f).ent i = f (s.ent i) := by simp [updEnt, setPool]
        rw [this, hk]; exact h2
      · have : (updEnt (setPool s k none) e f).ent i = s.ent i := by simp [updEnt, setPool, hie]
        rw [this]; exact h2

theorem inPool_of_pool {s : G} (h : Inv s) {k e : Nat} (hp : s.pool k = some e) : inPool s e = true := by
  obtain ⟨_, hk⟩ := h.pool k e hp
  simp [inPool, hk, hp]

theorem pool_of_inPool {s : G} {e : Nat} (h : inPool s e = true) : s.pool (s.ent e).key = some e := by
  simpa [inPool] using h

theorem inv_init : Inv G.init := by
  constructor
  · intro e he; exact absurd he (Nat.not_lt_zero _)
  · intro k e h; simp [G.init] at h

end CaddyModel.C04
