/-
C04 — every lock region preserves the invariant (`inv_step`), hence every state reached by
any schedule satisfies it (`inv_run`).
-/
import CaddyModel.C04.Lemmas

namespace CaddyModel.C04

theorem updEnt_updEnt (s : G) (e : Nat) (f g : Entry → Entry) :
    updEnt (updEnt s e f) e g = updEnt s e (fun E => g (f E)) := by
  unfold updEnt
  congr 1
  funext i
  by_cases h : i = e <;> simp [h]

theorem inv_del1 {s : G} {k h : Nat} (hi : Inv s) (hh : h < s.next) (hpos : 0 < (s.ent h).holders)
    (hk : (s.ent h).key = k) :
    Inv (del1Code (updEnt s h fun E => { E with holders := E.holders - 1 }) k) := by
  have hE := hi.ent h hh
  obtain ⟨hm, _, _, _⟩ := ent_holder_mapped hE hpos
  have hp : s.pool k = some h := by rw [← hk]; exact pool_of_inPool hm
  rw [hm] at hE
  unfold del1Code
  have hp' : (updEnt s h fun E => { E with holders := E.holders - 1 }).pool k = some h := hp
  rw [hp']
  have hrefs : ((updEnt s h fun E => { E with holders := E.holders - 1 }).ent h).refs = (s.ent h).refs := by
    simp [updEnt]
  simp only [hrefs]
  split
  · rename_i hz
    have : setPool (updEnt s h fun E => { E with holders := E.holders - 1 }) k none
        = updEnt (setPool s k none) h fun E => { E with holders := E.holders - 1 } := rfl
    rw [this, updEnt_updEnt]
    exact inv_unmapUpd hi hp rfl (ent_del1_zero hE hpos hz)
  · rename_i hz
    rw [updEnt_updEnt]
    refine inv_upd hi rfl ?_
    intro _
    rw [hm]
    exact ent_del1_pos hE hpos hz

theorem inv_step {s s' : G} {l : Label} (h : Inv s) (hx : excluded s l = false)
    (hs : gstep s l = some s') : Inv s' := by
  cases l with
  | lnLookup k =>
    simp only [gstep] at hs
    split at hs
    · rename_i e hp
      cases hs
      obtain ⟨he, _⟩ := h.pool k e hp
      refine inv_upd h rfl ?_
      intro _
      exact ent_lookup_ln (h.ent e he) (inPool_of_pool h hp)
    · rename_i hp
      cases hs
      exact inv_alloc h hp rfl (ent_newCtor k)
  | ctorOk e =>
    simp only [gstep] at hs
    split at hs
    · rename_i hg
      cases hs
      refine inv_bump (inv_upd h rfl ?_)
      intro he
      exact ent_ctorOk s.nextVal (h.ent e he) hg.2
    · cases hs
  | ctorErr e =>
    simp only [gstep] at hs
    split at hs
    · rename_i hg
      cases hs
      refine inv_upd h rfl ?_
      intro he
      exact ent_ctorErr (h.ent e he) hg.2
    · cases hs
  | lnFailDel e =>
    simp only [gstep] at hs
    split at hs
    · rename_i hg
      cases hs
      have hE := h.ent e hg.1
      obtain ⟨hm, _, _, _⟩ := ent_failing_facts hE hg.2
      exact inv_unmapUpd h (pool_of_inPool hm) rfl (ent_lnFailDel hE hg.2)
    · cases hs
  | lnRead e =>
    simp only [gstep] at hs
    split at hs
    · rename_i hg
      split at hs
      · rename_i herr
        cases hs
        refine inv_upd h rfl ?_
        intro he
        exact ent_lnRead_err (h.ent e he) hg.2.1 herr hg.2.2
      · rename_i herr
        cases hs
        refine inv_upd h rfl ?_
        intro he
        exact ent_lnRead_ok (h.ent e he) hg.2.1 (by simpa using herr) hg.2.2
    · cases hs
  | lsLookup k =>
    simp only [gstep] at hs
    split at hs
    · rename_i e hp
      cases hs
      obtain ⟨he, _⟩ := h.pool k e hp
      refine inv_bump (inv_upd h rfl ?_)
      intro _
      exact ent_lookup_ls (h.ent e he) (inPool_of_pool h hp)
    · rename_i hp
      cases hs
      exact inv_bump (inv_alloc h hp rfl (ent_newStored k s.nextVal))
  | lspLookup k =>
    simp only [gstep] at hs
    split at hs
    · rename_i e hp
      cases hs
      obtain ⟨he, _⟩ := h.pool k e hp
      refine inv_bump (inv_upd h rfl ?_)
      intro _
      exact ent_lookup_ls (h.ent e he) (inPool_of_pool h hp)
    · rename_i hp
      cases hs
      exact inv_bump (inv_alloc h hp rfl (ent_newPlain k s.nextVal))
  | lsRead e v =>
    simp only [gstep] at hs
    split at hs
    · rename_i hg
      split at hs
      · rename_i herr
        cases hs
        refine inv_upd h rfl ?_
        intro he
        exact ent_lsRead_err (h.ent e he) hg.2.1 herr hg.2.2
      · rename_i herr
        cases hs
        refine inv_upd h rfl ?_
        intro he
        exact ent_lsRead_ok (h.ent e he) hg.2.1 (by simpa using herr) hg.2.2
    · cases hs
  | del1 k ho =>
    cases ho with
    | none => simp [excluded] at hx
    | some hd =>
      simp only [gstep] at hs
      split at hs
      · rename_i hg
        cases hs
        exact inv_del1 h hg.1 hg.2.1 hg.2.2
      · cases hs
  | del2 e =>
    simp only [gstep] at hs
    split at hs
    · rename_i hg
      have hE := h.ent e hg.1
      obtain ⟨_, _, hv, _, _⟩ := ent_del2_facts hE hg.2.1 hg.2.2
      cases hpl : (s.ent e).plain
      · simp only [hv, hpl, and_self, if_true] at hs
        cases hs
        refine inv_upd h rfl ?_
        intro _
        exact ent_del2 hE hg.2.1 hpl
      · simp only [hv, hpl, Bool.true_eq_false, and_false, if_false, if_true] at hs
        cases hs
        refine inv_upd h rfl ?_
        intro _
        exact ent_del2_plain hE hg.2.1 hpl
    · cases hs
  | del3 e =>
    simp only [gstep] at hs
    split at hs
    · rename_i hg
      cases hs
      refine inv_upd h rfl ?_
      intro he
      exact ent_del3 (h.ent e he) hg.2
    · cases hs
  | refs k => simp only [gstep] at hs; cases hs; exact h
  | range => simp only [gstep] at hs; cases hs; exact h

/-- the invariant holds after every schedule (list of labels) that contains no excluded label -/
theorem inv_run : ∀ (ls : List Label) (s s' : G), Inv s → cleanRun s ls = true →
    runLabels s ls = some s' → Inv s'
  | [], s, s', h, _, hr => by
    simp only [runLabels] at hr; cases hr; exact h
  | l :: ls, s, s', h, hc, hr => by
    simp only [runLabels] at hr
    simp only [cleanRun, Bool.and_eq_true, Bool.not_eq_true'] at hc
    cases hg : gstep s l with
    | none => rw [hg] at hr; cases hr
    | some s1 =>
      rw [hg] at hr
      have hc2 := hc.2
      rw [hg] at hc2
      exact inv_run ls s1 s' (inv_step h hc.1 hg) hc2 hr

end CaddyModel.C04
