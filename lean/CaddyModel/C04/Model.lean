/-
C04 — model of `usagepool.go` as a labelled transition system.

An ATOMIC STEP is one lock region of the Go code: the statements a goroutine executes from
one blocking acquisition (`up.Lock()`, `upv.RLock()`, …, or the atomic load in `References`)
up to the next one.  Region boundaries are exactly the `verifYield` calls of usagepool.go
(plus method entry, constructor entry and destructor entry, which are caller code).
A trailing lock *release* is merged into the region that precedes it (a release never blocks
and commutes to the left of every step of another goroutine).

Two layers:
* `G` / `gstep` — the global state and one transition per region, "Petri-net style": the
  goroutines are anonymous; for every entry (`*usagePoolVal`) the state counts how many
  method invocations currently sit at each region boundary (`ctor`, `failing`, `waiters`, …).
  These counters are ghost state: no transition's *effect on the Go-visible fields* depends
  on them; they only say which labels are possible at all (a `ctorOk e` step needs a goroutine
  that is inside the constructor of `e`).  All theorems are about this layer and quantify over
  every sequence of labels — any number of goroutines, keys, operations.
* `Thread` / `tstep` / `runCase` — named goroutines with programs and a forced schedule, used
  by the executable driver that is compared with the real code.  A thread step computes
  the label(s) from the thread's program counter and applies `gstep`; nothing else touches `G`.

The Go-visible fields of an entry are `refs value err` and the write lock `wlocked`;
`pool` is `up.pool`.  No pool lock is ever held across a region boundary (`Range` and `References`
are single regions), so the pool lock needs no state of its own.
-/
namespace CaddyModel.C04

/-- one `*usagePoolVal` (never freed in the model: orphaned entries stay addressable by the
    goroutines that still hold a pointer, as in Go) -/
structure Entry where
  key : Nat := 0                -- the key it was created for (constant)
  refs : Int := 0               -- upv.refs
  value : Option Nat := none    -- upv.value (none = nil); values are numbered
  err : Bool := false           -- upv.err != nil
  wlocked : Bool := false       -- upv write-locked by the constructing goroutine
  -- ghost: how the entry was made, and the places of the net
  viaCtor : Bool := false       -- created by LoadOrNew (placeholder) rather than LoadOrStore
  ctor : Nat := 0               -- goroutines inside construct() for this entry
  failing : Nat := 0            -- constructor failed, upv.err set, before up.Lock()
  waiters : Nat := 0            -- LoadOrNew: refs incremented, before upv.RLock()
  lsWaiters : Nat := 0          -- LoadOrStore: refs incremented, before upv.Lock()
  holders : Nat := 0            -- callers that were handed this entry's value and have not yet called Delete
  deadRefs : Nat := 0           -- increments made by acquisitions that returned an error (never undone by the code)
  del2 : Nat := 0               -- Delete: brought refs to 0, removed the entry, before upv.RLock()
  del3 : Nat := 0               -- Delete: value read, before Destruct()
  destructed : Nat := 0         -- number of times Destruct() ran on this entry's value
  ctorRuns : Nat := 0           -- number of completed construct() calls for this entry
  plain : Bool := false         -- the value is not a Destructor (a *Host of the reverse proxy, the nil of listenerPool): never destructed
  skipped : Nat := 0            -- Delete calls that found the removed entry's value not to be a Destructor and were done
deriving DecidableEq, Repr, Inhabited

structure G where
  pool : Nat → Option Nat       -- up.pool : key ↦ entry id
  ent : Nat → Entry             -- heap of entries; ids `0 … next-1` are allocated
  next : Nat
  nextVal : Nat                 -- next fresh value number

def G.init : G := ⟨fun _ => none, fun _ => {}, 0, 1⟩

/-- `e` is the entry currently stored in the map under its own key -/
def inPool (s : G) (e : Nat) : Bool := s.pool (s.ent e).key == some e

def updEnt (s : G) (e : Nat) (f : Entry → Entry) : G :=
  ⟨s.pool, fun i => if i = e then f (s.ent i) else s.ent i, s.next, s.nextVal⟩

def setPool (s : G) (k : Nat) (v : Option Nat) : G :=
  ⟨fun i => if i = k then v else s.pool i, s.ent, s.next, s.nextVal⟩

/-- allocate entry `s.next` with contents `E` and store it under `k` -/
def alloc (s : G) (k : Nat) (E : Entry) : G :=
  ⟨fun i => if i = k then some s.next else s.pool i,
   fun i => if i = s.next then E else s.ent i, s.next + 1, s.nextVal⟩

def bumpVal (s : G) : G := ⟨s.pool, s.ent, s.next, s.nextVal + 1⟩

/-- `&usagePoolVal{refs: 1}` + `upv.Lock()` -/
def newCtorEntry (k : Nat) : Entry :=
  { key := k, refs := 1, wlocked := true, viaCtor := true, ctor := 1 }

/-- `&usagePoolVal{refs: 1, value: val}` for a val that is not a Destructor -/
def newPlainEntry (k v : Nat) : Entry :=
  { key := k, refs := 1, value := some v, holders := 1, plain := true }

/-- `&usagePoolVal{refs: 1, value: val}` -/
def newStoredEntry (k v : Nat) : Entry :=
  { key := k, refs := 1, value := some v, holders := 1 }

inductive Label where
  | lnLookup (k : Nat)                 -- LoadOrNew, first region (both branches)
  | ctorOk (e : Nat)                   -- construct() returns a value; upv.value = value; upv.Unlock()
  | ctorErr (e : Nat)                  -- construct() returns an error; upv.err = err
  | lnFailDel (e : Nat)                -- up.Lock(); delete(up.pool, key); up.Unlock(); upv.Unlock()
  | lnRead (e : Nat)                   -- upv.RLock(); value, err = …; upv.RUnlock()
  | lsLookup (k : Nat)                 -- LoadOrStore, first region (both branches); val is value number `nextVal`
  | lspLookup (k : Nat)                -- LoadOrStore of a value that is not a Destructor, first region
  | lsRead (e v : Nat)                 -- upv.RLock(); value = upv.value; failed := upv.err != nil; upv.RUnlock()  (failed: start over)
  | del1 (k : Nat) (h : Option Nat)    -- Delete, first region; `h` = the entry whose value the caller was handed (none: it holds nothing)
  | del2 (e : Nat)                     -- upv.RLock(); val := upv.value; upv.RUnlock()
  | del3 (e : Nat)                     -- destructor.Destruct()
  | refs (k : Nat)                     -- References: up.RLock(); lookup; atomic.LoadInt32(&upv.refs); up.RUnlock()
  | range                              -- Range: up.RLock(); every entry whose lock TryRLock gets; up.RUnlock()
deriving DecidableEq, Repr

/-- the first region of `Delete`, after the caller's holder token (if any) was taken -/
def del1Code (s : G) (k : Nat) : G :=
  match s.pool k with
  | none => s
  | some e =>
    if (s.ent e).refs - 1 = 0 then
      updEnt (setPool s k none) e fun E => { E with refs := E.refs - 1, del2 := E.del2 + 1 }
    else
      updEnt s e fun E => { E with refs := E.refs - 1 }

/-- one region.  `none` = the label is not enabled (the lock is held by somebody else, or no
    goroutine is at that place). -/
def gstep (s : G) : Label → Option G
  | .lnLookup k =>
    match s.pool k with
    | some e => some (updEnt s e fun E => { E with refs := E.refs + 1, waiters := E.waiters + 1 })
    | none => some (alloc s k (newCtorEntry k))
  | .ctorOk e =>
    if e < s.next ∧ 0 < (s.ent e).ctor then
      some (bumpVal (updEnt s e fun E =>
        { E with value := some s.nextVal, wlocked := false, ctor := E.ctor - 1,
                 holders := E.holders + 1, ctorRuns := E.ctorRuns + 1 }))
    else none
  | .ctorErr e =>
    if e < s.next ∧ 0 < (s.ent e).ctor then
      some (updEnt s e fun E =>
        { E with err := true, ctor := E.ctor - 1, failing := E.failing + 1, ctorRuns := E.ctorRuns + 1 })
    else none
  | .lnFailDel e =>
    if e < s.next ∧ 0 < (s.ent e).failing then
      some (updEnt (setPool s (s.ent e).key none) e fun E =>
        { E with wlocked := false, failing := E.failing - 1, deadRefs := E.deadRefs + 1 })
    else none
  | .lnRead e =>
    if e < s.next ∧ 0 < (s.ent e).waiters ∧ (s.ent e).wlocked = false then
      if (s.ent e).err then
        some (updEnt s e fun E => { E with waiters := E.waiters - 1, deadRefs := E.deadRefs + 1 })
      else
        some (updEnt s e fun E => { E with waiters := E.waiters - 1, holders := E.holders + 1 })
    else none
  | .lsLookup k =>
    match s.pool k with
    | some e => some (bumpVal (updEnt s e fun E => { E with refs := E.refs + 1, lsWaiters := E.lsWaiters + 1 }))
    | none => some (bumpVal (alloc s k (newStoredEntry k s.nextVal)))
  | .lspLookup k =>
    match s.pool k with
    | some e => some (bumpVal (updEnt s e fun E => { E with refs := E.refs + 1, lsWaiters := E.lsWaiters + 1 }))
    | none => some (bumpVal (alloc s k (newPlainEntry k s.nextVal)))
  | .lsRead e _v =>
    if e < s.next ∧ 0 < (s.ent e).lsWaiters ∧ (s.ent e).wlocked = false then
      if (s.ent e).err then
        -- the constructor of the loaded entry failed (the entry is no longer in the map): the
        -- caller gives up this entry — its increment stays behind — and starts over
        some (updEnt s e fun E => { E with lsWaiters := E.lsWaiters - 1, deadRefs := E.deadRefs + 1 })
      else
        some (updEnt s e fun E => { E with lsWaiters := E.lsWaiters - 1, holders := E.holders + 1 })
    else none
  | .del1 k none =>
    some (del1Code s k)
  | .del1 k (some h) =>
    if h < s.next ∧ 0 < (s.ent h).holders ∧ (s.ent h).key = k then
      some (del1Code (updEnt s h fun E => { E with holders := E.holders - 1 }) k)
    else none
  | .del2 e =>
    if e < s.next ∧ 0 < (s.ent e).del2 ∧ (s.ent e).wlocked = false then
      if (s.ent e).value.isSome = true ∧ (s.ent e).plain = false then
        some (updEnt s e fun E => { E with del2 := E.del2 - 1, del3 := E.del3 + 1 })
      else if (s.ent e).value.isSome = true then
        -- `val.(Destructor)` fails: nothing to destruct, Delete returns (true, nil)
        some (updEnt s e fun E => { E with del2 := E.del2 - 1, skipped := E.skipped + 1 })
      else
        some (updEnt s e fun E => { E with del2 := E.del2 - 1 })
    else none
  | .del3 e =>
    if e < s.next ∧ 0 < (s.ent e).del3 then
      some (updEnt s e fun E => { E with del3 := E.del3 - 1, destructed := E.destructed + 1 })
    else none
  | .refs _ => some s
  | .range => some s

/-- the one label the theorems exclude: a `Delete` by a caller that holds nothing (client
    contract: "always call Delete precisely as many times as LoadOrStore"). -/
def excluded (_s : G) : Label → Bool
  | .del1 _ none => true
  | _ => false

/-- run a schedule (a list of labels); `none` if some label is not enabled -/
def runLabels : G → List Label → Option G
  | s, [] => some s
  | s, l :: ls => match gstep s l with
    | some s' => runLabels s' ls
    | none => none

/-- the schedule contains no excluded label (evaluated along the run) -/
def cleanRun : G → List Label → Bool
  | _, [] => true
  | s, l :: ls => !excluded s l && match gstep s l with
    | some s' => cleanRun s' ls
    | none => true

/-! ### what a region hands back to its caller (evaluated in the state BEFORE the step) -/

/-- LoadOrNew, loaded path: `(value, err != nil)` -/
def lnReadRet (s : G) (e : Nat) : Option Nat × Bool := ((s.ent e).value, (s.ent e).err)
/-- LoadOrStore, loaded path: the value returned when the entry's constructor did not fail -/
def lsReadRet (s : G) (e : Nat) : Option Nat := (s.ent e).value
/-- what `References(k)` returns (one region, under the pool read lock) -/
def refsNow (s : G) (k : Nat) : Option Int := (s.pool k).map fun e => (s.ent e).refs

/-! ### named goroutines, programs, forced schedules (executable driver layer) -/

inductive Op where
  | ln (k : Nat) (ok : Bool)   -- LoadOrNew(k, constructor that succeeds / fails)
  | ls (k : Nat)               -- LoadOrStore(k, fresh value)
  | lsp (k : Nat)              -- LoadOrStore(k, fresh value that is not a Destructor)
  | del (k : Nat)              -- Delete(k), unconditionally
  | cdel (k : Nat)             -- Delete(k) if this thread holds k (it was handed k's value and has not released it), else skip
  | refs (k : Nat)
  | range
  | closeAll                   -- a client's cleanup (Logging.closeLogs, Handler.Cleanup): Delete every key it remembers, oldest first
deriving DecidableEq, Repr

/-- how the set-up of a log (`BaseLog.provisionCommon`, logging.go) goes on after its writer was taken
    from the `writers` pool by `Logging.openWriter` -/
inductive LogOutcome where
  | good            -- level parses, encoder loads: the log is ready
  | badLevel        -- `parseLevel` rejects the level string
  | encoderFails    -- the encoder module fails to load / provision
deriving DecidableEq, Repr

/-- **the log set-up glue as a client of the pool.**  Whatever happens after `openWriter` returned, the
    set-up neither gives the reference back (the `Logging` remembers the key in `writerKeys` and releases it
    in `closeLogs`, whether or not the log came up) nor touches the writer: towards the pool every outcome
    is the one acquisition `LoadOrNew(key, open the writer)`.  (A set-up that closes "its" writer on failure
    would be a destructor call outside the pool — the harness reports it as `pooled-value-closed-by-client`.) -/
def logSetupOp (k : Nat) (_ : LogOutcome) : Op := .ln k true

inductive PC where
  | idle
  | ctor (e : Nat)
  | lnFail (e : Nat)
  | lnWait (e : Nat)
  | lsWait (e v : Nat)
  | delRead (e : Nat)
  | destruct (e v : Nat)
deriving DecidableEq, Repr

structure Thread where
  prog : List Op                 -- remaining operations, head = the one in progress
  pc : PC := .idle
  held : List (Nat × Nat) := []  -- (key, entry) of every acquisition that returned success and is not yet released
deriving Repr

def showVal : Option Nat → String
  | none => "n"
  | some v => toString v

def showBit (b : Bool) : String := if b then "1" else "0"

/-- sorted listing `k=v.k=v` of what a completed `Range` reported, keys `< nk` -/
def rangeListing (s : G) (nk : Nat) : String :=
  let items := (List.range nk).filterMap fun k =>
    match s.pool k with
    | none => none
    | some e => if (s.ent e).wlocked || (s.ent e).err then none else some (toString k ++ "=" ++ showVal (s.ent e).value)
  if items.isEmpty then "_" else ".".intercalate items

def eraseHeld (k : Nat) : List (Nat × Nat) → List (Nat × Nat)
  | [] => []
  | x :: xs => if x.1 = k then xs else x :: eraseHeld k xs

def findHeld (k : Nat) : List (Nat × Nat) → Option Nat
  | [] => none
  | x :: xs => if x.1 = k then some x.2 else findHeld k xs

inductive Move where
  | finished                                  -- the thread has no operation left
  | blocked                                   -- its next region waits for a lock
  | go (ls : List Label) (th : Thread) (ev : String)
  | stuck                                     -- impossible program counter (never produced for parsed cases)

/-- key and entry of the oldest reference a thread remembers (`held` is newest first) -/
def oldestHeld : List (Nat × Nat) → Option (Nat × Nat)
  | [] => none
  | [x] => some x
  | _ :: xs => oldestHeld xs

/-- first region of `Delete(k)`; `h` = the entry the caller gives back (none: it holds nothing),
    `held'` = what it remembers afterwards, `after` = its program once this Delete has returned,
    `stay` = its program while the Delete is still in progress -/
def delStartWith (s : G) (k : Nat) (h : Option Nat) (held' : List (Nat × Nat)) (stay after : List Op) : Move :=
  match s.pool k with
  | none => .go [.del1 k h] { prog := after, pc := .idle, held := held' } "Dn"
  | some e =>
    if (s.ent e).refs - 1 = 0 then
      .go [.del1 k h] { prog := stay, pc := .delRead e, held := held' } "Dz"
    else if (s.ent e).refs - 1 < 0 then
      .go [.del1 k h] { prog := after, pc := .idle, held := held' } "Dp"
    else
      .go [.del1 k h] { prog := after, pc := .idle, held := held' } "Dd"

/-- first region of `Delete(k)` (the pool lock is free) -/
def delStart (s : G) (th : Thread) (k : Nat) (op : Op) (rest : List Op) : Move :=
  delStartWith s k (findHeld k th.held) (eraseHeld k th.held) (op :: rest) rest

/-- second region of `Delete`: read the value of the removed entry -/
def delRead (s : G) (th : Thread) (e : Nat) (rest : List Op) : Move :=
  if (s.ent e).wlocked then .blocked else
  match (s.ent e).value with
  | some v =>
    if (s.ent e).plain then .go [.del2 e] { prog := rest, pc := .idle, held := th.held } "En"
    else .go [.del2 e] { th with pc := .destruct e v } ("E" ++ toString v)
  | none => .go [.del2 e] { prog := rest, pc := .idle, held := th.held } "En"

/-- a client's cleanup continues with its next key, or is finished when it remembers nothing -/
def afterClose (held : List (Nat × Nat)) (op : Op) (rest : List Op) : List Op :=
  if held.isEmpty then rest else op :: rest

/-- error paths that do not touch the pool state but what the caller is handed (both sides of the
    correspondence use the same fixed rule):
    * the failing constructor of key 3 returns a non-nil value TOGETHER with its error (as
      `Logging.openWriter`'s constructor does): LoadOrNew hands that value to the constructing caller
      with the error (`Fdg`); the pool never stores it, hands it to nobody else and never destructs it;
    * the destructor of every value whose number is divisible by 3 returns an error: `Delete` passes it on,
      `(true, err)` (`X<v>e`); the entry is gone all the same. -/
def garbageKey (k : Nat) : Bool := k == 3

def dtorErrSuffix (v : Nat) : String := if v % 3 = 0 then "e" else ""

/-- the next region of a thread: the labels it performs, the thread afterwards, the event token -/
def tmove (nk : Nat) (s : G) (th : Thread) : Move :=
  match th.prog with
  | [] => .finished
  | op :: rest =>
    match th.pc, op with
    | .idle, .ln k _ =>
      match s.pool k with
      | some e => .go [.lnLookup k] { th with pc := .lnWait e } "Nw"
      | none => .go [.lnLookup k] { th with pc := .ctor s.next } "Ni"
    | .ctor e, .ln k true =>
      .go [.ctorOk e] { prog := rest, pc := .idle, held := (k, e) :: th.held } ("Co" ++ toString s.nextVal)
    | .ctor e, .ln _ false => .go [.ctorErr e] { th with pc := .lnFail e } "Cf"
    | .lnFail e, .ln k _ =>
      .go [.lnFailDel e] { prog := rest, pc := .idle, held := th.held } (if garbageKey k then "Fdg" else "Fd")
    | .lnWait e, .ln k _ =>
      if (s.ent e).wlocked then .blocked else
      .go [.lnRead e]
        { prog := rest, pc := .idle, held := if (lnReadRet s e).2 then th.held else (k, e) :: th.held }
        ("W" ++ showVal (lnReadRet s e).1 ++ "e" ++ showBit (lnReadRet s e).2)
    | .idle, .ls k =>
      match s.pool k with
      | some e => .go [.lsLookup k] { th with pc := .lsWait e s.nextVal } ("Sw" ++ toString s.nextVal)
      | none => .go [.lsLookup k] { prog := rest, pc := .idle, held := (k, s.next) :: th.held } ("Ss" ++ toString s.nextVal)
    | .idle, .lsp k =>
      match s.pool k with
      | some e => .go [.lspLookup k] { th with pc := .lsWait e s.nextVal } ("Sw" ++ toString s.nextVal)
      | none => .go [.lspLookup k] { prog := rest, pc := .idle, held := (k, s.next) :: th.held } ("Ss" ++ toString s.nextVal)
    | .lsWait e v, .lsp k =>
      if (s.ent e).wlocked then .blocked else
      if (s.ent e).err then .go [.lsRead e v] { th with pc := .idle } "Lr"
      else .go [.lsRead e v] { prog := rest, pc := .idle, held := (k, e) :: th.held } ("L" ++ showVal (lsReadRet s e))
    | .lsWait e v, .ls k =>
      if (s.ent e).wlocked then .blocked else
      if (s.ent e).err then .go [.lsRead e v] { th with pc := .idle } "Lr"   -- start over (same operation again)
      else .go [.lsRead e v] { prog := rest, pc := .idle, held := (k, e) :: th.held } ("L" ++ showVal (lsReadRet s e))
    | .idle, .del k => delStart s th k op rest
    | .idle, .cdel k =>
      if (findHeld k th.held).isNone then .go [] { prog := rest, pc := .idle, held := th.held } "Ds"
      else delStart s th k op rest
    | .delRead e, .del _ => delRead s th e rest
    | .delRead e, .cdel _ => delRead s th e rest
    | .destruct e v, .del _ => .go [.del3 e] { prog := rest, pc := .idle, held := th.held } ("X" ++ toString v ++ dtorErrSuffix v)
    | .destruct e v, .cdel _ => .go [.del3 e] { prog := rest, pc := .idle, held := th.held } ("X" ++ toString v ++ dtorErrSuffix v)
    | .idle, .refs k =>
      .go [.refs k] { prog := rest, pc := .idle, held := th.held }
        (match refsNow s k with
         | none => "Pn"
         | some r => "Q" ++ toString r)
    | .idle, .range => .go [.range] { prog := rest, pc := .idle, held := th.held } ("G" ++ rangeListing s nk)
    | .idle, .closeAll =>
      match oldestHeld th.held with
      | none => .go [] { prog := rest, pc := .idle, held := th.held } "Ce"
      | some (k, e) => delStartWith s k (some e) th.held.dropLast (op :: rest) (afterClose th.held.dropLast op rest)
    | .delRead e, .closeAll => delRead s th e (afterClose th.held op rest)
    | .destruct e v, .closeAll =>
      .go [.del3 e] { prog := afterClose th.held op rest, pc := .idle, held := th.held } ("X" ++ toString v)
    | _, _ => .stuck

/-- what the controller sees when it calls `References(k)` for every key after a step -/
def showRefs (s : G) (nk : Nat) : String :=
  ",".intercalate ((List.range nk).map fun k =>
    match refsNow s k with
    | none => "-"
    | some r => toString r)

structure Sys where
  g : G
  threads : List Thread
  clean : Bool := true     -- no excluded label was executed so far
  out : List String := []  -- event tokens, newest first
  stuck : Bool := false    -- a thread was at an impossible program counter, or issued a label that was not enabled (proved never to happen: `Props.never_stuck`)

def cleanLabels : G → List Label → Bool := cleanRun

/-- schedule entry `t`: run the next region of thread `t` (or record that it is blocked / finished) -/
def tstep (nk : Nat) (y : Sys) (t : Nat) : Sys :=
  match y.threads[t]? with
  | none => { y with out := "bad-thread" :: y.out }
  | some th =>
    match tmove nk y.g th with
    | .finished => { y with out := (toString t ++ ":-/" ++ showRefs y.g nk) :: y.out }
    | .blocked => { y with out := (toString t ++ ":B/" ++ showRefs y.g nk) :: y.out }
    | .stuck => { y with out := "model-stuck" :: y.out, stuck := true }
    | .go ls th' ev =>
      match runLabels y.g ls with
      | none => { y with out := "model-stuck" :: y.out, stuck := true }
      | some g' =>
        { g := g', threads := y.threads.set t th', clean := y.clean && cleanLabels y.g ls,
          out := (toString t ++ ":" ++ ev ++ "/" ++ showRefs g' nk) :: y.out, stuck := y.stuck }

def canMove (nk : Nat) (g : G) (th : Thread) : Bool :=
  match tmove nk g th with
  | .go _ _ _ => true
  | _ => false

/-- index of the first thread whose next region is enabled -/
def firstEnabled (nk : Nat) (g : G) : List Thread → Nat → Option Nat
  | [], _ => none
  | th :: ths, i => if canMove nk g th then some i else firstEnabled nk g ths (i + 1)

/-- after the explicit schedule: keep running the lowest-numbered enabled thread -/
def drain (nk : Nat) : Nat → Sys → Sys
  | 0, y => y
  | fuel + 1, y =>
    match firstEnabled nk y.g y.threads 0 with
    | none => y
    | some t => drain nk fuel (tstep nk y t)

def allFinished (ths : List Thread) : Bool := ths.all fun th => th.prog.isEmpty

def progSteps (ths : List Thread) : Nat := (ths.map fun th => th.prog.length).sum   -- a cleanup is bounded by the acquisitions before it

def runSched (nk : Nat) (progs : List (List Op)) (sched : List Nat) : Sys :=
  let y0 : Sys := { g := G.init, threads := progs.map fun p => { prog := p } }
  let y1 := sched.foldl (tstep nk) y0
  drain nk (6 * progSteps y0.threads + 8) y1

/-- the canonical answer line of a case -/
def runCase (nk : Nat) (progs : List (List Op)) (sched : List Nat) : String :=
  let y := runSched nk progs sched
  let fin := if allFinished y.threads then "end:ok:" ++ rangeListing y.g nk
             else if (firstEnabled nk y.g y.threads 0).isSome then "end:fuel" else "end:deadlock"
  ";".intercalate (y.out.reverse ++ [fin])

/-! ### clients whose calls are observed whole (`listeners` lines)

`listen_unix.go` uses `listenerPool` only to COUNT the sockets bound to an address: after a successful bind
`listenReusable` does `LoadOrStore(lnKey, nil)`, the wrapper's `Close` does `Delete(lnKey)`, and
`caddy.ListenerUsage` reads the count.  These client calls are run one at a time (whole calls, no interleaving
inside a call): a schedule entry runs the next operation of a thread to completion. -/

/-- the client operations of a listener-owning config towards the pool -/
inductive ListenerOp where
  | listen (k : Nat)         -- NetworkAddress.Listen succeeds: one more socket on address k
  | listenFails (k : Nat)    -- the bind is refused: nothing is counted
  | closeAll                 -- the config closes all its listeners, oldest first
deriving DecidableEq, Repr

def listenerOp : ListenerOp → Op
  | .listen k => .lsp k
  | .listenFails k => .refs k   -- no effect on the pool (`References` is a pure read)
  | .closeAll => .closeAll

/-- run the next operation of thread `t` to completion -/
def stepOp (nk : Nat) : Nat → Sys → Nat → Sys
  | 0, y, _ => y
  | fuel + 1, y, t =>
    match y.threads[t]? with
    | none => y
    | some th =>
      if th.prog.isEmpty then y else
      match (tstep nk y t).threads[t]? with
      | none => tstep nk y t
      | some th' => if th'.prog.length < th.prog.length then tstep nk y t else stepOp nk fuel (tstep nk y t) t

/-- index of the first thread that still has an operation -/
def firstUnfinished : List Thread → Nat → Option Nat
  | [], _ => none
  | th :: ths, i => if th.prog.isEmpty then firstUnfinished ths (i + 1) else some i

/-- one whole-call step with its token `<t>:k/<count of every key>` (`-` when the thread has finished) -/
def atomicStep (nk : Nat) (acc : Sys × List String) (t : Nat) : Sys × List String :=
  let fin := match acc.1.threads[t]? with
    | some th => th.prog.isEmpty
    | none => true
  let y' := stepOp nk 24 acc.1 t
  (y', (toString t ++ (if fin then ":-/" else ":k/") ++ showRefs y'.g nk) :: acc.2)

def drainAtomic (nk : Nat) : Nat → Sys × List String → Sys × List String
  | 0, a => a
  | fuel + 1, a =>
    match firstUnfinished a.1.threads 0 with
    | none => a
    | some t => drainAtomic nk fuel (atomicStep nk a t)

def runAtomicSys (nk : Nat) (progs : List (List Op)) (sched : List Nat) : Sys × List String :=
  drainAtomic nk (progSteps (progs.map fun p => { prog := p }) + 1)
    (sched.foldl (atomicStep nk) ({ g := G.init, threads := progs.map fun p => { prog := p } }, []))

def runCaseAtomic (nk : Nat) (progs : List (List Op)) (sched : List Nat) : String :=
  let a := runAtomicSys nk progs sched
  ";".intercalate (a.2.reverse ++ [if allFinished a.1.threads then "end:ok" else "end:unfinished"])

/-! ### the reverse proxy's two clients of the hosts pool (`requests` lines)

* the per-HANDLER client: `Provision` takes one reference per static upstream (`provisionUpstream` → `fillHost` →
  `hosts.LoadOrStore`), `Cleanup` gives them back;
* the per-REQUEST client (`proxyLoopIteration` with a dynamic upstream source): every upstream the source returned
  is provisioned — one reference each — and when the iteration returns each of THEM is given back
  (`defer … hosts.Delete(upstream.String())` over the same slice).  Acquire and release are paired per element: a
  request releases exactly what it took, whatever else its handler (or another handler) holds on the same address. -/

/-- loading a handler with static upstreams `ks` -/
def handlerLoadOps (ks : List Nat) : List Op := ks.map .lsp

/-- one request whose dynamic source returned the addresses `ks` -/
def requestOps (ks : List Nat) : List Op := ks.map .lsp ++ ks.map .cdel

/-- run the next `n` operations of thread `t`, each to completion -/
def runOps (nk : Nat) : Nat → Sys → Nat → Sys
  | 0, y, _ => y
  | n + 1, y, t => runOps nk n (stepOp nk 24 y t) t

/-- state of a run whose client calls are groups of operations: the system, the sizes of the groups each thread
    still has to run, the tokens -/
abbrev GroupAcc := Sys × List (List Nat) × List String

def groupStep (nk : Nat) (a : GroupAcc) (t : Nat) : GroupAcc :=
  match a.2.1[t]? with
  | some (n :: rest) =>
    let y' := runOps nk n a.1 t
    (y', a.2.1.set t rest, (toString t ++ ":k/" ++ showRefs y'.g nk) :: a.2.2)
  | _ => (a.1, a.2.1, (toString t ++ ":-/" ++ showRefs a.1.g nk) :: a.2.2)

def firstWithGroups : List (List Nat) → Nat → Option Nat
  | [], _ => none
  | g :: gs, i => if g.isEmpty then firstWithGroups gs (i + 1) else some i

def drainGroups (nk : Nat) : Nat → GroupAcc → GroupAcc
  | 0, a => a
  | fuel + 1, a =>
    match firstWithGroups a.2.1 0 with
    | none => a
    | some t => drainGroups nk fuel (groupStep nk a t)

def runGroupsSys (nk : Nat) (progs : List (List (List Op))) (sched : List Nat) : GroupAcc :=
  drainGroups nk ((progs.map List.length).sum + 1)
    (sched.foldl (groupStep nk)
      ({ g := G.init, threads := progs.map fun p => { prog := p.flatten } }, progs.map (fun p => p.map List.length), []))

def runCaseGroups (nk : Nat) (progs : List (List (List Op))) (sched : List Nat) : String :=
  ";".intercalate ((runGroupsSys nk progs sched).2.2.reverse ++ ["end:ok"])

end CaddyModel.C04
