/-
C04 — the property's "destructed exactly once, only at count zero" clause stated for CLIENT traces.

A client trace is what the named threads do: `runPrefix nk progs sched` is the state after the schedule
prefix `sched` (every prefix of every interleaving), `runSched` the state after it has been completed.
Client programs — whole log set-ups (`logSetupOp`, any outcome), `openWriter`, `provisionUpstream`,
conditional Deletes and the cleanup `closeAll` — never issue a Delete for something they do not hold, so
their runs are clean by construction (`client_run_clean`), and for them, with no hypothesis left:
no close event (a Delete on its way to the destructor, the destructor call, the decision that there is
nothing to destruct) happens while any client still remembers a reference, and never twice.
-/
import CaddyModel.C04.Stuck

namespace CaddyModel.C04

/-- the state after a schedule prefix (no completion) -/
def runPrefix (nk : Nat) (progs : List (List Op)) (sched : List Nat) : Sys :=
  sched.foldl (tstep nk) { g := G.init, threads := progs.map fun p => { prog := p } }

/-- the program contains no unconditional `Delete` -/
def NoRawDelete (prog : List Op) : Prop := ∀ op ∈ prog, ∀ k, op ≠ .del k

theorem delStartWith_clean {g : G} {k h : Nat} {held' : List (Nat × Nat)} {stay after : List Op}
    {th' : Thread} {ls : List Label} {ev : String} (hs : NoRawDelete stay) (ha : NoRawDelete after)
    (hm : delStartWith g k (some h) held' stay after = .go ls th' ev) :
    (∀ l ∈ ls, excluded g l = false) ∧ NoRawDelete th'.prog := by
  unfold delStartWith at hm
  split at hm
  · cases hm; exact ⟨by intro l hl; simp at hl; subst hl; rfl, ha⟩
  · split at hm
    · cases hm; exact ⟨by intro l hl; simp at hl; subst hl; rfl, hs⟩
    · split at hm <;> (cases hm; exact ⟨by intro l hl; simp at hl; subst hl; rfl, ha⟩)

theorem delRead_clean {g : G} {th th' : Thread} {e : Nat} {after : List Op} {ls : List Label} {ev : String}
    (hp : NoRawDelete th.prog) (ha : NoRawDelete after) (hm : delRead g th e after = .go ls th' ev) :
    (∀ l ∈ ls, excluded g l = false) ∧ NoRawDelete th'.prog := by
  unfold delRead at hm
  split at hm
  · cases hm
  · split at hm
    · split at hm
      · cases hm; exact ⟨by intro l hl; simp at hl; subst hl; rfl, ha⟩
      · cases hm; exact ⟨by intro l hl; simp at hl; subst hl; rfl, hp⟩
    · cases hm; exact ⟨by intro l hl; simp at hl; subst hl; rfl, ha⟩

theorem noRaw_tail {op : Op} {rest : List Op} (h : NoRawDelete (op :: rest)) : NoRawDelete rest :=
  fun o ho k => h o (List.mem_cons_of_mem _ ho) k

theorem noRaw_afterClose {held : List (Nat × Nat)} {op : Op} {rest : List Op} (h : NoRawDelete (op :: rest)) :
    NoRawDelete (afterClose held op rest) := by
  unfold afterClose; split
  · exact noRaw_tail h
  · exact h

/-- a thread whose program has no unconditional Delete never issues an excluded label -/
theorem tmove_clean {nk : Nat} {g : G} {th th' : Thread} {ls : List Label} {ev : String}
    (hp : NoRawDelete th.prog) (hm : tmove nk g th = .go ls th' ev) :
    (∀ l ∈ ls, excluded g l = false) ∧ NoRawDelete th'.prog := by
  obtain ⟨prog, pc, held⟩ := th
  have one : ∀ (l : Label) (p : List Op), excluded g l = false → NoRawDelete p → ls = [l] → th'.prog = p →
      (∀ l' ∈ ls, excluded g l' = false) ∧ NoRawDelete th'.prog := by
    intro l p hl hpp hls hth
    subst hls
    rw [hth]
    exact ⟨by intro l' hl'; simp at hl'; subst hl'; exact hl, hpp⟩
  cases prog with
  | nil => simp [tmove] at hm
  | cons op rest =>
    have hrest : NoRawDelete rest := noRaw_tail hp
    cases pc <;> cases op
    case ctor.ln e k b =>
      cases b <;> simp only [tmove] at hm <;> cases hm
      · exact one _ _ rfl hp rfl rfl
      · exact one _ _ rfl hrest rfl rfl
    case idle.del k => exact absurd rfl (hp (.del k) (List.mem_cons_self ..) k)
    case delRead.del e k => exact absurd rfl (hp (.del k) (List.mem_cons_self ..) k)
    case destruct.del e v k => exact absurd rfl (hp (.del k) (List.mem_cons_self ..) k)
    all_goals (simp only [tmove] at hm)
    all_goals try (cases hm; done)
    case idle.ln k b => split at hm <;> cases hm <;> exact one _ _ rfl hp rfl rfl
    case idle.ls k =>
      split at hm <;> cases hm
      · exact one _ _ rfl hp rfl rfl
      · exact one _ _ rfl hrest rfl rfl
    case idle.lsp k =>
      split at hm <;> cases hm
      · exact one _ _ rfl hp rfl rfl
      · exact one _ _ rfl hrest rfl rfl
    case idle.cdel k =>
      split at hm
      · cases hm; exact ⟨by intro l hl; simp at hl, hrest⟩
      · rename_i hf
        unfold delStart at hm
        cases hfh : findHeld k held with
        | none => simp [hfh] at hf
        | some h0 =>
          simp only [hfh] at hm
          exact delStartWith_clean hp hrest hm
    case idle.refs k => cases hm; exact one _ _ rfl hrest rfl rfl
    case idle.range => cases hm; exact one _ _ rfl hrest rfl rfl
    case idle.closeAll =>
      split at hm
      · cases hm; exact ⟨by intro l hl; simp at hl, hrest⟩
      · exact delStartWith_clean hp (noRaw_afterClose hp) hm
    case lnFail.ln e k b => cases hm; exact one _ _ rfl hrest rfl rfl
    case lnWait.ln e k b =>
      split at hm
      · cases hm
      · cases hm; exact one _ _ rfl hrest rfl rfl
    case lsWait.ls e v k =>
      split at hm
      · cases hm
      · split at hm <;> cases hm
        · exact one _ _ rfl hp rfl rfl
        · exact one _ _ rfl hrest rfl rfl
    case lsWait.lsp e v k =>
      split at hm
      · cases hm
      · split at hm <;> cases hm
        · exact one _ _ rfl hp rfl rfl
        · exact one _ _ rfl hrest rfl rfl
    case delRead.cdel e k => exact delRead_clean hp hrest hm
    case delRead.closeAll e => exact delRead_clean hp (noRaw_afterClose hp) hm
    case destruct.cdel e v k => cases hm; exact one _ _ rfl hrest rfl rfl
    case destruct.closeAll e v => cases hm; exact one _ _ rfl (noRaw_afterClose hp) rfl rfl

/-! ### whole runs of client programs are clean -/

theorem cleanRun_of_not_excluded {g : G} : ∀ {ls : List Label}, (ls = [] ∨ ∃ l, ls = [l]) →
    (∀ l ∈ ls, excluded g l = false) → cleanRun g ls = true := by
  intro ls hshape hex
  rcases hshape with h | ⟨l, h⟩
  · subst h; rfl
  · subst h
    have := hex l (by simp)
    simp only [cleanRun, this, Bool.not_false, Bool.true_and]
    split <;> rfl

/-- clean so far, and no thread has an unconditional Delete left -/
def CleanClients (y : Sys) : Prop := y.clean = true ∧ ∀ th ∈ y.threads, NoRawDelete th.prog

theorem cleanClients_tstep (nk : Nat) (y : Sys) (t : Nat) (h : CleanClients y) : CleanClients (tstep nk y t) := by
  unfold tstep
  split
  · exact h
  · rename_i th hth
    have hmem : th ∈ y.threads := List.mem_of_getElem? hth
    split
    · exact h
    · exact h
    · exact h
    · rename_i ls th' ev hm
      split
      · exact h
      · rename_i g' hr
        obtain ⟨hex, hnr⟩ := tmove_clean (h.2 th hmem) hm
        have hshape : ls = [] ∨ ∃ l, ls = [l] := by
          rcases (tmove_pc hm).1 with ⟨h0, _⟩ | ⟨l, h1, _, _⟩
          · exact Or.inl h0
          · exact Or.inr ⟨l, h1⟩
        refine ⟨?_, ?_⟩
        · show (y.clean && cleanLabels y.g ls) = true
          rw [h.1]
          exact cleanRun_of_not_excluded hshape hex
        · intro th2 hth2
          rcases List.mem_or_eq_of_mem_set hth2 with hm2 | hm2
          · exact h.2 th2 hm2
          · subst hm2; exact hnr

theorem cleanClients_foldl (nk : Nat) : ∀ (sched : List Nat) (y : Sys), CleanClients y →
    CleanClients (sched.foldl (tstep nk) y)
  | [], _, h => h
  | t :: ts, y, h => cleanClients_foldl nk ts (tstep nk y t) (cleanClients_tstep nk y t h)

theorem cleanClients_drain (nk : Nat) : ∀ (fuel : Nat) (y : Sys), CleanClients y → CleanClients (drain nk fuel y)
  | 0, _, h => h
  | fuel + 1, y, h => by
    unfold drain
    split
    · exact h
    · exact cleanClients_drain nk fuel _ (cleanClients_tstep nk y _ h)

theorem cleanClients_init (progs : List (List Op)) (hp : ∀ p ∈ progs, NoRawDelete p) :
    CleanClients { g := G.init, threads := progs.map fun p => { prog := p } } := by
  refine ⟨rfl, ?_⟩
  intro th hth
  simp only [List.mem_map] at hth
  obtain ⟨p, hpm, rfl⟩ := hth
  exact hp p hpm

/-- **runs of client programs are clean by construction** (prefixes and completed runs) -/
theorem client_run_clean (nk : Nat) (progs : List (List Op)) (sched : List Nat) (hp : ∀ p ∈ progs, NoRawDelete p) :
    (runPrefix nk progs sched).clean = true ∧ (runSched nk progs sched).clean = true := by
  constructor
  · exact (cleanClients_foldl nk sched _ (cleanClients_init progs hp)).1
  · unfold runSched
    exact (cleanClients_drain nk _ _ (cleanClients_foldl nk sched _ (cleanClients_init progs hp))).1

/-! ### no close event before the last release, never twice -/

theorem prefix_books (nk : Nat) (progs : List (List Op)) (sched : List Nat) : Books (runPrefix nk progs sched) := by
  refine books_foldl nk sched _ ⟨?_, ?_⟩
  · intro e he; exact absurd he (Nat.not_lt_zero _)
  · intro th hth x hx
    simp only [List.mem_map] at hth
    obtain ⟨p, _, rfl⟩ := hth
    simp at hx

theorem prefix_reachable (nk : Nat) (progs : List (List Op)) (sched : List Nat) :
    (runPrefix nk progs sched).clean = true → Reachable (runPrefix nk progs sched).g :=
  foldl_tstep_reachable nk sched _ (fun _ => reachable_init)

/-- the close events of an entry: a Delete that removed it and is on its way to the destructor, the
    destructor call in progress or done, the decision that there is nothing to destruct -/
def closeEvents (E : Entry) : Nat := E.del2 + E.del3 + E.destructed + E.skipped

/-- in a state of the net: close events only on an entry nobody holds, at most one -/
theorem close_events_after_last_release {s : G} (h : Reachable s) {e : Nat} (he : e < s.next) :
    closeEvents (s.ent e) ≤ 1 ∧ (0 < closeEvents (s.ent e) → (s.ent e).holders = 0 ∧ (s.ent e).refs = 0) := by
  have hE := (inv_reachable h).ent e he
  refine ⟨(ent_once hE).2.2, ?_⟩
  intro hd
  obtain ⟨_, _, hh, hr, _⟩ := ent_dying_facts hE hd
  exact ⟨hh, hr⟩

/-! ### whole-call clients (`listeners` lines): the count is the number of remembered references -/

/-- anything every `tstep` preserves holds along whole-call runs -/
theorem stepOp_preserves (nk : Nat) (P : Sys → Prop) (hP : ∀ y t, P y → P (tstep nk y t)) :
    ∀ (fuel : Nat) (y : Sys) (t : Nat), P y → P (stepOp nk fuel y t)
  | 0, _, _, h => h
  | fuel + 1, y, t, h => by
    unfold stepOp
    split
    · exact h
    · split
      · exact h
      · split
        · exact hP y t h
        · split
          · exact hP y t h
          · exact stepOp_preserves nk P hP fuel _ t (hP y t h)

theorem runAtomicSys_preserves (nk : Nat) (P : Sys → Prop) (hP : ∀ y t, P y → P (tstep nk y t))
    (progs : List (List Op)) (sched : List Nat) (h0 : P { g := G.init, threads := progs.map fun p => { prog := p } }) :
    P (runAtomicSys nk progs sched).1 := by
  have hstep : ∀ (a : Sys × List String) (t : Nat), P a.1 → P (atomicStep nk a t).1 :=
    fun a t h => stepOp_preserves nk P hP 24 a.1 t h
  have hfold : ∀ (sc : List Nat) (a : Sys × List String), P a.1 → P (sc.foldl (atomicStep nk) a).1 := by
    intro sc
    induction sc with
    | nil => intro a h; exact h
    | cons t ts ih => intro a h; exact ih _ (hstep a t h)
  have hdrain : ∀ (fuel : Nat) (a : Sys × List String), P a.1 → P (drainAtomic nk fuel a).1 := by
    intro fuel
    induction fuel with
    | zero => intro a h; exact h
    | succ n ih =>
      intro a h
      unfold drainAtomic
      split
      · exact h
      · exact ih _ (hstep a _ h)
  unfold runAtomicSys
  exact hdrain _ _ (hfold sched _ h0)

/-- **the count of a key is the number of references the clients remember, whenever no call is in progress.**
    In any state in which every thread is between two calls (whole-call clients are, after every step), for a
    clean run: `refs` of the entry in the map = number of `(key, entry)` references in the threads' books —
    `caddy.ListenerUsage(addr)` is the number of listeners configs have open on the address. -/
theorem count_is_remembered_references_when_idle {y : Sys} (hs : Sound y) (hr : Reachable y.g)
    (hidle : ∀ th ∈ y.threads, th.pc = .idle) {k e : Nat} (hp : y.g.pool k = some e) :
    (y.g.ent e).refs = (holdCount y.threads e : Nat) := by
  have hi := inv_reachable hr
  obtain ⟨he, _⟩ := hi.pool k e hp
  obtain ⟨h1, _⟩ := ent_mapped_refs (hi.ent e he) (inPool_of_pool hi hp)
  have hz : ∀ p, placeOf (y.g.ent e) p = 0 := by
    intro p
    rw [hs.places.count p e he]
    unfold placeCount
    apply sum_map_zero
    intro th hth
    simp [atPlace, hidle th hth, pcAt]
  have a := hz .ctor; have b := hz .failing; have c := hz .waiters; have d := hz .lsWaiters
  simp only [placeOf] at a b c d
  rw [h1, ← hs.books.count e he]
  congr 1; omega

/-- … for the whole-call runs of client programs (listener-owning configs: `listenerOp`), no hypothesis left
    but "every thread is between two calls", which the run checks -/
theorem listener_usage_is_open_listeners (nk : Nat) (progs : List (List Op)) (sched : List Nat)
    (hp : ∀ p ∈ progs, NoRawDelete p)
    (hidle : ∀ th ∈ (runAtomicSys nk progs sched).1.threads, th.pc = .idle) {k e : Nat}
    (hpool : (runAtomicSys nk progs sched).1.g.pool k = some e) :
    ((runAtomicSys nk progs sched).1.g.ent e).refs = (holdCount (runAtomicSys nk progs sched).1.threads e : Nat) := by
  have hall := runAtomicSys_preserves nk (fun y => Sound y ∧ CleanClients y ∧ (y.clean = true → Reachable y.g))
    (fun y t h => ⟨sound_tstep nk y t h.1, cleanClients_tstep nk y t h.2.1, tstep_reachable nk y t h.2.2⟩)
    progs sched ⟨by
      have := sound_runSched nk progs []
      refine ⟨⟨?_, ?_⟩, ⟨?_, ?_, ?_, mapOk_init⟩, ?_, ?_, rfl⟩
      · intro e he; exact absurd he (Nat.not_lt_zero _)
      · intro th hth x hx
        simp only [List.mem_map] at hth
        obtain ⟨p, _, rfl⟩ := hth
        simp at hx
      · intro p e he; exact absurd he (Nat.not_lt_zero _)
      · intro th hth p e hpe
        simp only [List.mem_map] at hth
        obtain ⟨q, _, rfl⟩ := hth
        simp [pcAt] at hpe
      · intro th hth _
        simp only [List.mem_map] at hth
        obtain ⟨q, _, rfl⟩ := hth
        rfl
      · intro th hth
        simp only [List.mem_map] at hth
        obtain ⟨q, _, rfl⟩ := hth
        simp [PcOk]
      · intro th hth x hx
        simp only [List.mem_map] at hth
        obtain ⟨q, _, rfl⟩ := hth
        simp at hx, cleanClients_init progs hp, fun _ => reachable_init⟩
  exact count_is_remembered_references_when_idle hall.1 (hall.2.2 hall.2.1.1) hidle hpool

/-! ### the per-request client of the hosts pool (`requests` lines) -/

theorem runOps_preserves (nk : Nat) (P : Sys → Prop) (hP : ∀ y t, P y → P (tstep nk y t)) :
    ∀ (n : Nat) (y : Sys) (t : Nat), P y → P (runOps nk n y t)
  | 0, _, _, h => h
  | n + 1, y, t, h => runOps_preserves nk P hP n _ t (stepOp_preserves nk P hP 24 y t h)

theorem runGroupsSys_preserves (nk : Nat) (P : Sys → Prop) (hP : ∀ y t, P y → P (tstep nk y t))
    (progs : List (List (List Op))) (sched : List Nat)
    (h0 : P { g := G.init, threads := progs.map fun p => { prog := p.flatten } }) :
    P (runGroupsSys nk progs sched).1 := by
  have hstep : ∀ (a : GroupAcc) (t : Nat), P a.1 → P (groupStep nk a t).1 := by
    intro a t h
    unfold groupStep
    split
    · exact runOps_preserves nk P hP _ a.1 t h
    · exact h
  have hfold : ∀ (sc : List Nat) (a : GroupAcc), P a.1 → P (sc.foldl (groupStep nk) a).1 := by
    intro sc
    induction sc with
    | nil => intro a h; exact h
    | cons t ts ih => intro a h; exact ih _ (hstep a t h)
  have hdrain : ∀ (fuel : Nat) (a : GroupAcc), P a.1 → P (drainGroups nk fuel a).1 := by
    intro fuel
    induction fuel with
    | zero => intro a h; exact h
    | succ n ih =>
      intro a h
      unfold drainGroups
      split
      · exact h
      · exact ih _ (hstep a _ h)
  unfold runGroupsSys
  exact hdrain _ _ (hfold sched _ h0)

theorem sound_init (progs : List (List Op)) : Sound { g := G.init, threads := progs.map fun p => { prog := p } } := by
  refine ⟨⟨?_, ?_⟩, ⟨?_, ?_, ?_, mapOk_init⟩, ?_, ?_, rfl⟩
  · intro e he; exact absurd he (Nat.not_lt_zero _)
  · intro th hth x hx
    simp only [List.mem_map] at hth
    obtain ⟨p, _, rfl⟩ := hth
    simp at hx
  · intro p e he; exact absurd he (Nat.not_lt_zero _)
  · intro th hth p e hpe
    simp only [List.mem_map] at hth
    obtain ⟨q, _, rfl⟩ := hth
    simp [pcAt] at hpe
  · intro th hth _
    simp only [List.mem_map] at hth
    obtain ⟨q, _, rfl⟩ := hth
    rfl
  · intro th hth
    simp only [List.mem_map] at hth
    obtain ⟨q, _, rfl⟩ := hth
    simp [PcOk]
  · intro th hth x hx
    simp only [List.mem_map] at hth
    obtain ⟨q, _, rfl⟩ := hth
    simp at hx

theorem noRaw_requestOps (ks : List Nat) : NoRawDelete (requestOps ks) := by
  intro op hop k
  simp only [requestOps, List.mem_append, List.mem_map] at hop
  rcases hop with ⟨a, _, rfl⟩ | ⟨a, _, rfl⟩ <;> simp

theorem noRaw_handlerLoadOps (ks : List Nat) : NoRawDelete (handlerLoadOps ks) := by
  intro op hop k
  simp only [handlerLoadOps, List.mem_map] at hop
  obtain ⟨a, _, rfl⟩ := hop; simp

/-- **the per-request client keeps the count right.**  Handlers that load their static upstreams
    (`handlerLoadOps`), serve requests whose dynamic source returns ANY addresses — also addresses of static upstreams
    of the same or another handler — (`requestOps`: one acquisition per returned upstream, one release for each of
    THEM), and unload (`closeAll`), in any order of whole calls: whenever no call is in progress, the count of an
    address in the pool is exactly the number of references the handlers remember — a request changes no count. -/
theorem per_request_client_keeps_count (nk : Nat) (progs : List (List (List Op))) (sched : List Nat)
    (hp : ∀ p ∈ progs, ∀ grp ∈ p, NoRawDelete grp)
    (hidle : ∀ th ∈ (runGroupsSys nk progs sched).1.threads, th.pc = .idle) {k e : Nat}
    (hpool : (runGroupsSys nk progs sched).1.g.pool k = some e) :
    ((runGroupsSys nk progs sched).1.g.ent e).refs = (holdCount (runGroupsSys nk progs sched).1.threads e : Nat) := by
  have hflat : ∀ p ∈ progs.map List.flatten, NoRawDelete p := by
    intro p hpm
    simp only [List.mem_map] at hpm
    obtain ⟨q, hq, rfl⟩ := hpm
    intro op hop kk
    simp only [List.mem_flatten] at hop
    obtain ⟨grp, hg, hmem⟩ := hop
    exact hp q hq grp hg op hmem kk
  have h0 : (fun y => Sound y ∧ CleanClients y ∧ (y.clean = true → Reachable y.g))
      { g := G.init, threads := progs.map fun p => { prog := p.flatten } } := by
    have e1 : (progs.map fun p => ({ prog := p.flatten } : Thread)) = (progs.map List.flatten).map fun p => { prog := p } := by
      simp [List.map_map]
    rw [e1]
    exact ⟨sound_init _, cleanClients_init _ hflat, fun _ => reachable_init⟩
  have hall := runGroupsSys_preserves nk (fun y => Sound y ∧ CleanClients y ∧ (y.clean = true → Reachable y.g))
    (fun y t h => ⟨sound_tstep nk y t h.1, cleanClients_tstep nk y t h.2.1, tstep_reachable nk y t h.2.2⟩)
    progs sched h0
  exact count_is_remembered_references_when_idle hall.1 (hall.2.2 hall.2.1.1) hidle hpool

end CaddyModel.C04
