/-
C04 — values are never shared between entries: every value number stored in an entry is
smaller than `nextVal`, and no two entries hold the same value.  So "the destructor of value v
ran" and "the destructor of the entry holding v ran" are the same thing, and the entry-level
theorems of `Props.lean` are statements about values.
-/
import CaddyModel.C04.Reach

namespace CaddyModel.C04

structure ValInv (s : G) : Prop where
  fresh : ∀ e v, e < s.next → (s.ent e).value = some v → v < s.nextVal
  inj : ∀ e e' v, e < s.next → e' < s.next → (s.ent e).value = some v → (s.ent e').value = some v → e = e'

/-- a step that changes no entry's value -/
theorem valInv_frame {s s' : G} (h : ValInv s) (hn : s'.next = s.next) (hv : s.nextVal ≤ s'.nextVal)
    (he : ∀ e, (s'.ent e).value = (s.ent e).value) : ValInv s' := by
  constructor
  · intro e v hlt hval
    rw [hn] at hlt; rw [he] at hval
    exact Nat.lt_of_lt_of_le (h.fresh e v hlt hval) hv
  · intro e e' v h1 h2 hv1 hv2
    rw [hn] at h1 h2; rw [he] at hv1 hv2
    exact h.inj e e' v h1 h2 hv1 hv2

theorem updEnt_value (s : G) (e : Nat) (f : Entry → Entry) (hf : ∀ E, (f E).value = E.value) (i : Nat) :
    ((updEnt s e f).ent i).value = (s.ent i).value := by
  unfold updEnt
  by_cases h : i = e <;> simp [h, hf]

/-- entry `e` receives the fresh value `s.nextVal` -/
theorem valInv_setFresh {s : G} (h : ValInv s) {e : Nat} (f : Entry → Entry)
    (hf : ∀ E, (f E).value = some s.nextVal) : ValInv (bumpVal (updEnt s e f)) := by
  constructor
  · intro i v hlt hval
    by_cases hie : i = e
    · subst hie
      have : ((bumpVal (updEnt s i f)).ent i).value = some s.nextVal := by simp [bumpVal, updEnt, hf]
      rw [this] at hval; cases hval
      exact Nat.lt_succ_self _
    · have : ((bumpVal (updEnt s e f)).ent i).value = (s.ent i).value := by simp [bumpVal, updEnt, hie]
      rw [this] at hval
      exact Nat.lt_succ_of_lt (h.fresh i v hlt hval)
  · intro i j v h1 h2 hv1 hv2
    have val : ∀ i, ((bumpVal (updEnt s e f)).ent i).value = if i = e then some s.nextVal else (s.ent i).value := by
      intro i; by_cases hie : i = e <;> simp [bumpVal, updEnt, hie, hf]
    rw [val] at hv1 hv2
    by_cases hi : i = e <;> by_cases hj : j = e
    · rw [hi, hj]
    · simp only [hi, hj, if_true, if_false] at hv1 hv2
      cases hv1
      exact absurd (h.fresh j _ h2 hv2) (Nat.lt_irrefl _)
    · simp only [hi, hj, if_true, if_false] at hv1 hv2
      cases hv2
      exact absurd (h.fresh i _ h1 hv1) (Nat.lt_irrefl _)
    · simp only [hi, hj, if_false] at hv1 hv2
      exact h.inj i j v h1 h2 hv1 hv2

/-- a new entry without a value, or with the fresh value `s.nextVal` (then `nextVal` is bumped) -/
theorem valInv_alloc_none {s : G} (h : ValInv s) (k : Nat) (E : Entry) (hE : E.value = none) :
    ValInv (alloc s k E) := by
  have val : ∀ i, ((alloc s k E).ent i).value = if i = s.next then none else (s.ent i).value := by
    intro i; by_cases hi : i = s.next <;> simp [alloc, hi, hE]
  constructor
  · intro i v hlt hval
    rw [val] at hval
    by_cases hi : i = s.next
    · simp [hi] at hval
    · simp only [hi, if_false] at hval
      have : i < s.next := by have : i < s.next + 1 := hlt; omega
      exact h.fresh i v this hval
  · intro i j v h1 h2 hv1 hv2
    rw [val] at hv1 hv2
    by_cases hi : i = s.next
    · simp [hi] at hv1
    · by_cases hj : j = s.next
      · simp [hj] at hv2
      · simp only [hi, hj, if_false] at hv1 hv2
        have a : i < s.next := by have : i < s.next + 1 := h1; omega
        have b : j < s.next := by have : j < s.next + 1 := h2; omega
        exact h.inj i j v a b hv1 hv2

theorem valInv_alloc_fresh {s : G} (h : ValInv s) (k : Nat) (E : Entry) (hE : E.value = some s.nextVal) :
    ValInv (bumpVal (alloc s k E)) := by
  have val : ∀ i, ((bumpVal (alloc s k E)).ent i).value = if i = s.next then some s.nextVal else (s.ent i).value := by
    intro i; by_cases hi : i = s.next <;> simp [bumpVal, alloc, hi, hE]
  constructor
  · intro i v hlt hval
    rw [val] at hval
    by_cases hi : i = s.next
    · simp only [hi, if_true] at hval; cases hval; exact Nat.lt_succ_self _
    · simp only [hi, if_false] at hval
      have : i < s.next := by have : i < s.next + 1 := hlt; omega
      exact Nat.lt_succ_of_lt (h.fresh i v this hval)
  · intro i j v h1 h2 hv1 hv2
    rw [val] at hv1 hv2
    have lt : ∀ i, i < (bumpVal (alloc s k E)).next → i ≠ s.next → i < s.next := by
      intro i hi hne; have : i < s.next + 1 := hi; omega
    by_cases hi : i = s.next <;> by_cases hj : j = s.next
    · rw [hi, hj]
    · simp only [hi, hj, if_true, if_false] at hv1 hv2
      cases hv1
      exact absurd (h.fresh j _ (lt j h2 hj) hv2) (Nat.lt_irrefl _)
    · simp only [hi, hj, if_true, if_false] at hv1 hv2
      cases hv2
      exact absurd (h.fresh i _ (lt i h1 hi) hv1) (Nat.lt_irrefl _)
    · simp only [hi, hj, if_false] at hv1 hv2
      exact h.inj i j v (lt i h1 hi) (lt j h2 hj) hv1 hv2

theorem valInv_step {s s' : G} {l : Label} (h : ValInv s) (hx : excluded s l = false)
    (hs : gstep s l = some s') : ValInv s' := by
  cases l with
  | lnLookup k =>
    simp only [gstep] at hs
    split at hs
    · cases hs
      exact valInv_frame h rfl (Nat.le_refl _) (updEnt_value s _ _ (fun _ => rfl))
    · cases hs
      exact valInv_alloc_none h k _ rfl
  | ctorOk e =>
    simp only [gstep] at hs
    split at hs
    · cases hs; exact valInv_setFresh h _ (fun _ => rfl)
    · cases hs
  | ctorErr e =>
    simp only [gstep] at hs
    split at hs
    · cases hs; exact valInv_frame h rfl (Nat.le_refl _) (updEnt_value s _ _ (fun _ => rfl))
    · cases hs
  | lnFailDel e =>
    simp only [gstep] at hs
    split at hs
    · cases hs
      exact valInv_frame h rfl (Nat.le_refl _) (updEnt_value (setPool s _ none) _ _ (fun _ => rfl))
    · cases hs
  | lnRead e =>
    simp only [gstep] at hs
    split at hs
    · split at hs <;> cases hs <;>
        exact valInv_frame h rfl (Nat.le_refl _) (updEnt_value s _ _ (fun _ => rfl))
    · cases hs
  | lsLookup k =>
    simp only [gstep] at hs
    split at hs
    · rename_i e _
      cases hs
      refine valInv_frame h rfl (Nat.le_succ _) ?_
      intro i
      simp only [bumpVal, updEnt]
      split <;> rfl
    · cases hs
      exact valInv_alloc_fresh h k _ rfl
  | lspLookup k =>
    simp only [gstep] at hs
    split at hs
    · rename_i e _
      cases hs
      refine valInv_frame h rfl (Nat.le_succ _) ?_
      intro i
      simp only [bumpVal, updEnt]
      split <;> rfl
    · cases hs
      exact valInv_alloc_fresh h k _ rfl
  | lsRead e v =>
    simp only [gstep] at hs
    split at hs
    · split at hs <;> cases hs <;>
        exact valInv_frame h rfl (Nat.le_refl _) (updEnt_value s _ _ (fun _ => rfl))
    · cases hs
  | del1 k ho =>
    cases ho with
    | none => simp [excluded] at hx
    | some hd =>
      simp only [gstep] at hs
      split at hs
      · cases hs
        have h1 : ValInv (updEnt s hd fun E => { E with holders := E.holders - 1 }) :=
          valInv_frame h rfl (Nat.le_refl _) (updEnt_value s _ _ (fun _ => rfl))
        unfold del1Code
        split
        · exact h1
        · split
          · exact valInv_frame h1 rfl (Nat.le_refl _) (updEnt_value (setPool _ _ none) _ _ (fun _ => rfl))
          · exact valInv_frame h1 rfl (Nat.le_refl _) (updEnt_value _ _ _ (fun _ => rfl))
      · cases hs
  | del2 e =>
    simp only [gstep] at hs
    split at hs
    · split at hs
      · cases hs; exact valInv_frame h rfl (Nat.le_refl _) (updEnt_value s _ _ (fun _ => rfl))
      · split at hs <;> cases hs <;>
          exact valInv_frame h rfl (Nat.le_refl _) (updEnt_value s _ _ (fun _ => rfl))
    · cases hs
  | del3 e =>
    simp only [gstep] at hs
    split at hs
    · cases hs; exact valInv_frame h rfl (Nat.le_refl _) (updEnt_value s _ _ (fun _ => rfl))
    · cases hs
  | refs k => simp only [gstep] at hs; cases hs; exact h
  | range => simp only [gstep] at hs; cases hs; exact h

theorem valInv_init : ValInv G.init :=
  ⟨fun e _ he _ => absurd he (Nat.not_lt_zero e), fun e _ _ he _ _ _ => absurd he (Nat.not_lt_zero e)⟩

theorem valInv_run : ∀ (ls : List Label) (s s' : G), ValInv s → cleanRun s ls = true →
    runLabels s ls = some s' → ValInv s'
  | [], s, s', h, _, hr => by simp only [runLabels] at hr; cases hr; exact h
  | l :: ls, s, s', h, hc, hr => by
    simp only [runLabels] at hr
    simp only [cleanRun, Bool.and_eq_true, Bool.not_eq_true'] at hc
    cases hg : gstep s l with
    | none => rw [hg] at hr; cases hr
    | some s1 =>
      rw [hg] at hr
      have hc2 := hc.2
      rw [hg] at hc2
      exact valInv_run ls s1 s' (valInv_step h hc.1 hg) hc2 hr

end CaddyModel.C04
