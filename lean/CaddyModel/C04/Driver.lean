/-
C04 line-protocol driver.

  sched <nk> <programs> <schedule>

* `nk`        number of keys, one digit 1…4 (keys are 0 … nk-1)
* `programs`  threads separated by `;` (1…6 threads), each a `,`-separated list of at most 8
              operations or `-` (no operation):
                `N<k>o` LoadOrNew(k, constructor succeeds)   `N<k>f` LoadOrNew(k, constructor fails)
                `S<k>`  LoadOrStore(k, fresh value)          `D<k>`  Delete(k)
                `d<k>`  Delete(k) if the thread holds k, else skip
                `R<k>`  References(k)                        `G`     Range
* `schedule`  `-` or a string of at most 200 digits: the thread that runs its next lock region.
              After the schedule the lowest-numbered enabled thread runs until nothing is enabled.

  stress <seed> <threads 2…8> <iters 1…5000> <nk 1…4> <a|b>
      un-forced run with real goroutine scheduling (see harness/internal/c04/stress.go); the answer is
      the constant `stress-ok`, the verdict is the implementation-side oracle's

Answer: `;`-joined event tokens `<thread>:<event>/<References of every key>` and a final
`end:ok:<Range listing>` | `end:deadlock`.
-/
import CaddyModel.C04.Model

namespace CaddyModel.C04

def digit? (c : Char) : Option Nat :=
  if '0' ≤ c ∧ c ≤ '9' then some (c.toNat - 48) else none

def parseOp (nk : Nat) (s : String) : Option Op :=
  match s.toList with
  | ['N', k, 'o'] => (digit? k).bind fun k => if k < nk then some (.ln k true) else none
  | ['N', k, 'f'] => (digit? k).bind fun k => if k < nk then some (.ln k false) else none
  | ['S', k] => (digit? k).bind fun k => if k < nk then some (.ls k) else none
  | ['D', k] => (digit? k).bind fun k => if k < nk then some (.del k) else none
  | ['d', k] => (digit? k).bind fun k => if k < nk then some (.cdel k) else none
  | ['R', k] => (digit? k).bind fun k => if k < nk then some (.refs k) else none
  | ['Z', k] => (digit? k).bind fun k => if k < nk then some (.lsp k) else none
  | ['P', k] => (digit? k).bind fun k => if k < nk then some (.lsp k) else none
  | ['G'] => some .range
  | ['c'] => some .closeAll
  | ['A', k] => (digit? k).bind fun k => if k < nk then some (listenerOp (.listen k)) else none
  | ['F', k] => (digit? k).bind fun k => if k < nk then some (listenerOp (.listenFails k)) else none
  | ['L', k, 'g'] => (digit? k).bind fun k => if k < nk then some (logSetupOp k .good) else none
  | ['L', k, 'b'] => (digit? k).bind fun k => if k < nk then some (logSetupOp k .badLevel) else none
  | ['L', k, 'e'] => (digit? k).bind fun k => if k < nk then some (logSetupOp k .encoderFails) else none
  | ['O', k, 'o'] => (digit? k).bind fun k => if k < nk then some (.ln k true) else none
  | ['O', k, 'f'] => (digit? k).bind fun k => if k < nk then some (.ln k false) else none
  | _ => none

def parseProg (nk : Nat) (s : String) : Option (List Op) :=
  if s == "-" then some [] else
  ((s.splitOn ",").mapM (parseOp nk)).bind fun ops => if ops.length ≤ 8 then some ops else none

def parseProgs (nk : Nat) (s : String) : Option (List (List Op)) :=
  ((s.splitOn ";").mapM (parseProg nk)).bind fun ps =>
    if 1 ≤ ps.length ∧ ps.length ≤ 6 then some ps else none

def parseSched (nt : Nat) (s : String) : Option (List Nat) :=
  if s == "-" then some [] else
  (s.toList.mapM fun c => (digit? c).bind fun t => if t < nt then some t else none).bind fun l =>
    if l.length ≤ 200 then some l else none

def parseNk (s : String) : Option Nat :=
  match s.toList with
  | [c] => (digit? c).bind fun n => if 1 ≤ n ∧ n ≤ 4 then some n else none
  | _ => none

/-- decimal number of at most 9 digits within `[lo, hi]` -/
def numIn (s : String) (lo hi : Nat) : Bool :=
  let cs := s.toList
  !cs.isEmpty && cs.length ≤ 9 && cs.all (fun c => (digit? c).isSome) &&
    (match s.toNat? with
     | some n => lo ≤ n && n ≤ hi
     | none => false)

/-- `writers` lines: only the client operations -/
def clientProg (s : String) : Bool :=
  s.toList.all fun c => c == 'O' || c == 'o' || c == 'f' || c == 'c' || c == 'L' || c == 'g' || c == 'b' || c == 'e' ||
    c == ',' || c == ';' || c == '-' || (digit? c).isSome

def plainProg (s : String) : Bool :=
  s.toList.all fun c => c != 'O' && c != 'c' && c != 'P' && c != 'L' && c != 'A' && c != 'F'

/-- `hosts` lines: only `P<k>` and `c` -/
def hostsProg (s : String) : Bool :=
  s.toList.all fun c => c == 'P' || c == 'c' || c == ',' || c == ';' || c == '-' || (digit? c).isSome

/-- `requests` lines: one client call = a group of pool operations -/
def parseReqKeys (nk : Nat) (cs : List Char) : Option (List Nat) :=
  if cs == ['-'] then some [] else
  if cs.isEmpty || cs.length > 3 then none else
  cs.mapM fun c => (digit? c).bind fun k => if k < nk then some k else none

def parseReqOp (nk : Nat) (s : String) : Option (Char × List Op) :=
  match s.toList with
  | ['c'] => some ('c', [.closeAll])
  | 'H' :: ks => if ks == ['-'] then none else (parseReqKeys nk ks).map fun l => ('H', handlerLoadOps l)
  | 'Q' :: ks => (parseReqKeys nk ks).map fun l => ('Q', requestOps l)
  | _ => none

def parseReqProg (nk : Nat) (s : String) : Option (List (List Op)) :=
  if s == "-" then some [] else
  ((s.splitOn ",").mapM (parseReqOp nk)).bind fun ops =>
    let kinds := ops.map (·.1)
    -- a handler is loaded first and only once; `c` is last and not first
    if ops.length ≤ 8 && kinds.head? == some 'H' && !(kinds.drop 1).contains 'H' && !(kinds.dropLast.contains 'c')
    then some (ops.map (·.2)) else none

def parseReqNk (s : String) : Option Nat :=
  match s.toList with
  | [c] => (digit? c).bind fun n => if 1 ≤ n ∧ n ≤ 3 then some n else none
  | _ => none

def handle : List String → String
  | ["stress", seed, nt, iters, nk, mode] =>
    -- un-forced run: nothing to compare but the well-formedness of the line
    if numIn seed 0 999999999 && numIn nt 2 8 && numIn iters 1 5000 && numIn nk 1 4 && (mode == "a" || mode == "b")
    then "stress-ok" else "bad-op"
  | ["requests", nk, progs, sched] =>
    -- the reverse proxy's per-handler and per-request clients of the hosts pool through the real Handler
    -- (Provision, ServeHTTP with a dynamic upstream source, Cleanup), whole calls: `H<keys>` load a handler with
    -- these static upstreams, `Q<keys>` one request whose dynamic source returns these addresses, `c` unload
    match parseReqNk nk with
    | none => "bad-op"
    | some nk =>
      match (progs.splitOn ";").mapM (parseReqProg nk) with
      | none => "bad-op"
      | some ps =>
        if ps.length < 1 || ps.length > 6 then "bad-op" else
        match parseSched ps.length sched with
        | none => "bad-op"
        | some sc => runCaseGroups nk ps sc
  | ["listeners", nk, progs, sched] =>
    -- the unix listener glue (listen_unix.go) through the public API, whole calls: `A<k>` NetworkAddress.Listen on
    -- address k succeeds, `F<k>` the bind is refused, `c` the config closes all its listeners (last operation)
    if !(progs.toList.all fun c => c == 'A' || c == 'F' || c == 'c' || c == ',' || c == ';' || c == '-' || (digit? c).isSome)
    then "bad-op" else
    match parseNk nk with
    | none => "bad-op"
    | some nk =>
      match parseProgs nk progs with
      | none => "bad-op"
      | some ps =>
        if ps.any (fun p => p.dropLast.contains .closeAll) || nk > 2 then "bad-op" else
        match parseSched ps.length sched with
        | none => "bad-op"
        | some sc => runCaseAtomic nk ps sc
  | ["hosts", nk, progs, sched] =>
    -- the same model, driven through the real reverse-proxy client of the hosts pool:
    -- `P<k>` Handler.provisionUpstream of an upstream with dial address k (fillHost → LoadOrStore of a
    -- *Host, which is not a Destructor), `c` Handler.Cleanup (Delete for every provisioned upstream)
    if !hostsProg progs then "bad-op" else
    match parseNk nk with
    | none => "bad-op"
    | some nk =>
      match parseProgs nk progs with
      | none => "bad-op"
      | some ps =>
        if ps.any (fun p => p.dropLast.contains .closeAll) then "bad-op" else
        match parseSched ps.length sched with
        | none => "bad-op"
        | some sc => runCase nk ps sc
  | ["writers", nk, progs, sched] =>
    -- the same model, driven through the real log-writer client (Logging.openWriter / closeLogs):
    -- `O<k>o` / `O<k>f` openWriter with key k whose OpenWriter succeeds / fails, `c` closeLogs,
    -- `L<k>g` / `L<k>b` / `L<k>e` a whole log set-up (BaseLog.provisionCommon) on writer key k that comes up /
    -- fails on its level / fails on its encoder AFTER the writer was opened (`logSetupOp`)
    if !clientProg progs then "bad-op" else
    match parseNk nk with
    | none => "bad-op"
    | some nk =>
      match parseProgs nk progs with
      | none => "bad-op"
      | some ps =>
        -- closeLogs is the last thing a Logging does (it keeps its writerKeys, so it is not reusable);
        -- key 3 is reserved for `sched` lines (openWriter hides the value a failed constructor returns)
        if ps.any (fun p => p.dropLast.contains .closeAll) || nk > 3 then "bad-op" else
        match parseSched ps.length sched with
        | none => "bad-op"
        | some sc => runCase nk ps sc
  | ["sched", nk, progs, sched] =>
    if !plainProg progs then "bad-op" else
    match parseNk nk with
    | none => "bad-op"
    | some nk =>
      match parseProgs nk progs with
      | none => "bad-op"
      | some ps =>
        match parseSched ps.length sched with
        | none => "bad-op"
        | some sc => runCase nk ps sc
  | _ => "bad-op"

/-- counter-example lines replayed on the implementation on every run: none — no clause of the
    property is known to fail on the repaired code -/
def witnessLines : List String := []   -- the former witnesses are regression lines in corpus/C04/fixed-findings.txt

end CaddyModel.C04
