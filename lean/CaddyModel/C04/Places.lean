/-
C04 — the six in-flight places of the net are the program counters of the named threads:
`ctor e` = number of threads inside the constructor of `e`, `waiters e` = number of threads
parked before `upv.RLock()` of `e`, … .  With `Clients.lean` (holders = what the threads remember)
every ghost counter of `G` is now tied to the executable thread-level model, for all programs
and schedules.  Consequence: when every thread has finished its program, no call is in flight
anywhere (`quietEntry` for every entry) — a theorem, not a hypothesis.
-/
import CaddyModel.C04.Clients
import CaddyModel.C04.NoPanic

namespace CaddyModel.C04

inductive Place where
  | ctor | failing | waiters | lsWaiters | del2 | del3
deriving DecidableEq, Repr

def placeOf (E : Entry) : Place → Nat
  | .ctor => E.ctor
  | .failing => E.failing
  | .waiters => E.waiters
  | .lsWaiters => E.lsWaiters
  | .del2 => E.del2
  | .del3 => E.del3

/-- where a thread is parked: place and entry -/
def pcAt : PC → Option (Place × Nat)
  | .idle => none
  | .ctor e => some (.ctor, e)
  | .lnFail e => some (.failing, e)
  | .lnWait e => some (.waiters, e)
  | .lsWait e _ => some (.lsWaiters, e)
  | .delRead e => some (.del2, e)
  | .destruct e _ => some (.del3, e)

def atPlace (p : Place) (e : Nat) (th : Thread) : Nat := if pcAt th.pc = some (p, e) then 1 else 0

def placeCount (ths : List Thread) (p : Place) (e : Nat) : Nat := (ths.map (atPlace p e)).sum

/-- the place a region takes its token from -/
def tokDec : Label → Option (Place × Nat)
  | .ctorOk e | .ctorErr e => some (.ctor, e)
  | .lnFailDel e => some (.failing, e)
  | .lnRead e => some (.waiters, e)
  | .lsRead e _ => some (.lsWaiters, e)
  | .del2 e => some (.del2, e)
  | .del3 e => some (.del3, e)
  | _ => none

/-- the first region of `Delete(k)` parks its caller before `upv.RLock()` iff it brought the count to 0 -/
def del1Tok (g : G) (k : Nat) : Option (Place × Nat) :=
  match g.pool k with
  | some e => if (g.ent e).refs - 1 = 0 then some (.del2, e) else none
  | none => none

/-- the place a region puts a token into (evaluated in the state before the region) -/
def tokInc (g : G) : Label → Option (Place × Nat)
  | .lnLookup k => match g.pool k with
    | some e => some (.waiters, e)
    | none => some (.ctor, g.next)
  | .lsLookup k | .lspLookup k => match g.pool k with
    | some e => some (.lsWaiters, e)
    | none => none
  | .ctorErr e => some (.failing, e)
  | .del1 k _ => del1Tok g k
  | .del2 e => if (g.ent e).value.isSome = true ∧ (g.ent e).plain = false then some (.del3, e) else none
  | _ => none

def ind (o : Option (Place × Nat)) (p : Place) (e : Nat) : Nat := if o = some (p, e) then 1 else 0

theorem updEnt_ent (g : G) (e0 : Nat) (f : Entry → Entry) (e : Nat) :
    (updEnt g e0 f).ent e = if e = e0 then f (g.ent e) else g.ent e := by
  unfold updEnt; by_cases h : e = e0 <;> simp [h]



theorem del1Code_places (g : G) (k : Nat) (p : Place) (e : Nat) :
    placeOf ((del1Code g k).ent e) p
      = placeOf (g.ent e) p + ind (del1Tok g k) p e := by
  unfold del1Code del1Tok
  cases hp : g.pool k with
  | none => simp [ind]
  | some e1 =>
    simp only
    split
    · rw [updEnt_ent]
      by_cases he : e = e1
      · subst he; cases p <;> simp [placeOf, ind, setPool]
      · have : ¬ (some (Place.del2, e1) = some (p, e)) := by
          intro h; cases h; exact he rfl
        simp [he, ind, this, setPool]
    · rw [updEnt_ent]
      by_cases he : e = e1
      · subst he; cases p <;> simp [placeOf, ind]
      · simp [he, ind]

theorem ind_ne {q p : Place} {e0 e : Nat} (h : e ≠ e0) : ind (some (q, e0)) p e = 0 := by
  have : ¬ (some (q, e0) = some (p, e)) := by intro h'; cases h'; exact h rfl
  simp [ind, this]

theorem ind_none (p : Place) (e : Nat) : ind none p e = 0 := by simp [ind]

theorem gstep_places {g g' : G} {l : Label} (h : gstep g l = some g') (p : Place) (e : Nat) (he : e < g'.next) :
    placeOf (g'.ent e) p + ind (tokDec l) p e
      = (if e < g.next then placeOf (g.ent e) p else 0) + ind (tokInc g l) p e := by
  cases l with
  | lnLookup k =>
    simp only [gstep] at h
    split at h
    · rename_i e1 hp
      cases h
      have he' : e < g.next := he
      simp only [tokDec, tokInc, hp, he', if_true, updEnt_ent]
      by_cases hee : e = e1
      · subst hee; cases p <;> simp [placeOf, ind]
      · have : ¬ (some (Place.waiters, e1) = some (p, e)) := by intro h; cases h; exact hee rfl
        simp [hee, ind, this]
    · rename_i hp
      cases h
      have he' : e < g.next + 1 := he
      simp only [tokDec, tokInc, hp]
      by_cases hn : e = g.next
      · subst hn; cases p <;> simp [placeOf, ind, alloc, newCtorEntry]
      · have hlt : e < g.next := by omega
        have : ¬ (some (Place.ctor, g.next) = some (p, e)) := by intro h; cases h; exact hn rfl
        simp [alloc, hn, hlt, ind, this]
  | lsLookup k =>
    simp only [gstep] at h
    split at h
    · rename_i e1 hp
      cases h
      have he' : e < g.next := he
      simp only [tokDec, tokInc, hp, he', if_true, bumpVal_ent, updEnt_ent]
      by_cases hee : e = e1
      · subst hee; cases p <;> simp [placeOf, ind]
      · simp [hee, ind_ne hee, ind_none]
    · rename_i hp
      cases h
      have he' : e < g.next + 1 := he
      simp only [tokDec, tokInc, hp, bumpVal_ent]
      by_cases hn : e = g.next
      · subst hn; cases p <;> simp [placeOf, ind, alloc, newStoredEntry]
      · have hlt : e < g.next := by omega
        simp [alloc, hn, hlt, ind]
  | lspLookup k =>
    simp only [gstep] at h
    split at h
    · rename_i e1 hp
      cases h
      have he' : e < g.next := he
      simp only [tokDec, tokInc, hp, he', if_true, bumpVal_ent, updEnt_ent]
      by_cases hee : e = e1
      · subst hee; cases p <;> simp [placeOf, ind]
      · simp [hee, ind_ne hee, ind_none]
    · rename_i hp
      cases h
      have he' : e < g.next + 1 := he
      simp only [tokDec, tokInc, hp, bumpVal_ent]
      by_cases hn : e = g.next
      · subst hn; cases p <;> simp [placeOf, ind, alloc, newPlainEntry]
      · have hlt : e < g.next := by omega
        simp [alloc, hn, hlt, ind]
  | ctorOk e0 =>
    simp only [gstep] at h
    split at h
    · rename_i hg
      cases h
      have he' : e < g.next := he
      simp only [tokDec, tokInc, he', if_true, bumpVal_ent, updEnt_ent]
      by_cases hee : e = e0
      · subst hee; cases p <;> simp [placeOf, ind] <;> omega
      · simp [hee, ind_ne hee, ind_none]
    · cases h
  | ctorErr e0 =>
    simp only [gstep] at h
    split at h
    · rename_i hg
      cases h
      have he' : e < g.next := he
      simp only [tokDec, tokInc, he', if_true, updEnt_ent]
      by_cases hee : e = e0
      · subst hee; cases p <;> simp [placeOf, ind] <;> omega
      · simp [hee, ind_ne hee]
    · cases h
  | lnFailDel e0 =>
    simp only [gstep] at h
    split at h
    · rename_i hg
      cases h
      have he' : e < g.next := he
      simp only [tokDec, tokInc, he', if_true, updEnt_ent]
      by_cases hee : e = e0
      · subst hee; cases p <;> simp [placeOf, ind, setPool] <;> omega
      · simp [hee, ind_ne hee, ind_none, setPool]
    · cases h
  | lnRead e0 =>
    simp only [gstep] at h
    split at h
    · rename_i hg
      split at h <;> cases h <;>
      · have he' : e < g.next := he
        simp only [tokDec, tokInc, he', if_true, updEnt_ent]
        by_cases hee : e = e0
        · subst hee; cases p <;> simp [placeOf, ind] <;> omega
        · simp [hee, ind_ne hee, ind_none]
    · cases h
  | lsRead e0 v =>
    simp only [gstep] at h
    split at h
    · rename_i hg
      split at h <;> cases h <;>
      · have he' : e < g.next := he
        simp only [tokDec, tokInc, he', if_true, updEnt_ent]
        by_cases hee : e = e0
        · subst hee; cases p <;> simp [placeOf, ind] <;> omega
        · simp [hee, ind_ne hee, ind_none]
    · cases h
  | del1 k ho =>
    cases ho with
    | none =>
      simp only [gstep] at h; cases h
      have he' : e < g.next := by rw [del1Code_next] at he; exact he
      simp only [tokDec, tokInc, he', if_true, del1Code_places, ind_none]
      omega
    | some e0 =>
      simp only [gstep] at h
      split at h
      · cases h
        have he' : e < g.next := by rw [del1Code_next] at he; exact he
        simp only [tokDec, tokInc, he', if_true, del1Code_places, ind_none]
        have h1 : (updEnt g e0 fun E => { E with holders := E.holders - 1 }).pool = g.pool := rfl
        have h2 : ∀ e1, ((updEnt g e0 fun E => { E with holders := E.holders - 1 }).ent e1).refs = (g.ent e1).refs := by
          intro e1; rw [updEnt_ent]; split <;> simp_all
        have h3 : placeOf ((updEnt g e0 fun E => { E with holders := E.holders - 1 }).ent e) p = placeOf (g.ent e) p := by
          rw [updEnt_ent]; split
          · cases p <;> simp [placeOf]
          · rfl
        have h4 : del1Tok (updEnt g e0 fun E => { E with holders := E.holders - 1 }) k = del1Tok g k := by
          unfold del1Tok
          rw [h1]
          split
          · simp only [h2]
          · rfl
        rw [h3, h4]
        omega
      · cases h
  | del2 e0 =>
    simp only [gstep] at h
    split at h
    · rename_i hg
      split at h
      · rename_i hc
        cases h
        have he' : e < g.next := he
        simp only [tokDec, tokInc, he', if_true, updEnt_ent, hc, and_self]
        by_cases hee : e = e0
        · subst hee; cases p <;> simp [placeOf, ind] <;> omega
        · simp [hee, ind_ne hee]
      · rename_i hc
        split at h <;> cases h <;>
        · have he' : e < g.next := he
          simp only [tokDec, tokInc, he', if_true, updEnt_ent, hc, if_false]
          by_cases hee : e = e0
          · subst hee; cases p <;> simp [placeOf, ind] <;> omega
          · simp [hee, ind_ne hee, ind_none]
    · cases h
  | del3 e0 =>
    simp only [gstep] at h
    split at h
    · rename_i hg
      cases h
      have he' : e < g.next := he
      simp only [tokDec, tokInc, he', if_true, updEnt_ent]
      by_cases hee : e = e0
      · subst hee; cases p <;> simp [placeOf, ind] <;> omega
      · simp [hee, ind_ne hee, ind_none]
    · cases h
  | refs k => simp only [gstep] at h; cases h; simp [tokDec, tokInc, ind, (he : e < g.next)]
  | range => simp only [gstep] at h; cases h; simp [tokDec, tokInc, ind, (he : e < g.next)]


/-- what one move does to the thread's program counter: it is the token move of its label -/
def PcMove (g : G) (th th' : Thread) (ls : List Label) : Prop :=
  ((ls = [] ∧ pcAt th'.pc = pcAt th.pc) ∨ ∃ l, ls = [l] ∧ pcAt th.pc = tokDec l ∧ pcAt th'.pc = tokInc g l)
  ∧ (th'.prog = [] → th'.pc = .idle)

theorem delStartWith_pc {g : G} {k : Nat} {h : Option Nat} {held' : List (Nat × Nat)} {stay after : List Op}
    {th th' : Thread} {ls : List Label} {ev : String} (hpc : th.pc = .idle) (hstay : stay ≠ [])
    (hm : delStartWith g k h held' stay after = .go ls th' ev) : PcMove g th th' ls := by
  unfold delStartWith at hm
  split at hm
  · rename_i hp
    cases hm
    exact ⟨Or.inr ⟨_, rfl, by simp [hpc, pcAt, tokDec], by simp [pcAt, tokInc, del1Tok, hp]⟩, fun _ => rfl⟩
  · rename_i e hp
    split at hm
    · rename_i hz
      cases hm
      exact ⟨Or.inr ⟨_, rfl, by simp [hpc, pcAt, tokDec], by simp [pcAt, tokInc, del1Tok, hp, hz]⟩,
        fun h0 => absurd h0 hstay⟩
    · rename_i hz
      split at hm <;> cases hm <;>
        exact ⟨Or.inr ⟨_, rfl, by simp [hpc, pcAt, tokDec], by simp [pcAt, tokInc, del1Tok, hp, hz]⟩, fun _ => rfl⟩

theorem delRead_pc {g : G} {th th' : Thread} {e : Nat} {after : List Op} {ls : List Label} {ev : String}
    (hpc : th.pc = .delRead e) (hprog : th.prog ≠ [])
    (hm : delRead g th e after = .go ls th' ev) : PcMove g th th' ls := by
  unfold delRead at hm
  split at hm
  · cases hm
  · split at hm
    · rename_i v hv
      split at hm
      · rename_i hpl
        cases hm
        exact ⟨Or.inr ⟨_, rfl, by simp [hpc, pcAt, tokDec], by simp [pcAt, tokInc, hv, hpl]⟩, fun _ => rfl⟩
      · rename_i hpl
        cases hm
        have hpl' : (g.ent e).plain = false := by simpa using hpl
        exact ⟨Or.inr ⟨_, rfl, by simp [hpc, pcAt, tokDec], by simp [pcAt, tokInc, hv, hpl']⟩,
          fun h0 => absurd h0 hprog⟩
    · rename_i hv
      cases hm
      exact ⟨Or.inr ⟨_, rfl, by simp [hpc, pcAt, tokDec], by simp [pcAt, tokInc, hv]⟩, fun _ => rfl⟩

theorem tmove_pc {nk : Nat} {g : G} {th th' : Thread} {ls : List Label} {ev : String}
    (hm : tmove nk g th = .go ls th' ev) : PcMove g th th' ls := by
  obtain ⟨prog, pc, held⟩ := th
  cases prog with
  | nil => simp [tmove] at hm
  | cons op rest =>
    cases pc <;> cases op <;> simp only [tmove] at hm
    all_goals try (cases hm; done)
    case idle.ln k b =>
      split at hm
      · rename_i e hp; cases hm
        exact ⟨Or.inr ⟨_, rfl, by simp [pcAt, tokDec], by simp [pcAt, tokInc, hp]⟩, fun h0 => by cases h0⟩
      · rename_i hp; cases hm
        exact ⟨Or.inr ⟨_, rfl, by simp [pcAt, tokDec], by simp [pcAt, tokInc, hp]⟩, fun h0 => by cases h0⟩
    case idle.ls k =>
      split at hm
      · rename_i e hp; cases hm
        exact ⟨Or.inr ⟨_, rfl, by simp [pcAt, tokDec], by simp [pcAt, tokInc, hp]⟩, fun h0 => by cases h0⟩
      · rename_i hp; cases hm
        exact ⟨Or.inr ⟨_, rfl, by simp [pcAt, tokDec], by simp [pcAt, tokInc, hp]⟩, fun _ => rfl⟩
    case idle.lsp k =>
      split at hm
      · rename_i e hp; cases hm
        exact ⟨Or.inr ⟨_, rfl, by simp [pcAt, tokDec], by simp [pcAt, tokInc, hp]⟩, fun h0 => by cases h0⟩
      · rename_i hp; cases hm
        exact ⟨Or.inr ⟨_, rfl, by simp [pcAt, tokDec], by simp [pcAt, tokInc, hp]⟩, fun _ => rfl⟩
    case idle.del k => exact delStartWith_pc rfl (by simp) hm
    case idle.cdel k =>
      split at hm
      · cases hm; exact ⟨Or.inl ⟨rfl, rfl⟩, fun _ => rfl⟩
      · exact delStartWith_pc rfl (by simp) hm
    case idle.refs k => cases hm; exact ⟨Or.inr ⟨_, rfl, by simp [pcAt, tokDec], by simp [pcAt, tokInc]⟩, fun _ => rfl⟩
    case idle.range => cases hm; exact ⟨Or.inr ⟨_, rfl, by simp [pcAt, tokDec], by simp [pcAt, tokInc]⟩, fun _ => rfl⟩
    case idle.closeAll =>
      split at hm
      · cases hm; exact ⟨Or.inl ⟨rfl, rfl⟩, fun _ => rfl⟩
      · exact delStartWith_pc rfl (by simp) hm
    case ctor.ln e k b =>
      cases b
      · simp only at hm; cases hm
        exact ⟨Or.inr ⟨_, rfl, by simp [pcAt, tokDec], by simp [pcAt, tokInc]⟩, fun h0 => by cases h0⟩
      · simp only at hm; cases hm
        exact ⟨Or.inr ⟨_, rfl, by simp [pcAt, tokDec], by simp [pcAt, tokInc]⟩, fun _ => rfl⟩
    case lnFail.ln e k b =>
      cases hm; exact ⟨Or.inr ⟨_, rfl, by simp [pcAt, tokDec], by simp [pcAt, tokInc]⟩, fun _ => rfl⟩
    case lnWait.ln e k b =>
      split at hm
      · cases hm
      · cases hm; exact ⟨Or.inr ⟨_, rfl, by simp [pcAt, tokDec], by simp [pcAt, tokInc]⟩, fun _ => rfl⟩
    case lsWait.ls e v k =>
      split at hm
      · cases hm
      · split at hm <;> cases hm
        · exact ⟨Or.inr ⟨_, rfl, by simp [pcAt, tokDec], by simp [pcAt, tokInc]⟩, fun h0 => by cases h0⟩
        · exact ⟨Or.inr ⟨_, rfl, by simp [pcAt, tokDec], by simp [pcAt, tokInc]⟩, fun _ => rfl⟩
    case lsWait.lsp e v k =>
      split at hm
      · cases hm
      · split at hm <;> cases hm
        · exact ⟨Or.inr ⟨_, rfl, by simp [pcAt, tokDec], by simp [pcAt, tokInc]⟩, fun h0 => by cases h0⟩
        · exact ⟨Or.inr ⟨_, rfl, by simp [pcAt, tokDec], by simp [pcAt, tokInc]⟩, fun _ => rfl⟩
    case delRead.del e k => exact delRead_pc rfl (by simp) hm
    case delRead.cdel e k => exact delRead_pc rfl (by simp) hm
    case delRead.closeAll e => exact delRead_pc rfl (by simp) hm
    case destruct.del e v k =>
      cases hm; exact ⟨Or.inr ⟨_, rfl, by simp [pcAt, tokDec], by simp [pcAt, tokInc]⟩, fun _ => rfl⟩
    case destruct.cdel e v k =>
      cases hm; exact ⟨Or.inr ⟨_, rfl, by simp [pcAt, tokDec], by simp [pcAt, tokInc]⟩, fun _ => rfl⟩
    case destruct.closeAll e v =>
      cases hm; exact ⟨Or.inr ⟨_, rfl, by simp [pcAt, tokDec], by simp [pcAt, tokInc]⟩, fun _ => rfl⟩

/-! ### the books of a whole system -/

theorem sum_map_set (f : Thread → Nat) : ∀ (ths : List Thread) (t : Nat) (th th' : Thread), ths[t]? = some th →
    ((ths.set t th').map f).sum + f th = (ths.map f).sum + f th'
  | [], t, th, th', h => by simp at h
  | a :: as, 0, th, th', h => by
    simp at h; subst h
    simp; omega
  | a :: as, t + 1, th, th', h => by
    have := sum_map_set f as t th th' (by simpa using h)
    simp at this ⊢; omega

theorem sum_map_zero (f : Thread → Nat) : ∀ (ths : List Thread), (∀ th ∈ ths, f th = 0) → (ths.map f).sum = 0
  | [], _ => rfl
  | a :: as, h => by
    have h1 := h a (List.mem_cons_self ..)
    have h2 := sum_map_zero f as (fun th hth => h th (List.mem_cons_of_mem _ hth))
    simp [h1, h2]

theorem tokInc_lt {g g' : G} {l : Label} (hmap : MapOk g) (h : gstep g l = some g') {p : Place} {e : Nat}
    (ht : tokInc g l = some (p, e)) : e < g'.next := by
  have hfr := (gstep_frame h).1
  cases l with
  | lnLookup k =>
    simp only [tokInc] at ht
    cases hp : g.pool k with
    | some e1 =>
      rw [hp] at ht; cases ht
      exact Nat.lt_of_lt_of_le (hmap k e hp).1 hfr
    | none =>
      rw [hp] at ht; cases ht
      simp only [gstep, hp] at h; cases h
      exact Nat.lt_succ_self _
  | lsLookup k =>
    simp only [tokInc] at ht
    cases hp : g.pool k with
    | some e1 => rw [hp] at ht; cases ht; exact Nat.lt_of_lt_of_le (hmap k e hp).1 hfr
    | none => rw [hp] at ht; cases ht
  | lspLookup k =>
    simp only [tokInc] at ht
    cases hp : g.pool k with
    | some e1 => rw [hp] at ht; cases ht; exact Nat.lt_of_lt_of_le (hmap k e hp).1 hfr
    | none => rw [hp] at ht; cases ht
  | ctorErr e0 =>
    simp only [tokInc] at ht; cases ht
    simp only [gstep] at h
    split at h
    · rename_i hg; exact Nat.lt_of_lt_of_le hg.1 hfr
    · cases h
  | del1 k ho =>
    simp only [tokInc, del1Tok] at ht
    cases hp : g.pool k with
    | some e1 =>
      rw [hp] at ht
      simp only at ht
      split at ht
      · cases ht; exact Nat.lt_of_lt_of_le (hmap k e hp).1 hfr
      · cases ht
    | none => rw [hp] at ht; cases ht
  | del2 e0 =>
    simp only [tokInc] at ht
    split at ht
    · cases ht
      simp only [gstep] at h
      split at h
      · rename_i hg; exact Nat.lt_of_lt_of_le hg.1 hfr
      · cases h
    · cases ht
  | ctorOk e0 => simp [tokInc] at ht
  | lnFailDel e0 => simp [tokInc] at ht
  | lnRead e0 => simp [tokInc] at ht
  | lsRead e0 v => simp [tokInc] at ht
  | del3 e0 => simp [tokInc] at ht
  | refs k => simp [tokInc] at ht
  | range => simp [tokInc] at ht

/-- every in-flight counter of every allocated entry is the number of threads parked at that place -/
structure PlaceBooks (y : Sys) : Prop where
  count : ∀ p e, e < y.g.next → placeOf (y.g.ent e) p = placeCount y.threads p e
  ok : ∀ th ∈ y.threads, ∀ p e, pcAt th.pc = some (p, e) → e < y.g.next
  fin : ∀ th ∈ y.threads, th.prog = [] → th.pc = .idle
  map : MapOk y.g

theorem atPlace_eq (p : Place) (e : Nat) (th : Thread) : atPlace p e th = ind (pcAt th.pc) p e := rfl

theorem placeBooks_tstep (nk : Nat) (y : Sys) (t : Nat) (h : PlaceBooks y) : PlaceBooks (tstep nk y t) := by
  unfold tstep
  split
  · exact ⟨h.count, h.ok, h.fin, h.map⟩
  · rename_i th hth
    split
    · exact ⟨h.count, h.ok, h.fin, h.map⟩
    · exact ⟨h.count, h.ok, h.fin, h.map⟩
    · exact ⟨h.count, h.ok, h.fin, h.map⟩
    · rename_i ls th' ev hm
      split
      · exact ⟨h.count, h.ok, h.fin, h.map⟩
      · rename_i g' hr
        have hmem : th ∈ y.threads := List.mem_of_getElem? hth
        obtain ⟨hmove, hfin'⟩ := tmove_pc hm
        have hmap' : MapOk g' := mapOk_run ls y.g g' h.map hr
        -- the facts about this move, uniformly for the two shapes of `ls`
        have key : y.g.next ≤ g'.next ∧
            (∀ p e, e < g'.next → placeOf (g'.ent e) p + atPlace p e th
                = (if e < y.g.next then placeOf (y.g.ent e) p else 0) + atPlace p e th') ∧
            (∀ p e, pcAt th'.pc = some (p, e) → e < g'.next) := by
          rcases hmove with ⟨hls, hpc⟩ | ⟨l, hls, hdec, hinc⟩
          · subst hls
            simp only [runLabels] at hr; cases hr
            refine ⟨Nat.le_refl _, ?_, ?_⟩
            · intro p e he; simp [he, atPlace_eq, hpc]
            · intro p e hp; rw [hpc] at hp; exact h.ok th hmem p e hp
          · subst hls
            have hg := runLabels_single hr
            refine ⟨(gstep_frame hg).1, ?_, ?_⟩
            · intro p e he
              have := gstep_places hg p e he
              rw [atPlace_eq, atPlace_eq, hdec, hinc]
              omega
            · intro p e hp; rw [hinc] at hp; exact tokInc_lt h.map hg hp
        obtain ⟨hmono, hbal, hok'⟩ := key
        refine ⟨?_, ?_, ?_, hmap'⟩
        · intro p e he
          have he' : e < g'.next := he
          have hset := sum_map_set (atPlace p e) y.threads t th th' hth
          have hb := hbal p e he'
          show placeOf (g'.ent e) p = placeCount (y.threads.set t th') p e
          unfold placeCount at *
          by_cases hlt : e < y.g.next
          · have := h.count p e hlt
            unfold placeCount at this
            simp only [hlt, if_true] at hb
            omega
          · have hz : ∀ th2 ∈ y.threads, atPlace p e th2 = 0 := by
              intro th2 hth2
              rw [atPlace_eq]
              unfold ind
              split
              · rename_i hp; exact absurd (h.ok th2 hth2 p e hp) hlt
              · rfl
            have h0 := hz th hmem
            have h1 := sum_map_zero (atPlace p e) y.threads hz
            simp only [hlt, if_false] at hb
            omega
        · intro th2 hth2 p e hp
          show e < g'.next
          rcases List.mem_or_eq_of_mem_set hth2 with hm2 | hm2
          · exact Nat.lt_of_lt_of_le (h.ok th2 hm2 p e hp) hmono
          · subst hm2; exact hok' p e hp
        · intro th2 hth2
          rcases List.mem_or_eq_of_mem_set hth2 with hm2 | hm2
          · exact h.fin th2 hm2
          · subst hm2; exact hfin'

theorem placeBooks_foldl (nk : Nat) : ∀ (sched : List Nat) (y : Sys), PlaceBooks y → PlaceBooks (sched.foldl (tstep nk) y)
  | [], _, h => h
  | t :: ts, y, h => placeBooks_foldl nk ts (tstep nk y t) (placeBooks_tstep nk y t h)

theorem placeBooks_drain (nk : Nat) : ∀ (fuel : Nat) (y : Sys), PlaceBooks y → PlaceBooks (drain nk fuel y)
  | 0, _, h => h
  | fuel + 1, y, h => by
    unfold drain
    split
    · exact h
    · exact placeBooks_drain nk fuel _ (placeBooks_tstep nk y _ h)

theorem placeBooks_runSched (nk : Nat) (progs : List (List Op)) (sched : List Nat) :
    PlaceBooks (runSched nk progs sched) := by
  unfold runSched
  refine placeBooks_drain nk _ _ (placeBooks_foldl nk sched _ ⟨?_, ?_, ?_, mapOk_init⟩)
  · intro p e he; exact absurd he (Nat.not_lt_zero _)
  · intro th hth p e hp
    simp only [List.mem_map] at hth
    obtain ⟨q, _, rfl⟩ := hth
    simp [pcAt] at hp
  · intro th hth _
    simp only [List.mem_map] at hth
    obtain ⟨q, _, rfl⟩ := hth
    rfl

/-- when every thread has finished its program no call is in flight on any entry -/
theorem finished_quiet {y : Sys} (h : PlaceBooks y) (hall : allFinished y.threads = true) {e : Nat}
    (he : e < y.g.next) : quietEntry (y.g.ent e) := by
  have hidle : ∀ th ∈ y.threads, th.pc = .idle := by
    intro th hth
    apply h.fin th hth
    have := List.all_eq_true.mp hall th hth
    simpa using this
  have hz : ∀ p, placeOf (y.g.ent e) p = 0 := by
    intro p
    rw [h.count p e he]
    unfold placeCount
    apply sum_map_zero
    intro th hth
    simp [atPlace, hidle th hth, pcAt]
  exact ⟨hz .ctor, hz .failing, hz .waiters, hz .lsWaiters, hz .del2, hz .del3⟩

end CaddyModel.C04
