/-
C04 — regenerated tie (tools/extract → Gen/UsagePoolSync.lean, rebuilt from /repo on every run).
The model's atomic regions are the stretches of usagepool.go between two yield points; the forced
schedules of the harness can only interleave where a `verifYield` call sits. This file checks, on the
source as it is now, (1) that the set of (method, yield point) pairs is the table the model and the
harness assume, and (2) that every lock acquisition which follows a release inside the same method —
i.e. every place where another goroutine can get in — has a yield point between that release and the
acquisition, along every control-flow path of the method (`Gen.usagePoolPaths`: if/else and early returns
followed, a loop body taken at most once) — so no interleaving point of the real code is missing from the
schedules.
-/
import CaddyModel.Gen.UsagePoolSync
import CaddyModel.Gen.LogWriterCloses

namespace CaddyModel.C04

/-- prefix test on character lists (kernel-reducible, unlike `String.startsWith`) -/
def pre (p e : String) : Bool := p.toList.isPrefixOf e.toList

def isAcquire (e : String) : Bool := pre "Lock:" e || pre "RLock:" e || pre "TryRLock:" e || pre "TryLock:" e
def isRelease (e : String) : Bool := pre "Unlock:" e || pre "RUnlock:" e
def isYield (e : String) : Bool := pre "yield:" e

/-- scan one method: `open_` = a release has happened and no yield point since -/
def reacquireCovered : List String → Bool → Bool
  | [], _ => true
  | e :: es, open_ =>
    if isYield e then reacquireCovered es false
    else if isRelease e then reacquireCovered es true
    else if isAcquire e then (!open_) && reacquireCovered es open_
    else reacquireCovered es open_

def yieldPointsOf (m : String × List String) : List (String × String) :=
  (m.2.filter isYield).map fun y => (m.1, y)

/-- the yield-point table assumed by `Model.lean` / `harness/internal/c04/sched.go` -/
def expectedYieldPoints : List (String × String) :=
  [("LoadOrNew", "yield:1"), ("LoadOrNew", "yield:2"), ("LoadOrStore", "yield:3"), ("LoadOrStore", "yield:7"),
   ("Delete", "yield:8"), ("Delete", "yield:4")]

/-- methods of UsagePool that contain any lock operation or yield point (a helper without any — such as a
    lookup-and-increment helper called under the caller's lock — is not a region of its own) -/
def syncMethods : List String := (Gen.usagePoolSync.filter (fun m => !m.2.isEmpty)).map (·.1)

def expectedMethods : List String := ["LoadOrNew", "LoadOrStore", "Range", "Delete", "References"]

/-- **regenerated tie.** usagepool.go has exactly the assumed yield points (as a set of (method, point) pairs;
    the order of the methods in the file does not matter), no method re-acquires a lock after a release
    without a yield point in between, and the methods that lock or yield at all are the five modelled ones -/
theorem yield_points_match_source :
    (expectedYieldPoints.all (Gen.usagePoolSync.flatMap yieldPointsOf).contains = true ∧
      (Gen.usagePoolSync.flatMap yieldPointsOf).length = expectedYieldPoints.length) ∧
    Gen.usagePoolPaths.all (fun m => m.2.all fun path => reacquireCovered path false) = true ∧
    (expectedMethods.all syncMethods.contains = true ∧ syncMethods.length = expectedMethods.length) := by decide

/-! ### which region each yield point delimits (what `Model.lean` assumes of them) -/

/-- the event that must follow a yield point directly on every path (`none`: the yield point is the last
    event of its path — point 7 is followed by the recursive call that starts LoadOrStore over) -/
def yieldDelimits : List (String × Option String) :=
  [("yield:1", some "RLock:upv"),   -- LoadOrNew, loaded: region `lnRead` starts here
   ("yield:2", some "Lock:up"),     -- LoadOrNew, constructor failed: region `lnFailDel`
   ("yield:3", some "RLock:upv"),   -- LoadOrStore, loaded: region `lsRead`
   ("yield:4", some "RLock:upv"),   -- Delete, removed at 0: region `del2`
   ("yield:7", none),               -- LoadOrStore starts over: next region is `lsLookup` again
   ("yield:8", some "Lock:up")]     -- Delete entry: region `del1`

def followsOk : List String → Bool
  | [] => true
  | e :: es =>
    (match yieldDelimits.find? (fun d => d.1 == e) with
     | some (_, want) => es.head? == want
     | none => !isYield e) && followsOk es

/-- `Range` / `References` are ONE region each: the pool read lock is taken first, released only by the
    deferred call, and nothing inside can wait (entry locks only by `TryRLock`, never `RLock`/`Lock`) -/
def underPoolReadLock (path : List String) : Bool :=
  path.take 2 == ["RLock:up", "defer:RUnlock:up"] &&
  (path.drop 2).all fun e => e == "TryRLock:upv" || e == "RUnlock:upv"

def pathsOf (m : String) : List (List String) :=
  (Gen.usagePoolPaths.filter (fun x => x.1 == m)).flatMap (·.2)

/-- **regenerated tie, model side.** On every control-flow path of usagepool.go each yield point is directly
    followed by the acquisition that starts the model region it stands for (so a yield moved behind its lock,
    or in front of another statement that takes a lock, breaks this), every `verifYield` is one of the known
    points, and `Range` / `References` hold the pool read lock from their first to their last statement
    without ever waiting for an entry — they are the single regions `Label.range` / `Label.refs` (the
    References and Range repairs cannot be undone without breaking this). -/
theorem yield_points_delimit_model_regions :
    Gen.usagePoolPaths.all (fun m => m.2.all followsOk) = true ∧
    (pathsOf "Range").all underPoolReadLock = true ∧ (pathsOf "Range").isEmpty = false ∧
    (pathsOf "References").all (fun p => p == ["RLock:up", "defer:RUnlock:up"]) = true ∧
    (pathsOf "References").isEmpty = false := by decide

/-! ### the log-writer client: who closes a pooled writer -/

/-- **regenerated tie, client side.** In logging.go the only call of a `Close` (or `Destruct`) method is the
    one inside `writerDestructor.Destruct` — the destructor the pool runs at the last release.  No part of the
    log set-up or tear-down glue closes a writer itself (`Model.logSetupOp`: towards the pool a log set-up is one
    acquisition, whatever its outcome); a set-up error path that closes "its" writer breaks this. -/
theorem pooled_writer_closed_only_by_destructor_matches_source :
    Gen.logWriterCloseSites = [("Destruct", "Close")] := by decide

end CaddyModel.C04
