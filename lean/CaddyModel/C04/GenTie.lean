/-
C04 — regenerated tie (tools/extract → Gen/UsagePoolSync.lean, rebuilt from /repo on every run).
The model's atomic regions are the stretches of usagepool.go between two yield points; the forced
schedules of the harness can only interleave where a `verifYield` call sits. This file checks, on the
source as it is now, (1) that the set of (method, yield point) pairs is the table the model and the
harness assume, and (2) that every lock acquisition which follows a release inside the same method —
i.e. every place where another goroutine can get in — has a yield point between that release and the
acquisition, along every control-flow path of the method (`Gen.usagePoolPaths`: if/else and early returns
followed, a loop body taken at most once) — so no interleaving point of the real code is missing from the
schedules.
-/
import CaddyModel.Gen.UsagePoolSync

namespace CaddyModel.C04

/-- prefix test on character lists (kernel-reducible, unlike `String.startsWith`) -/
def pre (p e : String) : Bool := p.toList.isPrefixOf e.toList

def isAcquire (e : String) : Bool := pre "Lock:" e || pre "RLock:" e || pre "TryRLock:" e || pre "TryLock:" e
def isRelease (e : String) : Bool := pre "Unlock:" e || pre "RUnlock:" e
def isYield (e : String) : Bool := pre "yield:" e

/-- scan one method: `open_` = a release has happened and no yield point since -/
def reacquireCovered : List String → Bool → Bool
  | [], _ => true
  | e :: es, open_ =>
    if isYield e then reacquireCovered es false
    else if isRelease e then reacquireCovered es true
    else if isAcquire e then (!open_) && reacquireCovered es open_
    else reacquireCovered es open_

def yieldPointsOf (m : String × List String) : List (String × String) :=
  (m.2.filter isYield).map fun y => (m.1, y)

/-- the yield-point table assumed by `Model.lean` / `harness/internal/c04/sched.go` -/
def expectedYieldPoints : List (String × String) :=
  [("LoadOrNew", "yield:1"), ("LoadOrNew", "yield:2"), ("LoadOrStore", "yield:3"), ("LoadOrStore", "yield:7"),
   ("Delete", "yield:8"), ("Delete", "yield:4")]

/-- **regenerated tie.** usagepool.go has exactly the assumed yield points, and no method re-acquires a lock
    after a release without a yield point in between -/
theorem yield_points_match_source :
    (Gen.usagePoolSync.flatMap yieldPointsOf) = expectedYieldPoints ∧
    Gen.usagePoolPaths.all (fun m => m.2.all fun path => reacquireCovered path false) = true ∧
    Gen.usagePoolSync.map (·.1) = ["LoadOrNew", "LoadOrStore", "Range", "Delete", "References"] := by decide

end CaddyModel.C04
