/-
C04 — regenerated tie (tools/extract → Gen/UsagePoolSync.lean, rebuilt from /repo on every run).
The model's atomic regions are the stretches of usagepool.go between two yield points; the forced
schedules of the harness can only interleave where a `verifYield` call sits. This file checks, on the
source as it is now, (1) that the set of (method, yield point) pairs is the table the model and the
harness assume, and (2) that every lock acquisition which follows a release inside the same method —
i.e. every place where another goroutine can get in — has a yield point between that release and the
acquisition, along every control-flow path of the method (`Gen.usagePoolPaths`: if/else and early returns
followed, a loop body taken at most once) — so no interleaving point of the real code is missing from the
schedules.
-/
import CaddyModel.Gen.UsagePoolSync
import CaddyModel.Gen.LogWriterCloses
import CaddyModel.Gen.UsagePoolClients

namespace CaddyModel.C04

/-- prefix test on character lists (kernel-reducible, unlike `String.startsWith`) -/
def pre (p e : String) : Bool := p.toList.isPrefixOf e.toList

def isAcquire (e : String) : Bool := pre "Lock:" e || pre "RLock:" e || pre "TryRLock:" e || pre "TryLock:" e
def isRelease (e : String) : Bool := pre "Unlock:" e || pre "RUnlock:" e
def isYield (e : String) : Bool := pre "yield:" e

/-- scan one method: `open_` = a release has happened and no yield point since -/
def reacquireCovered : List String → Bool → Bool
  | [], _ => true
  | e :: es, open_ =>
    if isYield e then reacquireCovered es false
    else if isRelease e then reacquireCovered es true
    else if isAcquire e then (!open_) && reacquireCovered es open_
    else reacquireCovered es open_

def yieldPointsOf (m : String × List String) : List (String × String) :=
  (m.2.filter isYield).map fun y => (m.1, y)

/-- the yield-point table assumed by `Model.lean` / `harness/internal/c04/sched.go` -/
def expectedYieldPoints : List (String × String) :=
  [("LoadOrNew", "yield:1"), ("LoadOrNew", "yield:2"), ("LoadOrStore", "yield:3"), ("LoadOrStore", "yield:7"),
   ("Delete", "yield:8"), ("Delete", "yield:4")]

/-- methods of UsagePool that contain any lock operation or yield point (a helper without any — such as a
    lookup-and-increment helper called under the caller's lock — is not a region of its own) -/
def syncMethods : List String := (Gen.usagePoolSync.filter (fun m => !m.2.isEmpty)).map (·.1)

def expectedMethods : List String := ["LoadOrNew", "LoadOrStore", "Range", "Delete", "References"]

/-- **regenerated tie.** usagepool.go has exactly the assumed yield points (as a set of (method, point) pairs;
    the order of the methods in the file does not matter), no method re-acquires a lock after a release
    without a yield point in between, and the methods that lock or yield at all are the five modelled ones -/
theorem yield_points_match_source :
    (expectedYieldPoints.all (Gen.usagePoolSync.flatMap yieldPointsOf).contains = true ∧
      (Gen.usagePoolSync.flatMap yieldPointsOf).length = expectedYieldPoints.length) ∧
    Gen.usagePoolPaths.all (fun m => m.2.all fun path => reacquireCovered path false) = true ∧
    (expectedMethods.all syncMethods.contains = true ∧ syncMethods.length = expectedMethods.length) := by decide

/-! ### which region each yield point delimits (what `Model.lean` assumes of them) -/

/-- the event that must follow a yield point directly on every path (`none`: the yield point is the last
    event of its path — point 7 is followed by the recursive call that starts LoadOrStore over) -/
def yieldDelimits : List (String × Option String) :=
  [("yield:1", some "RLock:upv"),   -- LoadOrNew, loaded: region `lnRead` starts here
   ("yield:2", some "Lock:up"),     -- LoadOrNew, constructor failed: region `lnFailDel`
   ("yield:3", some "RLock:upv"),   -- LoadOrStore, loaded: region `lsRead`
   ("yield:4", some "RLock:upv"),   -- Delete, removed at 0: region `del2`
   ("yield:7", none),               -- LoadOrStore starts over: next region is `lsLookup` again
   ("yield:8", some "Lock:up")]     -- Delete entry: region `del1`

def followsOk : List String → Bool
  | [] => true
  | e :: es =>
    (match yieldDelimits.find? (fun d => d.1 == e) with
     | some (_, want) => es.head? == want
     | none => !isYield e) && followsOk es

/-- `Range` / `References` are ONE region each: the pool read lock is taken first, released only by the
    deferred call, and nothing inside can wait (entry locks only by `TryRLock`, never `RLock`/`Lock`) -/
def underPoolReadLock (path : List String) : Bool :=
  path.take 2 == ["RLock:up", "defer:RUnlock:up"] &&
  (path.drop 2).all fun e => e == "TryRLock:upv" || e == "RUnlock:upv"

def pathsOf (m : String) : List (List String) :=
  (Gen.usagePoolPaths.filter (fun x => x.1 == m)).flatMap (·.2)

/-- **regenerated tie, model side.** On every control-flow path of usagepool.go each yield point is directly
    followed by the acquisition that starts the model region it stands for (so a yield moved behind its lock,
    or in front of another statement that takes a lock, breaks this), every `verifYield` is one of the known
    points, and `Range` / `References` hold the pool read lock from their first to their last statement
    without ever waiting for an entry — they are the single regions `Label.range` / `Label.refs` (the
    References and Range repairs cannot be undone without breaking this). -/
theorem yield_points_delimit_model_regions :
    Gen.usagePoolPaths.all (fun m => m.2.all followsOk) = true ∧
    (pathsOf "Range").all underPoolReadLock = true ∧ (pathsOf "Range").isEmpty = false ∧
    (pathsOf "References").all (fun p => p == ["RLock:up", "defer:RUnlock:up"]) = true ∧
    (pathsOf "References").isEmpty = false := by decide

/-! ### the log-writer client: who closes a pooled writer -/

/-- **regenerated tie, client side.** In logging.go the only call of a `Close` (or `Destruct`) method is the
    one inside `writerDestructor.Destruct` — the destructor the pool runs at the last release.  No part of the
    log set-up or tear-down glue closes a writer itself (`Model.logSetupOp`: towards the pool a log set-up is one
    acquisition, whatever its outcome); a set-up error path that closes "its" writer breaks this. -/
theorem pooled_writer_closed_only_by_destructor_matches_source :
    Gen.logWriterCloseSites = [("Destruct", "Close")] := by decide

/-! ### every client of every usage pool: where it acquires, where it releases, behind which guard -/

/-- call sites (file, function, pool, method) the audit of the pools' clients is based on -/
def expectedPoolClientSites : List (String × String × String × String) := [
  -- listenerPool, non-unix build (listen.go): shared listener / packet conn, release once (CAS on `closed`)
  ("listen.go", "listenReusable", "listenerPool", "LoadOrNew"),
  ("listen.go", "listenReusable", "listenerPool", "LoadOrNew"),
  ("listen.go", "fakeCloseListener.Close", "listenerPool", "Delete"),
  ("listen.go", "fakeClosePacketConn.Close", "listenerPool", "Delete"),
  -- listenerPool, unix build (listen_unix.go): counts sockets (LoadOrStore of nil after a successful bind),
  -- gives the count back when keeping the unix socket fails, and in the wrappers' Close
  ("listen_unix.go", "listenReusable", "listenerPool", "LoadOrStore"),
  ("listen_unix.go", "listenReusable", "listenerPool", "Delete"),
  ("listen_unix.go", "listenReusable", "listenerPool", "Delete"),
  ("listen_unix.go", "deleteListener.Close", "listenerPool", "Delete"),
  ("listen_unix.go", "deletePacketConn.Close", "listenerPool", "Delete"),
  -- listenerPool, QUIC
  ("listeners.go", "NetworkAddress.ListenQUIC", "listenerPool", "LoadOrNew"),
  ("listeners.go", "ListenerUsage", "listenerPool", "References"),
  ("listeners.go", "fakeCloseQuicListener.Close", "listenerPool", "Delete"),
  -- writers
  ("logging.go", "Logging.closeLogs", "writers", "Delete"),
  ("logging.go", "Logging.openWriter", "writers", "LoadOrNew"),
  -- hosts
  ("modules/caddyhttp/reverseproxy/admin.go", "adminUpstreams.handleUpstreams", "hosts", "Range"),
  ("modules/caddyhttp/reverseproxy/hosts.go", "Upstream.fillHost", "hosts", "LoadOrStore"),
  ("modules/caddyhttp/reverseproxy/reverseproxy.go", "Handler.Cleanup", "hosts", "Delete"),
  ("modules/caddyhttp/reverseproxy/reverseproxy.go", "Handler.proxyLoopIteration", "hosts", "Delete"),
  -- databasePool
  ("modules/caddypki/acmeserver/acmeserver.go", "Handler.Cleanup", "databasePool", "Delete"),
  ("modules/caddypki/acmeserver/acmeserver.go", "Handler.openDatabase", "databasePool", "LoadOrNew"),
  -- secretsLogPool
  ("modules/caddytls/connpolicy.go", "ConnectionPolicy.buildStandardTLSConfig", "secretsLogPool", "LoadOrNew"),
  ("modules/caddytls/connpolicy.go", "ConnectionPolicy.buildStandardTLSConfig", "secretsLogPool", "Delete")]

def siteOf (r : String × String × String × String × List String) : String × String × String × String :=
  (r.1, r.2.1, r.2.2.1, r.2.2.2.1)

/-- every row for (function, method) has the guard -/
def guarded (fn method guard : String) : Bool :=
  let rows := Gen.usagePoolClients.filter fun r => r.2.1 == fn && r.2.2.2.1 == method
  !rows.isEmpty && rows.all fun r => r.2.2.2.2.contains guard

/-- **regenerated tie, all pool clients.** The call sites of the five usage pools are exactly the audited
    ones (a new acquire or release site anywhere in the tree breaks this and has to be audited), and the
    releases that must not run unconditionally are guarded:
    * `acmeserver.Handler.Cleanup` releases the database only if `Provision` opened it (fix a57059e);
    * the reverse proxy's `Cleanup` skips upstreams it never provisioned;
    * the unix `listenReusable` counts a socket only after the bind succeeded and gives the count back only on
      the error path of keeping the unix socket;
    * the listener wrappers that can be closed more than once release exactly once (CAS on `closed`);
    * the TLS secrets log is released by a callback registered right where it was acquired (same `filename`);
    * the dynamic-upstream release of the reverse proxy is deferred in the branch that provisioned them. -/
theorem usage_pool_clients_match_source :
    Gen.usagePoolClients.map siteOf = expectedPoolClientSites ∧
    (Gen.usagePoolClients.any fun r => r.1 == "modules/caddypki/acmeserver/acmeserver.go" && r.2.2.2.1 == "Delete"
        && r.2.2.2.2.contains "!ash.databaseOpened => return") = true ∧
    (Gen.usagePoolClients.any fun r => r.1 == "modules/caddyhttp/reverseproxy/reverseproxy.go" && r.2.1 == "Handler.Cleanup"
        && r.2.2.2.2.contains "upstream.Host==nil => continue") = true ∧
    (Gen.usagePoolClients.any fun r => r.1 == "listen_unix.go" && r.2.2.2.1 == "LoadOrStore" && r.2.2.2.2 == ["if err==nil"]) = true ∧
    ((Gen.usagePoolClients.filter fun r => r.1 == "listen_unix.go" && r.2.1 == "listenReusable" && r.2.2.2.1 == "Delete").all
        fun r => r.2.2.2.2.getLast? == some "if err!=nil") = true ∧
    guarded "fakeCloseListener.Close" "Delete" "if atomic.CompareAndSwapInt32(&fcl.closed,0,1)" = true ∧
    guarded "fakeClosePacketConn.Close" "Delete" "if atomic.CompareAndSwapInt32(&fcpc.closed,0,1)" = true ∧
    guarded "fakeCloseQuicListener.Close" "Delete" "if atomic.CompareAndSwapInt32(&fcql.closed,0,1)" = true ∧
    guarded "ConnectionPolicy.buildStandardTLSConfig" "Delete" "func" = true ∧
    guarded "ConnectionPolicy.buildStandardTLSConfig" "LoadOrNew" "if p.InsecureSecretsLog!=\"\"" = true ∧
    guarded "ConnectionPolicy.buildStandardTLSConfig" "Delete" "if p.InsecureSecretsLog!=\"\"" = true ∧
    guarded "Handler.proxyLoopIteration" "Delete" "defer" = true := by decide

/-- **regenerated tie, the per-request client's PAIRING.** In `Handler.proxyLoopIteration` the loop that provisions
    the dynamic upstreams and the deferred loop that releases them range over the same slice; the provisioning loop's
    body is the one call `h.provisionUpstream(dUp)` — no element is skipped, replaced or taken from elsewhere —; the
    release is `hosts.Delete(upstream.String())`, the key `fillHost` stored under; and the only write to that slice or
    to any of its elements is its definition from the source's answer.  So every element that reaches the release was
    acquired in the same iteration: the request's program is `Model.requestOps` (a release for each of ITS OWN
    acquisitions), for which `per_request_client_keeps_count` holds.  Substituting an element (e.g. by a static
    upstream) without provisioning it breaks this. -/
theorem dynamic_upstream_pairing_matches_source :
    Gen.dynamicUpstreamPairing =
      ("dUpstreams", ["h.provisionUpstream(dUp)"], "dUpstreams", "upstream.String()",
       ["dUpstreams,err:=h.DynamicUpstreams.GetUpstreams(r)"]) := by decide

end CaddyModel.C04
