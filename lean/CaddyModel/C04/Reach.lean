/-
C04 — reachability: the states the theorems quantify over, and the thread-level runs stay inside.
-/
import CaddyModel.C04.Step

namespace CaddyModel.C04

/-- reached from the empty pool by some schedule without excluded labels -/
def Reachable (s : G) : Prop :=
  ∃ ls : List Label, cleanRun G.init ls = true ∧ runLabels G.init ls = some s

/-- **the invariant holds in every reachable state** (induction over the schedule) -/
theorem inv_reachable {s : G} (h : Reachable s) : Inv s := by
  obtain ⟨ls, hc, hr⟩ := h
  exact inv_run ls G.init s inv_init hc hr

theorem reachable_step {s s' : G} {l : Label} (h : Reachable s) (hx : excluded s l = false)
    (hs : gstep s l = some s') : Reachable s' := by
  obtain ⟨ls, hc, hr⟩ := h
  refine ⟨ls ++ [l], ?_, ?_⟩
  · have : ∀ (ls : List Label) (s0 : G), cleanRun s0 ls = true → runLabels s0 ls = some s →
        cleanRun s0 (ls ++ [l]) = true := by
      intro ls
      induction ls with
      | nil =>
        intro s0 _ hr
        simp only [runLabels] at hr; cases hr
        simp [cleanRun, hx, hs]
      | cons a as ih =>
        intro s0 hc hr
        simp only [runLabels] at hr
        simp only [cleanRun, Bool.and_eq_true] at hc
        cases hg : gstep s0 a with
        | none => rw [hg] at hr; cases hr
        | some s1 =>
          rw [hg] at hr
          have hc2 := hc.2
          rw [hg] at hc2
          simp only [List.cons_append, cleanRun, Bool.and_eq_true, hg]
          exact ⟨hc.1, ih s1 hc2 hr⟩
    exact this ls G.init hc hr
  · have : ∀ (ls : List Label) (s0 : G), runLabels s0 ls = some s → runLabels s0 (ls ++ [l]) = some s' := by
      intro ls
      induction ls with
      | nil => intro s0 hr; simp only [runLabels] at hr; cases hr; simp [runLabels, hs]
      | cons a as ih =>
        intro s0 hr
        simp only [runLabels] at hr
        cases hg : gstep s0 a with
        | none => rw [hg] at hr; cases hr
        | some s1 => rw [hg] at hr; simp only [List.cons_append, runLabels, hg]; exact ih s1 hr
    exact this ls G.init hr

theorem reachable_run : ∀ (ls : List Label) (s s' : G), Reachable s → cleanRun s ls = true →
    runLabels s ls = some s' → Reachable s'
  | [], s, s', h, _, hr => by simp only [runLabels] at hr; cases hr; exact h
  | l :: ls, s, s', h, hc, hr => by
    simp only [runLabels] at hr
    simp only [cleanRun, Bool.and_eq_true, Bool.not_eq_true'] at hc
    cases hg : gstep s l with
    | none => rw [hg] at hr; cases hr
    | some s1 =>
      rw [hg] at hr
      have hc2 := hc.2
      rw [hg] at hc2
      exact reachable_run ls s1 s' (reachable_step h hc.1 hg) hc2 hr

/-- one schedule entry keeps "clean ⇒ reachable" -/
theorem tstep_reachable (nk : Nat) (y : Sys) (t : Nat) (h : y.clean = true → Reachable y.g) :
    (tstep nk y t).clean = true → Reachable (tstep nk y t).g := by
  unfold tstep
  split
  · exact h
  · split
    · exact h
    · exact h
    · exact h
    · rename_i ls th' ev _
      split
      · exact h
      · rename_i g' hr
        intro hc
        simp only [Bool.and_eq_true] at hc
        exact reachable_run ls y.g g' (h hc.1) hc.2 hr

theorem foldl_tstep_reachable (nk : Nat) : ∀ (sched : List Nat) (y : Sys), (y.clean = true → Reachable y.g) →
    (sched.foldl (tstep nk) y).clean = true → Reachable (sched.foldl (tstep nk) y).g
  | [], _, h => h
  | t :: ts, y, h => foldl_tstep_reachable nk ts (tstep nk y t) (tstep_reachable nk y t h)

theorem drain_reachable (nk : Nat) : ∀ (fuel : Nat) (y : Sys), (y.clean = true → Reachable y.g) →
    (drain nk fuel y).clean = true → Reachable (drain nk fuel y).g
  | 0, _, h => h
  | fuel + 1, y, h => by
    unfold drain
    split
    · exact h
    · exact drain_reachable nk fuel _ (tstep_reachable nk y _ h)

theorem reachable_init : Reachable G.init := ⟨[], rfl, rfl⟩

end CaddyModel.C04
