/-
C04 — from the anonymous net to named clients.

`holders` in `G` is a ghost counter.  This file ties it to the bookkeeping of the named threads of
the executable model (`Thread.held` — what a client such as a config's `Logging.writerKeys`,
a reverse-proxy handler's provisioned `Upstreams`, or a listener wrapper remembers): in every
state the driver can reach without a contract-breaking Delete, `holders e` is exactly the number of
`(key, e)` entries in the threads' `held` lists.  The client-level statements follow:
a client that still remembers a key has a live, undestructed value; once every client has
released everything and every call has returned, the pool is empty and every value has been
destructed exactly once.
-/
import CaddyModel.C04.Reach
import CaddyModel.C04.Lemmas

namespace CaddyModel.C04

/-- how many references to entry `e` thread `th` remembers -/
def heldOf (e : Nat) (th : Thread) : Nat := th.held.countP (fun x => x.2 == e)

def holdCount (ths : List Thread) (e : Nat) : Nat := (ths.map (heldOf e)).sum

theorem holdCount_set : ∀ (ths : List Thread) (t : Nat) (th th' : Thread) (e : Nat), ths[t]? = some th →
    holdCount (ths.set t th') e + heldOf e th = holdCount ths e + heldOf e th'
  | [], t, th, th', e, h => by simp at h
  | a :: as, 0, th, th', e, h => by
    simp at h; subst h
    simp [holdCount]; omega
  | a :: as, t + 1, th, th', e, h => by
    have := holdCount_set as t th th' e (by simpa using h)
    simp [holdCount] at this ⊢; omega

/-- what a thread remembers refers to allocated entries -/
def HeldOk (g : G) (th : Thread) : Prop := ∀ x ∈ th.held, x.2 < g.next

theorem findHeld_some {k e0 : Nat} : ∀ {l : List (Nat × Nat)}, findHeld k l = some e0 →
    (k, e0) ∈ l ∧ ∀ e, (eraseHeld k l).countP (fun x => x.2 == e) + (if e = e0 then 1 else 0)
      = l.countP (fun x => x.2 == e)
  | [], h => by simp [findHeld] at h
  | x :: xs, h => by
    unfold findHeld at h
    by_cases hx : x.1 = k
    · simp [hx] at h
      subst h
      refine ⟨by rw [← hx]; simp, ?_⟩
      intro e
      simp only [eraseHeld, hx, if_true, List.countP_cons]
      by_cases he : e = x.2
      · subst he; simp
      · have : (x.2 == e) = false := by simp; exact fun h => he h.symm
        simp [he, this]
    · simp [hx] at h
      obtain ⟨h1, h2⟩ := findHeld_some h
      refine ⟨List.mem_cons_of_mem _ h1, ?_⟩
      intro e
      simp only [eraseHeld, hx, if_false, List.countP_cons]
      have := h2 e
      omega

theorem findHeld_none {k : Nat} : ∀ {l : List (Nat × Nat)}, findHeld k l = none → eraseHeld k l = l
  | [], _ => rfl
  | x :: xs, h => by
    unfold findHeld at h
    by_cases hx : x.1 = k
    · simp [hx] at h
    · simp [hx] at h
      simp [eraseHeld, hx, findHeld_none h]

theorem eraseHeld_subset {k : Nat} : ∀ {l : List (Nat × Nat)} {x : Nat × Nat}, x ∈ eraseHeld k l → x ∈ l
  | [], _, h => by simp [eraseHeld] at h
  | y :: ys, x, h => by
    unfold eraseHeld at h
    by_cases hy : y.1 = k
    · simp [hy] at h; exact List.mem_cons_of_mem _ h
    · simp [hy] at h
      rcases h with h | h
      · subst h; simp
      · exact List.mem_cons_of_mem _ (eraseHeld_subset h)

/-! ### what one region does to `holders` -/

/-- references handed out by a region, per entry -/
def hInc (g : G) : Label → Nat → Nat
  | .ctorOk e0, e => if e = e0 then 1 else 0
  | .lnRead e0, e => if e = e0 ∧ (g.ent e0).err = false then 1 else 0
  | .lsRead e0 _, e => if e = e0 ∧ (g.ent e0).err = false then 1 else 0
  | .lsLookup k, e => if g.pool k = none ∧ e = g.next then 1 else 0
  | .lspLookup k, e => if g.pool k = none ∧ e = g.next then 1 else 0
  | _, _ => 0

/-- references given back by a region, per entry -/
def hDec : Label → Nat → Nat
  | .del1 _ (some e0), e => if e = e0 then 1 else 0
  | _, _ => 0

theorem bumpVal_ent (g : G) : (bumpVal g).ent = g.ent := rfl

theorem updEnt_holders (g : G) (e0 : Nat) (f : Entry → Entry) (e : Nat) :
    ((updEnt g e0 f).ent e).holders = if e = e0 then (f (g.ent e)).holders else (g.ent e).holders := by
  unfold updEnt; by_cases h : e = e0 <;> simp [h]

theorem updEnt_key (g : G) (e0 : Nat) (f : Entry → Entry) (e : Nat) :
    ((updEnt g e0 f).ent e).key = if e = e0 then (f (g.ent e)).key else (g.ent e).key := by
  unfold updEnt; by_cases h : e = e0 <;> simp [h]

theorem del1Code_holders (g : G) (k e : Nat) : ((del1Code g k).ent e).holders = (g.ent e).holders := by
  unfold del1Code
  split
  · rfl
  · split <;> (rw [updEnt_holders]; split <;> simp_all [setPool])

theorem del1Code_key (g : G) (k e : Nat) : ((del1Code g k).ent e).key = (g.ent e).key := by
  unfold del1Code
  split
  · rfl
  · split <;> (rw [updEnt_key]; split <;> simp_all [setPool])

theorem del1Code_next (g : G) (k : Nat) : (del1Code g k).next = g.next := by
  unfold del1Code
  split
  · rfl
  · split <;> rfl

/-- frame: a region allocates at most one entry and never changes the key of an entry -/
theorem gstep_frame {g g' : G} {l : Label} (h : gstep g l = some g') :
    g.next ≤ g'.next ∧ g'.next ≤ g.next + 1 ∧ ∀ e, e < g.next → (g'.ent e).key = (g.ent e).key := by
  cases l with
  | lnLookup k =>
    simp only [gstep] at h
    split at h <;> cases h
    · exact ⟨Nat.le_refl _, Nat.le_succ _, fun e _ => by rw [updEnt_key]; split <;> simp_all⟩
    · refine ⟨Nat.le_succ _, Nat.le_refl _, fun e he => ?_⟩
      have : e ≠ g.next := by omega
      simp [alloc, this]
  | lsLookup k =>
    simp only [gstep] at h
    split at h <;> cases h
    · exact ⟨Nat.le_refl _, Nat.le_succ _, fun e _ => by
        rw [bumpVal_ent, updEnt_key]; split <;> simp_all⟩
    · refine ⟨Nat.le_succ _, Nat.le_refl _, fun e he => ?_⟩
      have : e ≠ g.next := by omega
      simp [bumpVal, alloc, this]
  | lspLookup k =>
    simp only [gstep] at h
    split at h <;> cases h
    · exact ⟨Nat.le_refl _, Nat.le_succ _, fun e _ => by
        rw [bumpVal_ent, updEnt_key]; split <;> simp_all⟩
    · refine ⟨Nat.le_succ _, Nat.le_refl _, fun e he => ?_⟩
      have : e ≠ g.next := by omega
      simp [bumpVal, alloc, this]
  | del1 k ho =>
    cases ho with
    | none =>
      simp only [gstep] at h; cases h
      exact ⟨by rw [del1Code_next]; exact Nat.le_refl _, by rw [del1Code_next]; exact Nat.le_succ _,
        fun e _ => del1Code_key g k e⟩
    | some e0 =>
      simp only [gstep] at h
      split at h
      · cases h
        refine ⟨by rw [del1Code_next]; exact Nat.le_refl _, by rw [del1Code_next]; exact Nat.le_succ _, fun e _ => ?_⟩
        rw [del1Code_key, updEnt_key]; split <;> simp_all
      · cases h
  | ctorOk e0 =>
    simp only [gstep] at h
    split at h
    · cases h
      exact ⟨Nat.le_refl _, Nat.le_succ _, fun e _ => by
        rw [bumpVal_ent, updEnt_key]; split <;> simp_all⟩
    · cases h
  | ctorErr e0 =>
    simp only [gstep] at h
    split at h
    · cases h; exact ⟨Nat.le_refl _, Nat.le_succ _, fun e _ => by rw [updEnt_key]; split <;> simp_all⟩
    · cases h
  | lnFailDel e0 =>
    simp only [gstep] at h
    split at h
    · cases h
      exact ⟨Nat.le_refl _, Nat.le_succ _, fun e _ => by rw [updEnt_key]; split <;> simp_all [setPool]⟩
    · cases h
  | lnRead e0 =>
    simp only [gstep] at h
    split at h
    · split at h <;> cases h <;>
        exact ⟨Nat.le_refl _, Nat.le_succ _, fun e _ => by rw [updEnt_key]; split <;> simp_all⟩
    · cases h
  | lsRead e0 v =>
    simp only [gstep] at h
    split at h
    · split at h <;> cases h <;>
        exact ⟨Nat.le_refl _, Nat.le_succ _, fun e _ => by rw [updEnt_key]; split <;> simp_all⟩
    · cases h
  | del2 e0 =>
    simp only [gstep] at h
    split at h
    · split at h
      · cases h; exact ⟨Nat.le_refl _, Nat.le_succ _, fun e _ => by rw [updEnt_key]; split <;> simp_all⟩
      · split at h <;> cases h <;>
          exact ⟨Nat.le_refl _, Nat.le_succ _, fun e _ => by rw [updEnt_key]; split <;> simp_all⟩
    · cases h
  | del3 e0 =>
    simp only [gstep] at h
    split at h
    · cases h; exact ⟨Nat.le_refl _, Nat.le_succ _, fun e _ => by rw [updEnt_key]; split <;> simp_all⟩
    · cases h
  | refs k => simp only [gstep] at h; cases h; exact ⟨Nat.le_refl _, Nat.le_succ _, fun _ _ => rfl⟩
  | range => simp only [gstep] at h; cases h; exact ⟨Nat.le_refl _, Nat.le_succ _, fun _ _ => rfl⟩

/-- **holders bookkeeping of one region**: new value of `holders` = old value (0 for a new entry)
    + references handed out − references given back -/
theorem gstep_holders {g g' : G} {l : Label} (h : gstep g l = some g') (e : Nat) (he : e < g'.next) :
    (g'.ent e).holders + hDec l e = (if e < g.next then (g.ent e).holders else 0) + hInc g l e := by
  cases l with
  | lnLookup k =>
    simp only [gstep] at h
    split at h <;> cases h
    · have he' : e < g.next := he
      simp only [hDec, hInc, he', if_true, updEnt_holders]; split <;> simp_all
    · have he' : e < g.next + 1 := he
      by_cases hn : e = g.next
      · subst hn; simp [hDec, hInc, alloc, newCtorEntry]
      · have : e < g.next := by omega
        simp [hDec, hInc, alloc, hn, this]
  | lsLookup k =>
    simp only [gstep] at h
    split at h
    · rename_i e1 hp
      cases h
      have he' : e < g.next := he
      have : ((bumpVal (updEnt g e1 fun E => { E with refs := E.refs + 1, lsWaiters := E.lsWaiters + 1 })).ent e).holders
          = (g.ent e).holders := by
        rw [bumpVal_ent, updEnt_holders]; split <;> simp_all
      simp [hDec, hInc, he', hp, this]
    · rename_i hp
      cases h
      have he' : e < g.next + 1 := he
      by_cases hn : e = g.next
      · subst hn; simp [hDec, hInc, bumpVal, alloc, newStoredEntry, hp]
      · have : e < g.next := by omega
        simp [hDec, hInc, bumpVal, alloc, hn, this]
  | lspLookup k =>
    simp only [gstep] at h
    split at h
    · rename_i e1 hp
      cases h
      have he' : e < g.next := he
      have : ((bumpVal (updEnt g e1 fun E => { E with refs := E.refs + 1, lsWaiters := E.lsWaiters + 1 })).ent e).holders
          = (g.ent e).holders := by
        rw [bumpVal_ent, updEnt_holders]; split <;> simp_all
      simp [hDec, hInc, he', hp, this]
    · rename_i hp
      cases h
      have he' : e < g.next + 1 := he
      by_cases hn : e = g.next
      · subst hn; simp [hDec, hInc, bumpVal, alloc, newPlainEntry, hp]
      · have : e < g.next := by omega
        simp [hDec, hInc, bumpVal, alloc, hn, this]
  | del1 k ho =>
    cases ho with
    | none =>
      simp only [gstep] at h; cases h
      have he' : e < g.next := by rw [del1Code_next] at he; exact he
      simp [hDec, hInc, he', del1Code_holders]
    | some e0 =>
      simp only [gstep] at h
      split at h
      · rename_i hg
        cases h
        have he' : e < g.next := by rw [del1Code_next] at he; exact he
        simp only [hDec, hInc, he', if_true, del1Code_holders, updEnt_holders]
        by_cases hee : e = e0
        · subst hee; simp; omega
        · simp [hee]
      · cases h
  | ctorOk e0 =>
    simp only [gstep] at h
    split at h
    · cases h
      have he' : e < g.next := he
      have : ∀ f, ((bumpVal (updEnt g e0 f)).ent e).holders = ((updEnt g e0 f).ent e).holders := fun _ => rfl
      simp only [hDec, hInc, he', if_true, this, updEnt_holders]
      by_cases hee : e = e0 <;> simp [hee]
    · cases h
  | ctorErr e0 =>
    simp only [gstep] at h
    split at h
    · cases h
      have he' : e < g.next := he
      simp only [hDec, hInc, he', if_true, updEnt_holders]; split <;> simp_all
    · cases h
  | lnFailDel e0 =>
    simp only [gstep] at h
    split at h
    · cases h
      have he' : e < g.next := he
      simp only [hDec, hInc, he', if_true, updEnt_holders]; split <;> simp_all [setPool]
    · cases h
  | lnRead e0 =>
    simp only [gstep] at h
    split at h
    · split at h
      · rename_i herr
        cases h
        have he' : e < g.next := he
        simp only [hDec, hInc, he', if_true, updEnt_holders, herr]; split <;> simp_all
      · rename_i herr
        cases h
        have he' : e < g.next := he
        have herr' : (g.ent e0).err = false := by simpa using herr
        simp only [hDec, hInc, he', if_true, updEnt_holders, herr']
        by_cases hee : e = e0 <;> simp [hee]
    · cases h
  | lsRead e0 v =>
    simp only [gstep] at h
    split at h
    · split at h
      · rename_i herr
        cases h
        have he' : e < g.next := he
        simp only [hDec, hInc, he', if_true, updEnt_holders, herr]; split <;> simp_all
      · rename_i herr
        cases h
        have he' : e < g.next := he
        have herr' : (g.ent e0).err = false := by simpa using herr
        simp only [hDec, hInc, he', if_true, updEnt_holders, herr']
        by_cases hee : e = e0 <;> simp [hee]
    · cases h
  | del2 e0 =>
    simp only [gstep] at h
    split at h
    · split at h
      · cases h
        have he' : e < g.next := he
        simp only [hDec, hInc, he', if_true, updEnt_holders]; split <;> simp_all
      · split at h <;> cases h <;>
          (have he' : e < g.next := he
           simp only [hDec, hInc, he', if_true, updEnt_holders]; split <;> simp_all)
    · cases h
  | del3 e0 =>
    simp only [gstep] at h
    split at h
    · cases h
      have he' : e < g.next := he
      simp only [hDec, hInc, he', if_true, updEnt_holders]; split <;> simp_all
    · cases h
  | refs k => simp only [gstep] at h; cases h; simp [hDec, hInc, (he : e < g.next)]
  | range => simp only [gstep] at h; cases h; simp [hDec, hInc, (he : e < g.next)]

/-! ### one move of a named thread -/

theorem runLabels_single {g g' : G} {l : Label} (h : runLabels g [l] = some g') : gstep g l = some g' := by
  simp only [runLabels] at h
  cases hg : gstep g l with
  | none => rw [hg] at h; cases h
  | some s => rw [hg] at h; simpa using h

theorem heldOf_cons (e k e0 : Nat) (prog : List Op) (pc : PC) (held : List (Nat × Nat)) :
    heldOf e { prog := prog, pc := pc, held := (k, e0) :: held }
      = heldOf e { prog := prog, pc := pc, held := held } + (if e = e0 then 1 else 0) := by
  simp only [heldOf, List.countP_cons]
  by_cases h : e = e0
  · subst h; simp
  · have : (e0 == e) = false := by simp; exact fun h' => h h'.symm
    simp [h, this]

/-- the conclusion of every case: the region's effect on `holders` and the thread's change of
    `held` cancel -/
theorem move_balance {g g' : G} {l : Label} {th th' : Thread} (hg : gstep g l = some g')
    (hh : ∀ e, heldOf e th' + hDec l e = heldOf e th + hInc g l e) (e : Nat) (he : e < g'.next) :
    (g'.ent e).holders + heldOf e th = (if e < g.next then (g.ent e).holders else 0) + heldOf e th' := by
  have := gstep_holders hg e he
  have := hh e
  omega

theorem gstep_guard_lt {g g' : G} {l : Label} (h : gstep g l = some g') :
    match l with
    | .ctorOk e | .lnRead e | .lsRead e _ => e < g.next
    | _ => True := by
  cases l <;> simp only [gstep] at h <;> try trivial
  all_goals (split at h; · rename_i hg; exact hg.1
             · cases h)

/-- what one move must establish -/
def MoveOk (g g' : G) (th th' : Thread) : Prop :=
  (∀ e, e < g'.next → (g'.ent e).holders + heldOf e th
      = (if e < g.next then (g.ent e).holders else 0) + heldOf e th')
  ∧ HeldOk g' th' ∧ g.next ≤ g'.next

theorem mem_of_mem_dropLast' {α : Type} : ∀ {l : List α} {x : α}, x ∈ l.dropLast → x ∈ l
  | [], _, h => by simp at h
  | [_], _, h => by simp at h
  | a :: b :: cs, x, h => by
    simp only [List.dropLast_cons_cons, List.mem_cons] at h
    rcases h with h | h
    · subst h; simp
    · exact List.mem_cons_of_mem _ (mem_of_mem_dropLast' (by simpa using h))

theorem oldestHeld_some {k e0 : Nat} : ∀ {l : List (Nat × Nat)}, oldestHeld l = some (k, e0) →
    ∀ e, l.dropLast.countP (fun x => x.2 == e) + (if e = e0 then 1 else 0) = l.countP (fun x => x.2 == e)
  | [], h => by simp [oldestHeld] at h
  | [x], h => by
    simp only [oldestHeld, Option.some.injEq] at h
    subst h
    intro e
    by_cases he : e = e0
    · subst he; simp
    · have : (e0 == e) = false := by simp; exact fun h' => he h'.symm
      simp [he, this]
  | x :: y :: ys, h => by
    have h' : oldestHeld (y :: ys) = some (k, e0) := by simpa [oldestHeld] using h
    intro e
    have := oldestHeld_some h' e
    simp only [List.dropLast_cons_cons, List.countP_cons] at this ⊢
    omega

theorem delStartWith_sound {g g' : G} {prog : List Op} {pc : PC} {held held' : List (Nat × Nat)} {k : Nat}
    {h : Option Nat} {stay after : List Op} {th' : Thread} {ls : List Label} {ev : String}
    (hok : HeldOk g { prog := prog, pc := pc, held := held })
    (hsub : ∀ x, x ∈ held' → x ∈ held)
    (hcnt : ∀ e, held'.countP (fun x => x.2 == e) + hDec (.del1 k h) e = held.countP (fun x => x.2 == e))
    (hm : delStartWith g k h held' stay after = .go ls th' ev)
    (hr : runLabels g ls = some g') :
    MoveOk g g' { prog := prog, pc := pc, held := held } th' := by
  have key : ∀ (p : List Op) (q : PC), ls = [.del1 k h] →
      th' = { prog := p, pc := q, held := held' } →
      MoveOk g g' { prog := prog, pc := pc, held := held } th' := by
    intro p q hls hth
    subst hls hth
    have hg := runLabels_single hr
    refine ⟨move_balance hg ?_, fun x hx => Nat.lt_of_lt_of_le (hok x (hsub x hx)) (gstep_frame hg).1,
      (gstep_frame hg).1⟩
    intro e
    have := hcnt e
    have h0 : hInc g (.del1 k h) e = 0 := rfl
    simp only [heldOf, h0]
    omega
  unfold delStartWith at hm
  split at hm
  · cases hm; exact key _ _ rfl rfl
  · split at hm
    · cases hm; exact key _ _ rfl rfl
    · split at hm <;> (cases hm; exact key _ _ rfl rfl)

theorem delStart_sound {g g' : G} {prog rest : List Op} {pc : PC} {held : List (Nat × Nat)} {k : Nat} {op : Op}
    {th' : Thread} {ls : List Label} {ev : String}
    (hok : HeldOk g { prog := prog, pc := pc, held := held })
    (hm : delStart g { prog := prog, pc := pc, held := held } k op rest = .go ls th' ev)
    (hr : runLabels g ls = some g') :
    MoveOk g g' { prog := prog, pc := pc, held := held } th' := by
  unfold delStart at hm
  refine delStartWith_sound hok (fun x hx => eraseHeld_subset hx) ?_ hm hr
  intro e
  cases hf : findHeld k held with
  | none => simp [hDec, findHeld_none hf]
  | some e0 =>
    have := (findHeld_some hf).2 e
    simp only [hDec]
    omega

/-- **one move keeps the books.** -/
theorem tmove_sound {nk : Nat} {g g' : G} {th th' : Thread} {ls : List Label} {ev : String}
    (hok : HeldOk g th) (hm : tmove nk g th = .go ls th' ev) (hr : runLabels g ls = some g') :
    MoveOk g g' th th' := by
  obtain ⟨prog, pc, held⟩ := th
  have same : ∀ (l : Label) (p : List Op) (q : PC), ls = [l] → th' = { prog := p, pc := q, held := held } →
      (∀ e, hDec l e = 0) → (∀ e, hInc g l e = 0) → MoveOk g g' { prog := prog, pc := pc, held := held } th' := by
    intro l p q hls hth h1 h2
    subst hls hth
    have hg := runLabels_single hr
    exact ⟨move_balance hg (by intro e; simp [heldOf, h1, h2]),
      fun x hx => Nat.lt_of_lt_of_le (hok x hx) (gstep_frame hg).1, (gstep_frame hg).1⟩
  have add : ∀ (l : Label) (p : List Op) (q : PC) (k e0 : Nat), ls = [l] →
      th' = { prog := p, pc := q, held := (k, e0) :: held } →
      (∀ e, hDec l e = 0) → (∀ e, hInc g l e = if e = e0 then 1 else 0) → e0 < g'.next →
      MoveOk g g' { prog := prog, pc := pc, held := held } th' := by
    intro l p q k e0 hls hth h1 h2 hlt
    subst hls hth
    have hg := runLabels_single hr
    refine ⟨move_balance hg ?_, ?_, (gstep_frame hg).1⟩
    · intro e; rw [heldOf_cons]; simp [heldOf, h1, h2]
    · intro x hx
      simp only [List.mem_cons] at hx
      rcases hx with hx | hx
      · subst hx; exact hlt
      · exact Nat.lt_of_lt_of_le (hok x hx) (gstep_frame hg).1
  cases prog with
  | nil => simp [tmove] at hm
  | cons op rest =>
    cases pc <;> cases op <;> simp only [tmove] at hm
    all_goals try (cases hm; done)
    case idle.ln k b =>
      split at hm <;> cases hm <;> exact same _ _ _ rfl rfl (fun _ => rfl) (fun _ => rfl)
    case idle.ls k =>
      split at hm
      · rename_i e1 hp
        cases hm
        exact same _ _ _ rfl rfl (fun _ => rfl) (fun e => by simp [hInc, hp])
      · rename_i hp
        cases hm
        have hg := runLabels_single hr
        have hn : g'.next = g.next + 1 := by
          simp only [gstep, hp] at hg; cases hg; rfl
        exact add _ _ _ _ _ rfl rfl (fun _ => rfl) (fun e => by simp [hInc, hp]) (by omega)
    case idle.lsp k =>
      split at hm
      · rename_i e1 hp
        cases hm
        exact same _ _ _ rfl rfl (fun _ => rfl) (fun e => by simp [hInc, hp])
      · rename_i hp
        cases hm
        have hg := runLabels_single hr
        have hn : g'.next = g.next + 1 := by
          simp only [gstep, hp] at hg; cases hg; rfl
        exact add _ _ _ _ _ rfl rfl (fun _ => rfl) (fun e => by simp [hInc, hp]) (by omega)
    case idle.del k => exact delStart_sound hok hm hr
    case idle.cdel k =>
      split at hm
      · cases hm
        simp only [runLabels] at hr; cases hr
        exact ⟨fun e he => by simp [he, heldOf], hok, Nat.le_refl _⟩
      · exact delStart_sound hok hm hr
    case idle.refs k => cases hm; exact same _ _ _ rfl rfl (fun _ => rfl) (fun _ => rfl)
    case idle.range => cases hm; exact same _ _ _ rfl rfl (fun _ => rfl) (fun _ => rfl)
    case ctor.ln e k b =>
      cases b
      · simp only at hm; cases hm; exact same _ _ _ rfl rfl (fun _ => rfl) (fun _ => rfl)
      · simp only at hm; cases hm
        have hg := runLabels_single hr
        have hlt : e < g.next := gstep_guard_lt hg
        exact add _ _ _ _ _ rfl rfl (fun _ => rfl) (fun _ => rfl) (Nat.lt_of_lt_of_le hlt (gstep_frame hg).1)
    case lnFail.ln e k b => cases hm; exact same _ _ _ rfl rfl (fun _ => rfl) (fun _ => rfl)
    case lnWait.ln e k b =>
      split at hm
      · cases hm
      · cases hm
        have hg := runLabels_single hr
        have hlt : e < g.next := gstep_guard_lt hg
        cases herr : (g.ent e).err
        · exact add _ rest .idle k e rfl (by simp [lnReadRet, herr]) (fun _ => rfl) (fun e' => by simp [hInc, herr])
            (Nat.lt_of_lt_of_le hlt (gstep_frame hg).1)
        · exact same _ rest .idle rfl (by simp [lnReadRet, herr]) (fun _ => rfl) (fun e' => by simp [hInc, herr])
    case lsWait.ls e v k =>
      split at hm
      · cases hm
      · split at hm
        · rename_i herr
          cases hm
          exact same _ _ _ rfl rfl (fun _ => rfl) (fun e' => by simp [hInc, herr])
        · rename_i herr
          cases hm
          have hg := runLabels_single hr
          have hlt : e < g.next := gstep_guard_lt hg
          have herr' : (g.ent e).err = false := by simpa using herr
          exact add _ _ _ _ _ rfl rfl (fun _ => rfl) (fun e' => by simp [hInc, herr'])
            (Nat.lt_of_lt_of_le hlt (gstep_frame hg).1)
    case lsWait.lsp e v k =>
      split at hm
      · cases hm
      · split at hm
        · rename_i herr
          cases hm
          exact same _ _ _ rfl rfl (fun _ => rfl) (fun e' => by simp [hInc, herr])
        · rename_i herr
          cases hm
          have hg := runLabels_single hr
          have hlt : e < g.next := gstep_guard_lt hg
          have herr' : (g.ent e).err = false := by simpa using herr
          exact add _ _ _ _ _ rfl rfl (fun _ => rfl) (fun e' => by simp [hInc, herr'])
            (Nat.lt_of_lt_of_le hlt (gstep_frame hg).1)
    case delRead.del e k =>
      unfold delRead at hm
      split at hm
      · cases hm
      · split at hm
        · split at hm <;> (cases hm; exact same _ _ _ rfl rfl (fun _ => rfl) (fun _ => rfl))
        · cases hm; exact same _ _ _ rfl rfl (fun _ => rfl) (fun _ => rfl)
    case delRead.cdel e k =>
      unfold delRead at hm
      split at hm
      · cases hm
      · split at hm
        · split at hm <;> (cases hm; exact same _ _ _ rfl rfl (fun _ => rfl) (fun _ => rfl))
        · cases hm; exact same _ _ _ rfl rfl (fun _ => rfl) (fun _ => rfl)
    case destruct.del e v k => cases hm; exact same _ _ _ rfl rfl (fun _ => rfl) (fun _ => rfl)
    case destruct.cdel e v k => cases hm; exact same _ _ _ rfl rfl (fun _ => rfl) (fun _ => rfl)
    case idle.closeAll =>
      split at hm
      · cases hm
        simp only [runLabels] at hr; cases hr
        exact ⟨fun e he => by simp [he, heldOf], hok, Nat.le_refl _⟩
      · rename_i k e0 ho
        refine delStartWith_sound hok (fun x hx => mem_of_mem_dropLast' hx) ?_ hm hr
        intro e
        have := oldestHeld_some ho e
        simp only [hDec]
        omega
    case delRead.closeAll e =>
      unfold delRead at hm
      split at hm
      · cases hm
      · split at hm
        · split at hm <;> (cases hm; exact same _ _ _ rfl rfl (fun _ => rfl) (fun _ => rfl))
        · cases hm; exact same _ _ _ rfl rfl (fun _ => rfl) (fun _ => rfl)
    case destruct.closeAll e v => cases hm; exact same _ _ _ rfl rfl (fun _ => rfl) (fun _ => rfl)

/-! ### the books of a whole system -/

/-- `holders` of every allocated entry is the number of references the named threads remember -/
structure Books (y : Sys) : Prop where
  count : ∀ e, e < y.g.next → (y.g.ent e).holders = holdCount y.threads e
  ok : ∀ th ∈ y.threads, HeldOk y.g th

theorem heldOf_zero {g : G} {th : Thread} (h : HeldOk g th) {e : Nat} (he : g.next ≤ e) : heldOf e th = 0 := by
  unfold heldOf
  rw [List.countP_eq_zero]
  intro x hx
  have := h x hx
  simp; omega

theorem holdCount_zero {g : G} : ∀ {ths : List Thread}, (∀ th ∈ ths, HeldOk g th) → ∀ {e : Nat}, g.next ≤ e →
    holdCount ths e = 0
  | [], _, _, _ => rfl
  | a :: as, h, e, he => by
    have h1 := heldOf_zero (h a (List.mem_cons_self ..)) he
    have h2 := holdCount_zero (ths := as) (fun th hth => h th (List.mem_cons_of_mem _ hth)) he
    simp [holdCount] at h2 ⊢
    omega

theorem books_tstep (nk : Nat) (y : Sys) (t : Nat) (h : Books y) : Books (tstep nk y t) := by
  unfold tstep
  split
  · exact ⟨h.count, h.ok⟩
  · rename_i th hth
    split
    · exact ⟨h.count, h.ok⟩
    · exact ⟨h.count, h.ok⟩
    · exact ⟨h.count, h.ok⟩
    · rename_i ls th' ev hm
      split
      · exact ⟨h.count, h.ok⟩
      · rename_i g' hr
        have hmem : th ∈ y.threads := List.mem_of_getElem? hth
        obtain ⟨hbal, hok', hmono⟩ := tmove_sound (h.ok th hmem) hm hr
        constructor
        · intro e he
          have he' : e < g'.next := he
          have hset := holdCount_set y.threads t th th' e hth
          have hb := hbal e he'
          show (g'.ent e).holders = holdCount (y.threads.set t th') e
          by_cases hlt : e < y.g.next
          · have := h.count e hlt
            simp only [hlt, if_true] at hb
            omega
          · have h0 := heldOf_zero (h.ok th hmem) (Nat.le_of_not_lt hlt)
            have h1 := holdCount_zero h.ok (Nat.le_of_not_lt hlt) (e := e)
            simp only [hlt, if_false] at hb
            omega
        · intro th2 hth2
          show HeldOk g' th2
          rcases List.mem_or_eq_of_mem_set hth2 with hm2 | hm2
          · exact fun x hx => Nat.lt_of_lt_of_le (h.ok th2 hm2 x hx) hmono
          · subst hm2; exact hok'

theorem books_foldl (nk : Nat) : ∀ (sched : List Nat) (y : Sys), Books y → Books (sched.foldl (tstep nk) y)
  | [], _, h => h
  | t :: ts, y, h => books_foldl nk ts (tstep nk y t) (books_tstep nk y t h)

theorem books_drain (nk : Nat) : ∀ (fuel : Nat) (y : Sys), Books y → Books (drain nk fuel y)
  | 0, _, h => h
  | fuel + 1, y, h => by
    unfold drain
    split
    · exact h
    · exact books_drain nk fuel _ (books_tstep nk y _ h)

theorem books_runSched (nk : Nat) (progs : List (List Op)) (sched : List Nat) : Books (runSched nk progs sched) := by
  unfold runSched
  refine books_drain nk _ _ (books_foldl nk sched _ ⟨?_, ?_⟩)
  · intro e he; exact absurd he (Nat.not_lt_zero _)
  · intro th hth x hx
    simp only [List.mem_map] at hth
    obtain ⟨p, _, rfl⟩ := hth
    simp at hx

theorem heldOf_le_holdCount (e : Nat) : ∀ {ths : List Thread} {th : Thread}, th ∈ ths → heldOf e th ≤ holdCount ths e
  | [], _, h => by simp at h
  | a :: as, th, h => by
    simp only [List.mem_cons] at h
    rcases h with h | h
    · subst h; simp [holdCount]
    · have := heldOf_le_holdCount e h
      simp [holdCount] at this ⊢; omega

theorem holdCount_of_nothing_held (e : Nat) : ∀ {ths : List Thread}, (∀ th ∈ ths, th.held = []) → holdCount ths e = 0
  | [], _ => rfl
  | a :: as, h => by
    have h1 : heldOf e a = 0 := by simp [heldOf, h a (List.mem_cons_self ..)]
    have h2 := holdCount_of_nothing_held e (ths := as) (fun th hth => h th (List.mem_cons_of_mem _ hth))
    simp [holdCount] at h2 ⊢
    omega

end CaddyModel.C04
