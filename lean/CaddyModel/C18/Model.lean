/-
C18 — model of `(*Replacer).replace` (replacer.go), transliterated statement by
statement: cursor `i`, `lastWriteCursor`, `unclosedCount`, `lastEnd` (the remembered
closing brace), the escaped-closer inner loop, the four public modes.  Byte strings are `List UInt8`; `Get` is the
parameter `env`; a `ReplacementFunc` is a parameter `f` acting on the stringified
value.  Go's slice expression `s[lo:hi]` panics when `lo > hi`; the model keeps
that as an explicit `panic` outcome (and `Props.lean` proves it is unreachable).
-/
import CaddyModel.Util.Hex

namespace CaddyModel.C18

def phOpen : UInt8 := 123   -- '{'
def phClose : UInt8 := 125  -- '}'
def phEscape : UInt8 := 92  -- '\\'

/-- `strings.IndexByte(s, c)` -/
def indexOf (c : UInt8) : Bytes → Option Nat
  | [] => none
  | x :: xs => if x = c then some 0 else (indexOf c xs).map (· + 1)

/-- `strings.Index(inp[i:], c) + i`, `none` when the Go expression is `< i` -/
def indexFrom (inp : Bytes) (c : UInt8) (i : Nat) : Option Nat :=
  (indexOf c (inp.drop i)).map (· + i)

/-- Go slice expression `inp[lo:hi]`; `none` = run-time panic -/
def slice (inp : Bytes) (lo hi : Nat) : Option Bytes :=
  if lo ≤ hi ∧ hi ≤ inp.length then some ((inp.drop lo).take (hi - lo)) else none

abbrev Env := Bytes → Option Bytes

structure Mode where
  empty : Bytes
  unknownEmpty : Bool      -- treatUnknownAsEmpty
  errEmpty : Bool          -- errOnEmpty
  errUnknown : Bool        -- errOnUnknown
  f : Option (Bytes → Bytes → Option Bytes)   -- ReplacementFunc on (key, ToString val); none = returns error

inductive Res where
  | ok (out : Bytes)
  | tooMany                 -- "too many unclosed placeholders"
  | unknown (key : Bytes)   -- "unrecognized placeholder"
  | emptyVal (key : Bytes)  -- "evaluated placeholder … is empty"
  | funcErr                 -- the ReplacementFunc returned an error
  | panic                   -- slice bounds out of range
  | fuel                    -- model artefact: recursion budget exhausted (proved unreachable)
deriving DecidableEq, Repr

theorem indexOf_lt (c : UInt8) : ∀ (l : Bytes) (k : Nat), indexOf c l = some k → k < l.length
  | [], k, h => by simp [indexOf] at h
  | x :: xs, k, h => by
    unfold indexOf at h
    split at h
    · cases h; simp
    · cases hh : indexOf c xs with
      | none => simp [hh] at h
      | some j =>
        simp [hh] at h
        have := indexOf_lt c xs j hh
        subst h; simp; omega

theorem indexFrom_bounds {inp : Bytes} {c : UInt8} {i e : Nat}
    (h : indexFrom inp c i = some e) : i ≤ e ∧ e < inp.length := by
  unfold indexFrom at h
  cases hh : indexOf c (inp.drop i) with
  | none => simp [hh] at h
  | some k =>
    simp [hh] at h
    have := indexOf_lt c _ k hh
    simp at this
    omega

/-- the inner loop "look for the first closing brace that is not escaped";
    `none` = `unclosedCount++; continue scan`.  `fuel` bounds the iterations (each one
    moves `e` forward, so `inp.length` suffices; see `Lemmas.skipEscaped_fuel`). -/
def skipEscaped (inp : Bytes) : Nat → Nat → Option Nat
  | 0, e => some e
  | fuel + 1, e =>
    if e > 0 ∧ e + 1 < inp.length ∧ inp[e - 1]? = some phEscape then
      match indexFrom inp phClose (e + 1) with
      | none => none
      | some e' => skipEscaped inp fuel e'
    else some e

/-- what one iteration of the `scan` loop decides at an unescaped `{` at `i` -/
inductive Close where
  | unclosed            -- no (acceptable) closing brace: unclosedCount++, continue
  | at (e : Nat)        -- placeholder is inp[i+1:e]
deriving DecidableEq, Repr

def findClose (inp : Bytes) (i : Nat) : Close :=
  match indexFrom inp phClose i with
  | none => .unclosed
  | some e => match skipEscaped inp inp.length e with
    | none => .unclosed
    | some e' => .at e'

theorem skipEscaped_ge (inp : Bytes) : ∀ (fuel e e' : Nat), skipEscaped inp fuel e = some e' →
    e ≤ e' ∧ (e < inp.length → e' < inp.length)
  | 0, e, e', h => by simp [skipEscaped] at h; subst h; simp
  | fuel + 1, e, e', h => by
    unfold skipEscaped at h
    split at h
    · split at h
      · cases h
      · rename_i e1 hi
        have := indexFrom_bounds hi
        have := skipEscaped_ge inp fuel e1 e' h
        omega
    · simp at h; subst h; simp

theorem findClose_bounds {inp : Bytes} {i e : Nat} (h : findClose inp i = .at e) :
    i ≤ e ∧ e < inp.length := by
  unfold findClose at h
  split at h
  · cases h
  · rename_i e0 h0
    split at h
    · cases h
    · rename_i e1 h1
      cases h
      have := indexFrom_bounds h0
      have := skipEscaped_ge inp inp.length e0 e h1
      omega

/-- `if f != nil { val, err = f(key, val) }; valStr := ToString(val)` — `none` = f returned an error.
    An unknown key that is treated as empty has `val = nil`, and `ToString(nil) = ""`. -/
def Mode.valStr (m : Mode) (key : Bytes) (found : Option Bytes) : Option Bytes :=
  match m.f with
  | none => some (match found with | some v => v | none => [])
  | some f => f key (match found with | some v => v | none => [])

def isBrace (b : UInt8) : Bool := b = phOpen || b = phClose

/-- `i > 0 && input[i-1] == phEscape && (input[i] == phClose || input[i] == phOpen)` -/
def escAt (inp : Bytes) (i : Nat) : Bool :=
  decide (i > 0) && inp[i - 1]? == some phEscape && (match inp[i]? with | some b => isBrace b | none => false)

/-- `input[i] == phOpen` -/
def openAt (inp : Bytes) (i : Nat) : Bool := inp[i]? == some phOpen

/-- "find the end of the placeholder" for the opener at `i`: the closing brace found for the
    previous opener (`ce`, Go's `lastEnd`; `0` = none yet — a real one is `> i ≥ 0`) is reused
    while it lies behind `i`, otherwise it is searched for. -/
def closeAt (inp : Bytes) (i ce : Nat) : Close :=
  if ce > i then .at ce else findClose inp i

/-- the `scan` loop from index `i` on; `sb` is the string builder's content, `ce` is `lastEnd`.
    Structural recursion on `fuel` (every iteration advances `i`, so `inp.length + 1 - i`
    suffices: `Props.replace_never_runs_out_of_fuel`). -/
def loop (inp : Bytes) (env : Env) (m : Mode) : (fuel i lwc uc ce : Nat) → (sb : Bytes) → Res
  | 0, _, _, _, _, _ => .fuel
  | fuel + 1, i, lwc, uc, ce, sb =>
  if i < inp.length then
    -- check for escaped braces
    if escAt inp i then
      match slice inp lwc (i - 1) with
      | none => .panic
      | some s => loop inp env m fuel (i + 1) i uc ce (sb ++ s)
    else if !openAt inp i then
      loop inp env m fuel (i + 1) lwc uc ce sb
    else if uc > 100 then
      .tooMany
    else
      match closeAt inp i ce with
      | .unclosed => loop inp env m fuel (i + 1) lwc (uc + 1) ce sb
      | .at e =>
        -- lastEnd = end (a no-op when the cached brace was reused)
        match slice inp lwc i, slice inp (i + 1) e with
        | some pre, some key =>
          -- sb.WriteString(input[lastWriteCursor:i]); val, found := r.Get(key)
          if (env key).isNone ∧ m.errUnknown then .unknown key
          else if (env key).isNone ∧ !m.unknownEmpty then
            loop inp env m fuel (i + 1) i uc e (sb ++ pre)
          else
            match m.valStr key (env key) with
            | none => .funcErr
            | some valStr =>
              if valStr.isEmpty then
                if m.errEmpty then .emptyVal key
                else loop inp env m fuel (e + 1) (e + 1) uc e (sb ++ pre ++ m.empty)
              else loop inp env m fuel (e + 1) (e + 1) uc e (sb ++ pre ++ valStr)
        | _, _ => .panic
  else
    match slice inp lwc inp.length with
    | none => .panic
    | some s => .ok (sb ++ s)

/-- `(*Replacer).replace` -/
def replace (inp : Bytes) (env : Env) (m : Mode) : Res :=
  if !inp.contains phOpen && !inp.contains phClose then .ok inp
  else loop inp env m (inp.length + 1) 0 0 0 0 []

/-! The four public entry points (what the harness calls). -/

def outOrEmpty : Res → Res
  | .ok o => .ok o
  | .panic => .panic
  | .fuel => .fuel
  | _ => .ok []     -- `out, _ := r.replace(...)`: the error is dropped, out is ""

def replaceAll (inp empty : Bytes) (env : Env) : Res :=
  outOrEmpty (replace inp env ⟨empty, true, false, false, none⟩)

def replaceKnown (inp empty : Bytes) (env : Env) : Res :=
  outOrEmpty (replace inp env ⟨empty, false, false, false, none⟩)

def replaceOrErr (inp : Bytes) (errEmpty errUnknown : Bool) (env : Env) : Res :=
  replace inp env ⟨[], false, errEmpty, errUnknown, none⟩

def replaceFunc (inp : Bytes) (f : Bytes → Bytes → Option Bytes) (env : Env) : Res :=
  replace inp env ⟨[], true, false, false, some f⟩

end CaddyModel.C18
