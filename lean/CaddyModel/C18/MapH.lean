/-
C18 — a consumer of the replacer: the `map` handler (modules/caddyhttp/map/map.go), transliterated.
`ServeHTTP` appends ONE lazy provider to the request's replacer; when a destination placeholder is
evaluated the closure expands the configured source, walks the mappings and answers

  * exact mapping   : `repl.ReplaceAll(output, "")`           — a configured template;
  * regexp mapping  : `re.ExpandString(nil, output, input, m)` — the output with the captured REQUEST
                      text filled in; this is returned as it is, it is NOT given to the replacer;
  * no mapping      : `repl.ReplaceAll(defaults[i], "")`, or `nil, true` without defaults.

The replacer the closure uses is the one it is installed in (so outputs may name other
destinations).  The model is parametric in that replacer, `R : template ↦ expansion`, which is what
the "only configured templates are scanned" theorem quantifies over; `mapEnvD` ties the knot by
depth (the generator keeps configurations acyclic: a cyclic one overflows the Go stack).
-/
import CaddyModel.C18.Regex

namespace CaddyModel.C18

/-! ### the request environment of the consumer streams: `Http.httpEnv` plus the `file.` provider -/

def rwFileName : Bytes := str "c18rwsecret.txt"
def crlfFileName : Bytes := str "c18crlf.txt"
def secretFileContent : Bytes := str "F1LE-C0NTENT-7731"

/-- the files of the streams' working directory -/
def fsContent (name : Bytes) : Option Bytes :=
  if name = rwFileName then some secretFileContent
  else if name = crlfFileName then some (str "CRLF-F1LE" ++ [13, 10])
  else none

def trimSuffixByte (b : UInt8) (s : Bytes) : Bytes := if s.getLast? = some b then s.dropLast else s

/-- `fileReplacementProvider.replace`: an unreadable file is KNOWN and empty; one trailing `\n` and
    then one trailing `\r` are cut off -/
def fileValue (name : Bytes) : Bytes :=
  match fsContent name with
  | some c => trimSuffixByte 13 (trimSuffixByte 10 c)
  | none => []

/-- provider order of the real chain: globals (`env.`), `file.`, static map (empty), HTTP -/
def cEnv (r : HttpReq) : Env := fun key =>
  match stripPrefix (str "file.") key with
  | some name => some (fileValue name)
  | none => httpEnv r key

/-- total `ReplaceAll(t, "")` / `ReplaceKnown(t, "")` (the error outcomes are unreachable:
    `Props.replace_never_panics`, `replace_never_runs_out_of_fuel`) -/
def expandAll (env : Env) (t : Bytes) : Bytes :=
  match replaceAll t [] env with
  | .ok o => o
  | _ => []

def expandKnown (env : Env) (t : Bytes) : Bytes :=
  match replaceKnown t [] env with
  | .ok o => o
  | _ => []

/-! ### the handler -/

structure MapMapping where
  isRegexp : Bool                 -- `m.re != nil` (input_regexp configured)
  input : Bytes                   -- `m.Input`
  pat : Pat                       -- `m.re`
  outputs : List (Option Bytes)   -- `m.Outputs`; `none` = JSON null

structure MapCfg where
  source : Bytes
  dests : List Bytes              -- after Provision: without the braces
  mappings : List MapMapping
  defaults : List Bytes

/-- `Validate`: defaults and outputs correspond 1:1 to the destinations; no mapping input twice -/
def mapInputKey (m : MapMapping) : Bytes := if m.isRegexp then m.pat.text else m.input

def mapNoDup : List Bytes → Bool
  | [] => true
  | k :: ks => !ks.contains k && mapNoDup ks

def mapValidate (cfg : MapCfg) : Bool :=
  (cfg.defaults.isEmpty || cfg.defaults.length = cfg.dests.length) &&
  cfg.mappings.all (fun m => m.outputs.length = cfg.dests.length) &&
  mapNoDup (cfg.mappings.map mapInputKey)

inductive MapVal where
  | unknown              -- `nil, false`: not a destination of this handler
  | nil                  -- `nil, true`
  | val (v : Bytes)
  | panic                -- `m.Outputs[destIdx]` out of range (excluded by Validate)
deriving DecidableEq, Repr

inductive MapScan where
  | none
  | found (v : Bytes)
  | panic
deriving DecidableEq, Repr

/-- the `for _, m := range h.Mappings` loop. `reexpand = false` is the code; `true` is the seeded change
    "regexp outputs fall through to the shared ReplaceAll" (kept to show what the statement excludes). -/
def mapScan (reexpand : Bool) (R : Bytes → Bytes) (input : Bytes) (idx : Nat) : List MapMapping → MapScan
  | [] => .none
  | m :: ms =>
    match m.outputs[idx]? with
    | none => .panic
    | some none => mapScan reexpand R input idx ms
    | some (some out) =>
      if m.isRegexp then
        match m.pat.find input with
        | none => mapScan reexpand R input idx ms
        | some mt => .found (if reexpand then R (expand mt.groups out) else expand mt.groups out)
      else if input = m.input then .found (R out)
      else mapScan reexpand R input idx ms

/-- the closure given to `repl.Map` -/
def mapLookup (reexpand : Bool) (R : Bytes → Bytes) (cfg : MapCfg) (key : Bytes) : MapVal :=
  match cfg.dests.idxOf? key with
  | none => .unknown
  | some idx =>
    match mapScan reexpand R (R cfg.source) idx cfg.mappings with
    | .found v => .val v
    | .panic => .panic
    | .none => match cfg.defaults[idx]? with
      | some d => .val (R d)
      | none => .nil

/-- everything the handler may hand to the replacer -/
def mapTemplates (cfg : MapCfg) : List Bytes :=
  cfg.source :: cfg.defaults ++
    (cfg.mappings.filter (fun m => !m.isRegexp)).flatMap (fun m => m.outputs.filterMap id)

/-- the replacer's provider chain with the closure appended behind `base` -/
def withMap (reexpand : Bool) (R : Bytes → Bytes) (cfg : MapCfg) (base : Env) : Env := fun key =>
  match base key with
  | some v => some v
  | none =>
    match mapLookup reexpand R cfg key with
    | .val v => some v
    | .nil => some []
    | _ => none

/-- the replacer that contains the closure that uses the replacer …, unfolded `d` times -/
def mapEnvD (reexpand : Bool) (cfg : MapCfg) (base : Env) : Nat → Env
  | 0 => base
  | d + 1 => withMap reexpand (expandAll (mapEnvD reexpand cfg base d)) cfg base

/-- what the stream observes: `repl.ReplaceAll(probe, "")` behind the handler -/
def mapProbe (reexpand : Bool) (cfg : MapCfg) (probe : Bytes) (r : HttpReq) : Bytes :=
  expandAll (mapEnvD reexpand cfg (cEnv r) 3) probe

end CaddyModel.C18
