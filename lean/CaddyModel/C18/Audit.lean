import CaddyModel.C18.Props
open CaddyModel.C18
#print axioms single_pass
#print axioms value_independent_structure
#print axioms replace_never_panics
#print axioms replace_never_runs_out_of_fuel
#print axioms no_braces_identity
#print axioms placeholders_are_input_slices
#print axioms substituted_only_if_known_or_emptied
#print axioms unknown_never_substituted_when_kept
#print axioms cost_linear
#print axioms cost_linear_old_code_fails
#print axioms close_cache_is_transparent
#print axioms findClose_at_iff
#print axioms findClose_mono
#print axioms loop_eq_loopNC
#print axioms old_cost_twin_follows_old_loop
#print axioms vars_regexp_sees_value_verbatim
#print axioms vars_matcher_compares_verbatim
#print axioms vars_regexp_old_code_rescans
#print axioms unclosed_limit_matches_source
#print axioms outside_preserved_mod_escape
#print axioms cost_twin_follows_loop
#print axioms cutAt_eq
#print axioms rewrite_injected_query_verbatim
#print axioms rewrite_path_and_query_are_one_expansion
#print axioms rewrite_old_code_reexpands
#print axioms query_values_are_escaped
