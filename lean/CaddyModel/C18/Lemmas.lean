import CaddyModel.C18.Spec

namespace CaddyModel.C18

theorem loopNC_eq_render (inp : Bytes) (env : Env) (m : Mode) (fuel i lwc uc : Nat) (sb : Bytes) :
    loopNC inp env m fuel i lwc uc sb =
      render env m (segLoop inp (dom env) m.unknownEmpty m.errUnknown fuel i lwc uc) sb := by
  fun_induction loopNC inp env m fuel i lwc uc sb <;> rw [segLoop]
  case case14 h hs => rw [if_neg (by omega), hs]; simp only [render]
  case case15 s h hs => rw [if_neg (by omega), hs]; simp only [render]
  all_goals (try simp_all [dom])
  all_goals (try rw [if_neg (by omega)])
  all_goals (try simp only [render])
  all_goals (try simp_all [dom])
  all_goals (split <;> try split) <;> simp_all [render]

/-! ### `findClose` returns the index of a closing brace -/

theorem indexOf_get (c : UInt8) : ∀ (l : Bytes) (k : Nat), indexOf c l = some k → l[k]? = some c
  | [], k, h => by simp [indexOf] at h
  | x :: xs, k, h => by
    unfold indexOf at h
    split at h
    · cases h; simp_all
    · cases hh : indexOf c xs with
      | none => simp [hh] at h
      | some j =>
        simp [hh] at h
        subst h
        simpa using indexOf_get c xs j hh

theorem indexFrom_get {inp : Bytes} {c : UInt8} {i e : Nat}
    (h : indexFrom inp c i = some e) : inp[e]? = some c := by
  unfold indexFrom at h
  cases hh : indexOf c (inp.drop i) with
  | none => simp [hh] at h
  | some k =>
    simp [hh] at h
    have := indexOf_get c _ k hh
    subst h
    simpa [List.getElem?_drop, Nat.add_comm] using this

theorem skipEscaped_get (inp : Bytes) : ∀ (fuel e e' : Nat), inp[e]? = some phClose →
    skipEscaped inp fuel e = some e' → inp[e']? = some phClose
  | 0, e, e', he, h => by simp [skipEscaped] at h; subst h; exact he
  | fuel + 1, e, e', he, h => by
    unfold skipEscaped at h
    split at h
    · split at h
      · cases h
      · rename_i e1 hi
        exact skipEscaped_get inp fuel e1 e' (indexFrom_get hi) h
    · simp at h; subst h; exact he

theorem findClose_get {inp : Bytes} {i e : Nat} (h : findClose inp i = .at e) :
    inp[e]? = some phClose := by
  unfold findClose at h
  split at h
  · cases h
  · rename_i e0 h0
    split at h
    · cases h
    · rename_i e1 h1
      cases h
      exact skipEscaped_get inp inp.length e0 e (indexFrom_get h0) h1

/-! ### which closing brace `findClose` returns

`findClose inp i` is the first closing brace at or behind `i` that the inner loop does not skip as
escaped (`Skipped`); all closing braces in front of it (from `i` on) are skipped ones. This
characterisation does not mention where the search started except as a lower bound — hence the
result is the same for every start between `i` and the brace found (`findClose_mono`), which is
what makes remembering it (`lastEnd`) sound. -/

/-- the condition of the inner `for`: the closing brace at `e` is passed over -/
def Skipped (inp : Bytes) (e : Nat) : Prop :=
  e > 0 ∧ e + 1 < inp.length ∧ inp[e - 1]? = some phEscape

theorem indexOf_first (c : UInt8) : ∀ (l : Bytes) (k : Nat), indexOf c l = some k →
    ∀ j, j < k → l[j]? ≠ some c
  | [], k, h => by simp [indexOf] at h
  | x :: xs, k, h => by
    unfold indexOf at h
    split at h
    · cases h; intro j hj; omega
    · rename_i hx
      cases hh : indexOf c xs with
      | none => simp [hh] at h
      | some k' =>
        simp [hh] at h
        subst h
        intro j hj
        cases j with
        | zero => simpa using hx
        | succ j => simpa using indexOf_first c xs k' hh j (by omega)

theorem indexOf_exists (c : UInt8) : ∀ (l : Bytes) (k : Nat), l[k]? = some c →
    ∃ k', indexOf c l = some k' ∧ k' ≤ k
  | [], k, h => by simp at h
  | x :: xs, k, h => by
    unfold indexOf
    split
    · exact ⟨0, rfl, Nat.zero_le _⟩
    · rename_i hx
      cases k with
      | zero => simp at h; exact absurd h hx
      | succ k =>
        obtain ⟨k', h1, h2⟩ := indexOf_exists c xs k (by simpa using h)
        exact ⟨k' + 1, by simp [h1], by omega⟩

theorem indexFrom_first {inp : Bytes} {c : UInt8} {i e : Nat} (h : indexFrom inp c i = some e) :
    ∀ k, i ≤ k → k < e → inp[k]? ≠ some c := by
  unfold indexFrom at h
  cases hh : indexOf c (inp.drop i) with
  | none => simp [hh] at h
  | some k0 =>
    simp [hh] at h
    subst h
    intro k hik hk
    have := indexOf_first c _ k0 hh (k - i) (by omega)
    rw [List.getElem?_drop] at this
    have e1 : i + (k - i) = k := by omega
    rwa [e1] at this

theorem indexFrom_exists {inp : Bytes} {c : UInt8} {i k : Nat} (hik : i ≤ k) (h : inp[k]? = some c) :
    ∃ e, indexFrom inp c i = some e ∧ e ≤ k := by
  have h' : (inp.drop i)[k - i]? = some c := by
    rw [List.getElem?_drop]
    have e1 : i + (k - i) = k := by omega
    rwa [e1]
  obtain ⟨k', h1, h2⟩ := indexOf_exists c _ _ h'
  exact ⟨k' + i, by simp [indexFrom, h1], by omega⟩

/-- the inner loop stops at a brace that is not skipped, having passed over skipped ones only
    (`inp.length` iterations are always enough: every iteration moves `e` forward) -/
theorem skipEscaped_sound (inp : Bytes) : ∀ (fuel e e' : Nat), inp.length ≤ fuel + e → e < inp.length →
    skipEscaped inp fuel e = some e' →
    ¬ Skipped inp e' ∧ ∀ k, e ≤ k → k < e' → inp[k]? = some phClose → Skipped inp k
  | 0, e, e', hf, he, _ => by omega
  | fuel + 1, e, e', hf, he, h => by
    unfold skipEscaped at h
    split at h
    · rename_i hsk
      split at h
      · cases h
      · rename_i e1 hi
        have hb := indexFrom_bounds hi
        obtain ⟨h1, h2⟩ := skipEscaped_sound inp fuel e1 e' (by omega) hb.2 h
        refine ⟨h1, fun k hk1 hk2 hk => ?_⟩
        by_cases hke : k = e
        · subst hke; exact hsk
        · by_cases hk1' : k < e1
          · exact absurd hk (indexFrom_first hi k (by omega) hk1')
          · exact h2 k (by omega) hk2 hk
    · rename_i hsk
      simp at h; subst h
      exact ⟨hsk, fun k hk1 hk2 => by omega⟩

theorem skipEscaped_complete (inp : Bytes) : ∀ (fuel e0 e : Nat), e - e0 < fuel → e0 ≤ e →
    inp[e0]? = some phClose → inp[e]? = some phClose → ¬ Skipped inp e →
    (∀ k, e0 ≤ k → k < e → inp[k]? = some phClose → Skipped inp k) →
    skipEscaped inp fuel e0 = some e
  | 0, e0, e, hf, _, _, _, _, _ => by omega
  | fuel + 1, e0, e, hf, hle, h0, he, hns, hall => by
    unfold skipEscaped
    split
    · rename_i hsk
      have hlt : e0 < e := by
        rcases Nat.lt_or_ge e0 e with h | h
        · exact h
        · have : e0 = e := by omega
          subst this; exact absurd hsk hns
      obtain ⟨e1, hi, hle1⟩ := indexFrom_exists (i := e0 + 1) (by omega) he
      have hb := indexFrom_bounds hi
      simp only [hi]
      exact skipEscaped_complete inp fuel e1 e (by omega) hle1 (indexFrom_get hi) he hns
        (fun k hk1 hk2 hk => hall k (by omega) hk2 hk)
    · rename_i hsk
      rcases Nat.lt_or_ge e0 e with h | h
      · exact absurd (hall e0 (Nat.le_refl _) h h0) hsk
      · have : e0 = e := by omega
        subst this; rfl

/-- **what `findClose` finds**: the first closing brace at or behind `i` that is not skipped as escaped -/
theorem findClose_at_iff (inp : Bytes) (i e : Nat) :
    findClose inp i = .at e ↔
      (i ≤ e ∧ inp[e]? = some phClose ∧ ¬ Skipped inp e ∧
        ∀ k, i ≤ k → k < e → inp[k]? = some phClose → Skipped inp k) := by
  constructor
  · intro h
    have hb := findClose_bounds h
    have hg := findClose_get h
    unfold findClose at h
    split at h
    · cases h
    · rename_i e0 h0
      split at h
      · cases h
      · rename_i e1 h1
        cases h
        have hb0 := indexFrom_bounds h0
        obtain ⟨h2, h3⟩ := skipEscaped_sound inp inp.length e0 e (by omega) hb0.2 h1
        refine ⟨hb.1, hg, h2, fun k hk1 hk2 hk => ?_⟩
        by_cases hk0 : k < e0
        · exact absurd hk (indexFrom_first h0 k hk1 hk0)
        · exact h3 k (by omega) hk2 hk
  · rintro ⟨hle, hg, hns, hall⟩
    obtain ⟨e0, h0, hle0⟩ := indexFrom_exists hle hg
    have hb0 := indexFrom_bounds h0
    have hlen : e < inp.length := by
      rcases Nat.lt_or_ge e inp.length with h | h
      · exact h
      · rw [List.getElem?_eq_none h] at hg; cases hg
    unfold findClose
    simp only [h0]
    rw [skipEscaped_complete inp inp.length e0 e (by omega) hle0 (indexFrom_get h0) hg hns
      (fun k hk1 hk2 hk => hall k (by omega) hk2 hk)]

/-- **the search result does not depend on where between the opener and the brace it starts** -/
theorem findClose_mono {inp : Bytes} {i e j : Nat} (h : findClose inp i = .at e) (hij : i ≤ j) (hje : j < e) :
    findClose inp j = .at e := by
  obtain ⟨_, hg, hns, hall⟩ := (findClose_at_iff inp i e).mp h
  exact (findClose_at_iff inp j e).mpr ⟨by omega, hg, hns, fun k hk1 hk2 hk => hall k (by omega) hk2 hk⟩

/-! ### the remembered closing brace changes nothing -/

theorem CacheOK.step {inp : Bytes} {i ce : Nat} (h : CacheOK inp i ce) : CacheOK inp (i + 1) ce :=
  fun j hj1 hj2 => h j (by omega) hj2

theorem CacheOK.fresh (inp : Bytes) (e : Nat) : CacheOK inp (e + 1) e :=
  fun j hj1 hj2 => by omega

theorem CacheOK.of_findClose {inp : Bytes} {i e : Nat} (h : findClose inp i = .at e) : CacheOK inp (i + 1) e :=
  fun j hj1 hj2 => findClose_mono h (by omega) hj2

theorem CacheOK.init (inp : Bytes) : CacheOK inp 0 0 := fun j _ hj => by omega

/-- with a sound cache, looking the brace up in it is the search -/
theorem closeAt_eq_findClose {inp : Bytes} {i ce : Nat} (h : CacheOK inp i ce) :
    closeAt inp i ce = findClose inp i := by
  unfold closeAt
  split
  · rename_i hgt; exact (h i (Nat.le_refl _) hgt).symm
  · rfl

/-- whatever `closeAt` answers is a sound cache for the next iteration -/
theorem CacheOK.next {inp : Bytes} {i ce e : Nat} (h : CacheOK inp i ce) (hc : closeAt inp i ce = .at e) :
    CacheOK inp (i + 1) e := by
  rw [closeAt_eq_findClose h] at hc
  exact CacheOK.of_findClose hc

/-- **the close cache is transparent**: the loop with `lastEnd` computes what the loop that searches
    for the closing brace at every opener computes -/
theorem loop_eq_loopNC (inp : Bytes) (env : Env) (m : Mode) (fuel i lwc uc ce : Nat) (sb : Bytes)
    (hc : CacheOK inp i ce) :
    loop inp env m fuel i lwc uc ce sb = loopNC inp env m fuel i lwc uc sb := by
  revert ce
  fun_induction loopNC inp env m fuel i lwc uc sb <;> intro ce hc <;> rw [loop] <;>
    (try rw [closeAt_eq_findClose hc]) <;> (try have hs := hc.step) <;>
    (try have ho := CacheOK.of_findClose (by assumption)) <;>
    simp_all
  all_goals (try (intro hgt; omega))
  all_goals (try rw [if_neg (by omega)])
  all_goals (try (split <;> (try split) <;> simp_all))
  all_goals (apply_assumption; exact CacheOK.fresh inp _)

theorem loop_eq_render (inp : Bytes) (env : Env) (m : Mode) (fuel i lwc uc ce : Nat) (sb : Bytes)
    (hc : CacheOK inp i ce) :
    loop inp env m fuel i lwc uc ce sb =
      render env m (segLoop inp (dom env) m.unknownEmpty m.errUnknown fuel i lwc uc) sb := by
  rw [loop_eq_loopNC inp env m fuel i lwc uc ce sb hc, loopNC_eq_render]

/-! ### the loop never panics -/

/-- loop-head invariant of `scan`: the write cursor is behind the read cursor, and
    when they coincide the byte before them is not a backslash -/
def HeadInv (inp : Bytes) (i lwc : Nat) : Prop :=
  lwc ≤ i ∧ i ≤ inp.length ∧ (lwc = i → 0 < i → inp[i - 1]? ≠ some phEscape)

theorem escAt_prev {inp : Bytes} {i : Nat} (h : escAt inp i = true) :
    0 < i ∧ inp[i - 1]? = some phEscape := by
  unfold escAt at h
  simp at h
  exact ⟨h.1.1, h.1.2⟩

theorem escAt_brace {inp : Bytes} {i : Nat} (h : escAt inp i = true) :
    inp[i]? = some phOpen ∨ inp[i]? = some phClose := by
  unfold escAt at h
  simp at h
  obtain ⟨_, h2⟩ := h
  split at h2
  · rename_i b hb
    simp [isBrace] at h2
    rcases h2 with h2 | h2 <;> simp [hb, h2]
  · cases h2

theorem phOpen_ne_escape : phOpen ≠ phEscape := by decide
theorem phClose_ne_escape : phClose ≠ phEscape := by decide
theorem phOpen_ne_close : phOpen ≠ phClose := by decide

theorem segLoop_no_panic (inp : Bytes) (known : Bytes → Bool) (ue eu : Bool) (fuel i lwc uc : Nat)
    (hinv : HeadInv inp i lwc) : Seg.halt .panic ∉ segLoop inp known ue eu fuel i lwc uc := by
  fun_induction segLoop inp known ue eu fuel i lwc uc with
  | case1 => simp
  | case2 fuel i lwc uc hi hesc hs =>
    -- escape branch, slice panics: impossible
    exfalso
    obtain ⟨h1, h2, h3⟩ := hinv
    obtain ⟨hpos, hprev⟩ := escAt_prev hesc
    have : lwc ≠ i := fun h => h3 h hpos hprev
    unfold slice at hs
    rw [if_pos ⟨by omega, by omega⟩] at hs
    cases hs
  | case3 fuel i lwc uc hi hesc s hs ih =>
    simp only [List.mem_cons, not_or]
    refine ⟨by simp, ih ⟨by omega, by omega, fun h => by omega⟩⟩
  | case4 fuel i lwc uc hi hesc hopen ih =>
    exact ih ⟨by have := hinv.1; omega, by omega, fun h => by have := hinv.1; omega⟩
  | case5 fuel i lwc uc hi hesc hopen huc => simp
  | case6 fuel i lwc uc hi hesc hopen huc hc ih =>
    exact ih ⟨by have := hinv.1; omega, by omega, fun h => by have := hinv.1; omega⟩
  | case7 fuel i lwc uc hi hesc hopen huc e hc pre key hpre hkey hk => simp
  | case8 fuel i lwc uc hi hesc hopen huc e hc pre key hpre hkey hk1 hk2 ih =>
    simp only [List.mem_cons, not_or]
    refine ⟨by simp, ih ⟨by omega, by omega, fun h => by omega⟩⟩
  | case9 fuel i lwc uc hi hesc hopen huc e hc pre key hpre hkey hk1 hk2 ih =>
    have hb := findClose_bounds hc
    have hg := findClose_get hc
    simp only [List.mem_cons, not_or]
    refine ⟨by simp, by simp, ih ⟨by omega, by omega, fun _ _ => ?_⟩⟩
    simp only [Nat.add_sub_cancel, hg]
    intro h; cases h
  | case10 fuel i lwc uc hi hesc hopen huc e hc hx =>
    -- one of the two slices panics: impossible
    exfalso
    have hb := findClose_bounds hc
    have hg := findClose_get hc
    have ho : inp[i]? = some phOpen := by simpa [openAt] using hopen
    have hne : i ≠ e := by
      intro h; subst h; rw [ho] at hg; cases hg
    obtain ⟨h1, h2, _⟩ := hinv
    have s1 : slice inp lwc i = some ((inp.drop lwc).take (i - lwc)) := by
      unfold slice; rw [if_pos ⟨h1, h2⟩]
    have s2 : slice inp (i + 1) e = some ((inp.drop (i + 1)).take (e - (i + 1))) := by
      unfold slice; rw [if_pos ⟨by omega, by omega⟩]
    exact hx _ _ s1 s2
  | case11 fuel i lwc uc hi hs =>
    exfalso
    obtain ⟨h1, h2, _⟩ := hinv
    unfold slice at hs
    rw [if_pos ⟨by omega, by omega⟩] at hs
    cases hs
  | case12 fuel i lwc uc hi s hs => simp

/-- the recursion budget `inp.length + 1 - i` is never exhausted -/
theorem segLoop_no_fuel (inp : Bytes) (known : Bytes → Bool) (ue eu : Bool) (fuel i lwc uc : Nat)
    (hf : inp.length < fuel + i) (hle : i ≤ inp.length) :
    Seg.halt .fuel ∉ segLoop inp known ue eu fuel i lwc uc := by
  fun_induction segLoop inp known ue eu fuel i lwc uc with
  | case1 => omega
  | case2 => simp
  | case3 fuel i lwc uc hi hesc s hs ih =>
    simp only [List.mem_cons, not_or]; exact ⟨by simp, ih (by omega) (by omega)⟩
  | case4 fuel i lwc uc hi hesc hopen ih => exact ih (by omega) (by omega)
  | case5 => simp
  | case6 fuel i lwc uc hi hesc hopen huc hc ih => exact ih (by omega) (by omega)
  | case7 => simp
  | case8 fuel i lwc uc hi hesc hopen huc e hc pre key hpre hkey hk1 hk2 ih =>
    simp only [List.mem_cons, not_or]; exact ⟨by simp, ih (by omega) (by omega)⟩
  | case9 fuel i lwc uc hi hesc hopen huc e hc pre key hpre hkey hk1 hk2 ih =>
    have hb := findClose_bounds hc
    simp only [List.mem_cons, not_or]; exact ⟨by simp, by simp, ih (by omega) (by omega)⟩
  | case10 => simp
  | case11 => simp
  | case12 => simp

theorem render_halt (env : Env) (m : Mode) (r : Res) (hr : r = .panic ∨ r = .fuel) :
    ∀ (segs : List Seg) (acc : Bytes), render env m segs acc = r → Seg.halt r ∈ segs
  | [], acc, h => by rcases hr with hr | hr <;> subst hr <;> simp [render] at h
  | .lit s :: rest, acc, h => by
    simp only [render] at h
    exact List.mem_cons_of_mem _ (render_halt env m r hr rest _ h)
  | .halt r :: rest, acc, h => by
    simp only [render] at h
    subst h; simp
  | .ph key :: rest, acc, h => by
    simp only [render] at h
    split at h
    · rcases hr with hr | hr <;> subst hr <;> cases h
    · split at h
      · split at h
        · rcases hr with hr | hr <;> subst hr <;> cases h
        · exact List.mem_cons_of_mem _ (render_halt env m r hr rest _ h)
      · exact List.mem_cons_of_mem _ (render_halt env m r hr rest _ h)


/-! ### what a substituted placeholder is -/

theorem segLoop_ph (inp : Bytes) (known : Bytes → Bool) (ue eu : Bool) (fuel i lwc uc : Nat) (key : Bytes)
    (h : Seg.ph key ∈ segLoop inp known ue eu fuel i lwc uc) :
    (∃ a b, i ≤ a ∧ inp[a]? = some phOpen ∧ inp[b]? = some phClose ∧ slice inp (a + 1) b = some key) ∧
    (known key = true ∨ (ue = true ∧ eu = false)) := by
  fun_induction segLoop inp known ue eu fuel i lwc uc with
  | case1 => simp at h
  | case2 => simp at h
  | case3 fuel i lwc uc hi hesc s hs ih =>
    simp only [List.mem_cons, reduceCtorEq, false_or] at h
    obtain ⟨⟨a, b, h1, h2⟩, h3⟩ := ih h
    exact ⟨⟨a, b, by omega, h2⟩, h3⟩
  | case4 fuel i lwc uc hi hesc hopen ih =>
    obtain ⟨⟨a, b, h1, h2⟩, h3⟩ := ih h
    exact ⟨⟨a, b, by omega, h2⟩, h3⟩
  | case5 => simp at h
  | case6 fuel i lwc uc hi hesc hopen huc hc ih =>
    obtain ⟨⟨a, b, h1, h2⟩, h3⟩ := ih h
    exact ⟨⟨a, b, by omega, h2⟩, h3⟩
  | case7 => simp at h
  | case8 fuel i lwc uc hi hesc hopen huc e hc pre key' hpre hkey hk1 hk2 ih =>
    simp only [List.mem_cons, reduceCtorEq, false_or] at h
    obtain ⟨⟨a, b, h1, h2⟩, h3⟩ := ih h
    exact ⟨⟨a, b, by omega, h2⟩, h3⟩
  | case9 fuel i lwc uc hi hesc hopen huc e hc pre key' hpre hkey hk1 hk2 ih =>
    simp only [List.mem_cons, reduceCtorEq, false_or, Seg.ph.injEq] at h
    rcases h with h | h
    · subst h
      refine ⟨⟨i, e, Nat.le_refl _, by simpa [openAt] using hopen, findClose_get hc, hpre⟩, ?_⟩
      cases hk : known key <;> cases ue <;> cases eu <;> simp_all
    · have hb := findClose_bounds hc
      obtain ⟨⟨a, b, h1, h2⟩, h3⟩ := ih h
      exact ⟨⟨a, b, by omega, h2⟩, h3⟩
  | case10 => simp at h
  | case11 => simp at h
  | case12 => simp at h

end CaddyModel.C18
