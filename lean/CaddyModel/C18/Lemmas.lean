import CaddyModel.C18.Spec

namespace CaddyModel.C18

theorem loop_eq_render (inp : Bytes) (env : Env) (m : Mode) (fuel i lwc uc : Nat) (sb : Bytes) :
    loop inp env m fuel i lwc uc sb =
      render env m (segLoop inp (dom env) m.unknownEmpty m.errUnknown fuel i lwc uc) sb := by
  fun_induction loop inp env m fuel i lwc uc sb <;> rw [segLoop]
  case case14 h hs => rw [if_neg (by omega), hs]; simp only [render]
  case case15 s h hs => rw [if_neg (by omega), hs]; simp only [render]
  all_goals (try simp_all [dom])
  all_goals (try rw [if_neg (by omega)])
  all_goals (try simp only [render])
  all_goals (try simp_all [dom])
  all_goals (split <;> try split) <;> simp_all [render]

/-! ### `findClose` returns the index of a closing brace -/

theorem indexOf_get (c : UInt8) : ∀ (l : Bytes) (k : Nat), indexOf c l = some k → l[k]? = some c
  | [], k, h => by simp [indexOf] at h
  | x :: xs, k, h => by
    unfold indexOf at h
    split at h
    · cases h; simp_all
    · cases hh : indexOf c xs with
      | none => simp [hh] at h
      | some j =>
        simp [hh] at h
        subst h
        simpa using indexOf_get c xs j hh

theorem indexFrom_get {inp : Bytes} {c : UInt8} {i e : Nat}
    (h : indexFrom inp c i = some e) : inp[e]? = some c := by
  unfold indexFrom at h
  cases hh : indexOf c (inp.drop i) with
  | none => simp [hh] at h
  | some k =>
    simp [hh] at h
    have := indexOf_get c _ k hh
    subst h
    simpa [List.getElem?_drop, Nat.add_comm] using this

theorem skipEscaped_get (inp : Bytes) : ∀ (fuel e e' : Nat), inp[e]? = some phClose →
    skipEscaped inp fuel e = some e' → inp[e']? = some phClose
  | 0, e, e', he, h => by simp [skipEscaped] at h; subst h; exact he
  | fuel + 1, e, e', he, h => by
    unfold skipEscaped at h
    split at h
    · split at h
      · cases h
      · rename_i e1 hi
        exact skipEscaped_get inp fuel e1 e' (indexFrom_get hi) h
    · simp at h; subst h; exact he

theorem findClose_get {inp : Bytes} {i e : Nat} (h : findClose inp i = .at e) :
    inp[e]? = some phClose := by
  unfold findClose at h
  split at h
  · cases h
  · rename_i e0 h0
    split at h
    · cases h
    · rename_i e1 h1
      cases h
      exact skipEscaped_get inp inp.length e0 e (indexFrom_get h0) h1

/-! ### the loop never panics -/

/-- loop-head invariant of `scan`: the write cursor is behind the read cursor, and
    when they coincide the byte before them is not a backslash -/
def HeadInv (inp : Bytes) (i lwc : Nat) : Prop :=
  lwc ≤ i ∧ i ≤ inp.length ∧ (lwc = i → 0 < i → inp[i - 1]? ≠ some phEscape)

theorem escAt_prev {inp : Bytes} {i : Nat} (h : escAt inp i = true) :
    0 < i ∧ inp[i - 1]? = some phEscape := by
  unfold escAt at h
  simp at h
  exact ⟨h.1.1, h.1.2⟩

theorem escAt_brace {inp : Bytes} {i : Nat} (h : escAt inp i = true) :
    inp[i]? = some phOpen ∨ inp[i]? = some phClose := by
  unfold escAt at h
  simp at h
  obtain ⟨_, h2⟩ := h
  split at h2
  · rename_i b hb
    simp [isBrace] at h2
    rcases h2 with h2 | h2 <;> simp [hb, h2]
  · cases h2

theorem phOpen_ne_escape : phOpen ≠ phEscape := by decide
theorem phClose_ne_escape : phClose ≠ phEscape := by decide
theorem phOpen_ne_close : phOpen ≠ phClose := by decide

theorem segLoop_no_panic (inp : Bytes) (known : Bytes → Bool) (ue eu : Bool) (fuel i lwc uc : Nat)
    (hinv : HeadInv inp i lwc) : Seg.halt .panic ∉ segLoop inp known ue eu fuel i lwc uc := by
  fun_induction segLoop inp known ue eu fuel i lwc uc with
  | case1 => simp
  | case2 fuel i lwc uc hi hesc hs =>
    -- escape branch, slice panics: impossible
    exfalso
    obtain ⟨h1, h2, h3⟩ := hinv
    obtain ⟨hpos, hprev⟩ := escAt_prev hesc
    have : lwc ≠ i := fun h => h3 h hpos hprev
    unfold slice at hs
    rw [if_pos ⟨by omega, by omega⟩] at hs
    cases hs
  | case3 fuel i lwc uc hi hesc s hs ih =>
    simp only [List.mem_cons, not_or]
    refine ⟨by simp, ih ⟨by omega, by omega, fun h => by omega⟩⟩
  | case4 fuel i lwc uc hi hesc hopen ih =>
    exact ih ⟨by have := hinv.1; omega, by omega, fun h => by have := hinv.1; omega⟩
  | case5 fuel i lwc uc hi hesc hopen huc => simp
  | case6 fuel i lwc uc hi hesc hopen huc hc ih =>
    exact ih ⟨by have := hinv.1; omega, by omega, fun h => by have := hinv.1; omega⟩
  | case7 fuel i lwc uc hi hesc hopen huc e hc pre key hpre hkey hk => simp
  | case8 fuel i lwc uc hi hesc hopen huc e hc pre key hpre hkey hk1 hk2 ih =>
    simp only [List.mem_cons, not_or]
    refine ⟨by simp, ih ⟨by omega, by omega, fun h => by omega⟩⟩
  | case9 fuel i lwc uc hi hesc hopen huc e hc pre key hpre hkey hk1 hk2 ih =>
    have hb := findClose_bounds hc
    have hg := findClose_get hc
    simp only [List.mem_cons, not_or]
    refine ⟨by simp, by simp, ih ⟨by omega, by omega, fun _ _ => ?_⟩⟩
    simp only [Nat.add_sub_cancel, hg]
    intro h; cases h
  | case10 fuel i lwc uc hi hesc hopen huc e hc hx =>
    -- one of the two slices panics: impossible
    exfalso
    have hb := findClose_bounds hc
    have hg := findClose_get hc
    have ho : inp[i]? = some phOpen := by simpa [openAt] using hopen
    have hne : i ≠ e := by
      intro h; subst h; rw [ho] at hg; cases hg
    obtain ⟨h1, h2, _⟩ := hinv
    have s1 : slice inp lwc i = some ((inp.drop lwc).take (i - lwc)) := by
      unfold slice; rw [if_pos ⟨h1, h2⟩]
    have s2 : slice inp (i + 1) e = some ((inp.drop (i + 1)).take (e - (i + 1))) := by
      unfold slice; rw [if_pos ⟨by omega, by omega⟩]
    exact hx _ _ s1 s2
  | case11 fuel i lwc uc hi hs =>
    exfalso
    obtain ⟨h1, h2, _⟩ := hinv
    unfold slice at hs
    rw [if_pos ⟨by omega, by omega⟩] at hs
    cases hs
  | case12 fuel i lwc uc hi s hs => simp

/-- the recursion budget `inp.length + 1 - i` is never exhausted -/
theorem segLoop_no_fuel (inp : Bytes) (known : Bytes → Bool) (ue eu : Bool) (fuel i lwc uc : Nat)
    (hf : inp.length < fuel + i) (hle : i ≤ inp.length) :
    Seg.halt .fuel ∉ segLoop inp known ue eu fuel i lwc uc := by
  fun_induction segLoop inp known ue eu fuel i lwc uc with
  | case1 => omega
  | case2 => simp
  | case3 fuel i lwc uc hi hesc s hs ih =>
    simp only [List.mem_cons, not_or]; exact ⟨by simp, ih (by omega) (by omega)⟩
  | case4 fuel i lwc uc hi hesc hopen ih => exact ih (by omega) (by omega)
  | case5 => simp
  | case6 fuel i lwc uc hi hesc hopen huc hc ih => exact ih (by omega) (by omega)
  | case7 => simp
  | case8 fuel i lwc uc hi hesc hopen huc e hc pre key hpre hkey hk1 hk2 ih =>
    simp only [List.mem_cons, not_or]; exact ⟨by simp, ih (by omega) (by omega)⟩
  | case9 fuel i lwc uc hi hesc hopen huc e hc pre key hpre hkey hk1 hk2 ih =>
    have hb := findClose_bounds hc
    simp only [List.mem_cons, not_or]; exact ⟨by simp, by simp, ih (by omega) (by omega)⟩
  | case10 => simp
  | case11 => simp
  | case12 => simp

theorem render_halt (env : Env) (m : Mode) (r : Res) (hr : r = .panic ∨ r = .fuel) :
    ∀ (segs : List Seg) (acc : Bytes), render env m segs acc = r → Seg.halt r ∈ segs
  | [], acc, h => by rcases hr with hr | hr <;> subst hr <;> simp [render] at h
  | .lit s :: rest, acc, h => by
    simp only [render] at h
    exact List.mem_cons_of_mem _ (render_halt env m r hr rest _ h)
  | .halt r :: rest, acc, h => by
    simp only [render] at h
    subst h; simp
  | .ph key :: rest, acc, h => by
    simp only [render] at h
    split at h
    · rcases hr with hr | hr <;> subst hr <;> cases h
    · split at h
      · split at h
        · rcases hr with hr | hr <;> subst hr <;> cases h
        · exact List.mem_cons_of_mem _ (render_halt env m r hr rest _ h)
      · exact List.mem_cons_of_mem _ (render_halt env m r hr rest _ h)


/-! ### what a substituted placeholder is -/

theorem segLoop_ph (inp : Bytes) (known : Bytes → Bool) (ue eu : Bool) (fuel i lwc uc : Nat) (key : Bytes)
    (h : Seg.ph key ∈ segLoop inp known ue eu fuel i lwc uc) :
    (∃ a b, i ≤ a ∧ inp[a]? = some phOpen ∧ inp[b]? = some phClose ∧ slice inp (a + 1) b = some key) ∧
    (known key = true ∨ (ue = true ∧ eu = false)) := by
  fun_induction segLoop inp known ue eu fuel i lwc uc with
  | case1 => simp at h
  | case2 => simp at h
  | case3 fuel i lwc uc hi hesc s hs ih =>
    simp only [List.mem_cons, reduceCtorEq, false_or] at h
    obtain ⟨⟨a, b, h1, h2⟩, h3⟩ := ih h
    exact ⟨⟨a, b, by omega, h2⟩, h3⟩
  | case4 fuel i lwc uc hi hesc hopen ih =>
    obtain ⟨⟨a, b, h1, h2⟩, h3⟩ := ih h
    exact ⟨⟨a, b, by omega, h2⟩, h3⟩
  | case5 => simp at h
  | case6 fuel i lwc uc hi hesc hopen huc hc ih =>
    obtain ⟨⟨a, b, h1, h2⟩, h3⟩ := ih h
    exact ⟨⟨a, b, by omega, h2⟩, h3⟩
  | case7 => simp at h
  | case8 fuel i lwc uc hi hesc hopen huc e hc pre key' hpre hkey hk1 hk2 ih =>
    simp only [List.mem_cons, reduceCtorEq, false_or] at h
    obtain ⟨⟨a, b, h1, h2⟩, h3⟩ := ih h
    exact ⟨⟨a, b, by omega, h2⟩, h3⟩
  | case9 fuel i lwc uc hi hesc hopen huc e hc pre key' hpre hkey hk1 hk2 ih =>
    simp only [List.mem_cons, reduceCtorEq, false_or, Seg.ph.injEq] at h
    rcases h with h | h
    · subst h
      refine ⟨⟨i, e, Nat.le_refl _, by simpa [openAt] using hopen, findClose_get hc, hpre⟩, ?_⟩
      cases hk : known key <;> cases ue <;> cases eu <;> simp_all
    · have hb := findClose_bounds hc
      obtain ⟨⟨a, b, h1, h2⟩, h3⟩ := ih h
      exact ⟨⟨a, b, by omega, h2⟩, h3⟩
  | case10 => simp at h
  | case11 => simp at h
  | case12 => simp at h

end CaddyModel.C18
