/-
C18 — a consumer that scans OUTPUT, by configuration: `templates` in front of `respond`.
Stage 1: `static_response` expands its body with `ReplaceKnown`.  Stage 2: the templates handler EXECUTES the
recorded body as a Go template.  So text that stage 1 substituted (request data) is scanned by stage 2 — that is
what putting `templates` in front of a body built from request data means, and it is outside the property
(template injection by configuration; the documentation of the handler says templates must be trusted).
What the property does need of stage 2: a value inserted BY a template action (`{{placeholder "key"}}`, backed by
`Replacer.GetString`) is final — neither the replacer nor the template engine looks at it again — and the `file.`
provider is not reachable from template actions (`repl.WithoutFile()`).
The template ENGINE is not modelled; the fragment "literal text and `{{placeholder "K"}}` / `{{ph "K"}}` with K over
[A-Za-z0-9._-]" is (`none` = outside the fragment; the stream answers `unsupported` on both sides).
-/
import CaddyModel.C18.MapH

namespace CaddyModel.C18

def isTplKeyByte (b : UInt8) : Bool := isAlnum b || b = 46 || b = 95 || b = 45

/-- the text behind `{{placeholder "` / `{{ph "`: the key and what follows `"}}` -/
def tplKey (rest : Bytes) : Option (Bytes × Bytes) :=
  if (rest.takeWhile isTplKeyByte).isEmpty then none
  else if hasPrefix (str "\"}}") (rest.dropWhile isTplKeyByte) then
    some (rest.takeWhile isTplKeyByte, (rest.dropWhile isTplKeyByte).drop 3)
  else none

/-- `funcPlaceholder`: `repl.WithoutFile().GetString(name)` — unknown keys give "" -/
def tplGet (env : Env) (key : Bytes) : Bytes :=
  if (stripPrefix (str "file.") key).isSome then []
  else match env key with
    | some v => v
    | none => []

/-- template execution on the fragment; values go to the output and are not looked at again -/
def tplExec (env : Env) : Nat → Bytes → Option Bytes
  | 0, _ => none
  | _ + 1, [] => some []
  | fuel + 1, c :: rest =>
    if hasPrefix (str "{{") (c :: rest) then
      match (if hasPrefix (str "{{placeholder \"") (c :: rest) then tplKey ((c :: rest).drop 15)
             else if hasPrefix (str "{{ph \"") (c :: rest) then tplKey ((c :: rest).drop 6) else none) with
      | some (key, after) => (tplExec env fuel after).map (tplGet env key ++ ·)
      | none => none
    else (tplExec env fuel rest).map (c :: ·)

/-- stage 1 then stage 2 -/
def tplServe (bodyT : Bytes) (r : HttpReq) : Option Bytes :=
  tplExec (cEnv r) ((expandKnown (cEnv r) bodyT).length + 1) (expandKnown (cEnv r) bodyT)

end CaddyModel.C18
