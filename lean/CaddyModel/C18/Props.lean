/-
C18 — property theorems (kept apart from the helper lemmas).
Statement: expanding placeholders substitutes each placeholder once, left to right,
inserting its value verbatim; substituted text is never scanned again; text outside
placeholders is preserved up to removal of escaping backslashes; unknown placeholders are
kept / emptied / rejected according to the mode; expansion terminates.
-/
import CaddyModel.C18.Lemmas
import CaddyModel.C18.CostLemmas
import CaddyModel.C18.Http
import CaddyModel.C18.Preserve
import CaddyModel.C18.Rewrite
import CaddyModel.C18.Consumers
import CaddyModel.C18.FcgiLemmas
import CaddyModel.C18.CallSites
import CaddyModel.C18.CallSitesTree
import CaddyModel.Gen.Consts

namespace CaddyModel.C18

/-- the one-and-only segmentation of an input: computed from the input, the SET of known
    keys and two mode flags — never from a value -/
def segments (inp : Bytes) (known : Bytes → Bool) (unknownEmpty errUnknown : Bool) : List Seg :=
  segLoop inp known unknownEmpty errUnknown (inp.length + 1) 0 0 0

/-- **single pass.** The code-shaped loop equals "cut the input once, then render each
    piece": every value is appended verbatim to the output and the scanner, which does not
    even receive the values, continues in the *input* behind the placeholder. -/
theorem single_pass (inp : Bytes) (env : Env) (m : Mode) :
    replace inp env m =
      if !inp.contains phOpen && !inp.contains phClose then .ok inp
      else render env m (segments inp (dom env) m.unknownEmpty m.errUnknown) [] := by
  unfold replace segments
  split
  · rfl
  · exact loop_eq_render inp env m (inp.length + 1) 0 0 0 0 [] (CacheOK.init inp)

/-- **the remembered closing brace (`lastEnd`) changes nothing.** `replace` — which looks for a closing
    brace only when the one found for an earlier opener is not ahead of the cursor any more — returns, for
    every input, binding and mode, what the loop that searches at every opener returns. (The reason:
    `findClose_at_iff`/`findClose_mono` — the brace found from `i` is the first not-skipped one behind `i`,
    hence also the one found from every index between `i` and it.) -/
theorem close_cache_is_transparent (inp : Bytes) (env : Env) (m : Mode) :
    replace inp env m = replaceNC inp env m := by
  unfold replace replaceNC
  split
  · rfl
  · exact loop_eq_loopNC inp env m (inp.length + 1) 0 0 0 0 [] (CacheOK.init inp)

-- non-vacuity: "{{\}a}" in ReplaceKnown — the cached brace (index 5, behind an escaped one) is reused
-- by the second opener; both loops keep the text and drop the backslash
example : replace [123, 123, 92, 125, 97, 125] (fun _ => none) ⟨[], false, false, false, none⟩
      = .ok [123, 123, 125, 97, 125] ∧
    replaceNC [123, 123, 92, 125, 97, 125] (fun _ => none) ⟨[], false, false, false, none⟩
      = .ok [123, 123, 125, 97, 125] ∧
    closeAt [123, 123, 92, 125, 97, 125] 1 5 = .at 5 ∧ findClose [123, 123, 92, 125, 97, 125] 1 = .at 5 := by
  decide

/-- **values cannot create structure.** Two bindings that define the same keys cut the
    input identically, whatever their values contain (`{env.HOME}`, `{file.…}`, braces…). -/
theorem value_independent_structure (inp : Bytes) (env env' : Env) (ue eu : Bool)
    (h : ∀ k, (env k).isSome = (env' k).isSome) :
    segments inp (dom env) ue eu = segments inp (dom env') ue eu := by
  have : dom env = dom env' := funext h
  rw [this]

/-- Go's slice expressions in `replace` never go out of range. -/
theorem replace_never_panics (inp : Bytes) (env : Env) (m : Mode) : replace inp env m ≠ .panic := by
  rw [single_pass]
  split
  · intro h; cases h
  · intro h
    have := render_halt env m .panic (Or.inl rfl) _ _ h
    exact segLoop_no_panic inp _ _ _ _ 0 0 0 ⟨Nat.le_refl 0, Nat.zero_le _, fun _ h => absurd h (Nat.lt_irrefl 0)⟩ this

/-- **termination.** The model is a total function; its recursion budget
    (`len + 1`, one unit per loop iteration) is never exhausted. -/
theorem replace_never_runs_out_of_fuel (inp : Bytes) (env : Env) (m : Mode) : replace inp env m ≠ .fuel := by
  rw [single_pass]
  split
  · intro h; cases h
  · intro h
    have := render_halt env m .fuel (Or.inr rfl) _ _ h
    exact segLoop_no_fuel inp _ _ _ _ 0 0 0 (by omega) (Nat.zero_le _) this

/-- no braces ⇒ the input is returned unchanged, in every mode -/
theorem no_braces_identity (inp : Bytes) (env : Env) (m : Mode)
    (h1 : inp.contains phOpen = false) (h2 : inp.contains phClose = false) :
    replace inp env m = .ok inp := by
  unfold replace; rw [h1, h2]; rfl


/-- **lookups are input substrings.** Every key that is ever looked up *and substituted* is the
    text between an opening and a closing brace of the original input — in particular a value
    like `{env.HOME}` arriving in a header can never cause a lookup of `env.HOME`. -/
theorem placeholders_are_input_slices (inp : Bytes) (known : Bytes → Bool) (ue eu : Bool) (key : Bytes)
    (h : Seg.ph key ∈ segments inp known ue eu) :
    ∃ a b, inp[a]? = some phOpen ∧ inp[b]? = some phClose ∧ slice inp (a + 1) b = some key := by
  obtain ⟨⟨a, b, _, h2⟩, _⟩ := segLoop_ph inp known ue eu _ 0 0 0 key h
  exact ⟨a, b, h2⟩

/-- **modes.** A placeholder is substituted only if its key is known, or the mode treats
    unknown keys as empty (`ReplaceAll`, `ReplaceFunc`) and does not reject them. -/
theorem substituted_only_if_known_or_emptied (inp : Bytes) (known : Bytes → Bool) (ue eu : Bool) (key : Bytes)
    (h : Seg.ph key ∈ segments inp known ue eu) : known key = true ∨ (ue = true ∧ eu = false) :=
  (segLoop_ph inp known ue eu _ 0 0 0 key h).2

/-- `ReplaceKnown` / `ReplaceOrErr`: an unknown key is never substituted -/
theorem unknown_never_substituted_when_kept (inp : Bytes) (known : Bytes → Bool) (eu : Bool) (key : Bytes)
    (h : Seg.ph key ∈ segments inp known false eu) : known key = true := by
  rcases substituted_only_if_known_or_emptied inp known false eu key h with h | ⟨h, _⟩
  · exact h
  · cases h

/-- only `b` is known -/
def exEnv0 : Env := fun k => if k = [98] then some [88] else none

/-- **text outside placeholders is preserved modulo escapes.** Whenever the scan runs to the end
    (no "too many unclosed" / rejected unknown key), the concatenated source of its segments — literals
    as they are, each substituted placeholder as `{key}` — is the input with some backslashes deleted,
    each of which stood directly in front of a brace. Nothing else is dropped, added or reordered;
    in particular unknown placeholders that are kept stay in the text exactly as written. -/
theorem outside_preserved_mod_escape (inp : Bytes) (known : Bytes → Bool) (ue eu : Bool)
    (h : ∀ r, Seg.halt r ∉ segments inp known ue eu) :
    EscDel inp (source (segments inp known ue eu)) := by
  have := segLoop_source inp known ue eu (inp.length + 1) 0 0 0
    ⟨Nat.le_refl 0, Nat.zero_le _, fun _ h => absurd h (Nat.lt_irrefl 0)⟩ h
  rw [List.drop_zero] at this
  exact this

-- non-vacuity: "\{a}{b}" — the escaping backslash goes, `{b}` is substituted, `{a}` stays text
example : segments [92, 123, 97, 125, 123, 98, 125] (dom exEnv0) false false
    = [.lit [], .lit [123, 97, 125], .ph [98], .lit []] := by decide

/-- **cost.** In EVERY mode the scanner visits at most `104·len + 204` input bytes — for every input and
    every binding: loop iterations plus the bytes `strings.Index` walks over while looking for closing
    braces. (Successful searches walk over disjoint stretches of the input because the brace they find is
    remembered until the cursor has passed it; unsuccessful ones are cut off by the unclosed-placeholder
    guard.) -/
theorem cost_linear (inp : Bytes) (env : Env) (m : Mode) :
    cost inp env m ≤ 104 * inp.length + 204 := by
  unfold cost
  split
  · omega
  · have := costLoop_le inp env m (inp.length + 1) 0 0 0 (by omega)
    unfold bound at this
    have e1 : (101 - 0) * (inp.length + 2) = 101 * inp.length + 202 := by omega
    rw [e1] at this
    omega

/-- **the cost twin is the loop's own count.** The instrumented loop `loopC` returns `loop`'s result and,
    next to it, the number of input bytes visited; that number is `costLoop` (on every run: `loop` never
    panics). So `cost_linear` bounds the work of the modelled loop itself. -/
theorem cost_twin_follows_loop (inp : Bytes) (env : Env) (m : Mode) (fuel i lwc uc ce : Nat) (sb : Bytes) :
    (loopC inp env m fuel i lwc uc ce sb).1 = loop inp env m fuel i lwc uc ce sb ∧
    (loop inp env m fuel i lwc uc ce sb ≠ .panic →
      (loopC inp env m fuel i lwc uc ce sb).2 = costLoop inp env m fuel i uc ce) :=
  ⟨loopC_fst inp env m fuel i lwc uc ce sb,
   fun h => loopC_snd inp env m fuel i lwc uc ce sb (by rw [loopC_fst]; exact h)⟩

/-- … and `costLoopNC` is in the same way the count of the loop before the close cache -/
theorem old_cost_twin_follows_old_loop (inp : Bytes) (env : Env) (m : Mode) (fuel i lwc uc : Nat) (sb : Bytes) :
    (loopCNC inp env m fuel i lwc uc sb).1 = loopNC inp env m fuel i lwc uc sb ∧
    (loopNC inp env m fuel i lwc uc sb ≠ .panic →
      (loopCNC inp env m fuel i lwc uc sb).2 = costLoopNC inp env m fuel i uc) :=
  ⟨loopCNC_fst inp env m fuel i lwc uc sb,
   fun h => loopCNC_snd inp env m fuel i lwc uc sb (by rw [loopCNC_fst]; exact h)⟩

/-- `'{'^n ++ "}"` -/
def nest (n : Nat) : Bytes := List.replicate n phOpen ++ [phClose]

/-- **the statement is not vacuous: the code as it was before the close cache violates it** (finding F14,
    repaired): `ReplaceKnown` on 250 nested openers already exceeded the bound (31 876 visits; `≈ n²/2`,
    every opener walked to the one closing brace again). -/
theorem cost_linear_old_code_fails :
    ∃ (inp : Bytes) (env : Env) (m : Mode), ¬ costNC inp env m ≤ 104 * inp.length + 204 :=
  ⟨nest 250, fun _ => none, ⟨[], false, false, false, none⟩, by
    set_option maxRecDepth 100000 in decide⟩

-- the same input in the same mode now: one search (251 bytes + 1), 250 further iterations = 502 visits
example : cost (nest 250) (fun _ => none) ⟨[], false, false, false, none⟩ = 502 ∧
    costNC (nest 250) (fun _ => none) ⟨[], false, false, false, none⟩ = 31876 := by
  set_option maxRecDepth 100000 in decide

-- … and in `ReplaceAll` (252 visits)
example : cost (nest 250) (fun _ => none) ⟨[], true, false, false, none⟩ = 252 := by
  set_option maxRecDepth 100000 in decide

/-- **matchers see request-derived values verbatim** (`vars`, `vars_regexp`): what reaches the
    comparison / the regular expression is the actual value, whatever placeholder syntax it contains. -/
theorem vars_regexp_sees_value_verbatim (key : Bytes) (r : HttpReq) :
    varsRegexpCaptured key r = some (varValue key r) := rfl

/-- the `vars` matcher expands only the CONFIGURED value -/
theorem vars_matcher_compares_verbatim (key mv : Bytes) (r : HttpReq) (b : Bool)
    (h : varsMatch key mv r = some b) :
    ∃ e, replaceAll mv [] (httpEnv r) = .ok e ∧ b = (varValue key r == e) := by
  unfold varsMatch at h
  cases hr : replaceAll mv [] (httpEnv r) <;> simp [hr, resBytes] at h
  exact ⟨_, rfl, h.symm⟩

/-- the statement is not vacuous: the code as it was before the fix (one more `ReplaceAll` on the
    actual value) violates it — header `X-In: {env.VERIF_C18_SECRET}` reached the regexp as the secret. -/
theorem vars_regexp_old_code_rescans :
    ∃ (key : Bytes) (r : HttpReq), varsRegexpCapturedOld key r ≠ some (varValue key r) :=
  ⟨str "{http.request.header.X-In}", ⟨str "{env.VERIF_C18_SECRET}", [], [47], str "S3CR3T", []⟩, by decide⟩


/-! ### the rewrite handler (glue that consumes the replacer) -/

theorem indexOf_split (c : UInt8) : ∀ (s : Bytes) (k : Nat), indexOf c s = some k → s = s.take k ++ c :: s.drop (k + 1)
  | [], k, h => by simp [indexOf] at h
  | x :: xs, k, h => by
    unfold indexOf at h
    split at h
    · rename_i hx; cases h; simp [hx]
    · cases hh : indexOf c xs with
      | none => simp [hh] at h
      | some j =>
        simp [hh] at h
        subst h
        have := indexOf_split c xs j hh
        simp
        exact this

/-- `strings.Cut` only cuts: the two halves and the separator are the text it was given -/
theorem cutAt_eq (c : UInt8) (s b a : Bytes) (h : cutAt c s = some (b, a)) : s = b ++ c :: a := by
  unfold cutAt at h
  cases hh : indexOf c s with
  | none => simp [hh] at h
  | some k =>
    simp [hh] at h
    obtain ⟨rfl, rfl⟩ := h
    exact indexOf_split c s k hh

/-- **the rewrite handler expands its URI template once.** For a template whose query part is empty (the
    documented `{path}?` idiom and every relative of it), whatever the request's path and query contain:
    the path template is expanded ONE time (`np`, by `single_pass` a single left-to-right cut of the
    TEMPLATE), and the new `RawQuery` is literally the text of `np` behind its first `?` — it is not given
    to the replacer again. Text that came from the request cannot be evaluated. -/
theorem rewrite_injected_query_verbatim (uri : Bytes) (r : RwReq) (o : RwOut)
    (hQ : (splitURI uri).hasQ = true) (hq : (splitURI uri).query = [])
    (h : rewriteURI true uri r = some o) :
    ∃ np, rwNewPath (splitURI uri).path r = .ok np ∧
      o.rawQuery = (match cutAt 63 np with | some (_, a) => a | none => []) := by
  unfold rewriteURI at h
  cases hp : rwNewPath (splitURI uri).path r <;> simp [hp] at h
  rename_i np
  refine ⟨np, rfl, ?_⟩
  simp only [rwNewQuery, hq, hQ] at h
  cases hc : cutAt 63 np with
  | none =>
    simp [hc] at h
    split at h <;> simp at h
    rename_i h1 _
    cases h1
    obtain ⟨-, rfl⟩ := h; rfl
  | some ba =>
    obtain ⟨b, a⟩ := ba
    simp [hc] at h
    split at h <;> simp at h
    rename_i h1 _
    cases h1
    obtain ⟨-, rfl⟩ := h; rfl

/-- … and so the new path (still escaped) and the new query, put together again, ARE that one expansion -/
theorem rewrite_path_and_query_are_one_expansion (uri : Bytes) (r : RwReq) (o : RwOut)
    (hQ : (splitURI uri).hasQ = true) (hq : (splitURI uri).query = [])
    (h : rewriteURI true uri r = some o) :
    ∃ np, rwNewPath (splitURI uri).path r = .ok np ∧
      ∀ b a, cutAt 63 np = some (b, a) → np = b ++ 63 :: o.rawQuery := by
  obtain ⟨np, h1, h2⟩ := rewrite_injected_query_verbatim uri r o hQ hq h
  refine ⟨np, h1, fun b a hc => ?_⟩
  rw [hc] at h2
  rw [h2]
  exact cutAt_eq 63 np b a hc

/-- the statement is not vacuous: the code as it was before the fix gave the injected query to
    `buildQueryString` — `{uri}?` on `GET /a?q={env.VERIF_C18_SECRET}` put the secret into the query -/
theorem rewrite_old_code_reexpands :
    rewriteURI false (str "{http.request.uri}?") ⟨str "/a", str "q={env.VERIF_C18_SECRET}", str "S3CR3T"⟩
      = some ⟨str "/a", str "q=S3CR3T", []⟩ ∧
    rewriteURI true (str "{http.request.uri}?") ⟨str "/a", str "q={env.VERIF_C18_SECRET}", str "S3CR3T"⟩
      = some ⟨str "/a", str "q={env.VERIF_C18_SECRET}", []⟩ := by
  set_option maxRecDepth 100000 in decide

-- non-vacuity of the hypotheses: the `{file}?` idiom on a path whose last element carries an encoded `?`
set_option maxRecDepth 100000 in
example : (splitURI (str "/files/{http.request.uri.path.file}?")).hasQ = true ∧
    (splitURI (str "/files/{http.request.uri.path.file}?")).query = [] ∧
    rewriteURI true (str "/files/{http.request.uri.path.file}?") ⟨str "/x/a?q={env.VERIF_C18_SECRET}", [], str "S3CR3T"⟩
      = some ⟨str "/files/a", str "q={env.VERIF_C18_SECRET}", []⟩ := by decide

theorem hexDigits_alnum (b : UInt8) : isAlnum (hexDigit (b >>> 4)) = true ∧ isAlnum (hexDigit (b &&& 15)) = true := by
  have h : ∀ n : Fin 256, isAlnum (hexDigit ((UInt8.ofNat n.val) >>> 4)) = true ∧
      isAlnum (hexDigit ((UInt8.ofNat n.val) &&& 15)) = true := by
    set_option maxRecDepth 100000 in decide
  simpa using h ⟨b.toNat, b.toNat_lt⟩

/-- **values substituted into a configured query are inert.** `buildQueryString` writes every substituted
    value through `url.QueryEscape`, whose output consists of letters, digits, `-_.~`, `%` and `+` only: no
    brace, `&`, `=`, `#` or `?` — a request value can neither add a parameter nor look like a placeholder. -/
theorem query_values_are_escaped (v : Bytes) :
    ∀ b ∈ queryEscape v, isAlnum b = true ∨ isMark b = true ∨ b = 37 ∨ b = 43 := by
  intro b hb
  unfold queryEscape at hb
  rw [List.mem_flatMap] at hb
  obtain ⟨x, -, hx⟩ := hb
  split at hx
  · simp at hx; exact Or.inr (Or.inr (Or.inr hx))
  · split at hx
    · rename_i h; simp at hx; subst hx
      rcases Bool.or_eq_true _ _ |>.mp h with h | h
      · exact Or.inl h
      · exact Or.inr (Or.inl h)
    · simp [pctEncode] at hx
      rcases hx with rfl | rfl | rfl
      · exact Or.inr (Or.inr (Or.inl rfl))
      · exact Or.inl (hexDigits_alnum x).1
      · exact Or.inl (hexDigits_alnum x).2

/-! ### the consumers (map, headers, rewrite modifiers): see `Consumers.lean` for their theorems -/

/-- the total wrappers the consumer models use ARE `ReplaceAll(·, "")` / `ReplaceKnown(·, "")`: their
    fallback value is never taken (the replacer neither panics nor runs out of fuel, and these two entry
    points drop errors) -/
theorem expandAll_exact (env : Env) (t : Bytes) : replaceAll t [] env = .ok (expandAll env t) := by
  have h1 := replace_never_panics t env ⟨[], true, false, false, none⟩
  have h2 := replace_never_runs_out_of_fuel t env ⟨[], true, false, false, none⟩
  unfold expandAll replaceAll at *
  cases h : replace t env ⟨[], true, false, false, none⟩ <;> simp_all [outOrEmpty]

theorem expandKnown_exact (env : Env) (t : Bytes) : replaceKnown t [] env = .ok (expandKnown env t) := by
  have h1 := replace_never_panics t env ⟨[], false, false, false, none⟩
  have h2 := replace_never_runs_out_of_fuel t env ⟨[], false, false, false, none⟩
  unfold expandKnown replaceKnown at *
  cases h : replace t env ⟨[], false, false, false, none⟩ <;> simp_all [outOrEmpty]

/-- **host matcher under automatic HTTPS: provision-time look plus request-time match is ONE expansion.**
    Whenever the server provisions, the decision for a request is the comparison of its Host with the result
    of a single `ReplaceAll` of the configured pattern under the request's replacer (by `single_pass` one
    left-to-right cut of the CONFIGURED text) — values that `{env.…}` / `{file.…}` contributed are compared as
    bytes. -/
theorem host_match_is_one_expansion_of_the_configured_pattern (c : HostCase) (p1 p2 : Bytes) (m1 m2 : Bool)
    (h : hostServe false c p1 p2 = some (m1, m2)) :
    ∃ e1 e2, replaceAll p1 [] (hostReqEnv c) = .ok e1 ∧ replaceAll p2 [] (hostReqEnv c) = .ok e2 ∧
      m1 = hostMatchOne id e1 c.host ∧ m2 = hostMatchOne id e2 c.host := by
  unfold hostServe at h
  rw [host_request_match_expands_the_configured_pattern] at h
  refine ⟨_, _, expandAll_exact _ p1, expandAll_exact _ p2, ?_⟩
  cases h1 : hostProvisionName c p1 <;> cases h2 : hostProvisionName c p2 <;> simp [h1, h2] at h
  exact ⟨h.1.symm, h.2.symm⟩

/-- **reverse proxy: what is dialled is the address parse of ONE `ReplaceAll` of the configured dial template**
    (behind `vars {v: …}`; by `single_pass` one left-to-right cut of the CONFIGURED text — a backend name taken from
    a request header or a variable reaches `caddy.ParseNetworkAddress` as bytes). -/
theorem dialled_address_is_the_parse_of_one_expansion (dialT varT : Bytes) (r : HttpReq) :
    ∃ e, replaceAll dialT [] (dialEnv varT r) = .ok e ∧ dialServe false dialT varT r = C13.parseNetworkAddress e :=
  ⟨_, expandAll_exact _ dialT, dial_is_one_expansion_of_configured_template _ dialT⟩

/-! ### the FastCGI transport's CGI table -/

/-- **FastCGI: each configured `env` variable is exactly ONE expansion of its template** (unless a request header
    field of that CGI name overrides it — headers are written last): `ReplaceAll(template, "")` under the
    request's provider chain; by `single_pass` one left-to-right cut of the CONFIGURED text, values inserted
    verbatim. -/
theorem fcgi_env_value_is_one_expansion (c : FcgiCfg) (r : FcgiReq) (h : c.envKey ∉ fcgiHeaderKeys) :
    ∃ e, replaceAll c.envT [] (fcgiEnv r) = .ok e ∧ tget c.envKey (fcgiBuild false c r) = some e :=
  ⟨_, expandAll_exact _ c.envT, fcgi_env_row _ _ c r h⟩

/-- **FastCGI: the document root is `filepath.Clean` of ONE `ReplaceAll(root, ".")`** of the configured root. -/
theorem fcgi_root_is_one_expansion (c : FcgiCfg) (r : FcgiReq) (h : c.envKey ≠ str "DOCUMENT_ROOT") :
    ∃ e, replaceAll c.rootT [46] (fcgiEnv r) = .ok e ∧
      tget (str "DOCUMENT_ROOT") (fcgiBuild false c r) = some (C07.pathClean e) := by
  have h1 := replace_never_panics c.rootT (fcgiEnv r) ⟨[46], true, false, false, none⟩
  have h2 := replace_never_runs_out_of_fuel c.rootT (fcgiEnv r) ⟨[46], true, false, false, none⟩
  refine ⟨expandAllDot (fcgiEnv r) c.rootT, ?_, fcgi_root_row _ _ c r h⟩
  unfold expandAllDot replaceAll at *
  cases h' : replace c.rootT (fcgiEnv r) ⟨[46], true, false, false, none⟩ <;> simp_all [outOrEmpty]

/-- **provider rows hand request text over untouched.** What the header / query-parameter / path /
    `http.vars.` rows of the modelled provider chain return is the request's bytes; the `file.` provider
    returns the file's bytes minus one trailing newline, and an unreadable file is known and empty. -/
theorem provider_rows_are_verbatim (r : HttpReq) :
    cEnv r (str "http.request.header.X-In") = some r.hdrXIn ∧
    cEnv r (str "http.request.uri.query.q") = some r.queryQ ∧
    cEnv r (str "http.request.uri.path") = some r.path ∧
    cEnv r (str "http.vars.v") = some r.varV ∧
    cEnv r (str "env.VERIF_C18_SECRET") = some r.secret ∧
    cEnv r (str "file.c18crlf.txt") = some (str "CRLF-F1LE") ∧
    cEnv r (str "file.no-such-file") = some [] ∧
    cEnv r (str "zz.unk") = none := by
  refine ⟨?_, ?_, ?_, ?_, ?_, ?_, ?_, ?_⟩ <;> set_option maxRecDepth 100000 in rfl

/-- **regenerated tie.** The model's "give up after more than 100 unclosed placeholders" is the
    constant the extractor reads out of replacer.go on every run (`Gen/Consts.lean`). -/
theorem unclosed_limit_matches_source : Gen.replacerUnclosedLimit = some 100 := by decide

/-! ### non-vacuity: the hypotheses are met by concrete non-trivial inputs (kernel-evaluated) -/

/-- `a ↦ "{b}"`, `b ↦ "X"` -/
def exEnv : Env := fun k => if k = [97] then some [123, 98, 125] else if k = [98] then some [88] else none

-- "{a}-{b}"  ⟶  "{b}-X": the value of `a` is inserted verbatim and not expanded again
example : replace [123, 97, 125, 45, 123, 98, 125] exEnv ⟨[], true, false, false, none⟩
    = .ok [123, 98, 125, 45, 88] := by decide

-- its segmentation has two substituted placeholders
example : segments [123, 97, 125, 45, 123, 98, 125] (dom exEnv) true false
    = [.lit [], .ph [97], .lit [45], .ph [98], .lit []] := by decide

-- "\{a}" keeps the brace and drops the backslash; "{u}" (unknown) is kept by ReplaceKnown
example : replaceKnown [92, 123, 97, 125, 123, 117, 125] [] exEnv = .ok [123, 97, 125, 123, 117, 125] := by decide

-- ReplaceOrErr rejects the unknown key
example : replaceOrErr [123, 117, 125] false true exEnv = .unknown [117] := by decide

end CaddyModel.C18
