/-
C18 — the glue around the core: a small model of the HTTP provider chain
(`modules/caddyhttp/replacer.go:addHTTPVarsToReplacer`, the global `env.` provider of
`replacer.go`) restricted to the key vocabulary the end-to-end stream uses, and of the two
handlers the stream runs (`vars` middleware then `static_response`).  Request-controlled
values (header, query parameter, path) enter ONLY as values of this environment.
-/
import CaddyModel.C18.Model

namespace CaddyModel.C18

def asciiLower (b : UInt8) : UInt8 := if 65 ≤ b ∧ b ≤ 90 then b + 32 else b

/-- `some rest` when `key = pre ++ rest` -/
def stripPrefix : Bytes → Bytes → Option Bytes
  | [], k => some k
  | _ :: _, [] => none
  | p :: ps, k :: ks => if p = k then stripPrefix ps ks else none

structure HttpReq where
  hdrXIn : Bytes      -- value of request header X-In
  queryQ : Bytes      -- decoded value of query parameter q
  path : Bytes        -- r.URL.Path
  secret : Bytes      -- value of environment variable VERIF_C18_SECRET
  varV : Bytes        -- current value of http.vars.v ("" before the vars middleware ran)

/-- what `Replacer.Get` answers for the keys the stream can form -/
def httpEnv (r : HttpReq) : Env := fun key =>
  match stripPrefix (str "env.") key with
  | some name => some (if name = str "VERIF_C18_SECRET" then r.secret else [])
  | none =>
  match stripPrefix (str "http.request.header.") key with
  | some field => some (if field.map asciiLower = str "x-in" then r.hdrXIn else [])
  | none =>
  match stripPrefix (str "http.request.uri.query.") key with
  | some name => some (if name = str "q" then r.queryQ else [])
  | none =>
  if key = str "http.request.uri.path" then some r.path else
  match stripPrefix (str "http.vars.") key with
  | some name => some (if name = str "v" then r.varV else [])
  | none => none

def resBytes : Res → Option Bytes
  | .ok o => some o
  | _ => none

/-- `vars {v: varTmpl}` then `respond` with body `bodyTmpl` and header `X-Out: hdrTmpl`:
    returns (body, X-Out). `none` only on a model panic / fuel outcome. -/
def serve (bodyTmpl hdrTmpl varTmpl : Bytes) (r : HttpReq) : Option (Bytes × Bytes) :=
  match resBytes (replaceAll varTmpl [] (httpEnv { r with varV := [] })) with
  | none => none
  | some v =>
    match resBytes (replaceAll hdrTmpl [] (httpEnv { r with varV := v })),
          resBytes (replaceKnown bodyTmpl [] (httpEnv { r with varV := v })) with
    | some h, some b => some (b, h)
    | _, _ => none

/-- the `vars` middleware with a STRING value expands it once; with a LIST value (`[]any{"static", tmpl}`,
    only reachable from JSON config) it stores the list as it is, and `{http.vars.v}` later prints it with
    `fmt.Sprintf("%+v")`: `[static <tmpl text>]` — unexpanded. -/
def varsValue (isList : Bool) (varTmpl : Bytes) (r : HttpReq) : Option Bytes :=
  if isList then some (str "[static " ++ varTmpl ++ str "]")
  else resBytes (replaceAll varTmpl [] (httpEnv { r with varV := [] }))

/-- one request through `vars {v: …}` + `respond bodyTmpl`; the handlers keep no state, so a sequence
    of requests is served request by request -/
def serveBody (bodyTmpl : Bytes) (isList : Bool) (varTmpl : Bytes) (r : HttpReq) : Option Bytes :=
  match varsValue isList varTmpl r with
  | none => none
  | some v => resBytes (replaceKnown bodyTmpl [] (httpEnv { r with varV := v }))

/-! ### the `vars` and `vars_regexp` matchers (modules/caddyhttp/vars.go) -/

def countByte (b : UInt8) (l : Bytes) : Nat := (l.filter (· = b)).length

/-- `strings.Trim(key, "{}")` -/
def trimBraces (l : Bytes) : Bytes :=
  ((l.dropWhile isBrace).reverse.dropWhile isBrace).reverse

/-- key "surrounded by { }" ⇒ looked up as a placeholder, else a variable name -/
def isPlaceholderKey (key : Bytes) : Bool :=
  key.head? = some phOpen && key.getLast? = some phClose && countByte phOpen key = 1

/-- the actual value the matchers compare: `repl.Get(strings.Trim(key,"{}"))` or `vars[key]`
    (the harness puts exactly one variable, `v`, into the vars table) -/
def varValue (key : Bytes) (r : HttpReq) : Bytes :=
  if isPlaceholderKey key then
    match httpEnv r (trimBraces key) with
    | some v => v
    | none => []
  else if key = str "v" then r.varV else []

/-- `VarsMatcher{key: [matchVal]}`: the configured value is expanded, the actual value is NOT -/
def varsMatch (key matchVal : Bytes) (r : HttpReq) : Option Bool :=
  match resBytes (replaceAll matchVal [] (httpEnv r)) with
  | some mv => some (varValue key r == mv)
  | none => none

/-- `MatchVarsRE{key: (?s)^(.*)$}`: capture group 1 afterwards = the text the regular expression
    was given. Since the fix commit "vars_regexp matches the variable's value without expanding it
    again" that is the actual value itself. -/
def varsRegexpCaptured (key : Bytes) (r : HttpReq) : Option Bytes :=
  some (varValue key r)

/-- the pre-fix behaviour (vars.go used to do `valExpanded := repl.ReplaceAll(varStr, "")`), kept to
    show what the verbatim statement excludes -/
def varsRegexpCapturedOld (key : Bytes) (r : HttpReq) : Option Bytes :=
  resBytes (replaceAll (varValue key r) [] (httpEnv r))

end CaddyModel.C18
