/-
C18 — a consumer of the replacer: the `headers` handler (modules/caddyhttp/headers/headers.go),
`HeaderOps.ApplyTo` and `ApplyToRequest` transliterated for one entry per Go map (`add`, `set`,
`replace` are Go maps — one entry keeps the iteration order out of the picture; `delete` is a list).
Every operand (field names, values, search, replace) goes through `ReplaceKnown(·, "")`; what is
computed FROM the existing header values (substring / regexp replacement) is stored as it is.
On the request side the replacer reads the header map while it is being changed, so the replacer is a
function of the current header state: `R : Hdrs → template → expansion`.
-/
import CaddyModel.C18.MapH

namespace CaddyModel.C18

/-- a header map: field name → values; names are unique -/
abbrev Hdrs := List (Bytes × List Bytes)

def hGet (hs : Hdrs) (k : Bytes) : List Bytes :=
  match hs.find? (fun e => e.1 = k) with
  | some e => e.2
  | none => []

def hHas (hs : Hdrs) (k : Bytes) : Bool := hs.any (fun e => e.1 = k)

/-- `hdr[k] = append(hdr[k], v)` -/
def hAppend (hs : Hdrs) (k v : Bytes) : Hdrs :=
  if hHas hs k then hs.map (fun e => if e.1 = k then (e.1, e.2 ++ [v]) else e) else hs ++ [(k, [v])]

/-- `hdr[k] = vs` -/
def hPut (hs : Hdrs) (k : Bytes) (vs : List Bytes) : Hdrs :=
  if hHas hs k then hs.map (fun e => if e.1 = k then (e.1, vs) else e) else hs ++ [(k, vs)]

def hDelIf (hs : Hdrs) (p : Bytes → Bool) : Hdrs := hs.filter (fun e => !p e.1)

/-- `validHeaderFieldByte`: RFC 7230 token characters -/
def isTokenByte (b : UInt8) : Bool :=
  isAlnum b || b = 33 || b = 35 || b = 36 || b = 37 || b = 38 || b = 39 || b = 42 || b = 43 ||
  b = 45 || b = 46 || b = 94 || b = 95 || b = 96 || b = 124 || b = 126

def asciiUpper (b : UInt8) : UInt8 := if 97 ≤ b ∧ b ≤ 122 then b - 32 else b

def canonGo : Bool → Bytes → Bytes
  | _, [] => []
  | upper, c :: rest => (if upper then asciiUpper c else asciiLower c) :: canonGo (c = 45) rest

/-- `textproto.CanonicalMIMEHeaderKey` = `http.CanonicalHeaderKey`: a name with a byte that is not a
    token character is left alone -/
def canonKey (s : Bytes) : Bytes := if s.all isTokenByte then canonGo true s else s

def joinComma : List Bytes → Bytes
  | [] => []
  | [a] => a
  | a :: b :: t => a ++ 44 :: joinComma (b :: t)

def lowerBytes (s : Bytes) : Bytes := s.map asciiLower

structure HdrRepl where
  search : Bytes
  isRegexp : Bool
  pat : Pat
  replace : Bytes

structure HdrOps where
  add : Option (Bytes × Bytes)
  set : Option (Bytes × List Bytes)
  delete : List Bytes
  replace : Option (Bytes × HdrRepl)

def hdrTemplates (ops : HdrOps) : List Bytes :=
  (match ops.add with | some (f, v) => [f, v] | none => []) ++
  (match ops.set with | some (f, vs) => f :: vs | none => []) ++
  ops.delete ++
  (match ops.replace with | some (f, r) => [f, r.search, r.replace] | none => [])

/-- first pass over `delete`: an entry that expands to `*` clears the map -/
def hdrClearPass (R : Hdrs → Bytes → Bytes) : List Bytes → Hdrs → Hdrs
  | [], hs => hs
  | d :: ds, hs => hdrClearPass R ds (if R hs d = [42] then [] else hs)

def hdrDeleteOne (name : Bytes) (hs : Hdrs) : Hdrs :=
  if name = [42] then hs
  else if name.head? = some 42 && name.getLast? = some 42 then
    hDelIf hs (fun k => containsSub ((name.drop 1).dropLast) (lowerBytes k))
  else if name.head? = some 42 then hDelIf hs (fun k => hasSuffix (name.drop 1) (lowerBytes k))
  else if name.getLast? = some 42 then hDelIf hs (fun k => hasPrefix name.dropLast (lowerBytes k))
  else hDelIf hs (fun k => k = canonKey name)

def hdrDeletePass (R : Hdrs → Bytes → Bytes) : List Bytes → Hdrs → Hdrs
  | [], hs => hs
  | d :: ds, hs => hdrDeletePass R ds (hdrDeleteOne (lowerBytes (R hs d)) hs)

/-- the new value of one existing header value. `rescan = false` is the code; `true` is a change that
    expands the RESULT ("placeholders in replaced values"), kept to show what the statement excludes. -/
def hdrNewVal (rescan : Bool) (Rh : Bytes → Bytes) (r : HdrRepl) (search replace v : Bytes) : Bytes :=
  if rescan then Rh (if r.isRegexp then r.pat.replaceAll v replace else strReplace search replace none v)
  else if r.isRegexp then r.pat.replaceAll v replace else strReplace search replace none v

def hdrAddPass (R : Hdrs → Bytes → Bytes) (ops : HdrOps) (hs : Hdrs) : Hdrs :=
  match ops.add with
  | some (f, v) => hAppend hs (canonKey (R hs f)) (R hs v)
  | none => hs

def hdrSetPass (R : Hdrs → Bytes → Bytes) (ops : HdrOps) (hs : Hdrs) : Hdrs :=
  match ops.set with
  | some (f, vs) => hPut hs (canonKey (R hs f)) [joinComma (vs.map (R hs))]
  | none => hs

def hdrReplacePass (rescan : Bool) (R : Hdrs → Bytes → Bytes) (ops : HdrOps) (hs : Hdrs) : Hdrs :=
  match ops.replace with
  | some (f, r) =>
    hs.map (fun e =>
      if canonKey (R hs f) = [42] || canonKey e.1 = canonKey (R hs f) then
        (e.1, e.2.map (hdrNewVal rescan (R hs) r (R hs r.search) (R hs r.replace)))
      else e)
  | none => hs

/-- `ApplyTo`: clear, add, set, delete, replace — in this order -/
def hdrApplyTo (rescan : Bool) (R : Hdrs → Bytes → Bytes) (ops : HdrOps) (hs : Hdrs) : Hdrs :=
  hdrReplacePass rescan R ops (hdrDeletePass R ops.delete (hdrSetPass R ops (hdrAddPass R ops
    (hdrClearPass R ops.delete hs))))

def hostKey : Bytes := str "Host"

/-- `ApplyToRequest` for a request without a `Host` entry in its header map: returns the header map and
    `r.Host` afterwards -/
def hdrApplyToRequest (rescan : Bool) (R : Hdrs → Bytes → Bytes) (ops : HdrOps) (hs : Hdrs) (host : Bytes) :
    Hdrs × Bytes :=
  (hDelIf (hdrApplyTo rescan R ops (hAppend hs hostKey host)) (fun k => k = hostKey),
   match (hGet (hdrApplyTo rescan R ops (hAppend hs hostKey host)) hostKey).getLast? with
   | some h => h
   | none => [])

/-- the replacer's environment given the request's current header map -/
def hdrEnv (r : HttpReq) (hs : Hdrs) : Env := fun key =>
  match stripPrefix (str "http.request.header.") key with
  | some field => some (joinComma (hGet hs (canonKey field)))
  | none => cEnv r key

end CaddyModel.C18
