/-
C18 — glue where TWO expansions meet: the `host` matcher of a server that goes through automatic
HTTPS.  `automaticHTTPSPhase1` (modules/caddyhttp/autohttps.go) expands every host pattern at
PROVISION time with the global replacer (`caddy.NewReplacer()`: `env.`, `file.`; mode
`ReplaceOrErr(d, errOnEmpty = true, errOnUnknown = false)`: unknown placeholders are kept, an empty
value fails provisioning) to learn the names it manages certificates for; `MatchHost.MatchWithError`
(matchers.go) expands the pattern again for every REQUEST with the request's replacer and compares
it with the Host header.  Each is a single pass.  The property needs their composition to be one
too: the request-time expansion must start from the CONFIGURED pattern, not from the provision-time
result (`hostLive false`).  `hostLive true` is the seeded change that writes the resolved name back
into the live matcher (seeded/C18-autohttps-writes-expanded-host-back).
-/
import CaddyModel.C18.MapH

namespace CaddyModel.C18

structure HostCase where
  site : Bytes       -- $VERIF_C18_SITE
  secret : Bytes     -- $VERIF_C18_SECRET
  file : Bytes       -- content of ./c18site.txt
  host : Bytes       -- the request's Host header (no port)
  tenant : Bytes     -- the request's X-Tenant header

def siteFileName : Bytes := str "c18site.txt"

/-- `caddy.NewReplacer()`: what the provision-time replacer knows -/
def hostGlobalEnv (c : HostCase) : Env := fun key =>
  match stripPrefix (str "env.") key with
  | some name =>
    some (if name = str "VERIF_C18_SITE" then c.site else if name = str "VERIF_C18_SECRET" then c.secret else [])
  | none =>
    match stripPrefix (str "file.") key with
    | some name => some (if name = siteFileName then trimSuffixByte 13 (trimSuffixByte 10 c.file) else [])
    | none => none

/-- the request's replacer: the same globals, then the HTTP provider -/
def hostReqEnv (c : HostCase) : Env := fun key =>
  match hostGlobalEnv c key with
  | some v => some v
  | none =>
    match stripPrefix (str "http.request.header.") key with
    | some field => some (if field.map asciiLower = str "x-tenant" then c.tenant else [])
    | none => if key = str "http.request.host" then some c.host else none

/-- stage 1, `automaticHTTPSPhase1`: the name the pattern resolves to at provision time (`none`:
    provisioning fails — a placeholder evaluated to the empty string) -/
def hostProvisionName (c : HostCase) (pattern : Bytes) : Option Bytes :=
  match replaceOrErr pattern true false (hostGlobalEnv c) with
  | .ok d => some d
  | _ => none

/-- what the live matcher holds afterwards. `writeBack = false` is the code: the configured pattern. -/
def hostLive (writeBack : Bool) (c : HostCase) (pattern : Bytes) : Option Bytes :=
  match hostProvisionName c pattern with
  | some d => some (if writeBack then d else pattern)
  | none => none

def splitDot : Bytes → List Bytes
  | [] => [[]]
  | c :: cs =>
    if c = 46 then [] :: splitDot cs
    else match splitDot cs with
      | [] => [[c]]
      | h :: t => (c :: h) :: t

def foldEq (a b : Bytes) : Bool := a.map asciiLower == b.map asciiLower

/-- the label-wise comparison of a pattern with `*` -/
def wildLabels : List Bytes → List Bytes → Bool
  | [], [] => true
  | p :: ps, i :: is => (if p = [42] then !i.isEmpty else foldEq p i) && wildLabels ps is
  | _, _ => false

/-- stage 2, `MatchHost.MatchWithError` for a one-entry matcher holding `live`; `R` is the request's
    `ReplaceAll(·, "")` -/
def hostMatchOne (R : Bytes → Bytes) (live reqHost : Bytes) : Bool :=
  if (R live).contains 42 then wildLabels (splitDot (R live)) (splitDot reqHost)
  else foldEq reqHost (R live)

/-- provision, then one request: which of the two host matchers match (`none`: does not provision) -/
def hostServeR (writeBack : Bool) (R : Bytes → Bytes) (c : HostCase) (p1 p2 : Bytes) : Option (Bool × Bool) :=
  match hostLive writeBack c p1, hostLive writeBack c p2 with
  | some l1, some l2 => some (hostMatchOne R l1 c.host, hostMatchOne R l2 c.host)
  | _, _ => none

def hostServe (writeBack : Bool) (c : HostCase) (p1 p2 : Bytes) : Option (Bool × Bool) :=
  hostServeR writeBack (expandAll (hostReqEnv c)) c p1 p2

end CaddyModel.C18
