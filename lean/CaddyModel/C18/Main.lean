import CaddyModel.Util.DrvMain
import CaddyModel.C18.Driver

def main (args : List String) : IO Unit :=
  CaddyModel.drvMain "C18" CaddyModel.C18.handle CaddyModel.C18.witnessLines args
