/-
C18 — a consumer whose expansion result leaves the process: the reverse proxy's upstream dial address.
`Upstream.fillDialInfo` (modules/caddyhttp/reverseproxy/hosts.go) expands the configured `dial` template with the
request's replacer (`ReplaceAll(u.Dial, "")`) and parses the result with `caddy.ParseNetworkAddress`; the proxy
then connects to that network / host / port.  With `dial` = `{http.request.header.X-In}` (a documented feature)
the request names the backend — and whatever placeholder syntax the request text contains must reach the dialler
verbatim: the dialled address is ONE expansion of the CONFIGURED template (`dialServe false`).
`dialServe true` is the seeded change seeded/C18-placeholder-upstream-resolved-then-expanded-again: a
pre-resolution step stores `Dial: dialInfo.String()` and `fillDialInfo` expands that string again.
`caddy.ParseNetworkAddress` + "exactly one port" is C13's model (`C13.parseNetworkAddress`).
-/
import CaddyModel.C18.MapH
import CaddyModel.C13.Listen

namespace CaddyModel.C18

/-- `fillDialInfo`: parse what the replacer made of the template; `R` is the request's `ReplaceAll(·, "")` -/
def dialAddress (R : Bytes → Bytes) (tpl : Bytes) : C13.ListenRes := C13.parseNetworkAddress (R tpl)

/-- `DialInfo.String()` = `caddy.JoinNetworkAddress(network, host, port)` for a non-unix network -/
def dialInfoString (network host : Bytes) (port : Nat) : Bytes :=
  network ++ [47] ++ C13.netJoinHostPort host (str (toString port))

/-- the provider chain behind `vars {v: varT}` -/
def dialEnv (varT : Bytes) (r : HttpReq) : Env :=
  cEnv { r with varV := expandAll (cEnv { r with varV := [] }) varT }

/-- what the proxy dials. `twoPass = false` is the code. -/
def dialServeR (twoPass : Bool) (R : Bytes → Bytes) (dialT : Bytes) : C13.ListenRes :=
  if twoPass && dialT.contains 123 then
    match dialAddress R dialT with
    | .ok network host port =>
      if C13.hasPrefix network C13.sUnix || C13.hasPrefix network C13.sFd then dialAddress R dialT
      else dialAddress R (dialInfoString network host port)
    | .err => .err
  else dialAddress R dialT

def dialServe (twoPass : Bool) (dialT varT : Bytes) (r : HttpReq) : C13.ListenRes :=
  dialServeR twoPass (expandAll (dialEnv varT r)) dialT

end CaddyModel.C18
