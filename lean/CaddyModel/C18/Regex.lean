/-
C18 — what the consumers of the replacer need of `regexp` and `strings`, as far as the
correspondence streams use them.  The regular-expression ENGINE is not modelled; two pattern
families are, exactly (the harness builds the pattern text from the family's operands with
`regexp.QuoteMeta`, so every pattern it runs is in a family):

  `lit l`      the pattern `\Ql\E` (l non-empty): matches are the occurrences of `l`, no groups;
  `anch p s`   the pattern `^\Qp\E(.*)\Qs\E$`: matches the whole text iff it starts with `p`, ends
               with `s` behind that and has no newline in between; group 1 is the middle.

`Regexp.expand` (the `$1` / `${1}` / `$name` / `$$` template language of `ExpandString` and
`ReplaceAllString`) is transliterated for ASCII templates.  All protocol fields of the streams that
use this file are ASCII (both sides answer `bad-op` otherwise), so `unicode.IsLetter/IsDigit` are
the ASCII classes.
-/
import CaddyModel.C18.Rewrite

namespace CaddyModel.C18

def isAscii (s : Bytes) : Bool := s.all (· < 128)

def hasSuffix (suf s : Bytes) : Bool := hasPrefix suf.reverse s.reverse

/-- `strings.Index(s, sub)` for non-empty `sub` -/
def indexOfSub (sub : Bytes) : Bytes → Option Nat
  | [] => none
  | c :: rest =>
    if hasPrefix sub (c :: rest) then some 0 else (indexOfSub sub rest).map (· + 1)

def containsSub (sub s : Bytes) : Bool := sub.isEmpty || (indexOfSub sub s).isSome

inductive Pat where
  | lit (l : Bytes)
  | anch (p s : Bytes)
deriving DecidableEq, Repr

/-- `regexp.QuoteMeta`: a backslash in front of each of ``\.+*?()|[]{}^$`` -/
def isRegexMeta (b : UInt8) : Bool :=
  b = 92 || b = 46 || b = 43 || b = 42 || b = 63 || b = 40 || b = 41 || b = 124 ||
  b = 91 || b = 93 || b = 123 || b = 125 || b = 94 || b = 36

def quoteMeta (s : Bytes) : Bytes := s.flatMap fun b => if isRegexMeta b then [92, b] else [b]

/-- the pattern text the harness compiles -/
def Pat.text : Pat → Bytes
  | .lit l => quoteMeta l
  | .anch p s => [94] ++ quoteMeta p ++ str "(.*)" ++ quoteMeta s ++ [36]

/-- a match: where it is and the text of its groups (group 0 first) -/
structure Match where
  start : Nat
  stop : Nat
  groups : List Bytes
deriving DecidableEq, Repr

/-- `re.FindStringSubmatchIndex(t)` (leftmost match) -/
def Pat.find : Pat → Bytes → Option Match
  | .lit l, t =>
    if l.isEmpty then none
    else match indexOfSub l t with
      | some k => some ⟨k, k + l.length, [l]⟩
      | none => none
  | .anch p s, t =>
    if hasPrefix p t && hasSuffix s (t.drop p.length) &&
        !((t.drop p.length).take (t.length - p.length - s.length)).contains 10 then
      some ⟨0, t.length, [t, (t.drop p.length).take (t.length - p.length - s.length)]⟩
    else none

/-! ### `Regexp.expand` -/

def isNameByte (b : UInt8) : Bool := isAlnum b || b = 95

/-- the text of group `name` (only the names `0`, `1`, … of existing groups denote anything: the
    families have no named groups, and a numeric name with a leading zero is not a number) -/
def groupText (groups : List Bytes) (name : Bytes) : Bytes :=
  if name = [48] then (match groups[0]? with | some g => g | none => [])
  else if name = [49] then (match groups[1]? with | some g => g | none => [])
  else []

/-- `extract`: the name behind a `$` and the rest of the template; `none` = malformed -/
def extractName (t : Bytes) : Option (Bytes × Bytes) :=
  match t with
  | [] => none
  | c :: rest =>
    if c = 123 then
      (if (rest.takeWhile isNameByte).isEmpty then none
       else match rest.dropWhile isNameByte with
         | d :: after => if d = 125 then some (rest.takeWhile isNameByte, after) else none
         | [] => none)
    else
      (if ((c :: rest).takeWhile isNameByte).isEmpty then none
       else some ((c :: rest).takeWhile isNameByte, (c :: rest).dropWhile isNameByte))

/-- `re.expand(nil, template, src, match)` -/
def expandTmpl (groups : List Bytes) : Nat → Bytes → Bytes
  | 0, t => t
  | _ + 1, [] => []
  | fuel + 1, c :: rest =>
    if c = 36 then
      match rest with
      | d :: rest' =>
        if d = 36 then 36 :: expandTmpl groups fuel rest'
        else match extractName (d :: rest') with
          | none => 36 :: expandTmpl groups fuel (d :: rest')
          | some (name, after) => groupText groups name ++ expandTmpl groups fuel after
      | [] => [36]
    else c :: expandTmpl groups fuel rest

def expand (groups : List Bytes) (t : Bytes) : Bytes := expandTmpl groups (t.length + 1) t

/-- `re.ReplaceAllString(t, repl)` -/
def Pat.replaceAll : Pat → Bytes → Bytes → Bytes
  | .lit l, t, repl => if l.isEmpty then t else replaceSub l (expand [l] repl) (t.length + 1) t
  | .anch p s, t, repl =>
    match (Pat.anch p s).find t with
    | some m => expand m.groups repl
    | none => t

/-- `strings.Replace(s, old, new, n)` for non-empty `old`; `n < 0` (no limit) is `none` -/
def replaceN (old new : Bytes) : Nat → Option Nat → Bytes → Bytes
  | 0, _, s => s
  | _ + 1, _, [] => []
  | fuel + 1, lim, c :: rest =>
    if lim = some 0 then c :: rest
    else if hasPrefix old (c :: rest) then
      new ++ replaceN old new fuel (lim.map (· - 1)) ((c :: rest).drop old.length)
    else c :: replaceN old new fuel lim rest

/-- `strings.Replace(s, "", new, n)`: `new` goes in front of every byte and behind the last one
    (the first `n` of these places) -/
def replaceEmpty (new : Bytes) : Option Nat → Bytes → Bytes
  | lim, [] => if lim = some 0 then [] else new
  | lim, c :: rest =>
    if lim = some 0 then c :: rest else new ++ c :: replaceEmpty new (lim.map (· - 1)) rest

/-- `strings.Replace(s, old, new, n)` (`n < 0` is `none`) -/
def strReplace (old new : Bytes) (lim : Option Nat) (s : Bytes) : Bytes :=
  if old.isEmpty then replaceEmpty new lim s else replaceN old new (s.length + 1) lim s

end CaddyModel.C18
