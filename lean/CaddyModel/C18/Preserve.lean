/-
C18 — "text outside placeholders is preserved except for the removal of a backslash that
escapes a brace": the concatenated SOURCE of the segments (a literal is its own source, a
substituted placeholder `key` has source `{key}`) is the input with some backslashes deleted,
each of which stood immediately before a brace.
-/
import CaddyModel.C18.Lemmas

namespace CaddyModel.C18

/-- `EscDel a b`: `b` is `a` with some escaping backslashes (a backslash directly followed by a
    brace) deleted, and nothing else changed -/
inductive EscDel : Bytes → Bytes → Prop
  | nil : EscDel [] []
  | keep (b : UInt8) {a a' : Bytes} : EscDel a a' → EscDel (b :: a) (b :: a')
  | drop (b : UInt8) {a a' : Bytes} : isBrace b = true → EscDel (b :: a) a' → EscDel (phEscape :: b :: a) a'

theorem EscDel.refl : ∀ (a : Bytes), EscDel a a
  | [] => .nil
  | b :: a => .keep b (EscDel.refl a)

theorem EscDel.prepend (p : Bytes) {a a' : Bytes} (h : EscDel a a') : EscDel (p ++ a) (p ++ a') := by
  induction p with
  | nil => exact h
  | cons b p ih => exact .keep b ih

def srcOf : Seg → Bytes
  | .lit s => s
  | .ph key => phOpen :: key ++ [phClose]
  | .halt _ => []

def source (segs : List Seg) : Bytes := (segs.map srcOf).flatten

def noHalt (segs : List Seg) : Prop := ∀ r, Seg.halt r ∉ segs

theorem slice_eq {inp : Bytes} {lo hi : Nat} {s : Bytes} (h : slice inp lo hi = some s) :
    lo ≤ hi ∧ hi ≤ inp.length ∧ s = (inp.drop lo).take (hi - lo) := by
  unfold slice at h
  split at h
  · rename_i hc; cases h; exact ⟨hc.1, hc.2, rfl⟩
  · cases h

/-- `inp[lo:] = inp[lo:hi] ++ inp[hi:]` -/
theorem drop_split (inp : Bytes) (lo hi : Nat) (h : lo ≤ hi) :
    inp.drop lo = (inp.drop lo).take (hi - lo) ++ inp.drop hi := by
  have : inp.drop hi = (inp.drop lo).drop (hi - lo) := by
    rw [List.drop_drop]; congr 1; omega
  rw [this, List.take_append_drop]

theorem drop_cons_of_get {inp : Bytes} {i : Nat} {b : UInt8} (h : inp[i]? = some b) :
    inp.drop i = b :: inp.drop (i + 1) := by
  have hi : i < inp.length := by
    rcases Nat.lt_or_ge i inp.length with h' | h'
    · exact h'
    · rw [List.getElem?_eq_none h'] at h; cases h
  rw [List.drop_eq_getElem_cons hi]
  congr 1
  rw [List.getElem?_eq_getElem hi] at h
  exact Option.some.inj h

theorem segLoop_source (inp : Bytes) (known : Bytes → Bool) (ue eu : Bool) (fuel i lwc uc : Nat)
    (hinv : HeadInv inp i lwc) (hn : noHalt (segLoop inp known ue eu fuel i lwc uc)) :
    EscDel (inp.drop lwc) (source (segLoop inp known ue eu fuel i lwc uc)) := by
  fun_induction segLoop inp known ue eu fuel i lwc uc with
  | case1 => exact absurd (by simp) (hn .fuel)
  | case2 => exact absurd (by simp) (hn .panic)
  | case3 fuel i lwc uc hi hesc s hs ih =>
    -- escaped brace at i: lit inp[lwc:i-1], the backslash at i-1 is dropped, continue with lwc = i
    obtain ⟨h1, h2, h3⟩ := hinv
    obtain ⟨hpos, hprev⟩ := escAt_prev hesc
    have hne : lwc ≠ i := fun h => h3 h hpos hprev
    obtain ⟨_, _, hs'⟩ := slice_eq hs
    have hn' : noHalt (segLoop inp known ue eu fuel (i + 1) i uc) :=
      fun r hr => hn r (List.mem_cons_of_mem _ hr)
    have ih' := ih ⟨by omega, by omega, fun h => by omega⟩ hn'
    have hbrace : ∃ b, inp[i]? = some b ∧ isBrace b = true := by
      rcases escAt_brace hesc with h | h
      · exact ⟨phOpen, h, by decide⟩
      · exact ⟨phClose, h, by decide⟩
    obtain ⟨b, hb, hbb⟩ := hbrace
    have e1 : inp.drop lwc = s ++ inp.drop (i - 1) := by
      rw [hs']; exact drop_split inp lwc (i - 1) (by omega)
    have e2 : inp.drop (i - 1) = phEscape :: inp.drop i := by
      have := drop_cons_of_get hprev
      rwa [show i - 1 + 1 = i by omega] at this
    have e3 : inp.drop i = b :: inp.drop (i + 1) := drop_cons_of_get hb
    simp only [source, List.map_cons, List.flatten_cons, srcOf]
    rw [e1, e2]
    apply EscDel.prepend
    rw [e3]
    apply EscDel.drop b hbb
    rw [← e3]
    exact ih'
  | case4 fuel i lwc uc hi hesc hopen ih =>
    exact ih ⟨by have := hinv.1; omega, by omega, fun h => by have := hinv.1; omega⟩ hn
  | case5 => exact absurd (by simp) (hn .tooMany)
  | case6 fuel i lwc uc hi hesc hopen huc hc ih =>
    exact ih ⟨by have := hinv.1; omega, by omega, fun h => by have := hinv.1; omega⟩ hn
  | case7 fuel i lwc uc hi hesc hopen huc e hc pre key hpre hkey hk =>
    exact absurd (by simp) (hn (.unknown key))
  | case8 fuel i lwc uc hi hesc hopen huc e hc pre key hpre hkey hk1 hk2 ih =>
    -- unknown placeholder kept: lit inp[lwc:i], continue at i+1 with lwc = i
    obtain ⟨_, _, hs'⟩ := slice_eq hkey
    have hn' : noHalt (segLoop inp known ue eu fuel (i + 1) i uc) :=
      fun r hr => hn r (List.mem_cons_of_mem _ hr)
    have ih' := ih ⟨by omega, by omega, fun h => by omega⟩ hn'
    simp only [source, List.map_cons, List.flatten_cons, srcOf]
    rw [drop_split inp lwc i hinv.1, ← hs']
    exact EscDel.prepend _ ih'
  | case9 fuel i lwc uc hi hesc hopen huc e hc pre key hpre hkey hk1 hk2 ih =>
    -- substituted placeholder: lit inp[lwc:i], ph inp[i+1:e], continue at e+1
    have hb := findClose_bounds hc
    have hg := findClose_get hc
    have ho : inp[i]? = some phOpen := by simpa [openAt] using hopen
    have hne : i ≠ e := by intro h; subst h; rw [ho] at hg; cases hg
    obtain ⟨_, _, hpre'⟩ := slice_eq hkey
    obtain ⟨_, _, hkey'⟩ := slice_eq hpre
    have hn' : noHalt (segLoop inp known ue eu fuel (e + 1) (e + 1) uc) :=
      fun r hr => hn r (List.mem_cons_of_mem _ (List.mem_cons_of_mem _ hr))
    have ih' := ih ⟨by omega, by omega, fun _ _ => by
      simp only [Nat.add_sub_cancel, hg]; intro h; cases h⟩ hn'
    simp only [source, List.map_cons, List.flatten_cons, srcOf]
    rw [drop_split inp lwc i hinv.1, ← hpre']
    apply EscDel.prepend
    rw [drop_cons_of_get ho]
    apply EscDel.keep
    rw [drop_split inp (i + 1) e (by omega), ← hkey']
    show EscDel (key ++ List.drop e inp) ((key ++ [phClose]) ++ _)
    rw [List.append_assoc]
    apply EscDel.prepend
    rw [drop_cons_of_get hg]
    exact EscDel.keep _ ih'
  | case10 => exact absurd (by simp) (hn .panic)
  | case11 => exact absurd (by simp) (hn .panic)
  | case12 fuel i lwc uc hi s hs =>
    obtain ⟨_, _, hs'⟩ := slice_eq hs
    simp only [source, List.map_cons, List.map_nil, List.flatten_cons, List.flatten_nil, srcOf, List.append_nil]
    rw [hs']
    have : (inp.drop lwc).take (inp.length - lwc) = inp.drop lwc := by
      apply List.take_of_length_le; simp
    rw [this]
    exact EscDel.refl _

end CaddyModel.C18
