/-
C18 line-protocol driver, part 2: the consumer streams (see harness/internal/c18/consumers.go)
  httpmap <source> <er|re> <exIn> <exOutM> <exOutN> <a|l> <P> <S> <reOutM> <reOutN> <defM> <defN> <probe> <X-In> <q> <secret>
`!` = JSON null / absent.  All byte fields must be ASCII.
-/
import CaddyModel.C18.MapH

namespace CaddyModel.C18

/-- a hex field that may be `!` -/
def decodeOpt (s : String) : Option (Option Bytes) :=
  if s == "!" then some none else (Hex.decode s).map some

def mkPat (kind : String) (p s : Bytes) : Option Pat :=
  if kind == "a" then some (.anch p s)
  else if kind == "l" then (if p.isEmpty then none else some (.lit p))
  else none

def optAscii : Option Bytes → Bool
  | some b => isAscii b
  | none => true

def optHas (sub : Bytes) : Option Bytes → Bool
  | some b => !sub.isEmpty && (indexOfSub sub b).isSome
  | none => false

def phM : Bytes := str "{m}"
def phN : Bytes := str "{n}"

/-- the generator keeps the configuration acyclic (a cyclic one overflows the Go stack) -/
def mapCyclic (source : Bytes) (exM exN reM reN defM defN : Option Bytes) : Bool :=
  [some source, exM, reM, defM].any (fun t => optHas phM t || optHas phN t) ||
  [exN, reN, defN].any (optHas phN)

def handleMap : List String → String
  | [source, order, exIn, exM, exN, kind, p, s, reM, reN, defM, defN, probe, xin, q, secret] =>
    match Hex.decode source, Hex.decode exIn, decodeOpt exM, decodeOpt exN, Hex.decode p, Hex.decode s,
          decodeOpt reM, decodeOpt reN, decodeOpt defM, decodeOpt defN with
    | some source, some exIn, some exM, some exN, some p, some s, some reM, some reN, some defM, some defN =>
      match Hex.decode probe, Hex.decode xin, Hex.decode q, Hex.decode secret, mkPat kind p s with
      | some probe, some xin, some q, some secret, some pat =>
        if !([source, exIn, p, s, probe, xin, q, secret].all isAscii && [exM, exN, reM, reN, defM, defN].all optAscii) then "bad-op"
        else if order != "er" && order != "re" then "bad-op"
        else if defM.isNone && defN.isSome then "bad-op"
        else if mapCyclic source exM exN reM reN defM defN then "bad-op"
        else
          let ex : MapMapping := ⟨false, exIn, pat, [exM, exN]⟩
          let re : MapMapping := ⟨true, [], pat, [reM, reN]⟩
          let cfg : MapCfg := ⟨source, [str "m", str "n"], if order == "er" then [ex, re] else [re, ex],
            (match defM, defN with
             | some a, some b => [a, b]
             | some a, none => [a]
             | none, _ => [])⟩
          if !mapValidate cfg then "err:validate"
          else "ok " ++ Hex.encode (mapProbe false cfg probe ⟨xin, q, [47], secret, []⟩)
      | _, _, _, _, _ => "bad-op"
    | _, _, _, _, _, _, _, _, _, _ => "bad-op"
  | _ => "bad-op"

end CaddyModel.C18
