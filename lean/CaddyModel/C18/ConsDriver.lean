/-
C18 line-protocol driver, part 2: the consumer streams (see harness/internal/c18/consumers.go)
  httpmap <source> <er|re> <exIn> <exOutM> <exOutN> <a|l> <P> <S> <reOutM> <reOutN> <defM> <defN> <probe> <X-In> <q> <secret>
  httphdr <q|s> <addF> <addV> <setF> <setV1> <setV2> <del1> <del2> <repF> <s|a|l> <search|P> <S> <replace> <X-In> <q> <secret>
  httprwm <prefix> <suffix> <subFind> <subReplace> <subLimit> <a|l|-> <P> <S> <reReplace> <path> <rawQuery> <secret>
  httphost <pattern1> <pattern2> <$SITE> <file content> <Host> <X-Tenant> <$SECRET>
  httpchain <varTmpl> <mapSource> <a|l> <P> <S> <reOut> <mapDefault> <hdrTmpl> <bodyTmpl> <X-In> <q> <secret>
  httptpl <bodyTmpl> <X-In> <q> <secret>
  cfenv <bodySrc> <$VERIF_C18_CF | !> <X-In> <secret>
  httpdial <dialTmpl> <varTmpl> <X-In> <q> <secret>
`!` = JSON null / absent.  All byte fields must be ASCII.
-/
import CaddyModel.C18.MapH
import CaddyModel.C18.Headers
import CaddyModel.C18.RwMods
import CaddyModel.C18.HostGlue
import CaddyModel.C18.Chain
import CaddyModel.C18.Tpl
import CaddyModel.C18.CfEnv
import CaddyModel.C18.Dial
import CaddyModel.C18.Fcgi

namespace CaddyModel.C18

/-- a hex field that may be `!` -/
def decodeOpt (s : String) : Option (Option Bytes) :=
  if s == "!" then some none else (Hex.decode s).map some

def mkPat (kind : String) (p s : Bytes) : Option Pat :=
  if kind == "a" then some (.anch p s)
  else if kind == "l" then (if p.isEmpty then none else some (.lit p))
  else none

def optAscii : Option Bytes → Bool
  | some b => isAscii b
  | none => true

def optHas (sub : Bytes) : Option Bytes → Bool
  | some b => !sub.isEmpty && (indexOfSub sub b).isSome
  | none => false

def phM : Bytes := str "{m}"
def phN : Bytes := str "{n}"

/-- the generator keeps the configuration acyclic (a cyclic one overflows the Go stack) -/
def mapCyclic (source : Bytes) (exM exN reM reN defM defN : Option Bytes) : Bool :=
  [some source, exM, reM, defM].any (fun t => optHas phM t || optHas phN t) ||
  [exN, reN, defN].any (optHas phN)

def handleMap : List String → String
  | [source, order, exIn, exM, exN, kind, p, s, reM, reN, defM, defN, probe, xin, q, secret] =>
    match Hex.decode source, Hex.decode exIn, decodeOpt exM, decodeOpt exN, Hex.decode p, Hex.decode s,
          decodeOpt reM, decodeOpt reN, decodeOpt defM, decodeOpt defN with
    | some source, some exIn, some exM, some exN, some p, some s, some reM, some reN, some defM, some defN =>
      match Hex.decode probe, Hex.decode xin, Hex.decode q, Hex.decode secret, mkPat kind p s with
      | some probe, some xin, some q, some secret, some pat =>
        if !([source, exIn, p, s, probe, xin, q, secret].all isAscii && [exM, exN, reM, reN, defM, defN].all optAscii) then "bad-op"
        else if order != "er" && order != "re" then "bad-op"
        else if defM.isNone && defN.isSome then "bad-op"
        else if mapCyclic source exM exN reM reN defM defN then "bad-op"
        else
          let ex : MapMapping := ⟨false, exIn, pat, [exM, exN]⟩
          let re : MapMapping := ⟨true, [], pat, [reM, reN]⟩
          let cfg : MapCfg := ⟨source, [str "m", str "n"], if order == "er" then [ex, re] else [re, ex],
            (match defM, defN with
             | some a, some b => [a, b]
             | some a, none => [a]
             | none, _ => [])⟩
          if !mapValidate cfg then "err:validate"
          else "ok " ++ Hex.encode (mapProbe false cfg probe ⟨xin, q, [47], secret, []⟩)
      | _, _, _, _, _ => "bad-op"
    | _, _, _, _, _, _, _, _, _, _ => "bad-op"
  | _ => "bad-op"

/-! ### httphdr -/

def bytesLt : Bytes → Bytes → Bool
  | [], [] => false
  | [], _ :: _ => true
  | _ :: _, [] => false
  | a :: as, b :: bs => a < b || (a = b && bytesLt as bs)

def insertHdr (e : Bytes × List Bytes) : Hdrs → Hdrs
  | [] => [e]
  | x :: xs => if bytesLt e.1 x.1 then e :: x :: xs else x :: insertHdr e xs

def sortHdrs (hs : Hdrs) : Hdrs := hs.foldl (fun acc e => insertHdr e acc) []

def dumpHdrs (hs : Hdrs) : String :=
  if hs.isEmpty then "-" else
  ";".intercalate ((sortHdrs hs).map fun e => Hex.encode e.1 ++ "=" ++ ",".intercalate (e.2.map Hex.encode))

def optList : Option Bytes → List Bytes
  | some b => [b]
  | none => []

def handleHdr : List String → String
  | [side, addF, addV, setF, setV1, setV2, del1, del2, repF, kind, ra, rb, rrepl, xin, q, secret] =>
    match decodeOpt addF, decodeOpt addV, decodeOpt setF, decodeOpt setV1, decodeOpt setV2, decodeOpt del1, decodeOpt del2, decodeOpt repF with
    | some addF, some addV, some setF, some setV1, some setV2, some del1, some del2, some repF =>
      match Hex.decode ra, Hex.decode rb, Hex.decode rrepl, Hex.decode xin, Hex.decode q, Hex.decode secret with
      | some ra, some rb, some rrepl, some xin, some q, some secret =>
        if !([ra, rb, rrepl, xin, q, secret].all isAscii && [addF, addV, setF, setV1, setV2, del1, del2, repF].all optAscii) then "bad-op"
        else if side != "q" && side != "s" then "bad-op"
        else if addF.isNone != addV.isNone || setF.isNone != setV1.isNone || (setF.isNone && setV2.isSome) then "bad-op"
        else if kind != "s" && kind != "a" && kind != "l" then "bad-op"
        else if repF.isNone && kind != "s" then "bad-op"
        else if repF.isSome && kind == "l" && ra.isEmpty then "bad-op"
        else
          let ops : HdrOps := ⟨
            (match addF, addV with | some f, some v => some (f, v) | _, _ => none),
            (match setF, setV1 with | some f, some v1 => some (f, v1 :: optList setV2) | _, _ => none),
            optList del1 ++ optList del2,
            (match repF with
             | some f => some (f, if kind == "s" then ⟨ra, false, .lit [], rrepl⟩
                                   else if kind == "a" then ⟨[], true, .anch ra rb, rrepl⟩ else ⟨[], true, .lit ra, rrepl⟩)
             | none => none)⟩
          let r : HttpReq := ⟨xin, q, [47], secret, []⟩
          let init : Hdrs := [(str "X-In", [xin]), (str "X-Fixed", [str "fixed-abc"]), (str "X-Two", [str "one", xin])]
          if side == "q" then
            let out := hdrApplyToRequest false (fun hs => expandKnown (hdrEnv r hs)) ops init (str "example.test")
            "ok " ++ dumpHdrs out.1 ++ " " ++ Hex.encode out.2
          else
            "ok " ++ dumpHdrs (hdrApplyTo false (fun _ => expandKnown (hdrEnv r [(str "X-In", [xin])])) ops init)
              ++ " " ++ Hex.encode (str "example.test")
      | _, _, _, _, _, _ => "bad-op"
    | _, _, _, _, _, _, _, _ => "bad-op"
  | _ => "bad-op"

/-! ### httprwm -/

def handleRwm : List String → String
  | [pre, suf, sf, sr, lim, kind, p, s, rr, path, rq, secret] =>
    match Hex.decode pre, Hex.decode suf, Hex.decode sf, Hex.decode sr, lim.toNat?, Hex.decode p, Hex.decode s, Hex.decode rr with
    | some pre, some suf, some sf, some sr, some lim, some p, some s, some rr =>
      match Hex.decode path, Hex.decode rq, Hex.decode secret with
      | some path, some rq, some secret =>
        if ![pre, suf, sf, sr, p, s, rr, path, rq, secret].all isAscii then "bad-op"
        else if lim > 9 then "bad-op"
        else if kind != "a" && kind != "l" && kind != "-" then "bad-op"
        else if kind == "l" && p.isEmpty then "bad-op"
        else
          let m : RwMods := ⟨pre, suf, sf, sr, lim, (if kind == "-" then none else mkPat kind p s), rr⟩
          let out := rwmApply false (fun u => expandAll (rwmEnv secret u)) m ⟨path, [], rq⟩
          "ok " ++ Hex.encode out.path ++ " " ++ Hex.encode out.rawPath ++ " " ++ Hex.encode out.rawQuery
      | _, _, _ => "bad-op"
    | _, _, _, _, _, _, _, _ => "bad-op"
  | _ => "bad-op"

/-! ### httphost -/

def handleHost : List String → String
  | [p1, p2, site, file, host, tenant, secret] =>
    match Hex.decode p1, Hex.decode p2, Hex.decode site, Hex.decode file, Hex.decode host, Hex.decode tenant, Hex.decode secret with
    | some p1, some p2, some site, some file, some host, some tenant, some secret =>
      if ![p1, p2, site, file, host, tenant, secret].all isAscii then "bad-op"
      else if host.isEmpty || host.any (fun b => b = 58 || b = 91 || b = 93) then "bad-op"
      else if [p1, p2, site, file, host, tenant, secret].any (·.contains 0) then "bad-op"
      else match hostServe false ⟨site, secret, file, host, tenant⟩ p1 p2 with
        | some (m1, m2) => "ok " ++ (if m1 then "1" else "0") ++ (if m2 then "1" else "0")
        | none => "err:provision"
    | _, _, _, _, _, _, _ => "bad-op"
  | _ => "bad-op"

/-! ### httpchain -/

def handleChain : List String → String
  | [varT, srcT, kind, p, s, reOut, defT, hdrT, bodyT, xin, q, secret] =>
    match Hex.decode varT, Hex.decode srcT, Hex.decode p, Hex.decode s, Hex.decode reOut, Hex.decode defT with
    | some varT, some srcT, some p, some s, some reOut, some defT =>
      match Hex.decode hdrT, Hex.decode bodyT, Hex.decode xin, Hex.decode q, Hex.decode secret, mkPat kind p s with
      | some hdrT, some bodyT, some xin, some q, some secret, some pat =>
        if ![varT, srcT, p, s, reOut, defT, hdrT, bodyT, xin, q, secret].all isAscii then "bad-op"
        else if [varT, srcT, defT].any (fun t => (indexOfSub phM t).isSome) then "bad-op"
        else
          let out := chainServe ⟨varT, srcT, pat, reOut, defT, hdrT, bodyT⟩ ⟨xin, q, [47], secret, []⟩
          "ok " ++ Hex.encode out.1 ++ " " ++ Hex.encode out.2
      | _, _, _, _, _, _ => "bad-op"
    | _, _, _, _, _, _ => "bad-op"
  | _ => "bad-op"

/-! ### httptpl -/

def handleTpl : List String → String
  | [bodyT, xin, q, secret] =>
    match Hex.decode bodyT, Hex.decode xin, Hex.decode q, Hex.decode secret with
    | some bodyT, some xin, some q, some secret =>
      if ![bodyT, xin, q, secret].all isAscii then "bad-op"
      else match tplServe bodyT ⟨xin, q, [47], secret, []⟩ with
        | some out => "ok " ++ Hex.encode out
        | none => "unsupported"
    | _, _, _, _ => "bad-op"
  | _ => "bad-op"

/-! ### cfenv -/

def handleCfEnv : List String → String
  | [bodySrc, val, xin, secret] =>
    match Hex.decode bodySrc, decodeOpt val, Hex.decode xin, Hex.decode secret with
    | some bodySrc, some val, some xin, some secret =>
      if !(cfLexSafe bodySrc && (match val with | some v => cfLexSafe v | none => true) && cfLexSafe secret
            && isAscii bodySrc && optAscii val && isAscii secret && isAscii xin && lastSpanCloses bodySrc) then "bad-op"
      else match cfServe bodySrc val ⟨xin, [], [47], secret, []⟩ with
        | some out => "ok " ++ Hex.encode out
        | none => "panic"
    | _, _, _, _ => "bad-op"
  | _ => "bad-op"

/-! ### httpdial -/

def handleDial : List String → String
  | [dialT, varT, xin, q, secret] =>
    match Hex.decode dialT, Hex.decode varT, Hex.decode xin, Hex.decode q, Hex.decode secret with
    | some dialT, some varT, some xin, some q, some secret =>
      if ![dialT, varT, xin, q, secret].all isAscii || dialT.isEmpty then "bad-op"
      else match dialServe false dialT varT ⟨xin, q, [47], secret, []⟩ with
        | .ok network host port => "ok " ++ Hex.encode network ++ " " ++ Hex.encode host ++ " " ++ toString port
        | .err => "err:dial"
    | _, _, _, _, _ => "bad-op"
  | _ => "bad-op"

/-! ### fcgi -/

def isPrintable (s : Bytes) : Bool := s.all (fun b => 32 ≤ b && b < 127)

/-- keys the stream does not configure: `client.Get` overwrites REQUEST_METHOD / CONTENT_LENGTH after `buildEnv`,
    and the proxy adds header fields of its own (`HTTP_X_FORWARDED_…`) that the model does not list -/
def fcgiKeyOk (k : Bytes) : Bool :=
  !k.isEmpty && k != str "REQUEST_METHOD" && k != str "CONTENT_LENGTH" &&
  (!hasPrefix (str "HTTP_") k || k == str "HTTP_X_IN")

def handleFcgi : List String → String
  | [envKey, envT, rootT, split, path, rq, xin, user, secret] =>
    match Hex.decode envKey, Hex.decode envT, Hex.decode rootT, Hex.decode split, Hex.decode path with
    | some envKey, some envT, some rootT, some split, some path =>
      match Hex.decode rq, Hex.decode xin, Hex.decode user, Hex.decode secret with
      | some rq, some xin, some user, some secret =>
        if ![envKey, envT, rootT, split, path, rq, xin, user, secret].all isPrintable then "bad-op"
        else if !fcgiKeyOk envKey || !hasPrefix [47] rootT || !hasPrefix [47] path then "bad-op"
        else
          "ok " ++ " ".intercalate ((fcgiObserved ⟨envKey, envT, rootT, split⟩).map fun k =>
            match tget k (fcgiBuild false ⟨envKey, envT, rootT, split⟩ ⟨path, rq, xin, user, secret⟩) with
            | some v => Hex.encode v
            | none => "!")
      | _, _, _, _ => "bad-op"
    | _, _, _, _, _ => "bad-op"
  | _ => "bad-op"

end CaddyModel.C18
