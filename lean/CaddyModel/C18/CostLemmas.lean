import CaddyModel.C18.Cost

namespace CaddyModel.C18

theorem skipCost_le_some (inp : Bytes) : ∀ (fuel e e' : Nat), skipEscaped inp fuel e = some e' →
    skipCost inp fuel e ≤ e' - e
  | 0, e, e', _ => by simp [skipCost]
  | fuel + 1, e, e', h => by
    unfold skipEscaped at h
    unfold skipCost
    split
    · rename_i hc
      rw [if_pos hc] at h
      split at h
      · cases h
      · rename_i e1 hi
        simp only [hi]
        have hb := indexFrom_bounds hi
        have ih := skipCost_le_some inp fuel e1 e' h
        have hge := skipEscaped_ge inp fuel e1 e' h
        omega
    · omega

theorem skipCost_le_none (inp : Bytes) : ∀ (fuel e : Nat), skipEscaped inp fuel e = none →
    skipCost inp fuel e ≤ inp.length - e
  | 0, e, h => by simp [skipEscaped] at h
  | fuel + 1, e, h => by
    unfold skipEscaped at h
    unfold skipCost
    split
    · rename_i hc
      rw [if_pos hc] at h
      split at h
      · rename_i hi
        simp only [hi]
        omega
      · rename_i e1 hi
        simp only [hi]
        have hb := indexFrom_bounds hi
        have ih := skipCost_le_none inp fuel e1 h
        omega
    · omega

theorem closeCost_at {inp : Bytes} {i e : Nat} (h : findClose inp i = .at e) :
    closeCost inp i ≤ e - i + 1 := by
  unfold findClose at h
  unfold closeCost
  split at h
  · cases h
  · rename_i e0 h0
    simp only [h0]
    split at h
    · cases h
    · rename_i e1 h1
      cases h
      have hb := indexFrom_bounds h0
      have := skipCost_le_some inp inp.length e0 e h1
      have := skipEscaped_ge inp inp.length e0 e h1
      omega

theorem closeCost_unclosed {inp : Bytes} {i : Nat} (h : findClose inp i = .unclosed) :
    closeCost inp i ≤ inp.length - i + 1 := by
  unfold findClose at h
  unfold closeCost
  split at h
  · rename_i h0
    simp only [h0]; omega
  · rename_i e0 h0
    simp only [h0]
    split at h
    · rename_i h1
      have hb := indexFrom_bounds h0
      have := skipCost_le_none inp inp.length e0 h1
      omega
    · cases h

/-- potential: 2 units per remaining byte plus one "scan to the end" per remaining unclosed budget -/
def bound (len i uc : Nat) : Nat := 2 * (len - i) + (102 - uc) * (len + 2)

theorem costLoop_le (inp : Bytes) (env : Env) (m : Mode)
    (hm : m.unknownEmpty = true ∨ m.errUnknown = true) :
    ∀ (fuel i uc : Nat), i ≤ inp.length → uc ≤ 101 →
      costLoop inp env m fuel i uc ≤ bound inp.length i uc := by
  intro fuel
  induction fuel with
  | zero => intro i uc _ _; simp [costLoop]
  | succ fuel ih =>
    intro i uc hi huc
    unfold costLoop
    split
    · rename_i hlt
      have step1 : 1 + bound inp.length (i + 1) uc ≤ bound inp.length i uc := by
        unfold bound; omega
      split
      · have := ih (i + 1) uc (by omega) huc; omega
      · split
        · have := ih (i + 1) uc (by omega) huc; omega
        · split
          · -- uc > 100
            unfold bound
            have : (102 - uc) * (inp.length + 2) ≥ inp.length + 2 := by
              have : 102 - uc ≥ 1 := by omega
              exact Nat.le_mul_of_pos_left _ (by omega)
            omega
          · rename_i huc'
            have hucle : uc ≤ 100 := by omega
            have hmul : (102 - uc) * (inp.length + 2) = (101 - uc) * (inp.length + 2) + (inp.length + 2) := by
              have : 102 - uc = (101 - uc) + 1 := by omega
              rw [this, Nat.add_mul, Nat.one_mul]
            have hmul2 : (101 - uc) * (inp.length + 2) ≥ inp.length + 2 := by
              have : 101 - uc ≥ 1 := by omega
              exact Nat.le_mul_of_pos_left _ (by omega)
            split
            · -- unclosed
              rename_i hc
              have hcc := closeCost_unclosed hc
              have := ih (i + 1) (uc + 1) (by omega) (by omega)
              unfold bound at *
              have e1 : 102 - (uc + 1) = 101 - uc := by omega
              rw [e1] at this
              omega
            · rename_i e hc
              have hcc := closeCost_at hc
              have hb := findClose_bounds hc
              split
              · rename_i key hkey
                split
                · unfold bound; omega
                · split
                  · -- keep-unknown: excluded by the mode hypothesis
                    rename_i h1 h2
                    exfalso
                    rcases hm with hm | hm
                    · simp [hm] at h2
                    · simp [hm] at h1
                      simp [h1] at h2
                  · split
                    · unfold bound; omega
                    · split
                      · unfold bound; omega
                      · have := ih (e + 1) uc (by omega) huc
                        unfold bound at *
                        omega
              · omega
    · omega

end CaddyModel.C18
