import CaddyModel.C18.Cost
import CaddyModel.C18.Spec

namespace CaddyModel.C18

theorem skipCost_le_some (inp : Bytes) : ∀ (fuel e e' : Nat), skipEscaped inp fuel e = some e' →
    skipCost inp fuel e ≤ e' - e
  | 0, e, e', _ => by simp [skipCost]
  | fuel + 1, e, e', h => by
    unfold skipEscaped at h
    unfold skipCost
    split
    · rename_i hc
      rw [if_pos hc] at h
      split at h
      · cases h
      · rename_i e1 hi
        simp only [hi]
        have hb := indexFrom_bounds hi
        have ih := skipCost_le_some inp fuel e1 e' h
        have hge := skipEscaped_ge inp fuel e1 e' h
        omega
    · omega

theorem skipCost_le_none (inp : Bytes) : ∀ (fuel e : Nat), skipEscaped inp fuel e = none →
    skipCost inp fuel e ≤ inp.length - e
  | 0, e, h => by simp [skipEscaped] at h
  | fuel + 1, e, h => by
    unfold skipEscaped at h
    unfold skipCost
    split
    · rename_i hc
      rw [if_pos hc] at h
      split at h
      · rename_i hi
        simp only [hi]
        omega
      · rename_i e1 hi
        simp only [hi]
        have hb := indexFrom_bounds hi
        have ih := skipCost_le_none inp fuel e1 h
        omega
    · omega

theorem closeCost_at {inp : Bytes} {i e : Nat} (h : findClose inp i = .at e) :
    closeCost inp i ≤ e - i + 1 := by
  unfold findClose at h
  unfold closeCost
  split at h
  · cases h
  · rename_i e0 h0
    simp only [h0]
    split at h
    · cases h
    · rename_i e1 h1
      cases h
      have hb := indexFrom_bounds h0
      have := skipCost_le_some inp inp.length e0 e h1
      have := skipEscaped_ge inp inp.length e0 e h1
      omega

theorem closeCost_unclosed {inp : Bytes} {i : Nat} (h : findClose inp i = .unclosed) :
    closeCost inp i ≤ inp.length - i + 1 := by
  unfold findClose at h
  unfold closeCost
  split at h
  · rename_i h0
    simp only [h0]; omega
  · rename_i e0 h0
    simp only [h0]
    split at h
    · rename_i h1
      have hb := indexFrom_bounds h0
      have := skipCost_le_none inp inp.length e0 h1
      omega
    · cases h

/-! ### the linear bound, in every mode

Potential argument. A search that finds a brace (`miss` at `i`, result `e`) walks over `(i, e]` and leaves
`ce = e`; until the cursor has passed `e` every opener reuses `e` for free, so the next paid search starts
behind `e`: the walked stretches are disjoint, `len - max i ce` pays for them. A search that finds nothing
costs at most `len + 2` and raises `unclosedCount`, which stops the scan above 100. Two units per
iteration pay for the visit of the byte and the `+ 1` of a search. -/

/-- potential: two units per remaining byte, one per byte behind the remembered closing brace, and one
    "scan to the end" per remaining unit of the unclosed budget -/
def bound (len i uc ce : Nat) : Nat :=
  2 * (len - i) + (len - max i ce) + (101 - uc) * (len + 2) + 1

theorem searchCost_at {inp : Bytes} {i ce e : Nat} (h : closeAt inp i ce = .at e) :
    (i < ce ∧ e = ce ∧ searchCost inp i ce = 0) ∨
    (ce ≤ i ∧ i ≤ e ∧ e < inp.length ∧ searchCost inp i ce ≤ e - i + 1) := by
  unfold closeAt at h
  unfold searchCost
  split at h
  · rename_i hgt
    cases h
    exact Or.inl ⟨hgt, rfl, by rw [if_pos hgt]⟩
  · rename_i hgt
    have hb := findClose_bounds h
    exact Or.inr ⟨by omega, hb.1, hb.2, by rw [if_neg hgt]; exact closeCost_at h⟩

theorem searchCost_unclosed {inp : Bytes} {i ce : Nat} (h : closeAt inp i ce = .unclosed) :
    ce ≤ i ∧ searchCost inp i ce ≤ inp.length - i + 1 := by
  unfold closeAt at h
  unfold searchCost
  split at h
  · cases h
  · rename_i hgt
    exact ⟨by omega, by rw [if_neg hgt]; exact closeCost_unclosed h⟩

theorem costLoop_le (inp : Bytes) (env : Env) (m : Mode) :
    ∀ (fuel i uc ce : Nat), uc ≤ 101 →
      costLoop inp env m fuel i uc ce ≤ bound inp.length i uc ce := by
  intro fuel
  induction fuel with
  | zero => intro i uc ce _; simp [costLoop]
  | succ fuel ih =>
    intro i uc ce huc
    unfold costLoop
    split
    · rename_i hlt
      have step1 : 1 + bound inp.length (i + 1) uc ce ≤ bound inp.length i uc ce := by
        unfold bound; omega
      split
      · have := ih (i + 1) uc ce huc; omega
      · split
        · have := ih (i + 1) uc ce huc; omega
        · split
          · -- uc > 100
            unfold bound; omega
          · rename_i huc'
            have hucle : uc ≤ 100 := by omega
            have hmul : (101 - uc) * (inp.length + 2) = (101 - (uc + 1)) * (inp.length + 2) + (inp.length + 2) := by
              have : 101 - uc = (101 - (uc + 1)) + 1 := by omega
              rw [this, Nat.add_mul, Nat.one_mul]
            split
            · -- no closing brace: pays with one unit of the unclosed budget
              rename_i hc
              obtain ⟨hce, hcc⟩ := searchCost_unclosed hc
              have := ih (i + 1) (uc + 1) ce (by omega)
              unfold bound at *
              omega
            · rename_i e hc
              -- the two continuations: behind the opener (unknown kept) / behind the closing brace
              have hkeep : 1 + searchCost inp i ce + bound inp.length (i + 1) uc e ≤ bound inp.length i uc ce := by
                rcases searchCost_at hc with ⟨h1, h2, h3⟩ | ⟨h1, h2, h3, h4⟩
                · subst h2; unfold bound; omega
                · unfold bound; omega
              have hsubst : 1 + searchCost inp i ce + bound inp.length (e + 1) uc e ≤ bound inp.length i uc ce := by
                rcases searchCost_at hc with ⟨h1, h2, h3⟩ | ⟨h1, h2, h3, h4⟩
                · subst h2; unfold bound; omega
                · unfold bound; omega
              have hstop : 1 + searchCost inp i ce ≤ bound inp.length i uc ce := by omega
              split
              · split
                · exact hstop
                · split
                  · have := ih (i + 1) uc e huc; omega
                  · split
                    · exact hstop
                    · split
                      · exact hstop
                      · have := ih (e + 1) uc e huc; omega
              · omega
    · omega

/-! ### the cost twin follows the control flow of `loop`

`loopC` is `loop` instrumented to return the visit count next to its result: the first component
IS `loop` (`loopC_fst`) and the second IS `costLoop` (`loopC_snd`), so `cost` counts the visits of the
very loop the other theorems are about, not of a look-alike. -/

def loopC (inp : Bytes) (env : Env) (m : Mode) : (fuel i lwc uc ce : Nat) → (sb : Bytes) → Res × Nat
  | 0, _, _, _, _, _ => (.fuel, 0)
  | fuel + 1, i, lwc, uc, ce, sb =>
  if i < inp.length then
    if escAt inp i then
      match slice inp lwc (i - 1) with
      | none => (.panic, 1)
      | some s => ((loopC inp env m fuel (i + 1) i uc ce (sb ++ s)).1, 1 + (loopC inp env m fuel (i + 1) i uc ce (sb ++ s)).2)
    else if !openAt inp i then
      ((loopC inp env m fuel (i + 1) lwc uc ce sb).1, 1 + (loopC inp env m fuel (i + 1) lwc uc ce sb).2)
    else if uc > 100 then
      (.tooMany, 1)
    else
      match closeAt inp i ce with
      | .unclosed => ((loopC inp env m fuel (i + 1) lwc (uc + 1) ce sb).1, 1 + searchCost inp i ce + (loopC inp env m fuel (i + 1) lwc (uc + 1) ce sb).2)
      | .at e =>
        match slice inp lwc i, slice inp (i + 1) e with
        | some pre, some key =>
          if (env key).isNone ∧ m.errUnknown then (.unknown key, 1 + searchCost inp i ce)
          else if (env key).isNone ∧ !m.unknownEmpty then
            ((loopC inp env m fuel (i + 1) i uc e (sb ++ pre)).1, 1 + searchCost inp i ce + (loopC inp env m fuel (i + 1) i uc e (sb ++ pre)).2)
          else
            match m.valStr key (env key) with
            | none => (.funcErr, 1 + searchCost inp i ce)
            | some valStr =>
              if valStr.isEmpty then
                if m.errEmpty then (.emptyVal key, 1 + searchCost inp i ce)
                else ((loopC inp env m fuel (e + 1) (e + 1) uc e (sb ++ pre ++ m.empty)).1, 1 + searchCost inp i ce + (loopC inp env m fuel (e + 1) (e + 1) uc e (sb ++ pre ++ m.empty)).2)
              else ((loopC inp env m fuel (e + 1) (e + 1) uc e (sb ++ pre ++ valStr)).1, 1 + searchCost inp i ce + (loopC inp env m fuel (e + 1) (e + 1) uc e (sb ++ pre ++ valStr)).2)
        | _, _ => (.panic, 0)
  else
    match slice inp lwc inp.length with
    | none => (.panic, 0)
    | some s => (.ok (sb ++ s), 0)

theorem loopC_fst (inp : Bytes) (env : Env) (m : Mode) (fuel i lwc uc ce : Nat) (sb : Bytes) :
    (loopC inp env m fuel i lwc uc ce sb).1 = loop inp env m fuel i lwc uc ce sb := by
  fun_induction loopC inp env m fuel i lwc uc ce sb <;> rw [loop] <;> simp_all
  all_goals (try (intro hgt; omega))
  all_goals (try rw [if_neg (by omega)])
  all_goals (try (split <;> (try split) <;> simp_all))

theorem loopC_snd (inp : Bytes) (env : Env) (m : Mode) (fuel i lwc uc ce : Nat) (sb : Bytes)
    (h : (loopC inp env m fuel i lwc uc ce sb).1 ≠ .panic) :
    (loopC inp env m fuel i lwc uc ce sb).2 = costLoop inp env m fuel i uc ce := by
  fun_induction loopC inp env m fuel i lwc uc ce sb <;> rw [costLoop] <;> simp_all
  all_goals (try (intro hgt; omega))
  all_goals (try rw [if_neg (by omega)])
  all_goals (try (split <;> (try split) <;> simp_all))

/-! The same tie for the loop before the close cache: `costLoopNC` is the visit count of `loopNC`. -/

def loopCNC (inp : Bytes) (env : Env) (m : Mode) : (fuel i lwc uc : Nat) → (sb : Bytes) → Res × Nat
  | 0, _, _, _, _ => (.fuel, 0)
  | fuel + 1, i, lwc, uc, sb =>
  if i < inp.length then
    if escAt inp i then
      match slice inp lwc (i - 1) with
      | none => (.panic, 1)
      | some s => ((loopCNC inp env m fuel (i + 1) i uc (sb ++ s)).1, 1 + (loopCNC inp env m fuel (i + 1) i uc (sb ++ s)).2)
    else if !openAt inp i then
      ((loopCNC inp env m fuel (i + 1) lwc uc sb).1, 1 + (loopCNC inp env m fuel (i + 1) lwc uc sb).2)
    else if uc > 100 then
      (.tooMany, 1)
    else
      match findClose inp i with
      | .unclosed => ((loopCNC inp env m fuel (i + 1) lwc (uc + 1) sb).1, 1 + closeCost inp i + (loopCNC inp env m fuel (i + 1) lwc (uc + 1) sb).2)
      | .at e =>
        match slice inp lwc i, slice inp (i + 1) e with
        | some pre, some key =>
          if (env key).isNone ∧ m.errUnknown then (.unknown key, 1 + closeCost inp i)
          else if (env key).isNone ∧ !m.unknownEmpty then
            ((loopCNC inp env m fuel (i + 1) i uc (sb ++ pre)).1, 1 + closeCost inp i + (loopCNC inp env m fuel (i + 1) i uc (sb ++ pre)).2)
          else
            match m.valStr key (env key) with
            | none => (.funcErr, 1 + closeCost inp i)
            | some valStr =>
              if valStr.isEmpty then
                if m.errEmpty then (.emptyVal key, 1 + closeCost inp i)
                else ((loopCNC inp env m fuel (e + 1) (e + 1) uc (sb ++ pre ++ m.empty)).1, 1 + closeCost inp i + (loopCNC inp env m fuel (e + 1) (e + 1) uc (sb ++ pre ++ m.empty)).2)
              else ((loopCNC inp env m fuel (e + 1) (e + 1) uc (sb ++ pre ++ valStr)).1, 1 + closeCost inp i + (loopCNC inp env m fuel (e + 1) (e + 1) uc (sb ++ pre ++ valStr)).2)
        | _, _ => (.panic, 0)
  else
    match slice inp lwc inp.length with
    | none => (.panic, 0)
    | some s => (.ok (sb ++ s), 0)

theorem loopCNC_fst (inp : Bytes) (env : Env) (m : Mode) (fuel i lwc uc : Nat) (sb : Bytes) :
    (loopCNC inp env m fuel i lwc uc sb).1 = loopNC inp env m fuel i lwc uc sb := by
  fun_induction loopCNC inp env m fuel i lwc uc sb <;> rw [loopNC] <;> simp_all
  all_goals (try (intro hgt; omega))
  all_goals (try rw [if_neg (by omega)])
  all_goals (try (split <;> (try split) <;> simp_all))

theorem loopCNC_snd (inp : Bytes) (env : Env) (m : Mode) (fuel i lwc uc : Nat) (sb : Bytes)
    (h : (loopCNC inp env m fuel i lwc uc sb).1 ≠ .panic) :
    (loopCNC inp env m fuel i lwc uc sb).2 = costLoopNC inp env m fuel i uc := by
  fun_induction loopCNC inp env m fuel i lwc uc sb <;> rw [costLoopNC] <;> simp_all
  all_goals (try (intro hgt; omega))
  all_goals (try rw [if_neg (by omega)])
  all_goals (try (split <;> (try split) <;> simp_all))

end CaddyModel.C18
