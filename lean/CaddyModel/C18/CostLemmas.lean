import CaddyModel.C18.Cost

namespace CaddyModel.C18

theorem skipCost_le_some (inp : Bytes) : ∀ (fuel e e' : Nat), skipEscaped inp fuel e = some e' →
    skipCost inp fuel e ≤ e' - e
  | 0, e, e', _ => by simp [skipCost]
  | fuel + 1, e, e', h => by
    unfold skipEscaped at h
    unfold skipCost
    split
    · rename_i hc
      rw [if_pos hc] at h
      split at h
      · cases h
      · rename_i e1 hi
        simp only [hi]
        have hb := indexFrom_bounds hi
        have ih := skipCost_le_some inp fuel e1 e' h
        have hge := skipEscaped_ge inp fuel e1 e' h
        omega
    · omega

theorem skipCost_le_none (inp : Bytes) : ∀ (fuel e : Nat), skipEscaped inp fuel e = none →
    skipCost inp fuel e ≤ inp.length - e
  | 0, e, h => by simp [skipEscaped] at h
  | fuel + 1, e, h => by
    unfold skipEscaped at h
    unfold skipCost
    split
    · rename_i hc
      rw [if_pos hc] at h
      split at h
      · rename_i hi
        simp only [hi]
        omega
      · rename_i e1 hi
        simp only [hi]
        have hb := indexFrom_bounds hi
        have ih := skipCost_le_none inp fuel e1 h
        omega
    · omega

theorem closeCost_at {inp : Bytes} {i e : Nat} (h : findClose inp i = .at e) :
    closeCost inp i ≤ e - i + 1 := by
  unfold findClose at h
  unfold closeCost
  split at h
  · cases h
  · rename_i e0 h0
    simp only [h0]
    split at h
    · cases h
    · rename_i e1 h1
      cases h
      have hb := indexFrom_bounds h0
      have := skipCost_le_some inp inp.length e0 e h1
      have := skipEscaped_ge inp inp.length e0 e h1
      omega

theorem closeCost_unclosed {inp : Bytes} {i : Nat} (h : findClose inp i = .unclosed) :
    closeCost inp i ≤ inp.length - i + 1 := by
  unfold findClose at h
  unfold closeCost
  split at h
  · rename_i h0
    simp only [h0]; omega
  · rename_i e0 h0
    simp only [h0]
    split at h
    · rename_i h1
      have hb := indexFrom_bounds h0
      have := skipCost_le_none inp inp.length e0 h1
      omega
    · cases h

/-- potential: 2 units per remaining byte plus one "scan to the end" per remaining unclosed budget -/
def bound (len i uc : Nat) : Nat := 2 * (len - i) + (102 - uc) * (len + 2)

theorem costLoop_le (inp : Bytes) (env : Env) (m : Mode)
    (hm : m.unknownEmpty = true ∨ m.errUnknown = true) :
    ∀ (fuel i uc : Nat), i ≤ inp.length → uc ≤ 101 →
      costLoop inp env m fuel i uc ≤ bound inp.length i uc := by
  intro fuel
  induction fuel with
  | zero => intro i uc _ _; simp [costLoop]
  | succ fuel ih =>
    intro i uc hi huc
    unfold costLoop
    split
    · rename_i hlt
      have step1 : 1 + bound inp.length (i + 1) uc ≤ bound inp.length i uc := by
        unfold bound; omega
      split
      · have := ih (i + 1) uc (by omega) huc; omega
      · split
        · have := ih (i + 1) uc (by omega) huc; omega
        · split
          · -- uc > 100
            unfold bound
            have : (102 - uc) * (inp.length + 2) ≥ inp.length + 2 := by
              have : 102 - uc ≥ 1 := by omega
              exact Nat.le_mul_of_pos_left _ (by omega)
            omega
          · rename_i huc'
            have hucle : uc ≤ 100 := by omega
            have hmul : (102 - uc) * (inp.length + 2) = (101 - uc) * (inp.length + 2) + (inp.length + 2) := by
              have : 102 - uc = (101 - uc) + 1 := by omega
              rw [this, Nat.add_mul, Nat.one_mul]
            have hmul2 : (101 - uc) * (inp.length + 2) ≥ inp.length + 2 := by
              have : 101 - uc ≥ 1 := by omega
              exact Nat.le_mul_of_pos_left _ (by omega)
            split
            · -- unclosed
              rename_i hc
              have hcc := closeCost_unclosed hc
              have := ih (i + 1) (uc + 1) (by omega) (by omega)
              unfold bound at *
              have e1 : 102 - (uc + 1) = 101 - uc := by omega
              rw [e1] at this
              omega
            · rename_i e hc
              have hcc := closeCost_at hc
              have hb := findClose_bounds hc
              split
              · rename_i key hkey
                split
                · unfold bound; omega
                · split
                  · -- keep-unknown: excluded by the mode hypothesis
                    rename_i h1 h2
                    exfalso
                    rcases hm with hm | hm
                    · simp [hm] at h2
                    · simp [hm] at h1
                      simp [h1] at h2
                  · split
                    · unfold bound; omega
                    · split
                      · unfold bound; omega
                      · have := ih (e + 1) uc (by omega) huc
                        unfold bound at *
                        omega
              · omega
    · omega

/-! ### the cost twin follows the control flow of `loop`

`loopC` is `loop` instrumented to return the visit count next to its result: the first component
IS `loop` (`loopC_fst`) and the second IS `costLoop` (`loopC_snd`), so `cost` counts the visits of the
very loop the other theorems are about, not of a look-alike. -/

def loopC (inp : Bytes) (env : Env) (m : Mode) : (fuel i lwc uc : Nat) → (sb : Bytes) → Res × Nat
  | 0, _, _, _, _ => (.fuel, 0)
  | fuel + 1, i, lwc, uc, sb =>
  if i < inp.length then
    if escAt inp i then
      match slice inp lwc (i - 1) with
      | none => (.panic, 1)
      | some s => ((loopC inp env m fuel (i + 1) i uc (sb ++ s)).1, 1 + (loopC inp env m fuel (i + 1) i uc (sb ++ s)).2)
    else if !openAt inp i then
      ((loopC inp env m fuel (i + 1) lwc uc sb).1, 1 + (loopC inp env m fuel (i + 1) lwc uc sb).2)
    else if uc > 100 then
      (.tooMany, 1)
    else
      match findClose inp i with
      | .unclosed => ((loopC inp env m fuel (i + 1) lwc (uc + 1) sb).1, 1 + closeCost inp i + (loopC inp env m fuel (i + 1) lwc (uc + 1) sb).2)
      | .at e =>
        match slice inp lwc i, slice inp (i + 1) e with
        | some pre, some key =>
          if (env key).isNone ∧ m.errUnknown then (.unknown key, 1 + closeCost inp i)
          else if (env key).isNone ∧ !m.unknownEmpty then
            ((loopC inp env m fuel (i + 1) i uc (sb ++ pre)).1, 1 + closeCost inp i + (loopC inp env m fuel (i + 1) i uc (sb ++ pre)).2)
          else
            match m.valStr key (env key) with
            | none => (.funcErr, 1 + closeCost inp i)
            | some valStr =>
              if valStr.isEmpty then
                if m.errEmpty then (.emptyVal key, 1 + closeCost inp i)
                else ((loopC inp env m fuel (e + 1) (e + 1) uc (sb ++ pre ++ m.empty)).1, 1 + closeCost inp i + (loopC inp env m fuel (e + 1) (e + 1) uc (sb ++ pre ++ m.empty)).2)
              else ((loopC inp env m fuel (e + 1) (e + 1) uc (sb ++ pre ++ valStr)).1, 1 + closeCost inp i + (loopC inp env m fuel (e + 1) (e + 1) uc (sb ++ pre ++ valStr)).2)
        | _, _ => (.panic, 0)
  else
    match slice inp lwc inp.length with
    | none => (.panic, 0)
    | some s => (.ok (sb ++ s), 0)

theorem loopC_fst (inp : Bytes) (env : Env) (m : Mode) (fuel i lwc uc : Nat) (sb : Bytes) :
    (loopC inp env m fuel i lwc uc sb).1 = loop inp env m fuel i lwc uc sb := by
  fun_induction loopC inp env m fuel i lwc uc sb <;> rw [loop] <;> simp_all
  all_goals (try (intro hgt; omega))
  all_goals (try rw [if_neg (by omega)])
  all_goals (try (split <;> (try split) <;> simp_all))

theorem loopC_snd (inp : Bytes) (env : Env) (m : Mode) (fuel i lwc uc : Nat) (sb : Bytes)
    (h : (loopC inp env m fuel i lwc uc sb).1 ≠ .panic) :
    (loopC inp env m fuel i lwc uc sb).2 = costLoop inp env m fuel i uc := by
  fun_induction loopC inp env m fuel i lwc uc sb <;> rw [costLoop] <;> simp_all
  all_goals (try (intro hgt; omega))
  all_goals (try rw [if_neg (by omega)])
  all_goals (try (split <;> (try split) <;> simp_all))

end CaddyModel.C18
