/-
C18 — a consumer of the replacer: the MODIFIERS of the rewrite handler
(modules/caddyhttp/rewrite/rewrite.go, the part of `Rewrite.Rewrite` behind the `uri` setter):
`strip_path_prefix`, `strip_path_suffix`, one `uri_substring` entry, one `path_regexp` entry, with
`changePath`, `trimPathPrefix`, `caddyhttp.CleanPath` and `URL.EscapedPath` transliterated.
The configured operands are expanded (`ReplaceAll(·, "")`) when their modifier runs — the replacer
reads the URL as the earlier modifiers left it, so it is a function of the URL state — and are then
applied to the request's path / query with plain string functions.  The path and the query themselves
are never given to the replacer.  `path.Clean` is `C07.pathClean`.
-/
import CaddyModel.C18.MapH
import CaddyModel.C07.Model

namespace CaddyModel.C18

structure RwUrl where
  path : Bytes       -- URL.Path
  rawPath : Bytes    -- URL.RawPath
  rawQuery : Bytes   -- URL.RawQuery
deriving DecidableEq, Repr

/-- `validEncoded(s, encodePath)` -/
def validEncodedPath (s : Bytes) : Bool :=
  s.all fun b => isAlnum b || isMark b || isPathReserved b ||
    b = 33 || b = 39 || b = 40 || b = 41 || b = 42 || b = 91 || b = 93 || b = 37

/-- `u.EscapedPath()` -/
def escapedPathOf (u : RwUrl) : Bytes :=
  if !u.rawPath.isEmpty && validEncodedPath u.rawPath && pathUnescape u.rawPath = some u.path then u.rawPath
  else if u.path = [42] then [42]
  else escapePath u.path

/-- `cleanPath`: `path.Clean` that keeps a trailing slash -/
def cleanKeepSlash (p : Bytes) : Bytes :=
  if C07.pathClean p ≠ [47] && p.getLast? = some 47 then C07.pathClean p ++ [47] else C07.pathClean p

/-- the loop of `CleanPath(p, false)`: a `0xff` in front of every slash that follows a slash -/
def markSlashes : Bool → Bytes → Bytes
  | _, [] => []
  | prevSlash, c :: rest =>
    if c = 47 && prevSlash then 255 :: c :: markSlashes true rest else c :: markSlashes (c = 47) rest

/-- `caddyhttp.CleanPath(p, collapseSlashes)` -/
def cleanPathC (p : Bytes) (collapse : Bool) : Bytes :=
  if collapse then cleanKeepSlash p else (cleanKeepSlash (markSlashes false p)).filter (· ≠ 255)

/-- the loop of `trimPathPrefix`; `orig` is the whole escaped path, `plen` is `len(prefix)` -/
def trimGo (orig : Bytes) (plen : Nat) : Nat → Bytes → Bytes → Nat → Bytes
  | 0, _, _, _ => orig
  | fuel + 1, p, pre, iPath =>
    match p, pre with
    | c :: prest, pc :: prerest =>
      if c = 37 && pc ≠ 37 && decide (orig.length ≥ iPath + 3) then
        match pathUnescape (p.take 3) with
        | some [d] =>
          if asciiLower d = asciiLower pc then trimGo orig plen fuel (p.drop 3) prerest (iPath + 3) else orig
        | _ => orig
      else if asciiLower c = asciiLower pc then trimGo orig plen fuel prest prerest (iPath + 1)
      else orig
    | _, _ => if iPath ≥ plen then orig.drop iPath else orig   -- (sic: iPath, not iPrefix)

def trimPathPrefix (ep pre : Bytes) : Bytes := trimGo ep pre.length (ep.length + 1) ep pre 0

/-- `changePath` -/
def changePath (u : RwUrl) (newVal : Bytes → Bytes) : RwUrl :=
  match pathUnescape (newVal (escapedPathOf u)) with
  | some p =>
    if p.isEmpty then
      ⟨newVal u.path, if newVal (escapedPathOf u) = newVal u.path then [] else newVal (escapedPathOf u), u.rawQuery⟩
    else ⟨p, if newVal (escapedPathOf u) = p then [] else newVal (escapedPathOf u), u.rawQuery⟩
  | none =>
    ⟨newVal u.path, if newVal (escapedPathOf u) = newVal u.path then [] else newVal (escapedPathOf u), u.rawQuery⟩

structure RwMods where
  stripPrefix : Bytes            -- "" = not configured
  stripSuffix : Bytes
  subFind : Bytes                -- "" = no uri_substring entry
  subReplace : Bytes
  subLimit : Nat                 -- 0 = no limit
  rePat : Option Pat             -- the path_regexp entry
  reReplace : Bytes

def rwmTemplates (m : RwMods) : List Bytes :=
  [m.stripPrefix, m.stripSuffix, m.subFind, m.subReplace, m.reReplace]

def withSlash (p : Bytes) : Bytes := if p.head? = some 47 then p else 47 :: p

def rwmStripPrefix (R : RwUrl → Bytes → Bytes) (m : RwMods) (u : RwUrl) : RwUrl :=
  if m.stripPrefix.isEmpty then u
  else changePath u fun ep =>
    trimPathPrefix (cleanPathC ep (!containsSub [47, 47] (withSlash (R u m.stripPrefix)))) (withSlash (R u m.stripPrefix))

def rwmStripSuffix (R : RwUrl → Bytes → Bytes) (m : RwMods) (u : RwUrl) : RwUrl :=
  if m.stripSuffix.isEmpty then u
  else changePath u fun ep =>
    (trimPathPrefix (cleanPathC ep (!containsSub [47, 47] (R u m.stripSuffix))).reverse (R u m.stripSuffix).reverse).reverse

def limOf (n : Nat) : Option Nat := if n = 0 then none else some n

/-- `substrReplacer.do`. `rescan = false` is the code; `true` expands the rewritten query string once more
    (a change kept to show what the statement excludes). -/
def rwmSubstring (rescan : Bool) (R : RwUrl → Bytes → Bytes) (m : RwMods) (u : RwUrl) : RwUrl :=
  if m.subFind.isEmpty then u
  else
    { changePath u fun p =>
        strReplace (R u m.subFind) (R u m.subReplace) (limOf m.subLimit) (cleanPathC p (!containsSub [47, 47] m.subFind))
      with rawQuery :=
        if rescan then R u (strReplace (R u m.subFind) (R u m.subReplace) (limOf m.subLimit) u.rawQuery)
        else strReplace (R u m.subFind) (R u m.subReplace) (limOf m.subLimit) u.rawQuery }

def rwmPathRegexp (R : RwUrl → Bytes → Bytes) (m : RwMods) (u : RwUrl) : RwUrl :=
  match m.rePat with
  | some pat => changePath u fun p => pat.replaceAll p (R u m.reReplace)
  | none => u

/-- the modifiers in the order `Rewrite.Rewrite` runs them -/
def rwmApply (rescan : Bool) (R : RwUrl → Bytes → Bytes) (m : RwMods) (u : RwUrl) : RwUrl :=
  rwmPathRegexp R m (rwmSubstring rescan R m (rwmStripSuffix R m (rwmStripPrefix R m u)))

/-- what `Replacer.Get` answers, given the URL as it is now -/
def rwmEnv (secret : Bytes) (u : RwUrl) : Env := fun key =>
  match stripPrefix (str "env.") key with
  | some name => some (if name = str "VERIF_C18_SECRET" then secret else [])
  | none =>
  if key = str "http.request.uri" then
    some ((if (escapedPathOf u).isEmpty then [47] else escapedPathOf u) ++ (if u.rawQuery.isEmpty then [] else 63 :: u.rawQuery)) else
  if key = str "http.request.uri.path" then some u.path else
  if key = str "http.request.uri.query" then some u.rawQuery else
  none

end CaddyModel.C18
