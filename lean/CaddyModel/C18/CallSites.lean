/-
C18 — regenerated tie: WHICH strings the consumers hand to the replacer.
`Gen.replacerCallSites` (tools/extract, regenerated from the tree under test on every run) lists every
`Replacer.ReplaceAll / ReplaceKnown / ReplaceOrErr / ReplaceFunc` call of map.go, headers.go, rewrite.go,
vars.go and staticresp.go with the source text of its first argument.  For each file the multiset of
(method, argument) pairs must be the one the models were written against (`…_call_sites_match_source`,
compared up to order, so moving code around is harmless), and for the three parametric consumer models
the template lists of the "only configured operands are scanned" theorems are exactly the operands these
call sites name (`…_templates_are_the_call_site_operands`).  A new `Replace*` call, a call on another
operand or with another method breaks a proof obligation without any sampled case.
Limit: the tie sees the argument TEXT — a change that keeps the text but feeds other data through the
same variable (seeded/C18-map-regexp-output-reexpanded: `outputStr` reassigned before the one shared
`ReplaceAll(outputStr, "")`) is not visible here; the correspondence streams and oracles catch it.
-/
import CaddyModel.C18.Consumers
import CaddyModel.Gen.Glue

namespace CaddyModel.C18

/-- the (method, first argument) pairs of the calls in one source file -/
def callSitesOf (file : String) : List (String × String) :=
  (Gen.replacerCallSites.filter (fun r => r.1 == file)).map (fun r => (r.2.2.1, r.2.2.2))

/-- one call site and the model operand(s) that reach it -/
structure CallRow (Cfg : Type) where
  method : String
  arg : String
  operand : Cfg → List Bytes

def CallRow.key {Cfg : Type} (r : CallRow Cfg) : String × String := (r.method, r.arg)

/-! ### map.go -/

def mapCallTable : List (CallRow MapCfg) := [
  ⟨"ReplaceAll", "h.Source", fun c => [c.source]⟩,
  ⟨"ReplaceAll", "outputStr",   -- in the `input == m.Input` arm only (MapH.mapScan)
    fun c => (c.mappings.filter (fun m => !m.isRegexp)).flatMap (fun m => m.outputs.filterMap id)⟩,
  ⟨"ReplaceAll", "h.Defaults[destIdx]", fun c => c.defaults⟩]

theorem map_call_sites_match_source :
    (callSitesOf "map.go").isPerm (mapCallTable.map CallRow.key) = true := by decide

theorem map_templates_are_the_call_site_operands (cfg : MapCfg) (t : Bytes) :
    t ∈ mapTemplates cfg ↔ ∃ r ∈ mapCallTable, t ∈ r.operand cfg := by
  simp only [mapTemplates, mapCallTable, List.mem_cons, List.mem_append, List.not_mem_nil, or_false,
    exists_eq_or_imp, exists_eq_left]
  grind

/-! ### headers.go -/

def hdrAddField (o : HdrOps) : List Bytes := match o.add with | some (f, _) => [f] | none => []
def hdrAddVal (o : HdrOps) : List Bytes := match o.add with | some (_, v) => [v] | none => []
def hdrSetField (o : HdrOps) : List Bytes := match o.set with | some (f, _) => [f] | none => []
def hdrSetVals (o : HdrOps) : List Bytes := match o.set with | some (_, vs) => vs | none => []
def hdrRepField (o : HdrOps) : List Bytes := match o.replace with | some (f, _) => [f] | none => []
def hdrRepSearch (o : HdrOps) : List Bytes := match o.replace with | some (_, r) => [r.search] | none => []
def hdrRepReplace (o : HdrOps) : List Bytes := match o.replace with | some (_, r) => [r.replace] | none => []

def hdrCallTable : List (CallRow HdrOps) := [
  ⟨"ReplaceKnown", "fieldName", fun o => o.delete⟩,      -- first pass over `delete` (`*` clears)
  ⟨"ReplaceKnown", "fieldName", hdrAddField⟩,
  ⟨"ReplaceKnown", "v", hdrAddVal⟩,
  ⟨"ReplaceKnown", "fieldName", hdrSetField⟩,
  ⟨"ReplaceKnown", "vals[i]", hdrSetVals⟩,
  ⟨"ReplaceKnown", "fieldName", fun o => o.delete⟩,      -- second pass over `delete`
  ⟨"ReplaceKnown", "fieldName", hdrRepField⟩,
  ⟨"ReplaceKnown", "r.Search", hdrRepSearch⟩,            -- the `*` arm …
  ⟨"ReplaceKnown", "r.Replace", hdrRepReplace⟩,
  ⟨"ReplaceKnown", "r.Search", hdrRepSearch⟩,            -- … and the named-field arm
  ⟨"ReplaceKnown", "r.Replace", hdrRepReplace⟩]

theorem headers_call_sites_match_source :
    (callSitesOf "headers.go").isPerm (hdrCallTable.map CallRow.key) = true := by decide

theorem headers_templates_are_the_call_site_operands (ops : HdrOps) (t : Bytes) :
    t ∈ hdrTemplates ops ↔ ∃ r ∈ hdrCallTable, t ∈ r.operand ops := by
  obtain ⟨add, set, del, rep⟩ := ops
  rcases add with _ | ⟨af, av⟩ <;> rcases set with _ | ⟨sf, svs⟩ <;> rcases rep with _ | ⟨f, r⟩ <;>
    simp [hdrTemplates, hdrCallTable, hdrAddField, hdrAddVal, hdrSetField, hdrSetVals, hdrRepField,
      hdrRepSearch, hdrRepReplace] <;> grind

/-! ### rewrite.go -/

/-- the modifiers (`RwMods.lean`) -/
def rwmCallTable : List (CallRow RwMods) := [
  ⟨"ReplaceAll", "rewr.StripPathPrefix", fun m => [m.stripPrefix]⟩,
  ⟨"ReplaceAll", "rewr.StripPathSuffix", fun m => [m.stripSuffix]⟩,
  ⟨"ReplaceAll", "rep.Find", fun m => [m.subFind]⟩,          -- substrReplacer.do
  ⟨"ReplaceAll", "rep.Replace", fun m => [m.subReplace]⟩,
  ⟨"ReplaceAll", "rep.Replace", fun m => [m.reReplace]⟩]      -- regexReplacer.do

/-- the `uri` setter (`Rewrite.lean`: `rwNewPath`, the fragment, `bqsComp`) -/
def rwUriCalls : List (String × String) :=
  [("ReplaceAll", "path"), ("ReplaceAll", "frag"), ("ReplaceFunc", "comp")]

/-- not modelled: the method setter and the `query` operations (operands are configured fields only) -/
def rwUnmodelledCalls : List (String × String) := [
  ("ReplaceAll", "rewr.Method"),
  ("ReplaceAll", "renameParam.Key"), ("ReplaceAll", "renameParam.Val"),
  ("ReplaceAll", "setParam.Key"), ("ReplaceAll", "setParam.Val"),
  ("ReplaceAll", "addParam.Key"), ("ReplaceAll", "addParam.Val"),
  ("ReplaceAll", "replaceParam.Key"), ("ReplaceKnown", "replaceParam.Search"), ("ReplaceKnown", "replaceParam.Replace"),
  ("ReplaceAll", "deleteParam")]

theorem rewrite_call_sites_match_source :
    (callSitesOf "rewrite.go").isPerm (rwmCallTable.map CallRow.key ++ rwUriCalls ++ rwUnmodelledCalls) = true := by
  decide

theorem rewrite_modifier_templates_are_the_call_site_operands (m : RwMods) (t : Bytes) :
    t ∈ rwmTemplates m ↔ ∃ r ∈ rwmCallTable, t ∈ r.operand m := by
  simp [rwmTemplates, rwmCallTable]

/-! ### vars.go, staticresp.go (`Http.lean`) -/

/-- `VarsMiddleware.ServeHTTP` expands the variable NAME (`k`; the streams use brace-free names, on which
    it is the identity) and a string VALUE (`valStr` = `varTmpl` of `Http.varsValue`); `VarsMatcher` expands
    the CONFIGURED value (`v` = `matchVal` of `Http.varsMatch`).  `MatchVarsRE` has no call at all: the
    actual value reaches the regular expression unexpanded (`Props.vars_regexp_sees_value_verbatim`; the
    pre-fix `repl.ReplaceAll(varStr, "")` would be a fourth row). -/
def varsCalls : List (String × String) :=
  [("ReplaceAll", "k"), ("ReplaceAll", "valStr"), ("ReplaceAll", "v")]

theorem vars_call_sites_match_source : (callSitesOf "vars.go").isPerm varsCalls = true := by decide

/-- `StaticResponse.ServeHTTP`: header names and values with `ReplaceAll` (`hdrTmpl` of `Http.serve`), the
    body with `ReplaceKnown` (`bodyTmpl`), the status code text with `ReplaceAll` (not modelled) -/
def staticRespCalls : List (String × String) :=
  [("ReplaceAll", "field"), ("ReplaceAll", "vals[i]"), ("ReplaceKnown", "s.Body"), ("ReplaceAll", "codeStr")]

theorem static_response_call_sites_match_source :
    (callSitesOf "staticresp.go").isPerm staticRespCalls = true := by decide

/-! ### autohttps.go: provision-time look at the host matchers -/

/-- **`hostLive false` matches the source**: automatic HTTPS phase 1 reads the host patterns
    (`ReplaceOrErr` into the loop variable) and stores nothing through the matcher it walks — the live
    matcher keeps the configured patterns (`HostGlue.hostLive`).  The fact is typed and call-following
    (tools/extract/c18phase1.go): every store into an element of a MatchHost / *MatchHost value, or the whole slice
    behind one, in code reachable from phase 1 through static calls inside the package (MatchHost's own methods
    excepted), whatever the variables are called and wherever the loop lives.
    seeded/C18-autohttps-writes-expanded-host-back adds the store `(*hm)[hostMatcherIdx]` and breaks this without any
    sampled case (also when the loop has been moved into a helper method: harmless/C11-refactor). -/
theorem autohttps_phase1_does_not_store_into_host_matchers_matches_source :
    Gen.autoHTTPSHostMatcherStores = [] := by decide

/-- **where configuration fields meet the replacer around provisioning** (modules/caddyhttp: autohttps.go,
    matchers.go, caddyauth/basicauth.go, app.go), with the function the call sits in: phase 1 of automatic HTTPS
    expands the host pattern into its loop variable `d` (provision time, `HostGlue.hostProvisionName`), the host
    matcher expands `host` per request (`HostGlue.hostMatchOne`) — these two are the only pair on one field;
    basic-auth account names / passwords and listener addresses are expanded in `Provision` only, the other
    matchers per request only.  A new call (say, of an account name in `Authenticate`, or of a provisioned value
    per request) breaks this without any sampled case. -/
def provisionCallTable : List (String × String × String × String) := [
  ("autohttps.go", "automaticHTTPSPhase1", "ReplaceOrErr", "elem MatchHost"),
  ("matchers.go", "MatchWithError", "ReplaceAll", "host"),              -- MatchHost
  ("matchers.go", "MatchWithError", "ReplaceAll", "matchPattern"),      -- MatchPath
  ("matchers.go", "MatchWithError", "ReplaceAll", "param"),             -- MatchQuery
  ("matchers.go", "MatchWithError", "ReplaceAll", "v"),
  ("matchers.go", "matchHeaders", "ReplaceAll", "allowedFieldVal"),     -- MatchHeader
  ("basicauth.go", "Provision", "ReplaceAll", "acct.Username"),
  ("basicauth.go", "Provision", "ReplaceAll", "acct.Password"),
  ("app.go", "Provision", "ReplaceOrErr", "srv.Listen[i]")]

theorem provision_call_sites_match_source :
    Gen.provisionReplacerCallSites.isPerm provisionCallTable = true := by decide

/-- no other file is in the fact: the five tables account for every row -/
theorem call_site_files_are_the_modelled_ones :
    Gen.replacerCallSites.all (fun r => ["map.go", "headers.go", "rewrite.go", "vars.go", "staticresp.go"].contains r.1) = true := by
  decide

end CaddyModel.C18
