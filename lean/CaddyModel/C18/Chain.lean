/-
C18 — consumers in a row: `vars {v: …}` → `map` → `headers` (response `set`) → `static_response`.
What one handler substituted is the next one's DATA: `{http.vars.v}` and the map destination `{m}` carry
request text through four expansions.  The model composes the consumer models; it is parametric in the
two replacer entry points as functions of the provider chain (`RA` = `ReplaceAll(·, "")`,
`RK` = `ReplaceKnown(·, "")`), which is what `Consumers.chain_scans_only_configured_templates` quantifies over.
-/
import CaddyModel.C18.Headers

namespace CaddyModel.C18

structure ChainCfg where
  varT : Bytes       -- vars: v
  srcT : Bytes       -- map: source
  pat : Pat          -- map: the one regexp mapping …
  reOut : Bytes      -- … and its output (never expanded)
  defT : Bytes       -- map: default
  hdrT : Bytes       -- headers: response set X-Out
  bodyT : Bytes      -- static_response: body

def ChainCfg.map (c : ChainCfg) : MapCfg :=
  ⟨c.srcT, [str "m"], [⟨true, [], c.pat, [some c.reOut]⟩], [c.defT]⟩

def chainTemplates (c : ChainCfg) : List Bytes := [c.varT, c.srcT, c.defT, c.hdrT, c.bodyT]

/-- the provider chain with the map closure, unfolded `d` times, for an arbitrary `ReplaceAll` -/
def mapEnvDR (RA : Env → Bytes → Bytes) (cfg : MapCfg) (base : Env) : Nat → Env
  | 0 => base
  | d + 1 => withMap false (RA (mapEnvDR RA cfg base d)) cfg base

/-- (body, X-Out) -/
def chainServeR (RA RK : Env → Bytes → Bytes) (c : ChainCfg) (r : HttpReq) : Bytes × Bytes :=
  (RK (mapEnvDR RA c.map (cEnv { r with varV := RA (cEnv { r with varV := [] }) c.varT }) 3) c.bodyT,
   RK (mapEnvDR RA c.map (cEnv { r with varV := RA (cEnv { r with varV := [] }) c.varT }) 3) c.hdrT)

def chainServe (c : ChainCfg) (r : HttpReq) : Bytes × Bytes := chainServeR expandAll expandKnown c r

end CaddyModel.C18
