/-
C18 — cost twin of `loop`: the number of input bytes the scanner visits (loop iterations
plus the bytes `strings.Index` walks over to find closing braces). Copying is not counted:
the write cursor only moves forward, so copies cover disjoint input ranges (≤ len in total),
and values are written once each (`Spec.render`).  Same branching as `Model.loop`
(`CostLemmas.loopC_fst/_snd`).
-/
import CaddyModel.C18.Model

namespace CaddyModel.C18

/-- bytes walked by the inner "skip escaped closers" loop started at `e` -/
def skipCost (inp : Bytes) : Nat → Nat → Nat
  | 0, _ => 0
  | fuel + 1, e =>
    if e > 0 ∧ e + 1 < inp.length ∧ inp[e - 1]? = some phEscape then
      match indexFrom inp phClose (e + 1) with
      | none => inp.length - (e + 1)
      | some e' => (e' - e) + skipCost inp fuel e'
    else 0

/-- bytes walked to decide `findClose inp i` -/
def closeCost (inp : Bytes) (i : Nat) : Nat :=
  match indexFrom inp phClose i with
  | none => inp.length - i
  | some e => (e - i + 1) + skipCost inp inp.length e

/-- bytes walked to find the closing brace for the opener at `i`: nothing when the remembered
    brace `ce` (`lastEnd`) is reused, the whole search otherwise. Same test as `Model.closeAt`. -/
def searchCost (inp : Bytes) (i ce : Nat) : Nat :=
  if ce > i then 0 else closeCost inp i

def costLoop (inp : Bytes) (env : Env) (m : Mode) : (fuel i uc ce : Nat) → Nat
  | 0, _, _, _ => 0
  | fuel + 1, i, uc, ce =>
  if i < inp.length then
    if escAt inp i then 1 + costLoop inp env m fuel (i + 1) uc ce
    else if !openAt inp i then 1 + costLoop inp env m fuel (i + 1) uc ce
    else if uc > 100 then 1
    else
      match closeAt inp i ce with
      | .unclosed => 1 + searchCost inp i ce + costLoop inp env m fuel (i + 1) (uc + 1) ce
      | .at e =>
        match slice inp (i + 1) e with
        | some key =>
          if (env key).isNone ∧ m.errUnknown then 1 + searchCost inp i ce
          else if (env key).isNone ∧ !m.unknownEmpty then
            -- keep-unknown branch: the scan resumes at i+1, *inside* the text just walked over —
            -- with the closing brace remembered, so the openers in there do not search again
            1 + searchCost inp i ce + costLoop inp env m fuel (i + 1) uc e
          else
            match m.valStr key (env key) with
            | none => 1 + searchCost inp i ce
            | some valStr =>
              if valStr.isEmpty ∧ m.errEmpty then 1 + searchCost inp i ce
              else 1 + searchCost inp i ce + costLoop inp env m fuel (e + 1) uc e
        | none => 0
  else 0

/-- scan cost of `replace` -/
def cost (inp : Bytes) (env : Env) (m : Mode) : Nat :=
  if !inp.contains phOpen && !inp.contains phClose then inp.length
  else costLoop inp env m (inp.length + 1) 0 0 0

/-! The same count for the loop as it was before the close cache (`Spec.loopNC`): every opener pays for
its own search. Kept for the proved witness that the old code was not linear. -/

def costLoopNC (inp : Bytes) (env : Env) (m : Mode) : (fuel i uc : Nat) → Nat
  | 0, _, _ => 0
  | fuel + 1, i, uc =>
  if i < inp.length then
    if escAt inp i then 1 + costLoopNC inp env m fuel (i + 1) uc
    else if !openAt inp i then 1 + costLoopNC inp env m fuel (i + 1) uc
    else if uc > 100 then 1
    else
      match findClose inp i with
      | .unclosed => 1 + closeCost inp i + costLoopNC inp env m fuel (i + 1) (uc + 1)
      | .at e =>
        match slice inp (i + 1) e with
        | some key =>
          if (env key).isNone ∧ m.errUnknown then 1 + closeCost inp i
          else if (env key).isNone ∧ !m.unknownEmpty then
            1 + closeCost inp i + costLoopNC inp env m fuel (i + 1) uc
          else
            match m.valStr key (env key) with
            | none => 1 + closeCost inp i
            | some valStr =>
              if valStr.isEmpty ∧ m.errEmpty then 1 + closeCost inp i
              else 1 + closeCost inp i + costLoopNC inp env m fuel (e + 1) uc
        | none => 0
  else 0

/-- scan cost of `replace` as it was before the close cache -/
def costNC (inp : Bytes) (env : Env) (m : Mode) : Nat :=
  if !inp.contains phOpen && !inp.contains phClose then inp.length
  else costLoopNC inp env m (inp.length + 1) 0 0

end CaddyModel.C18
