/-
C18 — a table in which configured templates and request text meet: the CGI environment of the FastCGI
transport (`modules/caddyhttp/reverseproxy/fastcgi/fastcgi.go:(Transport).buildEnv`, behind `php_fastcgi` /
`reverse_proxy { transport fastcgi }`).  The table is written in three groups, in this order
(`Gen.fastcgiEnvWrites`, regenerated):
  1. the `envVars{…}` literal and the conditional rows — request text COPIED: `QUERY_STRING` = `r.URL.RawQuery`,
     `REQUEST_URI` = the original URL's `RequestURI()`, `DOCUMENT_URI` / `PATH_INFO` / `SCRIPT_NAME` = slices of
     `r.URL.Path` cut at `split_path`, `REMOTE_USER` = `{http.auth.user.id}` read with `GetString` (a lookup, not a
     scan), `CONTENT_TYPE` = the header field; `DOCUMENT_ROOT` = `FastAbs(ReplaceAll(t.Root, "."))` and the two paths
     joined under it (`SCRIPT_FILENAME`, `PATH_TRANSLATED`; `caddyhttp.SanitizedPathJoin` = C07's model);
  2. the configured `env` map: `env[key] = repl.ReplaceAll(value, "")` — the ONLY rows that go through the replacer,
     each ONE expansion of the configured template (they override group 1);
  3. the request header fields as `HTTP_*` (they override groups 1 and 2), copied.
`fcgiBuildR false` is the code.  `fcgiBuildR true` is the seeded change seeded/C18-fastcgi-env-expanded-after-
request-values: group 2 stores the templates unexpanded and a final pass expands EVERY value of the finished
table that contains `{` — request text included.
The model keeps the rows the stream observes (one configured variable, one header field `X-In` that is also sent
as `Content-Type`, the user id of an authentication provider); the stream's requests have `RawPath` empty, a
root template that begins with `/` (so `FastAbs` is `filepath.Clean`), and at most one `split_path` entry.
-/
import CaddyModel.C18.MapH
import CaddyModel.C07.Model

namespace CaddyModel.C18

structure FcgiCfg where
  envKey : Bytes      -- the one key of `env`
  envT : Bytes        -- its configured template
  rootT : Bytes       -- `root`
  split : Bytes       -- the one `split_path` entry; empty = none configured

structure FcgiReq where
  path : Bytes        -- r.URL.Path (RawPath empty)
  rawQuery : Bytes    -- r.URL.RawQuery
  xin : Bytes         -- header fields X-In and Content-Type
  user : Bytes        -- header field X-User = the id the authentication provider reports
  secret : Bytes      -- $VERIF_C18_SECRET

/-- provider chain of the request's replacer: globals (`env.`), `file.`, then the HTTP rows -/
def fcgiEnv (r : FcgiReq) : Env := fun key =>
  match stripPrefix (str "env.") key with
  | some name => some (if name = str "VERIF_C18_SECRET" then r.secret else [])
  | none =>
  match stripPrefix (str "file.") key with
  | some name => some (fileValue name)
  | none =>
  match stripPrefix (str "http.request.header.") key with
  | some field =>
    some (if field.map asciiLower = str "x-in" || field.map asciiLower = str "content-type" then r.xin
          else if field.map asciiLower = str "x-user" then r.user else [])
  | none =>
  if key = str "http.auth.user.id" then some r.user else
  rwEnv ⟨r.path, r.rawQuery, r.secret⟩ key

/-- `ReplaceAll(t, ".")` (total wrapper, see `expandAll`) -/
def expandAllDot (env : Env) (t : Bytes) : Bytes :=
  match replaceAll t [46] env with
  | .ok o => o
  | _ => []

/-- `t.splitPos(path)`: `none` = -1. No `split_path` ⇒ 0 (the whole path becomes PATH_INFO). -/
def fcgiSplitPos (split path : Bytes) : Option Nat :=
  if split.isEmpty then some 0
  else (indexOfSub (split.map asciiLower) (path.map asciiLower)).map (· + split.length)

def fcgiDocURI (split path : Bytes) : Bytes :=
  match fcgiSplitPos split path with
  | some k => path.take k
  | none => path

def fcgiPathInfo (split path : Bytes) : Bytes :=
  match fcgiSplitPos split path with
  | some k => path.drop k
  | none => []      -- then `{http.matchers.file.remainder}`: no file matcher ran, empty

/-- `strings.TrimSuffix` -/
def trimSuffix (suf s : Bytes) : Bytes := if hasSuffix suf s then s.take (s.length - suf.length) else s

/-- `scriptName` with PATH_INFO stripped and the RFC 3875 leading slash -/
def fcgiScriptName0 (split path : Bytes) : Bytes :=
  match fcgiSplitPos split path with
  | some _ => trimSuffix (fcgiPathInfo split path) path
  | none => path

def withLeadingSlash (s : Bytes) : Bytes := if !s.isEmpty && !hasPrefix [47] s then 47 :: s else s

/-- group 1a: the `envVars{…}` literal. No replacer in sight: `root` is a finished string. -/
def fcgiFixedRows (root : Bytes) (c : FcgiCfg) (r : FcgiReq) : List (Bytes × Bytes) :=
  [ (str "CONTENT_TYPE", r.xin),
    (str "PATH_INFO", fcgiPathInfo c.split r.path),
    (str "QUERY_STRING", r.rawQuery),
    (str "REMOTE_USER", r.user),
    (str "DOCUMENT_ROOT", root),
    (str "DOCUMENT_URI", fcgiDocURI c.split r.path),
    (str "REQUEST_URI", requestURI ⟨r.path, r.rawQuery, r.secret⟩),
    (str "SCRIPT_FILENAME", C07.sanitizedPathJoin root (fcgiScriptName0 c.split r.path)),
    (str "SCRIPT_NAME", withLeadingSlash (fcgiScriptName0 c.split r.path)) ]

/-- group 1b: `if env["PATH_INFO"] != "" { env["PATH_TRANSLATED"] = SanitizedPathJoin(root, pathInfo) }` -/
def fcgiPathTranslatedRow (root : Bytes) (c : FcgiCfg) (r : FcgiReq) : List (Bytes × Bytes) :=
  if (fcgiPathInfo c.split r.path).isEmpty then []
  else [(str "PATH_TRANSLATED", C07.sanitizedPathJoin root (fcgiPathInfo c.split r.path))]

/-- group 1 -/
def fcgiRequestRows (root : Bytes) (c : FcgiCfg) (r : FcgiReq) : List (Bytes × Bytes) :=
  fcgiFixedRows root c r ++ fcgiPathTranslatedRow root c r

/-- group 3: `env["HTTP_"+NAME] = strings.Join(val, ", ")` -/
def fcgiHeaderRows (r : FcgiReq) : List (Bytes × Bytes) :=
  [ (str "HTTP_X_IN", r.xin), (str "HTTP_CONTENT_TYPE", r.xin), (str "HTTP_X_USER", r.user) ]

def fcgiHeaderKeys : List Bytes := [str "HTTP_X_IN", str "HTTP_CONTENT_TYPE", str "HTTP_X_USER"]

/-- `FastAbs` of a rooted path = `filepath.Clean` -/
def fcgiRoot (Rroot : Bytes → Bytes) (c : FcgiCfg) : Bytes := C07.pathClean (Rroot c.rootT)

/-- the seeded final pass: `if strings.Contains(value, "{") { env[key] = repl.ReplaceAll(value, "") }` -/
def fcgiLatePass (Renv : Bytes → Bytes) (rows : List (Bytes × Bytes)) : List (Bytes × Bytes) :=
  rows.map fun kv => (kv.1, if kv.2.contains 123 then Renv kv.2 else kv.2)

/-- the table as the sequence of writes (a later write to the same key wins: `tget`).
    `Rroot` = `repl.ReplaceAll(·, ".")`, `Renv` = `repl.ReplaceAll(·, "")`; `late = false` is the code. -/
def fcgiBuildR (late : Bool) (Rroot Renv : Bytes → Bytes) (c : FcgiCfg) (r : FcgiReq) : List (Bytes × Bytes) :=
  if late then
    fcgiLatePass Renv (fcgiRequestRows (fcgiRoot Rroot c) c r ++ [(c.envKey, c.envT)] ++ fcgiHeaderRows r)
  else fcgiRequestRows (fcgiRoot Rroot c) c r ++ [(c.envKey, Renv c.envT)] ++ fcgiHeaderRows r

/-- Go map semantics over the write sequence: the LAST write to `k` -/
def tget (k : Bytes) : List (Bytes × Bytes) → Option Bytes
  | [] => none
  | kv :: rest =>
    match tget k rest with
    | some x => some x
    | none => if kv.1 = k then some kv.2 else none

def fcgiBuild (late : Bool) (c : FcgiCfg) (r : FcgiReq) : List (Bytes × Bytes) :=
  fcgiBuildR late (expandAllDot (fcgiEnv r)) (expandAll (fcgiEnv r)) c r

/-- the variables the stream reads back from the FastCGI responder, in this order (first the configured key) -/
def fcgiObserved (c : FcgiCfg) : List Bytes :=
  [ c.envKey, str "QUERY_STRING", str "REQUEST_URI", str "DOCUMENT_URI", str "PATH_INFO", str "SCRIPT_NAME",
    str "SCRIPT_FILENAME", str "PATH_TRANSLATED", str "DOCUMENT_ROOT", str "REMOTE_USER", str "CONTENT_TYPE",
    str "HTTP_X_IN" ]

end CaddyModel.C18
