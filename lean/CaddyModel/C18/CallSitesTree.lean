/-
C18 — glue audit, tree-wide: every place where configuration text meets the replacer, in ALL packages
(`Gen.replacerTreeCallSites`, regenerated: every call of a method named ReplaceAll / ReplaceKnown / ReplaceOrErr /
ReplaceFunc outside test files, `strings.` / `bytes.` excluded), with the STAGE at which the call runs:
  load       while a config is loaded (Provision and its helpers, the config loader, the Caddyfile import)
  request    per HTTP request          handshake  per TLS handshake / TLS client config
  timer      active health checks      admin      per admin API request      fuzz  the fuzz target
`replacer_tree_call_sites_match_source` makes the table exact: a new expansion site anywhere in the tree, or an
existing one moving to another operand / method / function, breaks a C18 proof and asks for a review of the
composition (does a value that was substituted at one stage reach a scan at another?).
The phase-1 row is typed and call-following (tools/extract/c18phase1.go): a Replace* call in a helper of autohttps.go
that (*App).automaticHTTPSPhase1 reaches is listed under that entry point, and an argument that is by data flow the
value variable of a `range` over a MatchHost is written `elem MatchHost` — moving the loop into a helper or renaming
its variables leaves the table unchanged.
`fieldsExpandedAtTwoStages` lists the configured fields that are expanded at two stages today; each expansion
starts from the CONFIGURED text (no stage stores its result into the field the other reads) — proved and sampled
for the host matcher (`HostGlue`, httphost) and for the request-time side of the reverse proxy's dial address
(`Dial`, httpdial), read off the source for the others (props.d glue table).
-/
import CaddyModel.Gen.ReplacerTree

namespace CaddyModel.C18

/-- (file, function, method, first argument, stage) -/
def replacerTreeTable : List (String × String × String × String × String) := [
  ("admin.go", "parseAdminListenAddr", "ReplaceOrErr", "addr", "load"),
  ("caddyconfig/caddyfile/parse.go", "doImport", "ReplaceKnown", "token.Text", "load"),
  ("caddyconfig/httploader.go", "LoadConfig", "ReplaceAll", "hl.Method", "load"),
  ("caddyconfig/httploader.go", "LoadConfig", "ReplaceAll", "hl.URL", "load"),
  ("caddyconfig/httploader.go", "LoadConfig", "ReplaceAll", "key", "load"),
  ("caddyconfig/httploader.go", "LoadConfig", "ReplaceKnown", "val", "load"),
  ("logging.go", "parseLevel", "ReplaceOrErr", "levelInput", "load"),
  ("modules/caddyhttp/app.go", "Provision", "ReplaceOrErr", "srv.Listen[i]", "load"),
  ("modules/caddyhttp/autohttps.go", "automaticHTTPSPhase1", "ReplaceOrErr", "elem MatchHost", "load"),
  ("modules/caddyhttp/caddyauth/basicauth.go", "Provision", "ReplaceAll", "acct.Password", "load"),
  ("modules/caddyhttp/caddyauth/basicauth.go", "Provision", "ReplaceAll", "acct.Username", "load"),
  ("modules/caddyhttp/fileserver/browse.go", "serveBrowse", "ReplaceAll", "fsrv.Root", "request"),
  ("modules/caddyhttp/fileserver/matcher.go", "selectFile", "ReplaceAll", "m.FileSystem", "request"),
  ("modules/caddyhttp/fileserver/matcher.go", "selectFile", "ReplaceAll", "m.Root", "request"),
  ("modules/caddyhttp/fileserver/matcher.go", "selectFile", "ReplaceFunc", "file", "request"),
  ("modules/caddyhttp/fileserver/staticfiles.go", "ServeHTTP", "ReplaceAll", "codeStr", "request"),
  ("modules/caddyhttp/fileserver/staticfiles.go", "ServeHTTP", "ReplaceAll", "fsrv.FileSystem", "request"),
  ("modules/caddyhttp/fileserver/staticfiles.go", "ServeHTTP", "ReplaceAll", "fsrv.Root", "request"),
  ("modules/caddyhttp/fileserver/staticfiles.go", "ServeHTTP", "ReplaceAll", "indexPage", "request"),
  ("modules/caddyhttp/fileserver/staticfiles.go", "transformHidePaths", "ReplaceAll", "fsrv.Hide[i]", "request"),
  ("modules/caddyhttp/headers/headers.go", "ApplyTo", "ReplaceKnown", "fieldName", "request"),
  ("modules/caddyhttp/headers/headers.go", "ApplyTo", "ReplaceKnown", "fieldName", "request"),
  ("modules/caddyhttp/headers/headers.go", "ApplyTo", "ReplaceKnown", "fieldName", "request"),
  ("modules/caddyhttp/headers/headers.go", "ApplyTo", "ReplaceKnown", "fieldName", "request"),
  ("modules/caddyhttp/headers/headers.go", "ApplyTo", "ReplaceKnown", "fieldName", "request"),
  ("modules/caddyhttp/headers/headers.go", "ApplyTo", "ReplaceKnown", "r.Replace", "request"),
  ("modules/caddyhttp/headers/headers.go", "ApplyTo", "ReplaceKnown", "r.Replace", "request"),
  ("modules/caddyhttp/headers/headers.go", "ApplyTo", "ReplaceKnown", "r.Search", "request"),
  ("modules/caddyhttp/headers/headers.go", "ApplyTo", "ReplaceKnown", "r.Search", "request"),
  ("modules/caddyhttp/headers/headers.go", "ApplyTo", "ReplaceKnown", "v", "request"),
  ("modules/caddyhttp/headers/headers.go", "ApplyTo", "ReplaceKnown", "vals[i]", "request"),
  ("modules/caddyhttp/intercept/intercept.go", "ServeHTTP", "ReplaceAll", "statusCodeStr", "request"),
  ("modules/caddyhttp/ip_matchers.go", "provisionCidrsZonesFromRanges", "ReplaceAll", "str", "load"),
  ("modules/caddyhttp/map/map.go", "ServeHTTP", "ReplaceAll", "h.Defaults[destIdx]", "request"),
  ("modules/caddyhttp/map/map.go", "ServeHTTP", "ReplaceAll", "h.Source", "request"),
  ("modules/caddyhttp/map/map.go", "ServeHTTP", "ReplaceAll", "outputStr", "request"),
  ("modules/caddyhttp/matchers.go", "MatchWithError", "ReplaceAll", "host", "request"),
  ("modules/caddyhttp/matchers.go", "MatchWithError", "ReplaceAll", "matchPattern", "request"),
  ("modules/caddyhttp/matchers.go", "MatchWithError", "ReplaceAll", "param", "request"),
  ("modules/caddyhttp/matchers.go", "MatchWithError", "ReplaceAll", "v", "request"),
  ("modules/caddyhttp/matchers.go", "matchHeaders", "ReplaceAll", "allowedFieldVal", "request"),
  ("modules/caddyhttp/push/handler.go", "ServeHTTP", "ReplaceAll", "resource.Target", "request"),
  ("modules/caddyhttp/requestbody/requestbody.go", "ServeHTTP", "ReplaceAll", "rb.Set", "request"),
  ("modules/caddyhttp/reverseproxy/copyresponse.go", "ServeHTTP", "ReplaceAll", "codeStr", "request"),
  ("modules/caddyhttp/reverseproxy/fastcgi/fastcgi.go", "buildEnv", "ReplaceAll", "t.Root", "request"),
  ("modules/caddyhttp/reverseproxy/fastcgi/fastcgi.go", "buildEnv", "ReplaceAll", "value", "request"),
  ("modules/caddyhttp/reverseproxy/healthchecks.go", "doActiveHealthCheck", "ReplaceAll", "h.HealthChecks.Active.Body", "timer"),
  ("modules/caddyhttp/reverseproxy/healthchecks.go", "doActiveHealthCheck", "ReplaceAll", "h.HealthChecks.Active.Headers.Get(key)", "timer"),
  ("modules/caddyhttp/reverseproxy/healthchecks.go", "doActiveHealthCheck", "ReplaceAll", "key", "timer"),
  ("modules/caddyhttp/reverseproxy/healthchecks.go", "doActiveHealthCheck", "ReplaceKnown", "val", "timer"),
  ("modules/caddyhttp/reverseproxy/healthchecks.go", "doActiveHealthCheckForAllHosts", "ReplaceOrErr", "upstream.Dial", "timer"),
  ("modules/caddyhttp/reverseproxy/hosts.go", "fillDialInfo", "ReplaceAll", "u.Dial", "request"),
  ("modules/caddyhttp/reverseproxy/httptransport.go", "replaceTLSServername", "ReplaceAll", "newtransport.Transport.TLSClientConfig.ServerName", "request"),
  ("modules/caddyhttp/reverseproxy/reverseproxy.go", "reverseProxy", "ReplaceAll", "statusCodeStr", "request"),
  ("modules/caddyhttp/reverseproxy/upstreams.go", "GetUpstreams", "ReplaceAll", "au.Name", "request"),
  ("modules/caddyhttp/reverseproxy/upstreams.go", "GetUpstreams", "ReplaceAll", "au.Port", "request"),
  ("modules/caddyhttp/reverseproxy/upstreams.go", "GetUpstreams", "ReplaceAll", "au.String()+ipVersion", "request"),
  ("modules/caddyhttp/reverseproxy/upstreams.go", "expandedAddr", "ReplaceAll", "su.Name", "request"),
  ("modules/caddyhttp/reverseproxy/upstreams.go", "expandedAddr", "ReplaceAll", "su.Proto", "request"),
  ("modules/caddyhttp/reverseproxy/upstreams.go", "expandedAddr", "ReplaceAll", "su.Service", "request"),
  ("modules/caddyhttp/rewrite/rewrite.go", "Rewrite", "ReplaceAll", "frag", "request"),
  ("modules/caddyhttp/rewrite/rewrite.go", "Rewrite", "ReplaceAll", "path", "request"),
  ("modules/caddyhttp/rewrite/rewrite.go", "Rewrite", "ReplaceAll", "rewr.Method", "request"),
  ("modules/caddyhttp/rewrite/rewrite.go", "Rewrite", "ReplaceAll", "rewr.StripPathPrefix", "request"),
  ("modules/caddyhttp/rewrite/rewrite.go", "Rewrite", "ReplaceAll", "rewr.StripPathSuffix", "request"),
  ("modules/caddyhttp/rewrite/rewrite.go", "buildQueryString", "ReplaceFunc", "comp", "request"),
  ("modules/caddyhttp/rewrite/rewrite.go", "do", "ReplaceAll", "addParam.Key", "request"),
  ("modules/caddyhttp/rewrite/rewrite.go", "do", "ReplaceAll", "addParam.Val", "request"),
  ("modules/caddyhttp/rewrite/rewrite.go", "do", "ReplaceAll", "deleteParam", "request"),
  ("modules/caddyhttp/rewrite/rewrite.go", "do", "ReplaceAll", "renameParam.Key", "request"),
  ("modules/caddyhttp/rewrite/rewrite.go", "do", "ReplaceAll", "renameParam.Val", "request"),
  ("modules/caddyhttp/rewrite/rewrite.go", "do", "ReplaceAll", "rep.Find", "request"),
  ("modules/caddyhttp/rewrite/rewrite.go", "do", "ReplaceAll", "rep.Replace", "request"),
  ("modules/caddyhttp/rewrite/rewrite.go", "do", "ReplaceAll", "rep.Replace", "request"),
  ("modules/caddyhttp/rewrite/rewrite.go", "do", "ReplaceAll", "replaceParam.Key", "request"),
  ("modules/caddyhttp/rewrite/rewrite.go", "do", "ReplaceAll", "setParam.Key", "request"),
  ("modules/caddyhttp/rewrite/rewrite.go", "do", "ReplaceAll", "setParam.Val", "request"),
  ("modules/caddyhttp/rewrite/rewrite.go", "do", "ReplaceKnown", "replaceParam.Replace", "request"),
  ("modules/caddyhttp/rewrite/rewrite.go", "do", "ReplaceKnown", "replaceParam.Search", "request"),
  ("modules/caddyhttp/staticerror.go", "ServeHTTP", "ReplaceAll", "codeStr", "request"),
  ("modules/caddyhttp/staticerror.go", "ServeHTTP", "ReplaceKnown", "e.Error", "request"),
  ("modules/caddyhttp/staticresp.go", "ServeHTTP", "ReplaceAll", "codeStr", "request"),
  ("modules/caddyhttp/staticresp.go", "ServeHTTP", "ReplaceAll", "field", "request"),
  ("modules/caddyhttp/staticresp.go", "ServeHTTP", "ReplaceAll", "vals[i]", "request"),
  ("modules/caddyhttp/staticresp.go", "ServeHTTP", "ReplaceKnown", "s.Body", "request"),
  ("modules/caddyhttp/templates/templates.go", "executeTemplate", "ReplaceAll", "t.FileRoot", "request"),
  ("modules/caddyhttp/tracing/tracer.go", "spanNameFormatter", "ReplaceAll", "operation", "request"),
  ("modules/caddyhttp/vars.go", "MatchWithError", "ReplaceAll", "v", "request"),
  ("modules/caddyhttp/vars.go", "ServeHTTP", "ReplaceAll", "k", "request"),
  ("modules/caddyhttp/vars.go", "ServeHTTP", "ReplaceAll", "valStr", "request"),
  ("modules/caddypki/adminapi.go", "handleCAInfo", "ReplaceAll", "ca.IntermediateCommonName", "admin"),
  ("modules/caddypki/adminapi.go", "handleCAInfo", "ReplaceAll", "ca.RootCommonName", "admin"),
  ("modules/caddypki/ca.go", "genIntermediate", "ReplaceAll", "ca.IntermediateCommonName", "load"),
  ("modules/caddypki/ca.go", "genRoot", "ReplaceAll", "ca.RootCommonName", "load"),
  ("modules/caddytls/acmeissuer.go", "Provision", "ReplaceOrErr", "iss.AccountKey", "load"),
  ("modules/caddytls/acmeissuer.go", "Provision", "ReplaceOrErr", "iss.Email", "load"),
  ("modules/caddytls/automation.go", "Provision", "ReplaceAll", "sub", "load"),
  ("modules/caddytls/automation.go", "Provision", "ReplaceOrErr", "ap.KeyType", "load"),
  ("modules/caddytls/capools.go", "makeTLSClientConfig", "ReplaceKnown", "cfg.ServerName", "handshake"),
  ("modules/caddytls/connpolicy.go", "TLSConfig", "ReplaceAll", "name", "load"),
  ("modules/caddytls/connpolicy.go", "buildStandardTLSConfig", "ReplaceOrErr", "p.InsecureSecretsLog", "load"),
  ("modules/caddytls/fileloader.go", "Provision", "ReplaceKnown", "pair.Certificate", "load"),
  ("modules/caddytls/fileloader.go", "Provision", "ReplaceKnown", "pair.Format", "load"),
  ("modules/caddytls/fileloader.go", "Provision", "ReplaceKnown", "pair.Key", "load"),
  ("modules/caddytls/fileloader.go", "Provision", "ReplaceKnown", "tag", "load"),
  ("modules/caddytls/folderloader.go", "Provision", "ReplaceKnown", "path", "load"),
  ("modules/caddytls/leaffileloader.go", "Provision", "ReplaceKnown", "path", "load"),
  ("modules/caddytls/leaffolderloader.go", "Provision", "ReplaceKnown", "path", "load"),
  ("modules/caddytls/leafpemloader.go", "Provision", "ReplaceKnown", "cert", "load"),
  ("modules/caddytls/leafstorageloader.go", "Provision", "ReplaceKnown", "path", "load"),
  ("modules/caddytls/matchers.go", "Match", "ReplaceAll", "name", "handshake"),
  ("modules/caddytls/matchers.go", "Provision", "ReplaceAll", "mre.Pattern", "load"),
  ("modules/caddytls/matchers.go", "Provision", "ReplaceAll", "str", "load"),
  ("modules/caddytls/matchers.go", "Provision", "ReplaceAll", "str", "load"),
  ("modules/caddytls/matchers.go", "Provision", "ReplaceAll", "str", "load"),
  ("modules/caddytls/ondemand.go", "CertificateAllowed", "ReplaceOrErr", "p.Endpoint", "handshake"),
  ("modules/caddytls/pemloader.go", "Provision", "ReplaceKnown", "pair.CertificatePEM", "load"),
  ("modules/caddytls/pemloader.go", "Provision", "ReplaceKnown", "pair.KeyPEM", "load"),
  ("modules/caddytls/pemloader.go", "Provision", "ReplaceKnown", "tag", "load"),
  ("modules/caddytls/storageloader.go", "Provision", "ReplaceKnown", "pair.Certificate", "load"),
  ("modules/caddytls/storageloader.go", "Provision", "ReplaceKnown", "pair.Format", "load"),
  ("modules/caddytls/storageloader.go", "Provision", "ReplaceKnown", "pair.Key", "load"),
  ("modules/caddytls/storageloader.go", "Provision", "ReplaceKnown", "tag", "load"),
  ("modules/caddytls/tls.go", "Provision", "ReplaceAll", "sub", "load"),
  ("modules/caddytls/tls.go", "Provision", "ReplaceOrErr", "t.Automation.OnDemand.Ask", "load"),
  ("modules/caddytls/zerosslissuer.go", "Provision", "ReplaceAll", "iss.APIKey", "load"),
  ("modules/internal/network/networkproxy.go", "ProxyFunc", "ReplaceAll", "p.URL", "request"),
  ("modules/logging/filewriter.go", "Provision", "ReplaceOrErr", "fw.Filename", "load"),
  ("modules/logging/netwriter.go", "Provision", "ReplaceOrErr", "nw.Address", "load"),
  ("replacer_fuzz.go", "FuzzReplacer", "ReplaceAll", "NewReplacer().ReplaceAll(string(data),\"\")", "fuzz"),
  ("replacer_fuzz.go", "FuzzReplacer", "ReplaceAll", "NewReplacer().ReplaceAll(string(data),\"\")", "fuzz"),
  ("replacer_fuzz.go", "FuzzReplacer", "ReplaceAll", "string(?)", "fuzz"),
  ("replacer_fuzz.go", "FuzzReplacer", "ReplaceAll", "string(data)", "fuzz"),
  ("replacer_fuzz.go", "FuzzReplacer", "ReplaceAll", "string(data)", "fuzz"),
  ("replacer_fuzz.go", "FuzzReplacer", "ReplaceAll", "string(data)", "fuzz"),
  ("replacer_fuzz.go", "FuzzReplacer", "ReplaceAll", "string(data)", "fuzz")
]

theorem replacer_tree_call_sites_match_source :
    Gen.replacerTreeCallSites = replacerTreeTable.map (fun r => (r.1, r.2.1, r.2.2.1, r.2.2.2.1)) := by
  set_option maxRecDepth 1000000 in decide

/-- **who turns an upstream's `Dial` into an address, and where computed `Dial`s come from** (modules/caddyhttp/
    reverseproxy). `fillDialInfo` — the one function in which a dial string meets the replacer — is called once per
    proxy iteration and once by the active health checker; no `Upstream` literal takes its `Dial` from the result
    of a `fillDialInfo` (`dialInfo.String()`): those that compute one take it from Caddyfile / CLI address parsing,
    from DNS answers (dynamic upstreams) or from the configured health-check upstream.  A second `fillDialInfo`
    on the request path, or an upstream built from an expanded address (seeded/C18-placeholder-upstream-resolved-
    then-expanded-again does both), breaks this without any sampled case — the replacer call itself does not
    change, so `replacer_tree_call_sites_match_source` alone would not notice. -/
theorem dial_expansion_sites_match_source :
    Gen.fillDialInfoCallers = [("healthchecks.go", "doActiveHealthCheckForAllHosts"), ("reverseproxy.go", "proxyLoopIteration")] ∧
    Gen.upstreamDialLiterals.map (fun r => (r.1, r.2.1)) =
      [("caddyfile.go", "UnmarshalCaddyfile"), ("caddyfile.go", "UnmarshalCaddyfile"), ("caddyfile.go", "UnmarshalCaddyfile"),
       ("command.go", "cmdReverseProxy"), ("command.go", "cmdReverseProxy"), ("healthchecks.go", "doActiveHealthCheckForAllHosts"),
       ("upstreams.go", "GetUpstreams"), ("upstreams.go", "GetUpstreams"), ("upstreams.go", "allNew")] ∧
    Gen.upstreamDialLiterals.all (fun r => !(r.2.2 == "dialInfo.String()")) = true := by
  set_option maxRecDepth 100000 in decide

/-! ### the FastCGI transport's CGI table (`Fcgi.lean`) -/

/-- every write into `env` of fastcgi.go:buildEnv in source order: (key text, value text, operand of the enclosing `range`) -/
def fcgiWriteTable : List (String × String × String) := [
  ("AUTH_TYPE", "\"\"", "-"),
  ("CONTENT_LENGTH", "r.Header.Get(\"Content-Length\")", "-"),
  ("CONTENT_TYPE", "r.Header.Get(\"Content-Type\")", "-"),
  ("GATEWAY_INTERFACE", "\"CGI/1.1\"", "-"),
  ("PATH_INFO", "pathInfo", "-"),
  ("QUERY_STRING", "r.URL.RawQuery", "-"),
  ("REMOTE_ADDR", "ip", "-"),
  ("REMOTE_HOST", "ip", "-"),
  ("REMOTE_PORT", "port", "-"),
  ("REMOTE_IDENT", "\"\"", "-"),
  ("REMOTE_USER", "authUser", "-"),
  ("REQUEST_METHOD", "r.Method", "-"),
  ("REQUEST_SCHEME", "requestScheme", "-"),
  ("SERVER_NAME", "reqHost", "-"),
  ("SERVER_PROTOCOL", "r.Proto", "-"),
  ("SERVER_SOFTWARE", "t.serverSoftware", "-"),
  ("DOCUMENT_ROOT", "root", "-"),
  ("DOCUMENT_URI", "docURI", "-"),
  ("HTTP_HOST", "r.Host", "-"),
  ("REQUEST_URI", "origReq.URL.RequestURI()", "-"),
  ("SCRIPT_FILENAME", "scriptFilename", "-"),
  ("SCRIPT_NAME", "scriptName", "-"),
  ("\"PATH_TRANSLATED\"", "caddyhttp.SanitizedPathJoin(root,pathInfo)", "-"),
  ("\"SERVER_PORT\"", "reqPort", "-"),
  ("\"SERVER_PORT\"", "\"80\"", "-"),
  ("\"SERVER_PORT\"", "\"443\"", "-"),
  ("\"HTTPS\"", "\"on\"", "-"),
  ("\"SSL_PROTOCOL\"", "v", "-"),
  ("\"SSL_CIPHER\"", "cs.Name", "caddytls.SupportedCipherSuites()"),
  ("key", "repl.ReplaceAll(value,\"\")", "t.EnvVars"),
  ("\"HTTP_\"+header", "strings.Join(val,\", \")", "r.Header")
]

/-- **regenerated tie: how `buildEnv` fills the CGI table.** The writes are exactly the listed ones, in this
    order — the literal and the conditional rows, then the loop over the configured `t.EnvVars`, then the loop over
    `r.Header` — and the function calls the replacer exactly twice: on `t.Root`, and on the loop variable of
    the loop that ranges over `t.EnvVars`. The seeded change seeded/C18-fastcgi-env-expanded-after-request-values keeps
    two calls with the same argument TEXT (`value`) in the same function, so `replacer_tree_call_sites_match_source`
    does not see it; the collection the expanding loop ranges over (`env` instead of `t.EnvVars`) and the value
    text of the configured row do change, and break this theorem without any sampled case. -/
theorem fastcgi_env_writes_match_source :
    Gen.fastcgiEnvWrites = fcgiWriteTable ∧
    Gen.fastcgiEnvReplaceCalls = [("ReplaceAll", "t.Root", "-"), ("ReplaceAll", "value", "t.EnvVars")] := by
  set_option maxRecDepth 1000000 in decide

/-- **the only row of the table that goes through the replacer is the configured one, and it is written before
    the header rows and after the literal.** In the table as the source builds it (`fcgiWriteTable`, every value text listed): exactly one write has
    the value `repl.ReplaceAll(value,"")` and it is the one write inside the loop over `t.EnvVars`; every write inside the loop
    over `r.Header` comes after it, and the rows the model copies from the request (`Fcgi.fcgiFixedRows`,
    `fcgiHeaderRows`) have the value texts the model reads them as. -/
theorem fastcgi_only_configured_rows_are_expanded :
    (fcgiWriteTable.filter (fun w => w.2.2 == "t.EnvVars" || w.2.1 == "repl.ReplaceAll(value,\"\")")) =
      [("key", "repl.ReplaceAll(value,\"\")", "t.EnvVars")] ∧
    (fcgiWriteTable.dropWhile (fun w => w.2.2 != "t.EnvVars")).map (·.2.2) = ["t.EnvVars", "r.Header"] ∧
    [("CONTENT_TYPE", "r.Header.Get(\"Content-Type\")"), ("PATH_INFO", "pathInfo"), ("QUERY_STRING", "r.URL.RawQuery"),
     ("REMOTE_USER", "authUser"), ("DOCUMENT_ROOT", "root"), ("DOCUMENT_URI", "docURI"),
     ("REQUEST_URI", "origReq.URL.RequestURI()"), ("SCRIPT_FILENAME", "scriptFilename"), ("SCRIPT_NAME", "scriptName"),
     ("\"PATH_TRANSLATED\"", "caddyhttp.SanitizedPathJoin(root,pathInfo)"),
     ("\"HTTP_\"+header", "strings.Join(val,\", \")")].all
      (fun p => fcgiWriteTable.any (fun w => w.1 == p.1 && w.2.1 == p.2)) = true := by
  set_option maxRecDepth 1000000 in decide

/-- configured fields with an expansion at two different stages: (field, first site, second site) -/
def fieldsExpandedAtTwoStages : List (String × String × String) := [
  ("http host matcher pattern", "modules/caddyhttp/autohttps.go:automaticHTTPSPhase1 (load, into a loop variable)",
    "modules/caddyhttp/matchers.go:MatchWithError host (request)"),
  ("tls sni matcher name", "modules/caddytls/connpolicy.go:TLSConfig name (load, into the ECH name list)",
    "modules/caddytls/matchers.go:Match name (handshake)"),
  ("reverse_proxy upstream dial address", "modules/caddyhttp/reverseproxy/healthchecks.go:doActiveHealthCheckForAllHosts upstream.Dial (timer)",
    "modules/caddyhttp/reverseproxy/hosts.go:fillDialInfo u.Dial (request)"),
  ("pki CA common names", "modules/caddypki/ca.go:genRoot / genIntermediate (load)",
    "modules/caddypki/adminapi.go:handleCAInfo (admin)"),
  ("file_server root", "modules/caddyhttp/fileserver/staticfiles.go:ServeHTTP fsrv.Root (request)",
    "modules/caddyhttp/fileserver/browse.go:serveBrowse fsrv.Root (request, same request)")]

/-- every listed pair is in the table: both sites exist in the source -/
theorem fields_expanded_at_two_stages_are_in_the_table :
    [("modules/caddyhttp/autohttps.go", "elem MatchHost"), ("modules/caddyhttp/matchers.go", "host"),
     ("modules/caddytls/connpolicy.go", "name"), ("modules/caddytls/matchers.go", "name"),
     ("modules/caddyhttp/reverseproxy/healthchecks.go", "upstream.Dial"), ("modules/caddyhttp/reverseproxy/hosts.go", "u.Dial"),
     ("modules/caddypki/ca.go", "ca.RootCommonName"), ("modules/caddypki/adminapi.go", "ca.RootCommonName"),
     ("modules/caddyhttp/fileserver/staticfiles.go", "fsrv.Root"), ("modules/caddyhttp/fileserver/browse.go", "fsrv.Root")].all
      (fun p => replacerTreeTable.any (fun r => r.1 == p.1 && r.2.2.2.1 == p.2)) = true := by
  set_option maxRecDepth 1000000 in decide

end CaddyModel.C18
