/-
C18 — the abstract account of placeholder expansion: the input is cut ONCE into
segments by a scanner that never sees a value (it is only told which keys are
known), and the output is the concatenation of the rendered segments.
-/
import CaddyModel.C18.Model

namespace CaddyModel.C18

/-- one piece of the single left-to-right pass -/
inductive Seg where
  | lit (s : Bytes)        -- input text copied verbatim
  | ph (key : Bytes)       -- a placeholder that is substituted (known, or unknown treated as empty)
  | halt (r : Res)         -- the scan stops with a value-independent outcome (too many unclosed / unknown key / panic)
deriving DecidableEq, Repr

/-- The scanner. Same control structure as `loopNC`, but it is given only
    `known : key → Bool` — no values — and produces segments instead of output. -/
def segLoop (inp : Bytes) (known : Bytes → Bool) (unknownEmpty errUnknown : Bool) :
    (fuel i lwc uc : Nat) → List Seg
  | 0, _, _, _ => [.halt .fuel]
  | fuel + 1, i, lwc, uc =>
  if i < inp.length then
    if escAt inp i then
      match slice inp lwc (i - 1) with
      | none => [.halt .panic]
      | some s => .lit s :: segLoop inp known unknownEmpty errUnknown fuel (i + 1) i uc
    else if !openAt inp i then
      segLoop inp known unknownEmpty errUnknown fuel (i + 1) lwc uc
    else if uc > 100 then
      [.halt .tooMany]
    else
      match findClose inp i with
      | .unclosed => segLoop inp known unknownEmpty errUnknown fuel (i + 1) lwc (uc + 1)
      | .at e =>
        match slice inp lwc i, slice inp (i + 1) e with
        | some pre, some key =>
          if !known key ∧ errUnknown then [.lit pre, .halt (.unknown key)]
          else if !known key ∧ !unknownEmpty then
            .lit pre :: segLoop inp known unknownEmpty errUnknown fuel (i + 1) i uc
          else
            .lit pre :: .ph key :: segLoop inp known unknownEmpty errUnknown fuel (e + 1) (e + 1) uc
        | _, _ => [.halt .panic]
  else
    match slice inp lwc inp.length with
    | none => [.halt .panic]
    | some s => [.lit s]

/-- Rendering: each `ph key` becomes the value of `key` — verbatim, exactly once;
    nothing that was rendered is looked at again. -/
def render (env : Env) (m : Mode) : List Seg → Bytes → Res
  | [], acc => .ok acc
  | .lit s :: rest, acc => render env m rest (acc ++ s)
  | .halt r :: _, _ => r
  | .ph key :: rest, acc =>
    match m.valStr key (env key) with
    | none => .funcErr
    | some valStr =>
      if valStr.isEmpty then
        if m.errEmpty then .emptyVal key else render env m rest (acc ++ m.empty)
      else render env m rest (acc ++ valStr)

/-- The loop WITHOUT the remembered closing brace (`lastEnd`): every opener searches for its
    closing brace anew. This is `replace` as it was before the close cache; `Lemmas.loop_eq_loopNC`
    proves that the cache changes nothing, and the refinement to `segLoop` goes through it. -/
def loopNC (inp : Bytes) (env : Env) (m : Mode) : (fuel i lwc uc : Nat) → (sb : Bytes) → Res
  | 0, _, _, _, _ => .fuel
  | fuel + 1, i, lwc, uc, sb =>
  if i < inp.length then
    if escAt inp i then
      match slice inp lwc (i - 1) with
      | none => .panic
      | some s => loopNC inp env m fuel (i + 1) i uc (sb ++ s)
    else if !openAt inp i then
      loopNC inp env m fuel (i + 1) lwc uc sb
    else if uc > 100 then
      .tooMany
    else
      match findClose inp i with
      | .unclosed => loopNC inp env m fuel (i + 1) lwc (uc + 1) sb
      | .at e =>
        match slice inp lwc i, slice inp (i + 1) e with
        | some pre, some key =>
          if (env key).isNone ∧ m.errUnknown then .unknown key
          else if (env key).isNone ∧ !m.unknownEmpty then
            loopNC inp env m fuel (i + 1) i uc (sb ++ pre)
          else
            match m.valStr key (env key) with
            | none => .funcErr
            | some valStr =>
              if valStr.isEmpty then
                if m.errEmpty then .emptyVal key
                else loopNC inp env m fuel (e + 1) (e + 1) uc (sb ++ pre ++ m.empty)
              else loopNC inp env m fuel (e + 1) (e + 1) uc (sb ++ pre ++ valStr)
        | _, _ => .panic
  else
    match slice inp lwc inp.length with
    | none => .panic
    | some s => .ok (sb ++ s)

/-- `replace` without the remembered closing brace (the function as it was before the close cache) -/
def replaceNC (inp : Bytes) (env : Env) (m : Mode) : Res :=
  if !inp.contains phOpen && !inp.contains phClose then .ok inp
  else loopNC inp env m (inp.length + 1) 0 0 0 []

/-- what the remembered closing brace must satisfy to be reused: it is what the search would
    find from every index between the cursor and it -/
def CacheOK (inp : Bytes) (i ce : Nat) : Prop :=
  ∀ j, i ≤ j → j < ce → findClose inp j = .at ce

def dom (env : Env) : Bytes → Bool := fun k => (env k).isSome

end CaddyModel.C18
