/-
C18 — the abstract account of placeholder expansion: the input is cut ONCE into
segments by a scanner that never sees a value (it is only told which keys are
known), and the output is the concatenation of the rendered segments.
-/
import CaddyModel.C18.Model

namespace CaddyModel.C18

/-- one piece of the single left-to-right pass -/
inductive Seg where
  | lit (s : Bytes)        -- input text copied verbatim
  | ph (key : Bytes)       -- a placeholder that is substituted (known, or unknown treated as empty)
  | halt (r : Res)         -- the scan stops with a value-independent outcome (too many unclosed / unknown key / panic)
deriving DecidableEq, Repr

/-- The scanner. Same control structure as `loop`, but it is given only
    `known : key → Bool` — no values — and produces segments instead of output. -/
def segLoop (inp : Bytes) (known : Bytes → Bool) (unknownEmpty errUnknown : Bool) :
    (fuel i lwc uc : Nat) → List Seg
  | 0, _, _, _ => [.halt .fuel]
  | fuel + 1, i, lwc, uc =>
  if i < inp.length then
    if escAt inp i then
      match slice inp lwc (i - 1) with
      | none => [.halt .panic]
      | some s => .lit s :: segLoop inp known unknownEmpty errUnknown fuel (i + 1) i uc
    else if !openAt inp i then
      segLoop inp known unknownEmpty errUnknown fuel (i + 1) lwc uc
    else if uc > 100 then
      [.halt .tooMany]
    else
      match findClose inp i with
      | .unclosed => segLoop inp known unknownEmpty errUnknown fuel (i + 1) lwc (uc + 1)
      | .at e =>
        match slice inp lwc i, slice inp (i + 1) e with
        | some pre, some key =>
          if !known key ∧ errUnknown then [.lit pre, .halt (.unknown key)]
          else if !known key ∧ !unknownEmpty then
            .lit pre :: segLoop inp known unknownEmpty errUnknown fuel (i + 1) i uc
          else
            .lit pre :: .ph key :: segLoop inp known unknownEmpty errUnknown fuel (e + 1) (e + 1) uc
        | _, _ => [.halt .panic]
  else
    match slice inp lwc inp.length with
    | none => [.halt .panic]
    | some s => [.lit s]

/-- Rendering: each `ph key` becomes the value of `key` — verbatim, exactly once;
    nothing that was rendered is looked at again. -/
def render (env : Env) (m : Mode) : List Seg → Bytes → Res
  | [], acc => .ok acc
  | .lit s :: rest, acc => render env m rest (acc ++ s)
  | .halt r :: _, _ => r
  | .ph key :: rest, acc =>
    match m.valStr key (env key) with
    | none => .funcErr
    | some valStr =>
      if valStr.isEmpty then
        if m.errEmpty then .emptyVal key else render env m rest (acc ++ m.empty)
      else render env m rest (acc ++ valStr)

def dom (env : Env) : Bytes → Bool := fun k => (env k).isSome

end CaddyModel.C18
