/-
C18 line-protocol driver.
  all   <inp> <empty> <env>        ReplaceAll
  known <inp> <empty> <env>        ReplaceKnown
  orerr <inp> <e><u>  <env>        ReplaceOrErr(errOnEmpty=e, errOnUnknown=u), e,u ∈ {0,1}
  func  <inp> <fid>   <env>        ReplaceFunc with harness function number fid
  http  <bodyTmpl> <hdrTmpl> <varTmpl> <X-In> <q> <path> <secret>   end-to-end: vars middleware + static_response
  http2 <bodyTmpl> <s|l> <varTmpl> <X-In1> <q1> <X-In2> <q2> <secret>   two requests through the SAME vars+respond handler instances
  httpm <key> <matchVal> <varV> <X-In> <q> <secret>   vars matcher result + vars_regexp capture group 1
  httprw <uriTmpl> <path> <rawQuery> <secret>   the URI part of the rewrite handler: Path, RawQuery, Fragment afterwards
  cost  <mode> <n> <mult>          timing case '{'^n+'}' at n and mult·n (answer is the constant `cost`); mode ∈ all|known|orerr|orkeep
  costf <mode> <n> <mult> <unit> <tail>   the same for unit^n+tail
  fcgi <envKey> <envTmpl> <rootTmpl> <split> <path> <rawQuery> <X-In> <user> <secret>   CGI variables the real FastCGI transport sends (Fcgi.lean)
env = `.` or `k:v;k:v;…` (hex fields).  Answers: `ok <hex>` | `err:<class>` | `panic`.
-/
import CaddyModel.C18.Model
import CaddyModel.C18.Http
import CaddyModel.C18.Rewrite
import CaddyModel.C18.ConsDriver

namespace CaddyModel.C18

def parseEnv (s : String) : Option (List (Bytes × Bytes)) :=
  if s == "." then some [] else
  (s.splitOn ";").mapM fun kv =>
    match kv.splitOn ":" with
    | [k, v] => do pure ((← Hex.decode k), (← Hex.decode v))
    | _ => none

def envOf (l : List (Bytes × Bytes)) : Env := fun k => (l.find? (·.1 == k)).map (·.2)

def upper (b : UInt8) : UInt8 := if 97 ≤ b ∧ b ≤ 122 then b - 32 else b

/-- the ReplacementFuncs the harness uses (same numbering in harness/internal/c18) -/
def harnessFunc : Nat → Option (Bytes → Bytes → Option Bytes)
  | 0 => some fun _ v => some v
  | 1 => some fun _ v => some (v.map upper)
  | 2 => some fun _ v => some ([phOpen] ++ v ++ [phClose])
  | 3 => some fun k v => if k.head? = some 101 then none else some v   -- key starts with 'e' → error
  | 4 => some fun k _ => some k
  | _ => none

def showRes : Res → String
  | .ok o => "ok " ++ Hex.encode o
  | .tooMany => "err:toomany"
  | .unknown _ => "err:unknown"
  | .emptyVal _ => "err:empty"
  | .funcErr => "err:func"
  | .panic => "panic"
  | .fuel => "model-out-of-fuel"

/-- modes of the timing cases (orerr = ReplaceOrErr(false, true), orkeep = ReplaceOrErr(false, false)) -/
def costModes : List String := ["all", "known", "orerr", "orkeep"]

def handle : List String → String
  | ["all", inp, empty, env] =>
    match Hex.decode inp, Hex.decode empty, parseEnv env with
    | some i, some e, some en => showRes (replaceAll i e (envOf en))
    | _, _, _ => "bad-op"
  | ["known", inp, empty, env] =>
    match Hex.decode inp, Hex.decode empty, parseEnv env with
    | some i, some e, some en => showRes (replaceKnown i e (envOf en))
    | _, _, _ => "bad-op"
  | ["orerr", inp, fl, env] =>
    match Hex.decode inp, parseEnv env, fl with
    | some i, some en, "00" => showRes (replaceOrErr i false false (envOf en))
    | some i, some en, "01" => showRes (replaceOrErr i false true (envOf en))
    | some i, some en, "10" => showRes (replaceOrErr i true false (envOf en))
    | some i, some en, "11" => showRes (replaceOrErr i true true (envOf en))
    | _, _, _ => "bad-op"
  | ["func", inp, fid, env] =>
    match Hex.decode inp, parseEnv env, fid.toNat? >>= harnessFunc with
    | some i, some en, some f => showRes (replaceFunc i f (envOf en))
    | _, _, _ => "bad-op"
  | ["http", body, hdr, var, x, q, path, secret] =>
    match Hex.decode body, Hex.decode hdr, Hex.decode var, Hex.decode x, Hex.decode q, Hex.decode path, Hex.decode secret with
    | some b, some h, some v, some x, some q, some p, some s =>
      match serve b h v ⟨x, q, p, s, []⟩ with
      | some (ob, oh) => "ok " ++ Hex.encode ob ++ " " ++ Hex.encode oh
      | none => "panic"
    | _, _, _, _, _, _, _ => "bad-op"
  | ["http2", body, kind, var, x1, q1, x2, q2, secret] =>
    match Hex.decode body, Hex.decode var, Hex.decode x1, Hex.decode q1, Hex.decode x2, Hex.decode q2, Hex.decode secret with
    | some b, some v, some x1, some q1, some x2, some q2, some s =>
      if kind != "s" && kind != "l" then "bad-op" else
      match serveBody b (kind == "l") v ⟨x1, q1, [47], s, []⟩, serveBody b (kind == "l") v ⟨x2, q2, [47], s, []⟩ with
      | some o1, some o2 => "ok " ++ Hex.encode o1 ++ " " ++ Hex.encode o2
      | _, _ => "panic"
    | _, _, _, _, _, _, _ => "bad-op"
  | ["httpm", key, mval, varv, x, q, secret] =>
    match Hex.decode key, Hex.decode mval, Hex.decode varv, Hex.decode x, Hex.decode q, Hex.decode secret with
    | some k, some mv, some vv, some x, some q, some s =>
      let r : HttpReq := ⟨x, q, [47], s, vv⟩
      match varsMatch k mv r, varsRegexpCaptured k r with
      | some b, some c => "ok " ++ (if b then "1" else "0") ++ " " ++ Hex.encode c
      | _, _ => "panic"
    | _, _, _, _, _, _ => "bad-op"
  | ["httprw", uri, path, rq, secret] =>
    match Hex.decode uri, Hex.decode path, Hex.decode rq, Hex.decode secret with
    | some u, some p, some q, some s =>
      match rewriteURI true u ⟨p, q, s⟩ with
      | some o => "ok " ++ Hex.encode o.path ++ " " ++ Hex.encode o.rawQuery ++ " " ++ Hex.encode o.frag
      | none => "panic"
    | _, _, _, _ => "bad-op"
  | ["cost", mode, _, _] => if costModes.contains mode then "cost" else "bad-op"
  | ["costf", mode, _, _, _, _] => if costModes.contains mode then "cost" else "bad-op"
  | "httpmap" :: rest => handleMap rest
  | "httphdr" :: rest => handleHdr rest
  | "httprwm" :: rest => handleRwm rest
  | "httphost" :: rest => handleHost rest
  | "httpchain" :: rest => handleChain rest
  | "httptpl" :: rest => handleTpl rest
  | "cfenv" :: rest => handleCfEnv rest
  | "httpdial" :: rest => handleDial rest
  | "fcgi" :: rest => handleFcgi rest
  | ["zoo", _, _, _] => "zoo"      -- oracle-only stream (real provisioned server); nothing to model
  | _ => "bad-op"

end CaddyModel.C18

namespace CaddyModel.C18
/-- counter-example lines replayed on the implementation on every run (see Witness.lean) -/
def witnessLines : List String := []   -- none: the cost witness is repaired (corpus/C18/cost-regression.txt replays it)
end CaddyModel.C18
