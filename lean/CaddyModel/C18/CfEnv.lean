/-
C18 — a substitution stage IN FRONT of the replacer: the Caddyfile's `{$NAME}` / `{$NAME:default}`.
`caddyfile.replaceEnvVars` splices environment values into the Caddyfile TEXT before it is lexed (model and
correspondence: `C16.replaceEnvVars`, C16's `env` op); whatever ends up in a directive argument is then
configuration, and `respond` expands it per request like any configured template.  So a `{$X}` whose value
contains `{http.request.header.X-In}` yields a live placeholder, while `{env.X}` — the replacer's own
provider — inserts the value as data.  This is the documented meaning of the two spellings
(caddyserver.com/docs/caddyfile/concepts#environment-variables: `{$ENV}` is "substituted before parsing",
it "can expand to 0 or more tokens"; `{env.*}` is "evaluated at runtime") and an EXPLICIT EXCLUSION of the
property: the environment of the process that adapts the Caddyfile is configuration, not request data.
What the property needs across this glue: each stage is single-pass (a value spliced in by `{$…}` is not
searched for `{$…}` again; a value substituted by `{env.…}` is not expanded) and request data only ever
enters at the second stage, as data.
-/
import CaddyModel.C18.MapH
import CaddyModel.C16.ParseGlue

namespace CaddyModel.C18

def cfVarName : Bytes := str "VERIF_C18_CF"

/-- the environment of the process: `VERIF_C18_CF` (when set) and `VERIF_C18_SECRET` -/
def cfProcEnv (cfVal : Option Bytes) (secret : Bytes) : Bytes → Option Bytes := fun name =>
  if name = cfVarName then cfVal else if name = str "VERIF_C18_SECRET" then some secret else none

/-- the request's provider chain; `{env.VERIF_C18_CF}` reads the same variable at run time -/
def cfRunEnv (cfVal : Option Bytes) (r : HttpReq) : Env := fun key =>
  if key = str "env.VERIF_C18_CF" then some (match cfVal with | some v => v | none => []) else cEnv r key

/-- stage 1 (adapt time): the text of the `respond` argument after the `{$…}` pass -/
def cfArgText (cfVal : Option Bytes) (secret : Bytes) (bodySrc : Bytes) : Option Bytes :=
  match C16.replaceEnvVars (cfProcEnv cfVal secret) bodySrc with
  | .done t => some t
  | _ => none

/-- stage 2 (per request): `respond "B:<arg>"` -/
def cfServe (bodySrc : Bytes) (cfVal : Option Bytes) (r : HttpReq) : Option Bytes :=
  match cfArgText cfVal r.secret bodySrc with
  | some t => some (expandKnown (cfRunEnv cfVal r) (str "B:" ++ t))
  | none => none

/-- the cases keep the `{$…}` spans inside the argument (a `}` behind the last `{$`) and away from the lexer
    (no quote, backslash, newline in the source or in the value) -/
def cfLexSafe (s : Bytes) : Bool := s.all (fun b => b ≠ 34 && b ≠ 92 && b ≠ 10 && b ≠ 13 && b ≠ 96 && b ≥ 32)

def lastSpanCloses : Bytes → Bool
  | [] => true
  | c :: rest => (if C16.isPrefixB C16.spanOpen (c :: rest) then rest.contains 125 else true) && lastSpanCloses rest

end CaddyModel.C18
