/-
C18 — glue that CONSUMES the replacer: the URI part of `Rewrite.Rewrite`
(modules/caddyhttp/rewrite/rewrite.go) with `buildQueryString`, transliterated.  The URI
template is split into path / query / fragment, `{http.request.uri.path}` is pre-substituted
with the escaped path, every component is expanded, and a query string that "snuck into the
path component during replacements" is split off again.  That injected query is OUTPUT of an
expansion (request text); since the fix commit "rewrite: injected query is not expanded again"
it is stored as it is; before, it went through `buildQueryString` — a second scan
(`rewriteURI false`, kept to show what the statement excludes).

`net/url` is modelled as far as the handler uses it: `EscapedPath` with an empty `RawPath`
(= `escape(Path, encodePath)`), `RequestURI`, `QueryEscape`, `PathUnescape`.
-/
import CaddyModel.C18.Http

namespace CaddyModel.C18

/-! ### net/url -/

def isAlnum (b : UInt8) : Bool := (48 ≤ b && b ≤ 57) || (65 ≤ b && b ≤ 90) || (97 ≤ b && b ≤ 122)

/-- `-` `_` `.` `~` -/
def isMark (b : UInt8) : Bool := b = 45 || b = 95 || b = 46 || b = 126

/-- `$ & + , / : ; = @` (the reserved set of `shouldEscape` without `?`) -/
def isPathReserved (b : UInt8) : Bool :=
  b = 36 || b = 38 || b = 43 || b = 44 || b = 47 || b = 58 || b = 59 || b = 61 || b = 64

def hexDigit (n : UInt8) : UInt8 := if n < 10 then 48 + n else 55 + n

def pctEncode (b : UInt8) : Bytes := [37, hexDigit (b >>> 4), hexDigit (b &&& 15)]

/-- `escape(p, encodePath)`: everything but unreserved and `$&+,/:;=@` is %-encoded (so `?`, `{`, `}`,
    `%`, space, `#` all are) -/
def escapePath (p : Bytes) : Bytes :=
  p.flatMap fun b => if isAlnum b || isMark b || isPathReserved b then [b] else pctEncode b

/-- `url.QueryEscape` -/
def queryEscape (v : Bytes) : Bytes :=
  v.flatMap fun b => if b = 32 then [43] else if isAlnum b || isMark b then [b] else pctEncode b

def isHex (b : UInt8) : Bool := (48 ≤ b && b ≤ 57) || (65 ≤ b && b ≤ 70) || (97 ≤ b && b ≤ 102)

def unhex (b : UInt8) : UInt8 :=
  if 48 ≤ b && b ≤ 57 then b - 48 else if 97 ≤ b && b ≤ 102 then b - 87 else b - 55

inductive PctSt where
  | plain                -- outside an escape
  | pct                  -- just read `%`
  | pct1 (a : UInt8)     -- read `%` and one hex digit
deriving DecidableEq, Repr

/-- `url.PathUnescape` as a three-state scan (structural, so the kernel can run it); `none` = EscapeError:
    a `%` that is not followed by two hex digits -/
def pathUnescapeGo : PctSt → Bytes → Option Bytes
  | .plain, [] => some []
  | .pct, [] => none
  | .pct1 _, [] => none
  | .plain, c :: rest => if c = 37 then pathUnescapeGo .pct rest else (pathUnescapeGo .plain rest).map (c :: ·)
  | .pct, a :: rest => if isHex a then pathUnescapeGo (.pct1 a) rest else none
  | .pct1 a, b :: rest =>
    if isHex b then (pathUnescapeGo .plain rest).map (((unhex a) <<< 4 ||| unhex b) :: ·) else none

def pathUnescape (s : Bytes) : Option Bytes := pathUnescapeGo .plain s

/-! ### strings -/

def hasPrefix : Bytes → Bytes → Bool
  | [], _ => true
  | _ :: _, [] => false
  | p :: ps, k :: ks => p = k && hasPrefix ps ks

/-- `strings.ReplaceAll(s, old, new)` for non-empty `old` -/
def replaceSub (old new : Bytes) : Nat → Bytes → Bytes
  | 0, s => s
  | _ + 1, [] => []
  | fuel + 1, c :: rest =>
    if hasPrefix old (c :: rest) then new ++ replaceSub old new fuel ((c :: rest).drop old.length)
    else c :: replaceSub old new fuel rest

/-- `strings.Cut(s, string(c))` -/
def cutAt (c : UInt8) (s : Bytes) : Option (Bytes × Bytes) :=
  match indexOf c s with
  | some k => some (s.take k, s.drop (k + 1))
  | none => none

/-- `path.Split(p)`: (dir incl. the last slash, file) -/
def lastSlash (p : Bytes) : Nat :=
  match indexOf 47 p.reverse with
  | some k => p.length - k
  | none => 0

/-! ### the request as the rewrite handler sees it -/

structure RwReq where
  path : Bytes        -- r.URL.Path (decoded); r.URL.RawPath is empty
  rawQuery : Bytes    -- r.URL.RawQuery
  secret : Bytes      -- value of $VERIF_C18_SECRET

/-- `u.RequestURI()` -/
def requestURI (r : RwReq) : Bytes :=
  (if (escapePath r.path).isEmpty then [47] else escapePath r.path) ++
  (if r.rawQuery.isEmpty then [] else 63 :: r.rawQuery)

/-- what `Replacer.Get` answers for the keys the rewrite stream can form -/
def rwEnv (r : RwReq) : Env := fun key =>
  match stripPrefix (str "env.") key with
  | some name => some (if name = str "VERIF_C18_SECRET" then r.secret else [])
  | none =>
  if key = str "http.request.uri" then some (requestURI r) else
  if key = str "http.request.uri.path" then some r.path else
  if key = str "http.request.uri.path.file" then some (r.path.drop (lastSlash r.path)) else
  if key = str "http.request.uri.path.dir" then some (r.path.take (lastSlash r.path)) else
  if key = str "http.request.uri.query" then some r.rawQuery else
  if key = str "http.request.uri.prefixed_query" then some (if r.rawQuery.isEmpty then [] else 63 :: r.rawQuery) else
  none

/-! ### buildQueryString -/

/-- the `ReplacementFunc` of `buildQueryString`.  It receives the VALUE (`any`): for an unknown key that is
    `nil`, which the `default:` arm prints with `%+v` as `<nil>`; `nilAsText` below feeds exactly that. -/
def bqsFunc (wroteVal : Bool) : Bytes → Bytes → Option Bytes := fun name v =>
  if name = str "http.request.uri.query" && wroteVal then some v else some (queryEscape v)

/-- `ReplaceFunc` treats unknown keys as empty (`val = nil`) and still calls the function: the same as
    looking them up as the text `<nil>` -/
def nilAsText (env : Env) : Env := fun k =>
  match env k with
  | some v => some v
  | none => some (str "<nil>")

/-- `comp, _ = repl.ReplaceFunc(comp, …)`: on an error `comp` is "" -/
def bqsComp (env : Env) (wroteVal : Bool) (comp : Bytes) : Res :=
  outOrEmpty (replaceFunc comp (bqsFunc wroteVal) (nilAsText env))

/-- `nextAmp >= 0 && (nextAmp < nextEq || nextEq < 0)` -/
def ampIsNext (qs : Bytes) : Bool :=
  match indexOf 38 qs, indexOf 61 qs with
  | some a, some e => a < e
  | some _, none => true
  | none, _ => false

/-- end of the component: the next `&` or `=`, whichever comes first, else the end of `qs` -/
def compEnd (qs : Bytes) : Nat :=
  match indexOf 38 qs, indexOf 61 qs with
  | some a, some e => if a < e then a else e
  | some a, none => a
  | none, some e => e
  | none, none => qs.length

/-- the separator written before a component -/
def bqsSep (wroteVal : Bool) (sb comp : Bytes) : Bytes :=
  if wroteVal then (if !sb.isEmpty && !comp.isEmpty then sb ++ [38] else sb) else sb ++ [61]

def bqsLoop (env : Env) : (fuel : Nat) → (qs : Bytes) → (wroteVal : Bool) → (sb : Bytes) → Res
  | 0, _, _, _ => .fuel
  | fuel + 1, qs, wroteVal, sb =>
    if qs.isEmpty then .ok sb
    else
      match bqsComp env wroteVal (qs.take (compEnd qs)) with
      | .ok comp =>
        bqsLoop env fuel (qs.drop (if compEnd qs < qs.length then compEnd qs + 1 else compEnd qs))
          (ampIsNext qs) (bqsSep wroteVal sb comp ++ comp)
      | other => other

def buildQueryString (qs : Bytes) (env : Env) : Res := bqsLoop env (qs.length + 1) qs true []

/-! ### the URI template's three parts -/

def notQF (b : UInt8) : Bool := b != 63 && b != 35
def notF (b : UInt8) : Bool := b != 35

structure UriParts where
  path : Bytes
  hasQ : Bool
  query : Bytes
  hasFrag : Bool
  frag : Bytes
deriving DecidableEq, Repr

/-- what the `loop:` over the template computes (`pathStart ≥ 0` iff the path part is non-empty) -/
def splitURI (uri : Bytes) : UriParts :=
  match uri.dropWhile notQF with
  | [] => ⟨uri.takeWhile notQF, false, [], false, []⟩
  | c :: r =>
    if c = 63 then
      match r.dropWhile notF with
      | [] => ⟨uri.takeWhile notQF, true, r.takeWhile notF, false, []⟩
      | _ :: fr => ⟨uri.takeWhile notQF, true, r.takeWhile notF, true, fr⟩
    else ⟨uri.takeWhile notQF, false, [], true, r⟩

def pathPlaceholder : Bytes := str "{http.request.uri.path}"

/-- `newPath = repl.ReplaceAll(strings.ReplaceAll(path, "{http.request.uri.path}", r.URL.EscapedPath()), "")` -/
def rwPathTemplate (tp : Bytes) (r : RwReq) : Bytes :=
  replaceSub pathPlaceholder (escapePath r.path) (tp.length + 1) tp

def rwNewPath (tp : Bytes) (r : RwReq) : Res :=
  if tp.isEmpty then .ok [] else replaceAll (rwPathTemplate tp r) [] (rwEnv r)

structure RwOut where
  path : Bytes
  rawQuery : Bytes
  frag : Bytes
deriving DecidableEq, Repr

/-- the new query: `fixed = true` is the code as it is now, `false` the code before the fix -/
def rwNewQuery (fixed : Bool) (tq : Bytes) (injected : Option Bytes) (r : RwReq) : Res :=
  if !tq.isEmpty then buildQueryString tq (rwEnv r)
  else match injected with
    | none => .ok []
    | some inj => if fixed then .ok inj else if inj.isEmpty then .ok [] else buildQueryString inj (rwEnv r)

def rwFinalPath (np : Bytes) : Bytes :=
  match pathUnescape np with
  | some p => p
  | none => np

/-- the URI part of `Rewrite.Rewrite`: the request's Path / RawQuery / Fragment afterwards -/
def rewriteURI (fixed : Bool) (uri : Bytes) (r : RwReq) : Option RwOut :=
  match rwNewPath (splitURI uri).path r with
  | .ok np0 =>
    match rwNewQuery fixed (splitURI uri).query ((cutAt 63 np0).map (·.2)) r,
          (if (splitURI uri).frag.isEmpty then Res.ok [] else replaceAll (splitURI uri).frag [] (rwEnv r)) with
    | .ok nq, .ok nf =>
      some ⟨if (splitURI uri).path.isEmpty then r.path
            else rwFinalPath (match cutAt 63 np0 with | some (b, _) => b | none => np0),
           if (splitURI uri).hasQ then nq else r.rawQuery,
           if (splitURI uri).hasFrag then nf else []⟩
    | _, _ => none
  | _ => none

end CaddyModel.C18
