/-
C18 — theorems about the FastCGI transport's CGI table (`Fcgi.lean`): which rows go through the replacer (the
configured `env` templates, once; `root`, once) and which are request text copied byte for byte.
-/
import CaddyModel.C18.Consumers
import CaddyModel.C18.Fcgi

namespace CaddyModel.C18

/-! ### the table as a Go map: the last write wins -/

theorem tget_append (k : Bytes) : ∀ a b : List (Bytes × Bytes),
    tget k (a ++ b) = match tget k b with | some x => some x | none => tget k a
  | [], b => by cases h : tget k b <;> simp [tget, h]
  | kv :: a, b => by
    have ih := tget_append k a b
    simp only [List.cons_append, tget, ih]
    cases h : tget k b <;> simp

theorem tget_not_mem (k : Bytes) : ∀ l : List (Bytes × Bytes), k ∉ l.map (·.1) → tget k l = none
  | [], _ => rfl
  | kv :: l, h => by
    have h1 : kv.1 ≠ k := fun e => h (by simp [e])
    have h2 : k ∉ l.map (·.1) := fun e => h (by simp at e ⊢; exact Or.inr e)
    simp [tget, tget_not_mem k l h2, h1]

theorem tget_pathTranslated (k root : Bytes) (c : FcgiCfg) (r : FcgiReq) (h : k ≠ str "PATH_TRANSLATED") :
    tget k (fcgiPathTranslatedRow root c r) = none := by
  unfold fcgiPathTranslatedRow
  split
  · rfl
  · simp [tget, Ne.symm h]

/-- a variable of the literal, seen through the whole table, when the configuration does not override it -/
theorem tget_request_row (k : Bytes) (Rroot Renv : Bytes → Bytes) (c : FcgiCfg) (r : FcgiReq)
    (hk : c.envKey ≠ k) (hh : k ∉ fcgiHeaderKeys) (hp : k ≠ str "PATH_TRANSLATED") :
    tget k (fcgiBuildR false Rroot Renv c r) = tget k (fcgiFixedRows (C07.pathClean (Rroot c.rootT)) c r) := by
  simp only [fcgiBuildR, fcgiRoot, fcgiRequestRows, Bool.false_eq_true, if_false]
  rw [tget_append, tget_not_mem _ (fcgiHeaderRows r) hh]
  simp only []
  rw [tget_append]
  simp only [tget, hk, if_false]
  rw [tget_append, tget_pathTranslated _ _ _ _ hp]

theorem fcgiHeaderRows_keys (r : FcgiReq) : (fcgiHeaderRows r).map (·.1) = fcgiHeaderKeys := rfl

/-- **the table is: request rows, then ONE expansion per configured template, then header rows.** The code's table
    (for every pair of replacer entry points) is the concatenation of `fcgiRequestRows` and `fcgiHeaderRows` —
    functions that have no replacer argument at all: request text copied or sliced — around the one configured
    row, whose value is `ReplaceAll` of the CONFIGURED template; the document root is `filepath.Clean` of one
    `ReplaceAll(·, ".")` of the configured `root`. -/
theorem fcgi_table_is_request_rows_around_one_expansion (Rroot Renv : Bytes → Bytes) (c : FcgiCfg) (r : FcgiReq) :
    fcgiBuildR false Rroot Renv c r =
      fcgiRequestRows (C07.pathClean (Rroot c.rootT)) c r ++ [(c.envKey, Renv c.envT)] ++ fcgiHeaderRows r := by
  simp [fcgiBuildR, fcgiRoot]

/-- **request text is never scanned**: the table is the same when the replacer refuses every string but the two
    configured templates. -/
theorem fcgi_scans_only_configured_templates (Rroot Renv : Bytes → Bytes) (c : FcgiCfg) (r : FcgiReq) :
    fcgiBuildR false Rroot Renv c r =
      fcgiBuildR false (onlyTemplates [c.rootT] Rroot) (onlyTemplates [c.envT] Renv) c r := by
  rw [fcgi_table_is_request_rows_around_one_expansion, fcgi_table_is_request_rows_around_one_expansion,
    onlyTemplates_mem (ts := [c.rootT]) (t := c.rootT) (by simp),
    onlyTemplates_mem (ts := [c.envT]) (t := c.envT) (by simp)]

/-- **header fields reach the backend byte for byte**, whatever is configured (group 3 is written last). -/
theorem fcgi_header_variables_are_verbatim (Rroot Renv : Bytes → Bytes) (c : FcgiCfg) (r : FcgiReq) :
    tget (str "HTTP_X_IN") (fcgiBuildR false Rroot Renv c r) = some r.xin ∧
    tget (str "HTTP_CONTENT_TYPE") (fcgiBuildR false Rroot Renv c r) = some r.xin ∧
    tget (str "HTTP_X_USER") (fcgiBuildR false Rroot Renv c r) = some r.user := by
  rw [fcgi_table_is_request_rows_around_one_expansion]
  refine ⟨?_, ?_, ?_⟩ <;> rw [tget_append] <;> set_option maxRecDepth 100000 in
    simp (config := { decide := true }) [fcgiHeaderRows, tget]

/-- **request-derived CGI variables are the request text, byte for byte** (unless the configuration overrides that
    very variable): query string, user id, content type, request URI (the URL's own `RequestURI()`), and the
    slices of the path. No hypothesis on the replacer: it is not involved. -/
theorem fcgi_request_variables_are_verbatim (Rroot Renv : Bytes → Bytes) (c : FcgiCfg) (r : FcgiReq)
    (hq : c.envKey ≠ str "QUERY_STRING") (hu : c.envKey ≠ str "REMOTE_USER") (ht : c.envKey ≠ str "CONTENT_TYPE")
    (hr : c.envKey ≠ str "REQUEST_URI") (hd : c.envKey ≠ str "DOCUMENT_URI") (hp : c.envKey ≠ str "PATH_INFO")
    (hs : c.envKey ≠ str "SCRIPT_NAME") :
    tget (str "QUERY_STRING") (fcgiBuildR false Rroot Renv c r) = some r.rawQuery ∧
    tget (str "REMOTE_USER") (fcgiBuildR false Rroot Renv c r) = some r.user ∧
    tget (str "CONTENT_TYPE") (fcgiBuildR false Rroot Renv c r) = some r.xin ∧
    tget (str "REQUEST_URI") (fcgiBuildR false Rroot Renv c r) = some (requestURI ⟨r.path, r.rawQuery, r.secret⟩) ∧
    tget (str "DOCUMENT_URI") (fcgiBuildR false Rroot Renv c r) = some (fcgiDocURI c.split r.path) ∧
    tget (str "PATH_INFO") (fcgiBuildR false Rroot Renv c r) = some (fcgiPathInfo c.split r.path) ∧
    tget (str "SCRIPT_NAME") (fcgiBuildR false Rroot Renv c r) = some (withLeadingSlash (fcgiScriptName0 c.split r.path)) := by
  refine ⟨?_, ?_, ?_, ?_, ?_, ?_, ?_⟩
  · rw [tget_request_row (str "QUERY_STRING") _ _ _ _ hq (by decide) (by decide)]
    set_option maxRecDepth 100000 in simp (config := { decide := true }) [tget, fcgiFixedRows]
  · rw [tget_request_row (str "REMOTE_USER") _ _ _ _ hu (by decide) (by decide)]
    set_option maxRecDepth 100000 in simp (config := { decide := true }) [tget, fcgiFixedRows]
  · rw [tget_request_row (str "CONTENT_TYPE") _ _ _ _ ht (by decide) (by decide)]
    set_option maxRecDepth 100000 in simp (config := { decide := true }) [tget, fcgiFixedRows]
  · rw [tget_request_row (str "REQUEST_URI") _ _ _ _ hr (by decide) (by decide)]
    set_option maxRecDepth 100000 in simp (config := { decide := true }) [tget, fcgiFixedRows]
  · rw [tget_request_row (str "DOCUMENT_URI") _ _ _ _ hd (by decide) (by decide)]
    set_option maxRecDepth 100000 in simp (config := { decide := true }) [tget, fcgiFixedRows]
  · rw [tget_request_row (str "PATH_INFO") _ _ _ _ hp (by decide) (by decide)]
    set_option maxRecDepth 100000 in simp (config := { decide := true }) [tget, fcgiFixedRows]
  · rw [tget_request_row (str "SCRIPT_NAME") _ _ _ _ hs (by decide) (by decide)]
    set_option maxRecDepth 100000 in simp (config := { decide := true }) [tget, fcgiFixedRows]

/-- the two halves the path is cut into are the path: nothing is added, removed or rewritten -/
theorem fcgi_path_slices_are_the_path (split path : Bytes) :
    fcgiDocURI split path ++ fcgiPathInfo split path = path := by
  unfold fcgiDocURI fcgiPathInfo
  cases fcgiSplitPos split path <;> simp

/-- the configured row: its value is what the replacer made of the CONFIGURED template (unless a request header
    field of that CGI name overrides it — headers are written last) -/
theorem fcgi_env_row (Rroot Renv : Bytes → Bytes) (c : FcgiCfg) (r : FcgiReq) (h : c.envKey ∉ fcgiHeaderKeys) :
    tget c.envKey (fcgiBuildR false Rroot Renv c r) = some (Renv c.envT) := by
  rw [fcgi_table_is_request_rows_around_one_expansion, tget_append,
    tget_not_mem _ (fcgiHeaderRows r) (by rw [fcgiHeaderRows_keys]; exact h)]
  simp only []
  rw [tget_append]
  simp [tget]

/-- the document root row -/
theorem fcgi_root_row (Rroot Renv : Bytes → Bytes) (c : FcgiCfg) (r : FcgiReq) (h : c.envKey ≠ str "DOCUMENT_ROOT") :
    tget (str "DOCUMENT_ROOT") (fcgiBuildR false Rroot Renv c r) = some (C07.pathClean (Rroot c.rootT)) := by
  rw [tget_request_row (str "DOCUMENT_ROOT") _ _ _ _ h (by decide) (by decide)]
  set_option maxRecDepth 100000 in simp (config := { decide := true }) [tget, fcgiFixedRows]

/-! ### substituted values are not re-expanded; the seeded final pass -/

def exFcgiCfg : FcgiCfg := ⟨str "APP_ENV", str "{http.request.header.X-In}", str "/srv/app", str ".php"⟩

/-- `GET /index.php/{env.VERIF_C18_SECRET}?x=\{a\}` with `X-In: {env.VERIF_C18_SECRET}` -/
def exFcgiReq : FcgiReq :=
  ⟨str "/index.php/{env.VERIF_C18_SECRET}", str "x=\\{a\\}", str "{env.VERIF_C18_SECRET}", str "{http.request.uri}", str "S3CR3T"⟩

/-- **substituted values are not re-expanded, request text is not expanded at all** — and the seeded change
    seeded/C18-fastcgi-env-expanded-after-request-values (`fcgiBuildR true`: templates stored unexpanded, one final
    `ReplaceAll` over every value of the finished table that contains `{`) does both: the code hands the backend
    `APP_ENV={env.VERIF_C18_SECRET}` (the header's text, inserted once), the same text as `HTTP_X_IN`, the raw
    query with its backslashes and the path info as sent; the final-pass variant hands it the server's secret in
    `HTTP_X_IN` and `PATH_INFO`, strips the backslashes from `QUERY_STRING`, expands the user id — and is NOT
    the same function of a replacer restricted to the configured templates. -/
theorem fcgi_late_pass_expands_request_text :
    tget (str "APP_ENV") (fcgiBuild false exFcgiCfg exFcgiReq) = some (str "{env.VERIF_C18_SECRET}") ∧
    tget (str "HTTP_X_IN") (fcgiBuild false exFcgiCfg exFcgiReq) = some (str "{env.VERIF_C18_SECRET}") ∧
    tget (str "QUERY_STRING") (fcgiBuild false exFcgiCfg exFcgiReq) = some (str "x=\\{a\\}") ∧
    tget (str "PATH_INFO") (fcgiBuild false exFcgiCfg exFcgiReq) = some (str "/{env.VERIF_C18_SECRET}") ∧
    tget (str "SCRIPT_NAME") (fcgiBuild false exFcgiCfg exFcgiReq) = some (str "/index.php") ∧
    tget (str "SCRIPT_FILENAME") (fcgiBuild false exFcgiCfg exFcgiReq) = some (str "/srv/app/index.php") ∧
    tget (str "HTTP_X_IN") (fcgiBuild true exFcgiCfg exFcgiReq) = some (str "S3CR3T") ∧
    tget (str "PATH_INFO") (fcgiBuild true exFcgiCfg exFcgiReq) = some (str "/S3CR3T") ∧
    tget (str "QUERY_STRING") (fcgiBuild true exFcgiCfg exFcgiReq) = some (str "x={a}") ∧
    tget (str "REMOTE_USER") (fcgiBuild true exFcgiCfg exFcgiReq) ≠ some exFcgiReq.user ∧
    fcgiBuildR true (expandAllDot (fcgiEnv exFcgiReq)) (expandAll (fcgiEnv exFcgiReq)) exFcgiCfg exFcgiReq ≠
      fcgiBuildR true (onlyTemplates [exFcgiCfg.rootT] (expandAllDot (fcgiEnv exFcgiReq)))
        (onlyTemplates [exFcgiCfg.envT] (expandAll (fcgiEnv exFcgiReq))) exFcgiCfg exFcgiReq := by
  set_option maxRecDepth 1000000 in decide

-- non-vacuity: a configured variable that overrides a request variable, a header that overrides the configured
-- one, no split_path (the whole path is PATH_INFO), a root taken from a header and cleaned
set_option maxRecDepth 1000000 in
example :
    tget (str "QUERY_STRING") (fcgiBuild false ⟨str "QUERY_STRING", str "cfg-{http.request.uri.query}", str "/r", []⟩
      ⟨str "/a.php", str "{x}", [], [], []⟩) = some (str "cfg-{x}") ∧
    tget (str "HTTP_X_IN") (fcgiBuild false ⟨str "HTTP_X_IN", str "configured", str "/r", []⟩
      ⟨str "/a.php", [], str "{zz}", [], []⟩) = some (str "{zz}") ∧
    tget (str "PATH_INFO") (fcgiBuild false ⟨str "A", [], str "/r", []⟩ ⟨str "/a.php", [], [], [], []⟩) = some (str "/a.php") ∧
    tget (str "DOCUMENT_ROOT") (fcgiBuild false ⟨str "A", [], str "/srv/{http.request.header.X-In}/{zz.unk}", str ".php"⟩
      ⟨str "/a.php", [], str "../{env.X}", [], []⟩) = some (str "/{env.X}") ∧
    str "APP_ENV" ∉ fcgiHeaderKeys := by decide

end CaddyModel.C18
