/-
C18 — theorems about the consumers of the replacer (map handler, headers handler, rewrite modifiers).
Common shape: the consumer model is parametric in the replacer `R : template ↦ expansion`; "request text
is never scanned" is stated extensionally — the consumer computes the same from a replacer that expands
ONLY the configured templates and answers `notATemplate` on every other string.  Together with
`single_pass` (what `R` does on a template: values go in verbatim) this is the property for the consumer.
Each statement has a seeded-change / old-code witness showing it is not vacuous.
-/
import CaddyModel.C18.MapH
import CaddyModel.C18.Headers
import CaddyModel.C18.RwMods
import CaddyModel.C18.HostGlue

namespace CaddyModel.C18

def notATemplate : Bytes := str "<not-a-configured-template>"

/-- a replacer that refuses everything but the strings in `ts` -/
def onlyTemplates (ts : List Bytes) (R : Bytes → Bytes) : Bytes → Bytes :=
  fun t => if t ∈ ts then R t else notATemplate

theorem onlyTemplates_mem {ts : List Bytes} {R : Bytes → Bytes} {t : Bytes} (h : t ∈ ts) :
    onlyTemplates ts R t = R t := by
  simp [onlyTemplates, h]

/-! ### map handler -/

theorem mapScan_only_templates (R : Bytes → Bytes) (ts : List Bytes) (input : Bytes) (idx : Nat) :
    ∀ ms : List MapMapping,
      (∀ m ∈ ms, m.isRegexp = false → ∀ o, some o ∈ m.outputs → o ∈ ts) →
      mapScan false R input idx ms = mapScan false (onlyTemplates ts R) input idx ms
  | [], _ => rfl
  | m :: ms, h => by
    have ih := mapScan_only_templates R ts input idx ms (fun m' hm' => h m' (List.mem_cons_of_mem _ hm'))
    unfold mapScan
    split
    · rfl
    · exact ih
    · rename_i out hout
      split
      · split
        · exact ih
        · rfl
      · rename_i hre
        have hmem : out ∈ ts :=
          h m (List.mem_cons_self) (by simpa using hre) out (List.mem_of_getElem? hout)
        rw [onlyTemplates_mem hmem, ih]

theorem mem_mapTemplates_output {cfg : MapCfg} {m : MapMapping} {o : Bytes}
    (hm : m ∈ cfg.mappings) (hre : m.isRegexp = false) (ho : some o ∈ m.outputs) : o ∈ mapTemplates cfg := by
  unfold mapTemplates
  refine List.mem_cons_of_mem _ (List.mem_append_right _ ?_)
  rw [List.mem_flatMap]
  refine ⟨m, ?_, ?_⟩
  · rw [List.mem_filter]; exact ⟨hm, by simp [hre]⟩
  · rw [List.mem_filterMap]; exact ⟨some o, ho, rfl⟩

/-- **map: only configured templates are scanned.** The lookup closure of the map handler computes the
    same value from a replacer that expands nothing but the handler's configured source, defaults and
    exact-mapping outputs.  In particular the text a regexp mapping captured from the request — which is
    spliced into a regexp mapping's output by `ExpandString` — is never handed to the replacer. -/
theorem map_scans_only_configured_templates (R : Bytes → Bytes) (cfg : MapCfg) (key : Bytes) :
    mapLookup false R cfg key = mapLookup false (onlyTemplates (mapTemplates cfg) R) cfg key := by
  unfold mapLookup
  split
  · rfl
  · rename_i idx _
    have hsrc : cfg.source ∈ mapTemplates cfg := by simp [mapTemplates]
    rw [onlyTemplates_mem hsrc,
      ← mapScan_only_templates R (mapTemplates cfg) (R cfg.source) idx cfg.mappings
        (fun m hm hre o ho => mem_mapTemplates_output hm hre ho)]
    split
    · rfl
    · rfl
    · split
      · rename_i d hd
        have : d ∈ mapTemplates cfg := by
          unfold mapTemplates
          exact List.mem_cons_of_mem _ (List.mem_append_left _ (List.mem_of_getElem? hd))
        rw [onlyTemplates_mem this]
      · rfl

/-- **map: a regexp mapping's value is its output with the groups filled in, and nothing else.** -/
theorem map_regexp_output_is_not_expanded (R : Bytes → Bytes) (input out : Bytes) (idx : Nat)
    (m : MapMapping) (ms : List MapMapping) (mt : Match)
    (hre : m.isRegexp = true) (hout : m.outputs[idx]? = some (some out)) (hfind : m.pat.find input = some mt) :
    mapScan false R input idx (m :: ms) = .found (expand mt.groups out) := by
  simp [mapScan, hre, hout, hfind]

/-- the seeded change "regexp outputs fall through to the shared ReplaceAll" (seeded/C18-map-regexp-output-
    reexpanded) violates both statements: `?q=x{env.VERIF_C18_SECRET}` against `^x(.*)$ → cap-${1}` -/
def exMapCfg : MapCfg :=
  ⟨str "{http.request.uri.query.q}", [str "m"], [⟨true, [], .anch (str "x") [], [some (str "cap-${1}")]⟩], []⟩

def exMapReq : HttpReq := ⟨[], str "x{env.VERIF_C18_SECRET}", [47], str "S3CR3T", []⟩

theorem map_reexpanding_regexp_outputs_scans_request_text :
    mapProbe false exMapCfg (str "{m}") exMapReq = str "cap-{env.VERIF_C18_SECRET}" ∧
    mapProbe true exMapCfg (str "{m}") exMapReq = str "cap-S3CR3T" ∧
    mapLookup true (expandAll (cEnv exMapReq)) exMapCfg (str "m") ≠
      mapLookup true (onlyTemplates (mapTemplates exMapCfg) (expandAll (cEnv exMapReq))) exMapCfg (str "m") := by
  set_option maxRecDepth 100000 in decide

theorem mapScan_no_panic (reexpand : Bool) (R : Bytes → Bytes) (input : Bytes) (idx n : Nat) (hidx : idx < n) :
    ∀ ms : List MapMapping, (∀ m ∈ ms, m.outputs.length = n) → mapScan reexpand R input idx ms ≠ .panic
  | [], _ => by simp [mapScan]
  | m :: ms, h => by
    have ih := mapScan_no_panic reexpand R input idx n hidx ms (fun m' hm' => h m' (List.mem_cons_of_mem _ hm'))
    have hlen := h m List.mem_cons_self
    unfold mapScan
    split
    · rename_i hnone
      rw [List.getElem?_eq_none_iff] at hnone
      omega
    · exact ih
    · split
      · split
        · exact ih
        · simp
      · split
        · simp
        · exact ih

/-- **map: a validated handler never indexes `Outputs` out of range** (the one panic `ServeHTTP` could raise) -/
theorem map_validated_never_panics (reexpand : Bool) (R : Bytes → Bytes) (cfg : MapCfg) (key : Bytes)
    (hv : mapValidate cfg = true) : mapLookup reexpand R cfg key ≠ .panic := by
  unfold mapLookup
  split
  · simp
  · rename_i idx hidx
    have hlt : idx < cfg.dests.length := by
      have := List.idxOf?_eq_some_iff.mp hidx  -- index found ⇒ in range
      obtain ⟨h, _⟩ := this
      exact h
    have hall : ∀ m ∈ cfg.mappings, m.outputs.length = cfg.dests.length := by
      unfold mapValidate at hv
      simp only [Bool.and_eq_true, List.all_eq_true, decide_eq_true_eq] at hv
      exact hv.1.2
    have := mapScan_no_panic reexpand R (R cfg.source) idx cfg.dests.length hlt cfg.mappings hall
    split
    · simp
    · rename_i hp; exact absurd hp this
    · split <;> simp

-- non-vacuity: the zoo's handler (exact mapping, regexp mapping, a default) validates
example : mapValidate ⟨str "{http.request.uri.query.q}", [str "m"],
    [⟨false, str "plain", .lit [120], [some (str "mapped")]⟩, ⟨true, [], .anch (str "x") [], [some (str "cap-${1}-end")]⟩],
    [str "{http.request.header.X-In}"]⟩ = true := by decide

/-! ### headers handler -/

section Headers
variable (R R' : Hdrs → Bytes → Bytes) (ts : List Bytes) (hR : ∀ h t, t ∈ ts → R' h t = R h t)
include hR

theorem hdrClearPass_congr : ∀ (ds : List Bytes) (hs : Hdrs), (∀ d ∈ ds, d ∈ ts) →
    hdrClearPass R' ds hs = hdrClearPass R ds hs
  | [], _, _ => rfl
  | d :: ds, hs, h => by
    unfold hdrClearPass
    rw [hR hs d (h d List.mem_cons_self)]
    exact hdrClearPass_congr ds _ (fun d' hd' => h d' (List.mem_cons_of_mem _ hd'))

theorem hdrDeletePass_congr : ∀ (ds : List Bytes) (hs : Hdrs), (∀ d ∈ ds, d ∈ ts) →
    hdrDeletePass R' ds hs = hdrDeletePass R ds hs
  | [], _, _ => rfl
  | d :: ds, hs, h => by
    unfold hdrDeletePass
    rw [hR hs d (h d List.mem_cons_self)]
    exact hdrDeletePass_congr ds _ (fun d' hd' => h d' (List.mem_cons_of_mem _ hd'))

theorem hdrAddPass_congr (ops : HdrOps) (hs : Hdrs) (h : ∀ t ∈ hdrTemplates ops, t ∈ ts) :
    hdrAddPass R' ops hs = hdrAddPass R ops hs := by
  unfold hdrAddPass
  split
  · rename_i f v hadd
    have hf : f ∈ ts := h f (by simp [hdrTemplates, hadd])
    have hv : v ∈ ts := h v (by simp [hdrTemplates, hadd])
    rw [hR hs f hf, hR hs v hv]
  · rfl

theorem hdrSetPass_congr (ops : HdrOps) (hs : Hdrs) (h : ∀ t ∈ hdrTemplates ops, t ∈ ts) :
    hdrSetPass R' ops hs = hdrSetPass R ops hs := by
  unfold hdrSetPass
  split
  · rename_i f vs hset
    have hf : f ∈ ts := h f (by simp [hdrTemplates, hset])
    have hvs : vs.map (R' hs) = vs.map (R hs) :=
      List.map_congr_left (fun v hv => hR hs v (h v (by simp [hdrTemplates, hset, hv])))
    rw [hR hs f hf, hvs]
  · rfl

theorem hdrReplacePass_congr (ops : HdrOps) (hs : Hdrs) (h : ∀ t ∈ hdrTemplates ops, t ∈ ts) :
    hdrReplacePass false R' ops hs = hdrReplacePass false R ops hs := by
  unfold hdrReplacePass
  split
  · rename_i f r hrep
    have hf : f ∈ ts := h f (by simp [hdrTemplates, hrep])
    have hs' : r.search ∈ ts := h _ (by simp [hdrTemplates, hrep])
    have hr : r.replace ∈ ts := h _ (by simp [hdrTemplates, hrep])
    rw [hR hs f hf, hR hs _ hs', hR hs _ hr]
    rfl
  · rfl

theorem hdrApplyTo_congr (ops : HdrOps) (hs : Hdrs) (h : ∀ t ∈ hdrTemplates ops, t ∈ ts) :
    hdrApplyTo false R' ops hs = hdrApplyTo false R ops hs := by
  have hd : ∀ d ∈ ops.delete, d ∈ ts := fun d hd => h d (by simp [hdrTemplates, hd])
  unfold hdrApplyTo
  rw [hdrClearPass_congr R R' ts hR _ _ hd, hdrAddPass_congr R R' ts hR _ _ h, hdrSetPass_congr R R' ts hR _ _ h,
    hdrDeletePass_congr R R' ts hR _ _ hd, hdrReplacePass_congr R R' ts hR _ _ h]

end Headers

/-- **headers: only configured operands are scanned.** `ApplyTo` computes the same header map from a
    replacer that expands nothing but the configured field names, values, search and replace operands
    — whatever the header map holds (request headers, upstream response headers) is read, compared,
    searched and rewritten as bytes, never expanded; so are the results of the substring / regexp
    replacements. Holds for the replacer as a function of the changing header map (request side). -/
theorem headers_scan_only_configured_operands (R : Hdrs → Bytes → Bytes) (ops : HdrOps) (hs : Hdrs) :
    hdrApplyTo false R ops hs =
      hdrApplyTo false (fun h => onlyTemplates (hdrTemplates ops) (R h)) ops hs :=
  (hdrApplyTo_congr R (fun h => onlyTemplates (hdrTemplates ops) (R h)) (hdrTemplates ops)
    (fun _ _ ht => onlyTemplates_mem ht) ops hs (fun _ ht => ht)).symm

/-- … and on the request side (`ApplyToRequest`, which adds and removes the `Host` entry around it) -/
theorem headers_request_side_scans_only_configured_operands (R : Hdrs → Bytes → Bytes) (ops : HdrOps)
    (hs : Hdrs) (host : Bytes) :
    hdrApplyToRequest false R ops hs host =
      hdrApplyToRequest false (fun h => onlyTemplates (hdrTemplates ops) (R h)) ops hs host := by
  unfold hdrApplyToRequest
  rw [← headers_scan_only_configured_operands]

/-- a change that expands the RESULT of a header replacement violates the statement: the request header
    `X-In: {env.VERIF_C18_SECRET}` with `replace X-In a → b` -/
def exHdrOps : HdrOps := ⟨none, none, [], some (str "X-In", ⟨[97], false, .lit [], [98]⟩)⟩
def exHdrReq : HttpReq := ⟨str "{env.VERIF_C18_SECRET}", [], [47], str "S3CR3T", []⟩

theorem headers_rescanning_replaced_values_scans_request_text :
    hdrApplyTo false (fun hs => expandKnown (hdrEnv exHdrReq hs)) exHdrOps [(str "X-In", [str "{env.VERIF_C18_SECRET}"])]
      = [(str "X-In", [str "{env.VERIF_C18_SECRET}"])] ∧
    hdrApplyTo true (fun hs => expandKnown (hdrEnv exHdrReq hs)) exHdrOps [(str "X-In", [str "{env.VERIF_C18_SECRET}"])]
      = [(str "X-In", [str "S3CR3T"])] ∧
    hdrApplyTo true (fun hs => expandKnown (hdrEnv exHdrReq hs)) exHdrOps [(str "X-In", [str "{env.VERIF_C18_SECRET}"])] ≠
      hdrApplyTo true (fun hs => onlyTemplates (hdrTemplates exHdrOps) (expandKnown (hdrEnv exHdrReq hs))) exHdrOps
        [(str "X-In", [str "{env.VERIF_C18_SECRET}"])] := by
  set_option maxRecDepth 100000 in decide

/-! ### rewrite modifiers -/

/-- **rewrite modifiers: only the configured operands are scanned.** `strip_path_prefix`,
    `strip_path_suffix`, `uri_substring` and `path_regexp` compute the same URL from a replacer that
    expands nothing but their configured operands: the request's path (escaped or not) and query string
    are cleaned, compared, cut and substituted into as bytes and are never expanded, and neither are the
    results.  Holds for the replacer as a function of the URL the earlier modifiers produced. -/
theorem rewrite_modifiers_scan_only_configured_operands (R : RwUrl → Bytes → Bytes) (m : RwMods) (u : RwUrl) :
    rwmApply false R m u = rwmApply false (fun u => onlyTemplates (rwmTemplates m) (R u)) m u := by
  have h : ∀ (u : RwUrl) (t : Bytes), t ∈ rwmTemplates m → onlyTemplates (rwmTemplates m) (R u) t = R u t :=
    fun _ _ ht => onlyTemplates_mem ht
  have e1 : ∀ u, rwmStripPrefix (fun u => onlyTemplates (rwmTemplates m) (R u)) m u = rwmStripPrefix R m u := by
    intro u; unfold rwmStripPrefix; dsimp only; rw [h u m.stripPrefix (by simp [rwmTemplates])]
  have e2 : ∀ u, rwmStripSuffix (fun u => onlyTemplates (rwmTemplates m) (R u)) m u = rwmStripSuffix R m u := by
    intro u; unfold rwmStripSuffix; dsimp only; rw [h u m.stripSuffix (by simp [rwmTemplates])]
  have e3 : ∀ u, rwmSubstring false (fun u => onlyTemplates (rwmTemplates m) (R u)) m u = rwmSubstring false R m u := by
    intro u; unfold rwmSubstring; dsimp only
    rw [h u m.subFind (by simp [rwmTemplates]), h u m.subReplace (by simp [rwmTemplates])]
    rfl
  have e4 : ∀ u, rwmPathRegexp (fun u => onlyTemplates (rwmTemplates m) (R u)) m u = rwmPathRegexp R m u := by
    intro u; unfold rwmPathRegexp; dsimp only; rw [h u m.reReplace (by simp [rwmTemplates])]
  unfold rwmApply
  rw [e1, e2, e3, e4]

/-- a change that expands the rewritten query string once more violates the statement:
    `uri_substring a → b` on `?q={env.VERIF_C18_SECRET}` -/
def exRwMods : RwMods := ⟨[], [], [97], [98], 0, none, []⟩

theorem rewrite_rescanning_the_query_scans_request_text :
    rwmApply false (fun u => expandAll (rwmEnv (str "S3CR3T") u)) exRwMods ⟨str "/a", [], str "q={env.VERIF_C18_SECRET}"⟩
      = ⟨str "/b", [], str "q={env.VERIF_C18_SECRET}"⟩ ∧
    rwmApply true (fun u => expandAll (rwmEnv (str "S3CR3T") u)) exRwMods ⟨str "/a", [], str "q={env.VERIF_C18_SECRET}"⟩
      = ⟨str "/b", [], str "q=S3CR3T"⟩ ∧
    rwmApply true (fun u => expandAll (rwmEnv (str "S3CR3T") u)) exRwMods ⟨str "/a", [], str "q={env.VERIF_C18_SECRET}"⟩ ≠
      rwmApply true (fun u => onlyTemplates (rwmTemplates exRwMods) (expandAll (rwmEnv (str "S3CR3T") u))) exRwMods
        ⟨str "/a", [], str "q={env.VERIF_C18_SECRET}"⟩ := by
  set_option maxRecDepth 100000 in decide

-- non-vacuity: the modifiers do act on request text with braces — prefix `/A` is stripped (case-insensitive)
-- from `/a/{x}.txt`, whose escaped form is `/a/%7Bx%7D.txt`, and the rest is kept verbatim
set_option maxRecDepth 100000 in
example : rwmApply false (fun u => expandAll (rwmEnv [] u)) ⟨str "/A", str ".txt", [], [], 0, none, []⟩ ⟨str "/a/{x}.txt", [], []⟩
    = ⟨str "/{x}", str "/%7Bx%7D", []⟩ := by decide

/-! ### provision-time and request-time expansion of the same field: the host matcher under automatic HTTPS -/

/-- **the request-time matcher expands the CONFIGURED pattern.** After `automaticHTTPSPhase1` looked at the
    patterns (and provisioning did not fail), what each request is matched against is one expansion of the
    pattern as it was configured; the name phase 1 resolved it to plays no part. -/
theorem host_request_match_expands_the_configured_pattern (R : Bytes → Bytes) (c : HostCase) (p1 p2 : Bytes) :
    hostServeR false R c p1 p2 =
      match hostProvisionName c p1, hostProvisionName c p2 with
      | some _, some _ => some (hostMatchOne R p1 c.host, hostMatchOne R p2 c.host)
      | _, _ => none := by
  unfold hostServeR hostLive
  cases hostProvisionName c p1 <;> cases hostProvisionName c p2 <;> simp

/-- … so the request's replacer is only ever given the configured patterns -/
theorem host_matcher_scans_only_configured_patterns (R : Bytes → Bytes) (c : HostCase) (p1 p2 : Bytes) :
    hostServeR false R c p1 p2 = hostServeR false (onlyTemplates [p1, p2] R) c p1 p2 := by
  rw [host_request_match_expands_the_configured_pattern, host_request_match_expands_the_configured_pattern]
  unfold hostMatchOne
  rw [onlyTemplates_mem (ts := [p1, p2]) (t := p1) (by simp), onlyTemplates_mem (ts := [p1, p2]) (t := p2) (by simp)]

/-- the seeded change seeded/C18-autohttps-writes-expanded-host-back — phase 1 writes the resolved name back
    into the live matcher — composes two single passes into a double one: with `SITE={http.request.header.X-Tenant}`
    the pattern `{env.VERIF_C18_SITE}` matches whatever Host the client names in `X-Tenant`, and the escaped
    pattern `\{http.request.header.X-Tenant\}` (the literal text) becomes a live placeholder. -/
def exHostCase : HostCase :=
  ⟨str "{http.request.header.X-Tenant}", [], [], str "attacker.example", str "attacker.example"⟩

theorem host_matcher_writeback_reexpands :
    hostServe false exHostCase (str "{env.VERIF_C18_SITE}") (str "\\{http.request.header.X-Tenant\\}") = some (false, false) ∧
    hostServe true exHostCase (str "{env.VERIF_C18_SITE}") (str "\\{http.request.header.X-Tenant\\}") = some (true, true) ∧
    hostServeR true (expandAll (hostReqEnv exHostCase)) exHostCase (str "{env.VERIF_C18_SITE}") (str "plain.example") ≠
      hostServeR true (onlyTemplates [str "{env.VERIF_C18_SITE}", str "plain.example"] (expandAll (hostReqEnv exHostCase)))
        exHostCase (str "{env.VERIF_C18_SITE}") (str "plain.example") := by
  set_option maxRecDepth 100000 in decide

/-- why it matters in general: single passes do not compose — expanding the OUTPUT of an expansion is not
    the expansion (any field that is expanded when it is provisioned and again when it is used must keep
    its configured text) -/
theorem expansion_of_an_expansion_is_not_the_expansion :
    ∃ (env : Env) (t : Bytes), expandAll env (expandKnown env t) ≠ expandAll env t :=
  ⟨hostReqEnv exHostCase, str "{env.VERIF_C18_SITE}", by set_option maxRecDepth 100000 in decide⟩

-- non-vacuity: an ordinary value matches (case-insensitively), and a request placeholder in the CONFIGURED
-- pattern is live, as documented
set_option maxRecDepth 100000 in
example : hostServe false ⟨str "site.example", [], [], str "SITE.example", str "SITE.example"⟩
    (str "{env.VERIF_C18_SITE}") (str "{http.request.header.X-Tenant}") = some (true, true) := by decide

end CaddyModel.C18
