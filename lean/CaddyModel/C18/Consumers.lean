/-
C18 — theorems about the consumers of the replacer (map handler, headers handler, rewrite modifiers).
Common shape: the consumer model is parametric in the replacer `R : template ↦ expansion`; "request text
is never scanned" is stated extensionally — the consumer computes the same from a replacer that expands
ONLY the configured templates and answers `notATemplate` on every other string.  Together with
`single_pass` (what `R` does on a template: values go in verbatim) this is the property for the consumer.
Each statement has a seeded-change / old-code witness showing it is not vacuous.
-/
import CaddyModel.C18.MapH
import CaddyModel.C18.Headers
import CaddyModel.C18.RwMods
import CaddyModel.C18.HostGlue
import CaddyModel.C18.Chain
import CaddyModel.C18.Tpl
import CaddyModel.C18.CfEnv
import CaddyModel.C18.Dial

namespace CaddyModel.C18

def notATemplate : Bytes := str "<not-a-configured-template>"

/-- a replacer that refuses everything but the strings in `ts` -/
def onlyTemplates (ts : List Bytes) (R : Bytes → Bytes) : Bytes → Bytes :=
  fun t => if t ∈ ts then R t else notATemplate

theorem onlyTemplates_mem {ts : List Bytes} {R : Bytes → Bytes} {t : Bytes} (h : t ∈ ts) :
    onlyTemplates ts R t = R t := by
  simp [onlyTemplates, h]

/-! ### map handler -/

theorem mapScan_only_templates (R : Bytes → Bytes) (ts : List Bytes) (input : Bytes) (idx : Nat) :
    ∀ ms : List MapMapping,
      (∀ m ∈ ms, m.isRegexp = false → ∀ o, some o ∈ m.outputs → o ∈ ts) →
      mapScan false R input idx ms = mapScan false (onlyTemplates ts R) input idx ms
  | [], _ => rfl
  | m :: ms, h => by
    have ih := mapScan_only_templates R ts input idx ms (fun m' hm' => h m' (List.mem_cons_of_mem _ hm'))
    unfold mapScan
    split
    · rfl
    · exact ih
    · rename_i out hout
      split
      · split
        · exact ih
        · rfl
      · rename_i hre
        have hmem : out ∈ ts :=
          h m (List.mem_cons_self) (by simpa using hre) out (List.mem_of_getElem? hout)
        rw [onlyTemplates_mem hmem, ih]

theorem mem_mapTemplates_output {cfg : MapCfg} {m : MapMapping} {o : Bytes}
    (hm : m ∈ cfg.mappings) (hre : m.isRegexp = false) (ho : some o ∈ m.outputs) : o ∈ mapTemplates cfg := by
  unfold mapTemplates
  refine List.mem_cons_of_mem _ (List.mem_append_right _ ?_)
  rw [List.mem_flatMap]
  refine ⟨m, ?_, ?_⟩
  · rw [List.mem_filter]; exact ⟨hm, by simp [hre]⟩
  · rw [List.mem_filterMap]; exact ⟨some o, ho, rfl⟩

/-- **map: only configured templates are scanned.** The lookup closure of the map handler computes the
    same value from a replacer that expands nothing but the handler's configured source, defaults and
    exact-mapping outputs.  In particular the text a regexp mapping captured from the request — which is
    spliced into a regexp mapping's output by `ExpandString` — is never handed to the replacer. -/
theorem map_scans_only_configured_templates (R : Bytes → Bytes) (cfg : MapCfg) (key : Bytes) :
    mapLookup false R cfg key = mapLookup false (onlyTemplates (mapTemplates cfg) R) cfg key := by
  unfold mapLookup
  split
  · rfl
  · rename_i idx _
    have hsrc : cfg.source ∈ mapTemplates cfg := by simp [mapTemplates]
    rw [onlyTemplates_mem hsrc,
      ← mapScan_only_templates R (mapTemplates cfg) (R cfg.source) idx cfg.mappings
        (fun m hm hre o ho => mem_mapTemplates_output hm hre ho)]
    split
    · rfl
    · rfl
    · split
      · rename_i d hd
        have : d ∈ mapTemplates cfg := by
          unfold mapTemplates
          exact List.mem_cons_of_mem _ (List.mem_append_left _ (List.mem_of_getElem? hd))
        rw [onlyTemplates_mem this]
      · rfl

/-- **map: a regexp mapping's value is its output with the groups filled in, and nothing else.** -/
theorem map_regexp_output_is_not_expanded (R : Bytes → Bytes) (input out : Bytes) (idx : Nat)
    (m : MapMapping) (ms : List MapMapping) (mt : Match)
    (hre : m.isRegexp = true) (hout : m.outputs[idx]? = some (some out)) (hfind : m.pat.find input = some mt) :
    mapScan false R input idx (m :: ms) = .found (expand mt.groups out) := by
  simp [mapScan, hre, hout, hfind]

/-- the seeded change "regexp outputs fall through to the shared ReplaceAll" (seeded/C18-map-regexp-output-
    reexpanded) violates both statements: `?q=x{env.VERIF_C18_SECRET}` against `^x(.*)$ → cap-${1}` -/
def exMapCfg : MapCfg :=
  ⟨str "{http.request.uri.query.q}", [str "m"], [⟨true, [], .anch (str "x") [], [some (str "cap-${1}")]⟩], []⟩

def exMapReq : HttpReq := ⟨[], str "x{env.VERIF_C18_SECRET}", [47], str "S3CR3T", []⟩

theorem map_reexpanding_regexp_outputs_scans_request_text :
    mapProbe false exMapCfg (str "{m}") exMapReq = str "cap-{env.VERIF_C18_SECRET}" ∧
    mapProbe true exMapCfg (str "{m}") exMapReq = str "cap-S3CR3T" ∧
    mapLookup true (expandAll (cEnv exMapReq)) exMapCfg (str "m") ≠
      mapLookup true (onlyTemplates (mapTemplates exMapCfg) (expandAll (cEnv exMapReq))) exMapCfg (str "m") := by
  set_option maxRecDepth 100000 in decide

theorem mapScan_no_panic (reexpand : Bool) (R : Bytes → Bytes) (input : Bytes) (idx n : Nat) (hidx : idx < n) :
    ∀ ms : List MapMapping, (∀ m ∈ ms, m.outputs.length = n) → mapScan reexpand R input idx ms ≠ .panic
  | [], _ => by simp [mapScan]
  | m :: ms, h => by
    have ih := mapScan_no_panic reexpand R input idx n hidx ms (fun m' hm' => h m' (List.mem_cons_of_mem _ hm'))
    have hlen := h m List.mem_cons_self
    unfold mapScan
    split
    · rename_i hnone
      rw [List.getElem?_eq_none_iff] at hnone
      omega
    · exact ih
    · split
      · split
        · exact ih
        · simp
      · split
        · simp
        · exact ih

/-- **map: a validated handler never indexes `Outputs` out of range** (the one panic `ServeHTTP` could raise) -/
theorem map_validated_never_panics (reexpand : Bool) (R : Bytes → Bytes) (cfg : MapCfg) (key : Bytes)
    (hv : mapValidate cfg = true) : mapLookup reexpand R cfg key ≠ .panic := by
  unfold mapLookup
  split
  · simp
  · rename_i idx hidx
    have hlt : idx < cfg.dests.length := by
      have := List.idxOf?_eq_some_iff.mp hidx  -- index found ⇒ in range
      obtain ⟨h, _⟩ := this
      exact h
    have hall : ∀ m ∈ cfg.mappings, m.outputs.length = cfg.dests.length := by
      unfold mapValidate at hv
      simp only [Bool.and_eq_true, List.all_eq_true, decide_eq_true_eq] at hv
      exact hv.1.2
    have := mapScan_no_panic reexpand R (R cfg.source) idx cfg.dests.length hlt cfg.mappings hall
    split
    · simp
    · rename_i hp; exact absurd hp this
    · split <;> simp

-- non-vacuity: the zoo's handler (exact mapping, regexp mapping, a default) validates
example : mapValidate ⟨str "{http.request.uri.query.q}", [str "m"],
    [⟨false, str "plain", .lit [120], [some (str "mapped")]⟩, ⟨true, [], .anch (str "x") [], [some (str "cap-${1}-end")]⟩],
    [str "{http.request.header.X-In}"]⟩ = true := by decide

/-! ### headers handler -/

section Headers
variable (R R' : Hdrs → Bytes → Bytes) (ts : List Bytes) (hR : ∀ h t, t ∈ ts → R' h t = R h t)
include hR

theorem hdrClearPass_congr : ∀ (ds : List Bytes) (hs : Hdrs), (∀ d ∈ ds, d ∈ ts) →
    hdrClearPass R' ds hs = hdrClearPass R ds hs
  | [], _, _ => rfl
  | d :: ds, hs, h => by
    unfold hdrClearPass
    rw [hR hs d (h d List.mem_cons_self)]
    exact hdrClearPass_congr ds _ (fun d' hd' => h d' (List.mem_cons_of_mem _ hd'))

theorem hdrDeletePass_congr : ∀ (ds : List Bytes) (hs : Hdrs), (∀ d ∈ ds, d ∈ ts) →
    hdrDeletePass R' ds hs = hdrDeletePass R ds hs
  | [], _, _ => rfl
  | d :: ds, hs, h => by
    unfold hdrDeletePass
    rw [hR hs d (h d List.mem_cons_self)]
    exact hdrDeletePass_congr ds _ (fun d' hd' => h d' (List.mem_cons_of_mem _ hd'))

theorem hdrAddPass_congr (ops : HdrOps) (hs : Hdrs) (h : ∀ t ∈ hdrTemplates ops, t ∈ ts) :
    hdrAddPass R' ops hs = hdrAddPass R ops hs := by
  unfold hdrAddPass
  split
  · rename_i f v hadd
    have hf : f ∈ ts := h f (by simp [hdrTemplates, hadd])
    have hv : v ∈ ts := h v (by simp [hdrTemplates, hadd])
    rw [hR hs f hf, hR hs v hv]
  · rfl

theorem hdrSetPass_congr (ops : HdrOps) (hs : Hdrs) (h : ∀ t ∈ hdrTemplates ops, t ∈ ts) :
    hdrSetPass R' ops hs = hdrSetPass R ops hs := by
  unfold hdrSetPass
  split
  · rename_i f vs hset
    have hf : f ∈ ts := h f (by simp [hdrTemplates, hset])
    have hvs : vs.map (R' hs) = vs.map (R hs) :=
      List.map_congr_left (fun v hv => hR hs v (h v (by simp [hdrTemplates, hset, hv])))
    rw [hR hs f hf, hvs]
  · rfl

theorem hdrReplacePass_congr (ops : HdrOps) (hs : Hdrs) (h : ∀ t ∈ hdrTemplates ops, t ∈ ts) :
    hdrReplacePass false R' ops hs = hdrReplacePass false R ops hs := by
  unfold hdrReplacePass
  split
  · rename_i f r hrep
    have hf : f ∈ ts := h f (by simp [hdrTemplates, hrep])
    have hs' : r.search ∈ ts := h _ (by simp [hdrTemplates, hrep])
    have hr : r.replace ∈ ts := h _ (by simp [hdrTemplates, hrep])
    rw [hR hs f hf, hR hs _ hs', hR hs _ hr]
    rfl
  · rfl

theorem hdrApplyTo_congr (ops : HdrOps) (hs : Hdrs) (h : ∀ t ∈ hdrTemplates ops, t ∈ ts) :
    hdrApplyTo false R' ops hs = hdrApplyTo false R ops hs := by
  have hd : ∀ d ∈ ops.delete, d ∈ ts := fun d hd => h d (by simp [hdrTemplates, hd])
  unfold hdrApplyTo
  rw [hdrClearPass_congr R R' ts hR _ _ hd, hdrAddPass_congr R R' ts hR _ _ h, hdrSetPass_congr R R' ts hR _ _ h,
    hdrDeletePass_congr R R' ts hR _ _ hd, hdrReplacePass_congr R R' ts hR _ _ h]

end Headers

/-- **headers: only configured operands are scanned.** `ApplyTo` computes the same header map from a
    replacer that expands nothing but the configured field names, values, search and replace operands
    — whatever the header map holds (request headers, upstream response headers) is read, compared,
    searched and rewritten as bytes, never expanded; so are the results of the substring / regexp
    replacements. Holds for the replacer as a function of the changing header map (request side). -/
theorem headers_scan_only_configured_operands (R : Hdrs → Bytes → Bytes) (ops : HdrOps) (hs : Hdrs) :
    hdrApplyTo false R ops hs =
      hdrApplyTo false (fun h => onlyTemplates (hdrTemplates ops) (R h)) ops hs :=
  (hdrApplyTo_congr R (fun h => onlyTemplates (hdrTemplates ops) (R h)) (hdrTemplates ops)
    (fun _ _ ht => onlyTemplates_mem ht) ops hs (fun _ ht => ht)).symm

/-- … and on the request side (`ApplyToRequest`, which adds and removes the `Host` entry around it) -/
theorem headers_request_side_scans_only_configured_operands (R : Hdrs → Bytes → Bytes) (ops : HdrOps)
    (hs : Hdrs) (host : Bytes) :
    hdrApplyToRequest false R ops hs host =
      hdrApplyToRequest false (fun h => onlyTemplates (hdrTemplates ops) (R h)) ops hs host := by
  unfold hdrApplyToRequest
  rw [← headers_scan_only_configured_operands]

/-- a change that expands the RESULT of a header replacement violates the statement: the request header
    `X-In: {env.VERIF_C18_SECRET}` with `replace X-In a → b` -/
def exHdrOps : HdrOps := ⟨none, none, [], some (str "X-In", ⟨[97], false, .lit [], [98]⟩)⟩
def exHdrReq : HttpReq := ⟨str "{env.VERIF_C18_SECRET}", [], [47], str "S3CR3T", []⟩

theorem headers_rescanning_replaced_values_scans_request_text :
    hdrApplyTo false (fun hs => expandKnown (hdrEnv exHdrReq hs)) exHdrOps [(str "X-In", [str "{env.VERIF_C18_SECRET}"])]
      = [(str "X-In", [str "{env.VERIF_C18_SECRET}"])] ∧
    hdrApplyTo true (fun hs => expandKnown (hdrEnv exHdrReq hs)) exHdrOps [(str "X-In", [str "{env.VERIF_C18_SECRET}"])]
      = [(str "X-In", [str "S3CR3T"])] ∧
    hdrApplyTo true (fun hs => expandKnown (hdrEnv exHdrReq hs)) exHdrOps [(str "X-In", [str "{env.VERIF_C18_SECRET}"])] ≠
      hdrApplyTo true (fun hs => onlyTemplates (hdrTemplates exHdrOps) (expandKnown (hdrEnv exHdrReq hs))) exHdrOps
        [(str "X-In", [str "{env.VERIF_C18_SECRET}"])] := by
  set_option maxRecDepth 100000 in decide

/-! ### rewrite modifiers -/

/-- **rewrite modifiers: only the configured operands are scanned.** `strip_path_prefix`,
    `strip_path_suffix`, `uri_substring` and `path_regexp` compute the same URL from a replacer that
    expands nothing but their configured operands: the request's path (escaped or not) and query string
    are cleaned, compared, cut and substituted into as bytes and are never expanded, and neither are the
    results.  Holds for the replacer as a function of the URL the earlier modifiers produced. -/
theorem rewrite_modifiers_scan_only_configured_operands (R : RwUrl → Bytes → Bytes) (m : RwMods) (u : RwUrl) :
    rwmApply false R m u = rwmApply false (fun u => onlyTemplates (rwmTemplates m) (R u)) m u := by
  have h : ∀ (u : RwUrl) (t : Bytes), t ∈ rwmTemplates m → onlyTemplates (rwmTemplates m) (R u) t = R u t :=
    fun _ _ ht => onlyTemplates_mem ht
  have e1 : ∀ u, rwmStripPrefix (fun u => onlyTemplates (rwmTemplates m) (R u)) m u = rwmStripPrefix R m u := by
    intro u; unfold rwmStripPrefix; dsimp only; rw [h u m.stripPrefix (by simp [rwmTemplates])]
  have e2 : ∀ u, rwmStripSuffix (fun u => onlyTemplates (rwmTemplates m) (R u)) m u = rwmStripSuffix R m u := by
    intro u; unfold rwmStripSuffix; dsimp only; rw [h u m.stripSuffix (by simp [rwmTemplates])]
  have e3 : ∀ u, rwmSubstring false (fun u => onlyTemplates (rwmTemplates m) (R u)) m u = rwmSubstring false R m u := by
    intro u; unfold rwmSubstring; dsimp only
    rw [h u m.subFind (by simp [rwmTemplates]), h u m.subReplace (by simp [rwmTemplates])]
    rfl
  have e4 : ∀ u, rwmPathRegexp (fun u => onlyTemplates (rwmTemplates m) (R u)) m u = rwmPathRegexp R m u := by
    intro u; unfold rwmPathRegexp; dsimp only; rw [h u m.reReplace (by simp [rwmTemplates])]
  unfold rwmApply
  rw [e1, e2, e3, e4]

/-- a change that expands the rewritten query string once more violates the statement:
    `uri_substring a → b` on `?q={env.VERIF_C18_SECRET}` -/
def exRwMods : RwMods := ⟨[], [], [97], [98], 0, none, []⟩

theorem rewrite_rescanning_the_query_scans_request_text :
    rwmApply false (fun u => expandAll (rwmEnv (str "S3CR3T") u)) exRwMods ⟨str "/a", [], str "q={env.VERIF_C18_SECRET}"⟩
      = ⟨str "/b", [], str "q={env.VERIF_C18_SECRET}"⟩ ∧
    rwmApply true (fun u => expandAll (rwmEnv (str "S3CR3T") u)) exRwMods ⟨str "/a", [], str "q={env.VERIF_C18_SECRET}"⟩
      = ⟨str "/b", [], str "q=S3CR3T"⟩ ∧
    rwmApply true (fun u => expandAll (rwmEnv (str "S3CR3T") u)) exRwMods ⟨str "/a", [], str "q={env.VERIF_C18_SECRET}"⟩ ≠
      rwmApply true (fun u => onlyTemplates (rwmTemplates exRwMods) (expandAll (rwmEnv (str "S3CR3T") u))) exRwMods
        ⟨str "/a", [], str "q={env.VERIF_C18_SECRET}"⟩ := by
  set_option maxRecDepth 100000 in decide

-- non-vacuity: the modifiers do act on request text with braces — prefix `/A` is stripped (case-insensitive)
-- from `/a/{x}.txt`, whose escaped form is `/a/%7Bx%7D.txt`, and the rest is kept verbatim
set_option maxRecDepth 100000 in
example : rwmApply false (fun u => expandAll (rwmEnv [] u)) ⟨str "/A", str ".txt", [], [], 0, none, []⟩ ⟨str "/a/{x}.txt", [], []⟩
    = ⟨str "/{x}", str "/%7Bx%7D", []⟩ := by decide

/-! ### provision-time and request-time expansion of the same field: the host matcher under automatic HTTPS -/

/-- **the request-time matcher expands the CONFIGURED pattern.** After `automaticHTTPSPhase1` looked at the
    patterns (and provisioning did not fail), what each request is matched against is one expansion of the
    pattern as it was configured; the name phase 1 resolved it to plays no part. -/
theorem host_request_match_expands_the_configured_pattern (R : Bytes → Bytes) (c : HostCase) (p1 p2 : Bytes) :
    hostServeR false R c p1 p2 =
      match hostProvisionName c p1, hostProvisionName c p2 with
      | some _, some _ => some (hostMatchOne R p1 c.host, hostMatchOne R p2 c.host)
      | _, _ => none := by
  unfold hostServeR hostLive
  cases hostProvisionName c p1 <;> cases hostProvisionName c p2 <;> simp

/-- … so the request's replacer is only ever given the configured patterns -/
theorem host_matcher_scans_only_configured_patterns (R : Bytes → Bytes) (c : HostCase) (p1 p2 : Bytes) :
    hostServeR false R c p1 p2 = hostServeR false (onlyTemplates [p1, p2] R) c p1 p2 := by
  rw [host_request_match_expands_the_configured_pattern, host_request_match_expands_the_configured_pattern]
  unfold hostMatchOne
  rw [onlyTemplates_mem (ts := [p1, p2]) (t := p1) (by simp), onlyTemplates_mem (ts := [p1, p2]) (t := p2) (by simp)]

/-- the seeded change seeded/C18-autohttps-writes-expanded-host-back — phase 1 writes the resolved name back
    into the live matcher — composes two single passes into a double one: with `SITE={http.request.header.X-Tenant}`
    the pattern `{env.VERIF_C18_SITE}` matches whatever Host the client names in `X-Tenant`, and the escaped
    pattern `\{http.request.header.X-Tenant\}` (the literal text) becomes a live placeholder. -/
def exHostCase : HostCase :=
  ⟨str "{http.request.header.X-Tenant}", [], [], str "attacker.example", str "attacker.example"⟩

theorem host_matcher_writeback_reexpands :
    hostServe false exHostCase (str "{env.VERIF_C18_SITE}") (str "\\{http.request.header.X-Tenant\\}") = some (false, false) ∧
    hostServe true exHostCase (str "{env.VERIF_C18_SITE}") (str "\\{http.request.header.X-Tenant\\}") = some (true, true) ∧
    hostServeR true (expandAll (hostReqEnv exHostCase)) exHostCase (str "{env.VERIF_C18_SITE}") (str "plain.example") ≠
      hostServeR true (onlyTemplates [str "{env.VERIF_C18_SITE}", str "plain.example"] (expandAll (hostReqEnv exHostCase)))
        exHostCase (str "{env.VERIF_C18_SITE}") (str "plain.example") := by
  set_option maxRecDepth 100000 in decide

/-- why it matters in general: single passes do not compose — expanding the OUTPUT of an expansion is not
    the expansion (any field that is expanded when it is provisioned and again when it is used must keep
    its configured text) -/
theorem expansion_of_an_expansion_is_not_the_expansion :
    ∃ (env : Env) (t : Bytes), expandAll env (expandKnown env t) ≠ expandAll env t :=
  ⟨hostReqEnv exHostCase, str "{env.VERIF_C18_SITE}", by set_option maxRecDepth 100000 in decide⟩

-- non-vacuity: an ordinary value matches (case-insensitively), and a request placeholder in the CONFIGURED
-- pattern is live, as documented
set_option maxRecDepth 100000 in
example : hostServe false ⟨str "site.example", [], [], str "SITE.example", str "SITE.example"⟩
    (str "{env.VERIF_C18_SITE}") (str "{http.request.header.X-Tenant}") = some (true, true) := by decide

/-! ### consumers in a row: vars → map → headers → static_response -/

theorem onlyTemplates_onlyTemplates {ts ts' : List Bytes} (R : Bytes → Bytes) (h : ∀ t ∈ ts, t ∈ ts') :
    onlyTemplates ts (onlyTemplates ts' R) = onlyTemplates ts R := by
  funext t
  unfold onlyTemplates
  by_cases ht : t ∈ ts
  · simp [ht, h t ht]
  · simp [ht]

/-- `map_scans_only_configured_templates` for any list that contains the handler's templates -/
theorem mapLookup_onlyTemplates_superset (R : Bytes → Bytes) (cfg : MapCfg) (ts : List Bytes)
    (h : ∀ t ∈ mapTemplates cfg, t ∈ ts) (key : Bytes) :
    mapLookup false (onlyTemplates ts R) cfg key = mapLookup false R cfg key := by
  rw [map_scans_only_configured_templates (onlyTemplates ts R), onlyTemplates_onlyTemplates R h,
    ← map_scans_only_configured_templates]

theorem mapEnvDR_onlyTemplates (RA : Env → Bytes → Bytes) (cfg : MapCfg) (base : Env) (ts : List Bytes)
    (h : ∀ t ∈ mapTemplates cfg, t ∈ ts) :
    ∀ d, mapEnvDR (fun e => onlyTemplates ts (RA e)) cfg base d = mapEnvDR RA cfg base d
  | 0 => rfl
  | d + 1 => by
    unfold mapEnvDR
    rw [mapEnvDR_onlyTemplates RA cfg base ts h d]
    funext key
    unfold withMap
    rw [mapLookup_onlyTemplates_superset _ cfg ts h]

/-- **a chain of consumers scans only configured templates.** `vars` → `map` → `headers` → `static_response`:
    the response (body and header) is the same when both replacer entry points expand nothing but the five
    configured templates — the variable's value, the map's input, captured groups and output, and the
    header value are handed from handler to handler as data. -/
theorem chain_scans_only_configured_templates (RA RK : Env → Bytes → Bytes) (c : ChainCfg) (r : HttpReq) :
    chainServeR RA RK c r =
      chainServeR (fun e => onlyTemplates (chainTemplates c) (RA e)) (fun e => onlyTemplates (chainTemplates c) (RK e)) c r := by
  have hm : ∀ t ∈ mapTemplates c.map, t ∈ chainTemplates c := by
    intro t ht
    simp [mapTemplates, ChainCfg.map] at ht
    rcases ht with rfl | rfl <;> simp [chainTemplates]
  unfold chainServeR
  dsimp only
  rw [onlyTemplates_mem (ts := chainTemplates c) (t := c.varT) (by simp [chainTemplates]),
    mapEnvDR_onlyTemplates RA c.map _ (chainTemplates c) hm 3,
    onlyTemplates_mem (ts := chainTemplates c) (t := c.bodyT) (by simp [chainTemplates]),
    onlyTemplates_mem (ts := chainTemplates c) (t := c.hdrT) (by simp [chainTemplates])]

/-- the model of the stream IS the parametric one at the real entry points, and `mapEnvDR` at `expandAll` is
    `MapH.mapEnvD` -/
theorem mapEnvDR_expandAll (cfg : MapCfg) (base : Env) : ∀ d, mapEnvDR expandAll cfg base d = mapEnvD false cfg base d
  | 0 => rfl
  | d + 1 => by unfold mapEnvDR mapEnvD; rw [mapEnvDR_expandAll cfg base d]

-- non-vacuity: the header `X-In: x{env.VERIF_C18_SECRET}` travels vars → map (captured by `^x(.*)$`) → header and
-- body, and arrives as text; the secret appears nowhere
set_option maxRecDepth 100000 in
example : chainServe ⟨str "{http.request.header.X-In}", str "{http.vars.v}", .anch [120] [], str "cap-${1}", str "none",
      str "{m}", str "v={http.vars.v} m={m}"⟩ ⟨str "x{env.VERIF_C18_SECRET}", [], [47], str "S3CR3T", []⟩
    = (str "v=x{env.VERIF_C18_SECRET} m=cap-{env.VERIF_C18_SECRET}", str "cap-{env.VERIF_C18_SECRET}") := by decide

/-! ### templates behind respond: which stage scans what -/

theorem takeWhile_key (key rest : Bytes) (hk : key.all isTplKeyByte = true) :
    (key ++ 34 :: rest).takeWhile isTplKeyByte = key ∧ (key ++ 34 :: rest).dropWhile isTplKeyByte = 34 :: rest := by
  induction key with
  | nil => exact ⟨by simp [show isTplKeyByte 34 = false by decide],
                  by simp [show isTplKeyByte 34 = false by decide]⟩
  | cons c cs ih =>
    simp only [List.all_cons, Bool.and_eq_true] at hk
    obtain ⟨h1, h2⟩ := ih hk.2
    exact ⟨by simp [hk.1, h1], by simp [hk.1, h2]⟩

/-- **a value inserted by a template action is final.** On the modelled fragment, executing
    `{{ph "key"}}` followed by `after` yields the value of `key` (from `Replacer.GetString`, without the file
    provider) followed by the execution of `after`: the value is neither expanded by the replacer nor executed
    by the template engine, whatever it contains. -/
theorem template_action_value_is_final (env : Env) (fuel : Nat) (key after : Bytes)
    (hk : key.all isTplKeyByte = true) (hne : key ≠ []) :
    tplExec env (fuel + 1) (str "{{ph \"" ++ key ++ str "\"}}" ++ after) =
      (tplExec env fuel after).map (tplGet env key ++ ·) := by
  obtain ⟨h1, h2⟩ := takeWhile_key key (125 :: 125 :: after) hk
  have hshape : str "{{ph \"" ++ key ++ str "\"}}" ++ after = 123 :: 123 :: 112 :: 104 :: 32 :: 34 :: (key ++ 34 :: 125 :: 125 :: after) := by
    simp [str]
  rw [hshape]
  conv => lhs; unfold tplExec
  have hk' : (key.isEmpty) = false := by cases key <;> simp_all
  simp [hasPrefix, str, tplKey, h1, h2, hk']

/-- … and the `file.` provider cannot be reached from a template action -/
theorem template_actions_cannot_read_files (env : Env) (name : Bytes) :
    tplGet env (str "file." ++ name) = [] := by
  have : stripPrefix (str "file.") (str "file." ++ name) = some name := by simp [str, stripPrefix]
  simp [tplGet, this]

/-- EXCLUSION, stated as a theorem so that nobody has to guess: with `templates` in front of a `respond` body
    that is built from request data, stage 2 does execute what stage 1 substituted (`?q={{ph "env.…"}}` yields the
    variable). That is the configured meaning of the handler chain, not placeholder re-expansion; the same
    request text arriving through a template ACTION stays text, and `{file.…}` works in stage 1 only. -/
theorem templates_execute_the_expanded_body_but_not_inserted_values :
    tplServe (str "{http.request.uri.query.q}") ⟨[], str "{{ph \"env.VERIF_C18_SECRET\"}}", [47], str "S3CR3T", []⟩
      = some (str "S3CR3T") ∧
    tplServe (str "{{ph \"http.request.uri.query.q\"}}") ⟨[], str "{{ph \"env.VERIF_C18_SECRET\"}}", [47], str "S3CR3T", []⟩
      = some (str "{{ph \"env.VERIF_C18_SECRET\"}}") ∧
    tplServe (str "{{ph \"http.request.uri.query.q\"}}") ⟨[], str "{env.VERIF_C18_SECRET}", [47], str "S3CR3T", []⟩
      = some (str "{env.VERIF_C18_SECRET}") ∧
    tplServe (str "{file.c18rwsecret.txt}|{{ph \"file.c18rwsecret.txt\"}}") ⟨[], [], [47], [], []⟩
      = some (str "F1LE-C0NTENT-7731|") := by
  set_option maxRecDepth 100000 in decide

/-! ### Caddyfile `{$ENV}` in front of the replacer -/

/-- **the two stages.** What a request gets from `respond "B:<src>"` is ONE run-time expansion of the argument
    text that the adapt-time `{$…}` pass produced; that text is a function of the Caddyfile source and of the
    adapting process's environment only — no request field can reach stage 1. -/
theorem caddyfile_env_stage_then_one_expansion (bodySrc : Bytes) (cfVal : Option Bytes) (r : HttpReq) :
    cfServe bodySrc cfVal r =
      (cfArgText cfVal r.secret bodySrc).map (fun t => expandKnown (cfRunEnv cfVal r) (str "B:" ++ t)) := by
  unfold cfServe
  cases cfArgText cfVal r.secret bodySrc <;> rfl

theorem caddyfile_env_stage_ignores_the_request (bodySrc : Bytes) (cfVal : Option Bytes) (r r' : HttpReq)
    (h : r.secret = r'.secret) : cfArgText cfVal r.secret bodySrc = cfArgText cfVal r'.secret bodySrc := by
  rw [h]

/-- `{$X}` versus `{env.X}` with `X={http.request.header.X-In}` and the request header `X-In: {env.VERIF_C18_SECRET}`:
    the parse-time spelling makes the variable's value CONFIGURATION (a live placeholder — the documented meaning,
    an explicit exclusion of the property), the run-time spelling inserts it as data; in both the request's
    header value stays text. And each stage is single-pass: a value spliced in by `{$…}` is not searched for
    `{$…}` again. -/
theorem caddyfile_parse_time_env_is_configuration_run_time_env_is_data :
    cfServe (str "{$VERIF_C18_CF}") (some (str "{http.request.header.X-In}"))
        ⟨str "{env.VERIF_C18_SECRET}", [], [47], str "S3CR3T", []⟩ = some (str "B:{env.VERIF_C18_SECRET}") ∧
    cfServe (str "{env.VERIF_C18_CF}") (some (str "{http.request.header.X-In}"))
        ⟨str "{env.VERIF_C18_SECRET}", [], [47], str "S3CR3T", []⟩ = some (str "B:{http.request.header.X-In}") ∧
    cfServe (str "{$VERIF_C18_CF}") (some (str "{$VERIF_C18_SECRET}"))
        ⟨[], [], [47], str "S3CR3T", []⟩ = some (str "B:{$VERIF_C18_SECRET}") ∧
    cfServe (str "{$VERIF_C18_UNSET:{http.request.header.X-In}}|{$VERIF_C18_CF:d}") none
        ⟨str "{env.VERIF_C18_SECRET}", [], [47], str "S3CR3T", []⟩ = some (str "B:{env.VERIF_C18_SECRET}|d") := by
  set_option maxRecDepth 100000 in decide

/-! ### the reverse proxy's upstream dial address -/

/-- **the dialled address is ONE expansion of the configured dial template.** What `fillDialInfo` hands to the
    dialler is `caddy.ParseNetworkAddress` of a single `ReplaceAll` of the upstream's configured `dial` string;
    request text that the expansion substituted (`{http.request.header.…}`, `{http.vars.…}`) is parsed as an
    address — network, host, port — and never scanned for placeholders. -/
theorem dial_is_one_expansion_of_configured_template (R : Bytes → Bytes) (dialT : Bytes) :
    dialServeR false R dialT = C13.parseNetworkAddress (R dialT) := by
  simp [dialServeR, dialAddress]

theorem dial_scans_only_the_configured_template (R : Bytes → Bytes) (dialT : Bytes) :
    dialServeR false R dialT = dialServeR false (onlyTemplates [dialT] R) dialT := by
  rw [dial_is_one_expansion_of_configured_template, dial_is_one_expansion_of_configured_template,
    onlyTemplates_mem (ts := [dialT]) (t := dialT) (by simp)]

/-- the seeded change seeded/C18-placeholder-upstream-resolved-then-expanded-again (a pre-resolution step stores
    `Dial: dialInfo.String()`, and `fillDialInfo` expands that string again): with `dial {http.request.header.X-In}`
    and the request header `X-In: {env.VERIF_C18_SECRET}:5432` the code dials the literal host
    `{env.VERIF_C18_SECRET}` (which does not resolve), the two-pass variant dials the host the server's
    environment names; an escaped brace is laundered the same way. -/
def exDialReq : HttpReq := ⟨str "{env.VERIF_C18_SECRET}:5432", str "\\{env.VERIF_C18_SECRET}:80", [47], str "10.0.0.5", []⟩

theorem dial_reexpanded :
    dialServe false (str "{http.request.header.X-In}") [] exDialReq = .ok (str "tcp") (str "{env.VERIF_C18_SECRET}") 5432 ∧
    dialServe true (str "{http.request.header.X-In}") [] exDialReq = .ok (str "tcp") (str "10.0.0.5") 5432 ∧
    dialServe false (str "{http.request.uri.query.q}") [] exDialReq = .ok (str "tcp") (str "\\{env.VERIF_C18_SECRET}") 80 ∧
    dialServe true (str "{http.request.uri.query.q}") [] exDialReq = .ok (str "tcp") (str "{env.VERIF_C18_SECRET}") 80 ∧
    dialServeR true (expandAll (dialEnv [] exDialReq)) (str "{http.request.header.X-In}") ≠
      dialServeR true (onlyTemplates [str "{http.request.header.X-In}"] (expandAll (dialEnv [] exDialReq)))
        (str "{http.request.header.X-In}") := by
  set_option maxRecDepth 100000 in decide

-- non-vacuity: an ordinary backend named by the request, a variable in the host part, a rejected address
set_option maxRecDepth 100000 in
example : dialServe false (str "{http.vars.v}.internal:443") (str "{http.request.header.X-In}")
      ⟨str "db", [], [47], [], []⟩ = .ok (str "tcp") (str "db.internal") 443 ∧
    dialServe false (str "{http.request.header.X-In}") [] ⟨str "x:1-3", [], [47], [], []⟩ = .err := by decide

end CaddyModel.C18
