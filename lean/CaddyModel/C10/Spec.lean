/-
C10 — the small abstract account the property talks about.

* who the peer is and whether it is a configured trusted proxy is decided from the
  CONNECTION alone (`peerAddr`, `serverTrusts`, `handlerTrusts`);
* an untrusted peer gets `untrustedOut`: a function of the connection, the configuration and
  three bits — it does not receive the request headers;
* a trusted peer's client address is the left-most valid element of the configured headers
  (`leftmostValid`), or in strict mode the right-most element that is not itself trusted, of
  the first configured header that has one (`strictChoice`);
* each forwarding field sent upstream is `specField`: kept-and-appended-to only when trusted.
-/
import CaddyModel.C10.Model

namespace CaddyModel.C10

section
variable {Addr Prefix : Type}

/-- the immediate peer's address: `r.RemoteAddr` split, zone cut, parsed.
    `none` = not `host:port`, or the host is not an IP address. -/
def peerAddr (N : Net Addr Prefix) (c : Conn) : Option Addr :=
  match remoteHost c with
  | some host => N.parseAddr host
  | none => none

/-- "the immediate peer is a configured trusted proxy" — server level (`trusted_proxies`) -/
def serverTrusts (N : Net Addr Prefix) (cfg : Cfg Prefix) (c : Conn) : Bool :=
  match peerAddr N c, cfg.srvTrusted with
  | some ip, some ranges => isTrusted N ranges ip
  | _, _ => false

/-- … handler level (reverse_proxy's own `trusted_proxies`) -/
def handlerTrusts (N : Net Addr Prefix) (cfg : Cfg Prefix) (c : Conn) : Bool :=
  match peerAddr N c with
  | some ip => isTrusted N cfg.handlerTrusted ip
  | none => false

/-- trusted for the purpose of keeping prior X-Forwarded-* values -/
def peerTrusted (N : Net Addr Prefix) (cfg : Cfg Prefix) (c : Conn) : Bool :=
  serverTrusts N cfg c || handlerTrusts N cfg c

/-- the textual form of the chosen address, or a fallback when there is none -/
def strOr (N : Net Addr Prefix) (fallback : Bytes) : Option Addr → Bytes
  | some a => N.toString a
  | none => fallback

/-! ### the elements of client-IP headers -/

/-- the values the request carries on the wire under a canonical field name, in wire order -/
def wireValues (w : List (Bytes × Bytes)) (k : Bytes) : List Bytes :=
  (w.filter (fun f => canonKey f.1 == k)).map (fun f => f.2)

/-- all values of the configured client-IP headers: configured order, then wire order -/
def configuredValues (w : List (Bytes × Bytes)) (headers : List Bytes) : List Bytes :=
  headers.flatMap (fun name => wireValues w (canonKey name))

/-- "join with ',' then split on ','" -/
def elements (values : List Bytes) : List Bytes := splitOn comma (joinWith [comma] values)

/-- left-most element that parses as an address -/
def leftmostValid (N : Net Addr Prefix) (parts : List Bytes) : Option Addr :=
  (parts.filterMap (partAddr N)).head?

/-- right-most element that parses as an address which is not in the trusted ranges -/
def rightmostUntrusted (N : Net Addr Prefix) (ranges : List Prefix) (parts : List Bytes) : Option Addr :=
  ((parts.filterMap (partAddr N)).filter (fun a => !isTrusted N ranges a)).getLast?

/-- strict mode: the first configured header that has such an element decides -/
def strictChoice (N : Net Addr Prefix) (ranges : List Prefix) (h : Header) (headers : List Bytes) : Option Addr :=
  headers.findSome? (fun name => rightmostUntrusted N ranges (elements (hValues h name)))

/-! ### forwarding fields -/

/-- does the request's `Connection` header name `key` (so that it is dropped hop-by-hop)? -/
def connectionDrops (wire : List (Bytes × Bytes)) (key : Bytes) : Bool :=
  (connectionTokens (fromWire wire)).any (fun t => canonKey t == key)

/-- the state of a forwarding field when `addForwardedHeaders` looks at it -/
def fieldBefore (omitFlag dropped : Bool) (wireValues : List Bytes) : Option (Option (List Bytes)) :=
  if dropped then none
  else if omitFlag then some none
  else if wireValues.isEmpty then none
  else some (some wireValues)

/-- X-Forwarded-For: prior values folded into one, the peer appended -/
def keepXFF (prior : List Bytes) (fresh : Bytes) : Bytes :=
  if (joinWith commaSpace prior).isEmpty then fresh else joinWith commaSpace prior ++ commaSpace ++ fresh

/-- X-Forwarded-Proto / -Host: the last prior value, if it is not empty -/
def keepLast (prior : List Bytes) (fresh : Bytes) : Bytes :=
  match prior.getLast? with
  | some v => if v.isEmpty then fresh else v
  | none => fresh

/-- one forwarding field of the upstream request -/
def specField (trusted : Bool) (keep : List Bytes → Bytes → Bytes) (fresh : Bytes) :
    Option (Option (List Bytes)) → Option (Option (List Bytes))
  | some none => some none                                   -- nil stays nil: the field is omitted
  | none => some (some [fresh])
  | some (some prior) => some (some [if trusted then keep prior fresh else fresh])

/-- what an untrusted peer's request turns into: no header is an argument.
    `dF dP dH`: whether the Connection header named X-Forwarded-For / -Proto / -Host
    (only relevant when the corresponding `omit` flag is set). -/
def untrustedOut (N : Net Addr Prefix) (cfg : Cfg Prefix) (c : Conn) (dF dP dH : Bool) : Out :=
  match remoteHost c with
  | none => ⟨[], false, some ⟨none, none, none⟩⟩
  | some host =>
    match N.parseAddr host with
    | none => ⟨[], false, none⟩
    | some ip =>
      ⟨N.toString ip, false,
       some ⟨if cfg.omitXFF && !dF then some none else some (some [host]),
             if cfg.omitXFP && !dP then some none else some (some [protoOf c]),
             if cfg.omitXFH && !dH then some none else some (some [c.host])⟩⟩

/-! ### consumers -/

/-- a range's zone filter accepts the zone of the address -/
def zoneOK (r : MRange Prefix) (zoneID : Bytes) : Bool := decide (r.zone = []) || decide (zoneID = r.zone)

/-- what the consumers need of `net/netip`'s printing: `Addr.String` output is not `host:port`
    shaped, carries no zone, parses back to the same address, and "" is not an address.
    (True of netip for the zone-less addresses the code prints; a hypothesis here.) -/
structure PrintsParseBack (N : Net Addr Prefix) : Prop where
  noPort : ∀ a, splitHostPort (N.toString a) = none
  noZone : ∀ a, cutZone (N.toString a) = N.toString a
  back : ∀ a, N.parseAddr (N.toString a) = some a
  emptyInvalid : N.parseAddr [] = none

/-- the peer address the wrapper's policy function tests against `allow` / `deny`: the host of the
    connection's remote address, accepted with its zone, tested without it -/
def ppPeerAddr (N : Net Addr Prefix) (peer : Bytes) : Option Addr :=
  match splitHostPort peer with
  | some hp =>
    match N.parseAddr hp.1 with
    | some _ => N.parseAddr (cutZone hp.1)
    | none => none
  | none => none

/-- a forwarding field that IS sent, with exactly one value -/
def Sent (x : Option (Option (List Bytes))) : Prop := ∃ v, x = some (some [v])

/-- a field that held nil is simply absent once the header map has been copied value by value
    (either way the field is not sent) -/
def dropNil : Option (Option (List Bytes)) → Option (Option (List Bytes))
  | some (some (v :: vs)) => some (some (v :: vs))
  | _ => none

/-- what the configured request header operations do to the three forwarding fields -/
def opsFwd : Ops → Fwd → Fwd
  | .none, f => f
  | .setOther, f => ⟨dropNil f.xff, dropNil f.xfp, dropNil f.xfh⟩
  | .delXFH, f => ⟨dropNil f.xff, dropNil f.xfp, none⟩     -- the operator deletes X-Forwarded-Host

end
end CaddyModel.C10
