/-
C10 — the Go standard-library glue the modelled code calls, transliterated on byte lists:
`net.SplitHostPort`, `strings.TrimSpace`, `strings.Cut(_, "%")`, `strings.Split/Join`,
`textproto.TrimString`, `textproto.CanonicalMIMEHeaderKey`, and `http.Header` as an
association list (a `nil` value is `none`: reverse_proxy distinguishes it from "absent").
Core Lean only.
-/
import CaddyModel.Util.Hex

namespace CaddyModel.C10

def colon : UInt8 := 58
def comma : UInt8 := 44
def percent : UInt8 := 37
def lbr : UInt8 := 91    -- '['
def rbr : UInt8 := 93    -- ']'
def dash : UInt8 := 45

/-! ### strings.IndexByte / LastIndexByte / Split / Join / Cut -/

/-- `strings.IndexByte(s, c)`; `none` = -1 -/
def indexByte (c : UInt8) : Bytes → Option Nat
  | [] => none
  | x :: xs => if x = c then some 0 else (indexByte c xs).map (· + 1)

/-- `strings.LastIndexByte(s, c)`; `none` = -1 -/
def lastIndexByte (c : UInt8) : Bytes → Option Nat
  | [] => none
  | x :: xs =>
    match lastIndexByte c xs with
    | some i => some (i + 1)
    | none => if x = c then some 0 else none

/-- `strings.Split(s, string(c))`, accumulator version (`acc` = current piece, reversed) -/
def splitAux (c : UInt8) : Bytes → Bytes → List Bytes
  | [], acc => [acc.reverse]
  | b :: rest, acc => if b = c then acc.reverse :: splitAux c rest [] else splitAux c rest (b :: acc)

/-- `strings.Split(s, string(c))`: never empty, `Split("", ",") = [""]` -/
def splitOn (c : UInt8) (s : Bytes) : List Bytes := splitAux c s []

/-- `strings.Join(l, sep)` -/
def joinWith (sep : Bytes) : List Bytes → Bytes
  | [] => []
  | [x] => x
  | x :: y :: rest => x ++ sep ++ joinWith sep (y :: rest)

/-- `before, _, _ := strings.Cut(s, "%")` -/
def cutZone : Bytes → Bytes
  | [] => []
  | b :: rest => if b = percent then [] else b :: cutZone rest

/-! ### net.SplitHostPort -/

/-- `net.SplitHostPort`: `none` = any of its errors (missing port, too many colons,
    missing/unexpected brackets).  Result is `(host, port)`. -/
def splitHostPort (s : Bytes) : Option (Bytes × Bytes) :=
  match lastIndexByte colon s with
  | none => none                                        -- missing port in address
  | some i =>
    if s.head? = some lbr then
      match indexByte rbr s with
      | none => none                                    -- missing ']' in address
      | some e =>
        if e + 1 = s.length then none                   -- missing port
        else if e + 1 = i then
          if (s.drop 1).contains lbr then none          -- unexpected '[' (j = 1)
          else if (s.drop (e + 1)).contains rbr then none   -- unexpected ']' (k = end+1)
          else some ((s.drop 1).take (e - 1), s.drop (i + 1))
        else none                                       -- too many colons / missing port
    else
      if (s.take i).contains colon then none            -- too many colons in address
      else if s.contains lbr then none                  -- unexpected '['
      else if s.contains rbr then none                  -- unexpected ']'
      else some (s.take i, s.drop (i + 1))

/-! ### strings.TrimSpace (byte level, including the Unicode White_Space runes) -/

def asciiSpace (b : UInt8) : Bool := b == 9 || b == 10 || b == 11 || b == 12 || b == 13 || b == 32

/-- third byte of an `E2 80 xx` space rune: U+2000–U+200A, U+2028, U+2029, U+202F -/
def e280Space (c : UInt8) : Bool := (128 ≤ c && c ≤ 138) || c == 168 || c == 169 || c == 175

/-- number of bytes of the white-space rune at the head of `s` as `utf8.DecodeRune` +
    `unicode.IsSpace` see it (0 = the head is not white space) -/
def spaceHead : Bytes → Nat
  | [] => 0
  | b :: rest =>
    if asciiSpace b then 1
    else if b = 194 then (match rest with | c :: _ => if c = 133 || c = 160 then 2 else 0 | [] => 0)   -- U+0085, U+00A0
    else if b = 225 then (match rest with | 154 :: 128 :: _ => 3 | _ => 0)                               -- U+1680
    else if b = 226 then (match rest with
                          | 128 :: c :: _ => if e280Space c then 3 else 0
                          | 129 :: 159 :: _ => 3                                                          -- U+205F
                          | _ => 0)
    else if b = 227 then (match rest with | 128 :: 128 :: _ => 3 | _ => 0)                               -- U+3000
    else 0

/-- the same looking at the END of the string, given reversed (`utf8.DecodeLastRune`) -/
def spaceLast : Bytes → Nat
  | [] => 0
  | b :: rest =>
    if asciiSpace b then 1
    else match b, rest with
      | 133, 194 :: _ => 2
      | 160, 194 :: _ => 2
      | 128, 154 :: 225 :: _ => 3
      | 159, 129 :: 226 :: _ => 3
      | 128, 128 :: 227 :: _ => 3
      | c, 128 :: 226 :: _ => if e280Space c then 3 else 0
      | _, _ => 0

/-- `strings.TrimLeftFunc(s, unicode.IsSpace)`; one unit of fuel per removed rune -/
def trimLeftFuel : Nat → Bytes → Bytes
  | 0, s => s
  | fuel + 1, s => if spaceHead s = 0 then s else trimLeftFuel fuel (s.drop (spaceHead s))

/-- on the reversed string -/
def trimLastFuel : Nat → Bytes → Bytes
  | 0, s => s
  | fuel + 1, s => if spaceLast s = 0 then s else trimLastFuel fuel (s.drop (spaceLast s))

/-- `strings.TrimSpace` -/
def trimSpace (s : Bytes) : Bytes :=
  (trimLastFuel s.length (trimLeftFuel s.length s).reverse).reverse

/-! ### net/textproto -/

/-- `textproto.isASCIISpace` -/
def owsByte (b : UInt8) : Bool := b == 32 || b == 9 || b == 10 || b == 13

/-- `textproto.TrimString` -/
def trimOWS (s : Bytes) : Bytes := ((s.dropWhile owsByte).reverse.dropWhile owsByte).reverse

/-- `textproto.validHeaderFieldByte` (RFC 7230 tchar) -/
def tokenByte (c : UInt8) : Bool :=
  (48 ≤ c && c ≤ 57) || (97 ≤ c && c ≤ 122) || (65 ≤ c && c ≤ 90) ||
  c == 33 || c == 35 || c == 36 || c == 37 || c == 38 || c == 39 || c == 42 || c == 43 ||
  c == 45 || c == 46 || c == 94 || c == 95 || c == 96 || c == 124 || c == 126

def canonByte (upper : Bool) (c : UInt8) : UInt8 :=
  if upper && (97 ≤ c && c ≤ 122) then c - 32
  else if !upper && (65 ≤ c && c ≤ 90) then c + 32
  else c

/-- the second loop of `canonicalMIMEHeaderKey` -/
def canonLoop : Bool → Bytes → Bytes
  | _, [] => []
  | upper, c :: rest => canonByte upper c :: canonLoop (canonByte upper c == dash) rest

/-- `textproto.CanonicalMIMEHeaderKey`: a key with any non-token byte is returned unchanged -/
def canonKey (s : Bytes) : Bytes := if s.all tokenByte then canonLoop true s else s

/-- `strings.ToUpper` on ASCII -/
def asciiUpper (s : Bytes) : Bytes := s.map (fun c => if 97 ≤ c && c ≤ 122 then c - 32 else c)

/-! ### http.Header -/

/-- `map[string][]string`; a value `none` is Go's `nil` slice stored under the key -/
abbrev Header := List (Bytes × Option (List Bytes))

/-- `v, ok := h[key]` (`none` = not ok) -/
def hGet (h : Header) (key : Bytes) : Option (Option (List Bytes)) :=
  match h with
  | [] => none
  | (k, v) :: rest => if k = key then some v else hGet rest key

/-- `delete(h, key)` -/
def hDel (h : Header) (key : Bytes) : Header := h.filter (fun e => e.1 ≠ key)

/-- `h[key] = v` -/
def hPut (h : Header) (key : Bytes) (v : Option (List Bytes)) : Header := (key, v) :: hDel h key

/-- `h.Values(field)` (canonicalises the field name; `nil` and absent both give no values) -/
def hValues (h : Header) (field : Bytes) : List Bytes :=
  match hGet h (canonKey field) with
  | some (some vs) => vs
  | _ => []

/-- `h.Add(field, value)` -/
def hAdd (h : Header) (field value : Bytes) : Header :=
  hPut h (canonKey field) (some (hValues h field ++ [value]))

/-- `h.Set(field, value)` -/
def hSet (h : Header) (field value : Bytes) : Header := hPut h (canonKey field) (some [value])

/-- `h.Del(field)` -/
def hDelField (h : Header) (field : Bytes) : Header := hDel h (canonKey field)

/-- the header map net/http builds from the fields on the wire, in order -/
def fromWire (l : List (Bytes × Bytes)) : Header := l.foldl (fun h f => hAdd h f.1 f.2) []

end CaddyModel.C10
