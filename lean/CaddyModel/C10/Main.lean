import CaddyModel.Util.DrvMain
import CaddyModel.C10.Driver

def main (args : List String) : IO Unit :=
  CaddyModel.drvMain "C10" CaddyModel.C10.handle CaddyModel.C10.witnessLines args
