/-
C10 — a model fact about a corner that is STRONGER than the property (not a finding): the reading
"an untrusted peer's request headers — ALL of them, `Connection` included — cannot influence what
is sent upstream" fails in one corner: when an earlier handler stored nil under a forwarding field
("omit"), the peer's `Connection: X-Forwarded-For` deletes that nil entry before
`addForwardedHeaders` looks at it, so the field is sent after all.  The value sent is still the
connection's and no forwarding header is involved, so C10 itself holds there
(`untrusted_forwarding_headers_irrelevant`, `untrusted_sent_values_are_connection_values`);
the harness counts the corner as a histogram tag only.
-/
import CaddyModel.C10.Lemmas

namespace CaddyModel.C10

open Lean in
/-- `b!"text"` = the bytes of an ASCII/UTF-8 literal as a numeral list (so that `decide` can evaluate) -/
macro:max "b!" s:str : term => do
  let elems ← s.getString.toUTF8.toList.toArray.mapM fun (b : UInt8) => pure (Syntax.mkNumLit (toString b.toNat))
  `(([$elems,*] : Bytes))

/-- a toy `net/netip` for kernel-evaluated examples: the addresses are the strings of a fixed list
    (`Addr.String` is the identity) and a "prefix" is a byte prefix (`b!"10."` ≈ 10.0.0.0/8).
    The theorems never look inside `Net`; this instance only shows their hypotheses are inhabited. -/
def toyNet : Net Bytes Bytes where
  parseAddr := fun s =>
    if [b!"1.2.3.4", b!"9.9.9.9", b!"10.0.0.1", b!"10.0.0.2", b!"8.8.8.8", b!"::1", b!"fe80::1"].contains s
    then some s else none
  contains := fun p a => p.isPrefixOf a
  toString := fun a => a

/-- trusted_proxies 10.0.0.0/8, default client_ip_headers, X-Forwarded-For pre-set to nil -/
def witCfg : Cfg Bytes :=
  { srvTrusted := some [b!"10."], clientIPHeaders := none, strict := 0, handlerTrusted := [],
    omitXFF := true, omitXFP := false, omitXFH := false }

/-- plain-HTTP request for host "a" from 1.2.3.4 (not trusted) -/
def witConn : Conn := ⟨b!"1.2.3.4:80", false, b!"a", false⟩

/-- FULL statement (fails): for an untrusted peer the outcome is the same for ANY two header lists. -/
theorem untrusted_noninterference_full_fails :
    ∃ (cfg : Cfg Bytes) (c : Conn) (w w' : List (Bytes × Bytes)),
      peerTrusted toyNet cfg c = false ∧ serve toyNet cfg c w ≠ serve toyNet cfg c w' :=
  ⟨witCfg, witConn, [], [(b!"Connection", b!"X-Forwarded-For")], by decide, by decide⟩

-- what the two runs send upstream: the field stays omitted / is sent with the peer's address
example : (serve toyNet witCfg witConn []).fwd =
    some ⟨some none, some (some [b!"http"]), some (some [b!"a"])⟩ := by decide
example : (serve toyNet witCfg witConn [(b!"Connection", b!"X-Forwarded-For")]).fwd =
    some ⟨some (some [b!"1.2.3.4"]), some (some [b!"http"]), some (some [b!"a"])⟩ := by decide

/-! ### PROXY protocol wrapper: what the code did before the zone was dropped

listenerwrapper.go used to test the peer's address WITH its zone (`fe80::1%eth0` — the form every
link-local connection has) against `allow` / `deny`, and `netip.Prefix.Contains` is false for every
zoned address: with `fallback_policy USE` and `deny fe80::/10` the PROXY header of `[fe80::1%eth0]:1`
was believed while that of `[fe80::1]:1` was rejected.  Repaired (`ip = ip.WithZone("")`); the old
behaviour is kept here as a non-vacuity fact, its protocol line in corpus/C10/fixed-findings.txt. -/

/-- a toy netip with zones: `fe80::1` and `fe80::1%eth0` both parse (to different values) and, as in
    net/netip, no prefix contains a zoned address -/
def toyNetZ : Net Bytes Bytes where
  parseAddr := fun s => if [b!"fe80::1", b!"fe80::1%eth0", b!"10.0.0.1", b!"8.8.8.8"].contains s then some s else none
  contains := fun p a => p.isPrefixOf a && !a.contains percent
  toString := fun a => a

/-- `deny fe80::/10`, `fallback_policy USE` -/
def witPP : PPCfg Bytes := ⟨[], [b!"fe80"], .use⟩

/-- the policy closure as it was: the zoned address itself goes into the containment tests -/
def connPolicyOld (N : Net Bytes Bytes) (cfg : PPCfg Bytes) (network peer : Bytes) : PolicyResult :=
  if unixOrFd network then .policy .use
  else
    match splitHostPort peer with
    | none => .refuse
    | some hp =>
      match N.parseAddr hp.1 with
      | none => .refuse
      | some ip => .policy (rangePolicy N cfg ip)

/-- the old code believed the PROXY header of a denied link-local peer; the code as it is does not -/
theorem denied_peer_believed_by_old_code :
    connPolicyOld toyNetZ witPP b!"tcp" b!"[fe80::1%eth0]:1" = .policy .use ∧
    connPolicy toyNetZ witPP b!"tcp" b!"[fe80::1%eth0]:1" = .policy .reject ∧
    wrapAccept toyNetZ witPP b!"tcp" b!"[fe80::1%eth0]:1" (some b!"6.6.6.6:7777") = some ⟨b!"[fe80::1%eth0]:1", false⟩ := by
  decide

/-! ### FastCGI: what the environment loop did before ambiguous field names were dropped

fastcgi.go `buildEnv` used to write every request field as `HTTP_<NAME>` ('-' and ' ' replaced by '_') in
Go map order: `X_Forwarded_For` (a valid field name) and the proxy's own `X-Forwarded-For` both became
`HTTP_X_FORWARDED_FOR` and the iteration order decided which one the PHP application saw.  Repaired (fields
spelled with '_' or ' ' are no longer passed on); the old behaviour is kept as a non-vacuity fact, its
protocol line in corpus/C10/fixed-findings.txt. -/

/-- the loop as it was: every field with that CGI name is a candidate -/
def envCandidatesOld (h : Header) (name : Bytes) : List Bytes :=
  (h.filter (fun e => envName e.1 = name)).map envValueOf

/-- with the old loop the untrusted client's `X_Forwarded_For: 6.6.6.6` was a possible value of
    HTTP_X_FORWARDED_FOR next to the connection's 1.2.3.4; now only the latter is -/
theorem fastcgi_underscore_twin_won_in_old_code :
    (prepareRequest toyNet { witCfg with omitXFF := false } witConn false
        (fromWire [(b!"X_Forwarded_For", b!"6.6.6.6")])).map (fun h => (envCandidatesOld h envXFF, envCandidates h envXFF)) =
      some ([b!"1.2.3.4", b!"6.6.6.6"], [b!"1.2.3.4"]) := by decide

/-! ### templates' httpInclude: what the virtual sub-request was attributed before it got the outer peer's address

`funcHTTPInclude` used to send its virtual request with `RemoteAddr = "127.0.0.1:10000"` and a clone of the
outer request's header: when loopback was a trusted proxy (`private_ranges`) the sub-request was attributed
the address an untrusted outer peer had written into X-Forwarded-For.  Repaired (the virtual request carries
the outer request's remote address); the old behaviour is kept as a non-vacuity fact, its protocol line in
corpus/C10/fixed-findings.txt. -/

def toyNetL : Net Bytes Bytes where
  parseAddr := fun s => if [b!"127.0.0.1", b!"8.8.8.8", b!"6.6.6.6"].contains s then some s else none
  contains := fun p a => p.isPrefixOf a
  toString := fun a => a

/-- `trusted_proxies 127.0.0.1` -/
def witInc : Cfg Bytes :=
  { srvTrusted := some [b!"127."], clientIPHeaders := none, strict := 0, handlerTrusted := [],
    omitXFF := false, omitXFP := false, omitXFH := false }

/-- the virtual request as it was: always from the dummy loopback address -/
def serveIncludeOld (cfg : Cfg Bytes) (c : Conn) (wire : List (Bytes × Bytes)) : Out :=
  serve toyNetL cfg { c with remoteAddr := virtualRemote } wire

/-- the old code attributed the untrusted 8.8.8.8's sub-request the 6.6.6.6 it claimed; now it is 8.8.8.8 -/
theorem include_honoured_untrusted_headers_in_old_code :
    (serveIncludeOld witInc ⟨b!"8.8.8.8:1", false, b!"a", false⟩ [(b!"X-Forwarded-For", b!"6.6.6.6")]).clientIP = b!"6.6.6.6" ∧
    (serveInclude toyNetL witInc ⟨b!"8.8.8.8:1", false, b!"a", false⟩ [(b!"X-Forwarded-For", b!"6.6.6.6")]).clientIP = b!"8.8.8.8" := by
  decide

/-- trusted_proxies 10.0.0.0/8, default client_ip_headers -/
def exCfgW : Cfg Bytes :=
  { srvTrusted := some [b!"10."], clientIPHeaders := none, strict := 0, handlerTrusted := [],
    omitXFF := false, omitXFP := false, omitXFH := false }
def exTrustedW : Conn := ⟨b!"10.0.0.1:443", false, b!"example.com", false⟩

/-! ### why the attribution must be per request: a per-connection cache breaks it

`determineTrustedProxy` returns two things: whether the PEER is a trusted proxy (a fact of the connection)
and the client address (a fact of the REQUEST's headers).  Remembering its result on the connection — run it
for the first request, reuse it for the following ones — keeps the first but breaks the second. -/

/-- the requests of a connection with the first request's `(trusted, clientIP)` remembered on the connection -/
def serveConnectionCached (N : Net Bytes Bytes) (cfg : Cfg Bytes) (c : Conn) : List (List (Bytes × Bytes)) → List Out
  | [] => []
  | w :: rest =>
    serve N cfg c w :: rest.map (fun w' =>
      { serve N cfg c w' with clientIP := (serve N cfg c w).clientIP, trusted := (serve N cfg c w).trusted })

/-- with such a cache the second request on a trusted proxy's connection is attributed the FIRST request's
    client, whatever its own X-Forwarded-For says; per request it is attributed its own -/
theorem per_connection_cache_breaks_history_independence :
    (serveConnectionCached toyNet exCfgW exTrustedW [[(b!"X-Forwarded-For", b!"9.9.9.9")], [(b!"X-Forwarded-For", b!"8.8.8.8")], []]).map (·.clientIP) =
      [b!"9.9.9.9", b!"9.9.9.9", b!"9.9.9.9"] ∧
    (serveConnection toyNet exCfgW exTrustedW [[(b!"X-Forwarded-For", b!"9.9.9.9")], [(b!"X-Forwarded-For", b!"8.8.8.8")], []]).map (·.clientIP) =
      [b!"9.9.9.9", b!"8.8.8.8", b!"10.0.0.1"] := by decide

end CaddyModel.C10
