import CaddyModel.C10.Props
open CaddyModel.C10
#print axioms untrusted_serve_eq
#print axioms untrusted_noninterference
#print axioms untrusted_noninterference_full_fails
#print axioms untrusted_noninterference_partial
#print axioms untrusted_forwarding_headers_irrelevant
#print axioms untrusted_values
#print axioms untrusted_sent_values_are_connection_values
#print axioms trusted_flag_iff
#print axioms untrusted_client_ip
#print axioms unparsable_remote_strips_headers
#print axioms non_ip_remote_refused
#print axioms trusted_leftmost_valid
#print axioms strict_rightmost_untrusted
#print axioms leftmost_is_leftmost
#print axioms rightmost_is_rightmost
#print axioms strict_never_picks_trusted
#print axioms client_ip_is_peer_or_header_element
#print axioms elements_are_per_value
#print axioms trusted_fields
#print axioms trusted_prior_kept_and_appended
#print axioms xff_appended
#print axioms trimSpace_never_runs_out_of_fuel
