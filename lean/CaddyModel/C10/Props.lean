/-
C10 — property theorems (kept apart from the helper lemmas).

Statement: the client address Caddy attributes to a request, and the X-Forwarded-For, -Proto
and -Host values it sends upstream, are derived from the actual connection unless the immediate
peer is a configured trusted proxy; nothing an untrusted peer puts in forwarding headers
influences them.  With a trusted peer the client address is the left-most valid address of the
configured headers or, in strict mode, the right-most address that is not itself trusted, and
prior forwarding values are kept and appended to.

Every theorem is for ALL `Net` (any ParseAddr / Prefix.Contains / Addr.String), all
configurations, all remote addresses and all header lists of any length and content.
-/
import CaddyModel.C10.Witness
import CaddyModel.C10.Paths

namespace CaddyModel.C10

section
variable {Addr Prefix : Type}

/-! ## untrusted peer -/

/-- **refinement.** For a peer that is not a configured trusted proxy the whole outcome (client
    address, trusted flag, the three X-Forwarded-* fields) is `untrustedOut`: a function of the
    connection, the configuration and — only when an earlier handler pre-set a field to nil — of
    whether the `Connection` header names that field.  It does not receive the headers. -/
theorem untrusted_serve_eq (N : Net Addr Prefix) (cfg : Cfg Prefix) (c : Conn) (w : List (Bytes × Bytes))
    (hu : peerTrusted N cfg c = false) :
    serve N cfg c w =
      untrustedOut N cfg c (connectionDrops w kXFF) (connectionDrops w kXFP) (connectionDrops w kXFH) := by
  have hs : serverTrusts N cfg c = false := by
    unfold peerTrusted at hu; cases h : serverTrusts N cfg c <;> simp_all
  have hh : handlerTrusts N cfg c = false := by
    unfold peerTrusted at hu; cases h : handlerTrusts N cfg c <;> simp_all
  unfold serve
  rw [determine_untrusted N cfg c _ hs]
  unfold prepareRequest addForwardedHeaders untrustedOut peerAddr
  unfold handlerTrusts peerAddr at hh
  cases hr : remoteHost c with
  | none =>
    simp [fwdOf, hGet_hDel, kXFF_ne_kXFP, kXFF_ne_kXFH, kXFP_ne_kXFH, strOr]
  | some host =>
    simp only [hr] at hh ⊢
    cases hp : N.parseAddr host with
    | none => simp [strOr]
    | some ip =>
      simp only [hp] at hh ⊢
      simp only [hh, Bool.or_self, Option.map_some, fwdOf_setForwarded,
        hGet_prepared cfg w kXFF cfg.omitXFF hop_not_kXFF (hGet_applyOmit_xff cfg _),
        hGet_prepared cfg w kXFP cfg.omitXFP hop_not_kXFP (hGet_applyOmit_xfp cfg _),
        hGet_prepared cfg w kXFH cfg.omitXFH hop_not_kXFH (hGet_applyOmit_xfh cfg _),
        specField_untrusted, strOr]

/-- **non-interference.** (The usual case: no field was pre-set to nil.)  Whatever an untrusted
    peer puts into its request headers — forwarding headers, `Connection`, anything, in any number
    and shape — the client address, the trusted flag and the X-Forwarded-For, -Proto and -Host fields
    sent upstream are the same. -/
theorem untrusted_noninterference (N : Net Addr Prefix) (cfg : Cfg Prefix) (c : Conn)
    (w w' : List (Bytes × Bytes)) (hu : peerTrusted N cfg c = false)
    (h1 : cfg.omitXFF = false) (h2 : cfg.omitXFP = false) (h3 : cfg.omitXFH = false) :
    serve N cfg c w = serve N cfg c w' := by
  rw [untrusted_serve_eq N cfg c w hu, untrusted_serve_eq N cfg c w' hu]
  unfold untrustedOut
  simp [h1, h2, h3]

/- Stronger than C10 (ALL headers, `Connection` included, and a third-party handler's nil convention):
     ∀ N cfg c w w', peerTrusted N cfg c = false → serve N cfg c w = serve N cfg c w'
   does not hold in the model: `untrusted_noninterference_full_fails` (Witness.lean).  The clause of
   C10 itself — forwarding headers have no influence — is `untrusted_forwarding_headers_irrelevant`
   below and holds without exception. -/

/-- the two header lists agree on whether `Connection` names each pre-set-to-nil field -/
def omitDropsAgree (cfg : Cfg Prefix) (w w' : List (Bytes × Bytes)) : Bool :=
  (!cfg.omitXFF || connectionDrops w kXFF == connectionDrops w' kXFF) &&
  (!cfg.omitXFP || connectionDrops w kXFP == connectionDrops w' kXFP) &&
  (!cfg.omitXFH || connectionDrops w kXFH == connectionDrops w' kXFH)

/-- **non-interference, partial.** With pre-set-to-nil fields the outcome is still the same for any
    two header lists outside the explicit, decidable exclusion `omitDropsAgree = false`. -/
theorem untrusted_noninterference_partial (N : Net Addr Prefix) (cfg : Cfg Prefix) (c : Conn)
    (w w' : List (Bytes × Bytes)) (hu : peerTrusted N cfg c = false)
    (hx : omitDropsAgree cfg w w' = true) :
    serve N cfg c w = serve N cfg c w' := by
  rw [untrusted_serve_eq N cfg c w hu, untrusted_serve_eq N cfg c w' hu]
  unfold omitDropsAgree at hx
  unfold untrustedOut
  cases h1 : cfg.omitXFF <;> cases h2 : cfg.omitXFP <;> cases h3 : cfg.omitXFH <;> simp_all

/-- **forwarding headers are irrelevant** (the statement's own wording), for every configuration
    including pre-set-to-nil fields: two requests of an untrusted peer that carry the same
    `Connection` fields — and differ arbitrarily in X-Forwarded-*, Forwarded, X-Real-IP and every
    other field — have the same outcome. -/
theorem untrusted_forwarding_headers_irrelevant (N : Net Addr Prefix) (cfg : Cfg Prefix) (c : Conn)
    (w w' : List (Bytes × Bytes)) (hu : peerTrusted N cfg c = false)
    (hc : wireValues w kConnection = wireValues w' kConnection) :
    serve N cfg c w = serve N cfg c w' := by
  rw [untrusted_serve_eq N cfg c w hu, untrusted_serve_eq N cfg c w' hu]
  unfold connectionDrops
  rw [connectionTokens_fromWire, connectionTokens_fromWire, hc]

/-- **untrusted values.** The values are the connection's: client address = the socket address
    (canonical form), X-Forwarded-For = the socket host (zone cut), X-Forwarded-Proto from TLS,
    X-Forwarded-Host = the request's Host; one value each. -/
theorem untrusted_values (N : Net Addr Prefix) (cfg : Cfg Prefix) (c : Conn) (w : List (Bytes × Bytes))
    (host : Bytes) (ip : Addr)
    (hu : peerTrusted N cfg c = false) (hr : remoteHost c = some host) (hp : N.parseAddr host = some ip)
    (h1 : cfg.omitXFF = false) (h2 : cfg.omitXFP = false) (h3 : cfg.omitXFH = false) :
    serve N cfg c w =
      ⟨N.toString ip, false,
       some ⟨some (some [host]), some (some [if c.tls then sHttps else sHttp]), some (some [c.host])⟩⟩ := by
  rw [untrusted_serve_eq N cfg c w hu]
  unfold untrustedOut protoOf
  simp [hr, hp, h1, h2, h3]

/-- a field that is sent for an untrusted peer never carries anything but the connection's value,
    pre-set-to-nil fields included -/
theorem untrusted_sent_values_are_connection_values (N : Net Addr Prefix) (cfg : Cfg Prefix) (c : Conn)
    (w : List (Bytes × Bytes)) (f : Fwd) (hu : peerTrusted N cfg c = false)
    (hf : (serve N cfg c w).fwd = some f) :
    (∀ vs, f.xff = some (some vs) → ∃ host, remoteHost c = some host ∧ vs = [host]) ∧
    (∀ vs, f.xfp = some (some vs) → vs = [protoOf c]) ∧
    (∀ vs, f.xfh = some (some vs) → vs = [c.host]) := by
  rw [untrusted_serve_eq N cfg c w hu] at hf
  unfold untrustedOut at hf
  cases hr : remoteHost c with
  | none =>
    simp only [hr, Option.some.injEq] at hf
    subst hf
    simp
  | some host =>
    simp only [hr] at hf
    cases hp : N.parseAddr host with
    | none => simp [hp] at hf
    | some ip =>
      simp only [hp, Option.some.injEq] at hf
      subst hf
      refine ⟨?_, ?_, ?_⟩ <;> intro vs hvs <;> simp only at hvs <;> split at hvs <;> simp_all

/-- the trusted flag is exactly "the peer's address is in a configured server-level range" -/
theorem trusted_flag_iff (N : Net Addr Prefix) (cfg : Cfg Prefix) (c : Conn) (w : List (Bytes × Bytes)) :
    (serve N cfg c w).trusted = serverTrusts N cfg c := by
  cases hs : serverTrusts N cfg c
  · simp [serve, determine_untrusted N cfg c _ hs]
  · obtain ⟨ip, ranges, _, _, _, hd⟩ := determine_trusted N cfg c (fromWire w) hs
    simp [serve, hd]

/-- the client address of a peer that is not server-trusted never depends on headers (whether or
    not reverse_proxy has trusted ranges of its own) -/
theorem untrusted_client_ip (N : Net Addr Prefix) (cfg : Cfg Prefix) (c : Conn) (w : List (Bytes × Bytes))
    (hs : serverTrusts N cfg c = false) :
    (serve N cfg c w).clientIP = strOr N [] (peerAddr N c) := by
  simp [serve, determine_untrusted N cfg c _ hs]

/-! ## malformed remote address -/

/-- `r.RemoteAddr` is not `host:port`: no client address, not trusted, and the three
    X-Forwarded-* fields are REMOVED from the upstream request whatever the peer sent -/
theorem unparsable_remote_strips_headers (N : Net Addr Prefix) (cfg : Cfg Prefix) (c : Conn)
    (w : List (Bytes × Bytes)) (hr : splitHostPort c.remoteAddr = none) :
    serve N cfg c w = ⟨[], false, some ⟨none, none, none⟩⟩ := by
  have hr' : remoteHost c = none := by unfold remoteHost; rw [hr]
  have hu : peerTrusted N cfg c = false := by
    simp [peerTrusted, serverTrusts, handlerTrusts, peerAddr, hr']
  rw [untrusted_serve_eq N cfg c w hu]
  simp [untrustedOut, hr']

/-- `host:port` whose host is not an IP address: no client address, and reverse_proxy refuses the
    request (nothing is sent upstream) -/
theorem non_ip_remote_refused (N : Net Addr Prefix) (cfg : Cfg Prefix) (c : Conn)
    (w : List (Bytes × Bytes)) (host : Bytes) (hr : remoteHost c = some host) (hp : N.parseAddr host = none) :
    serve N cfg c w = ⟨[], false, none⟩ := by
  have hu : peerTrusted N cfg c = false := by
    simp [peerTrusted, serverTrusts, handlerTrusts, peerAddr, hr, hp]
  rw [untrusted_serve_eq N cfg c w hu]
  simp [untrustedOut, hr, hp]

/-! ## trusted peer: which address becomes the client address -/

/-- **left-most valid.** Server-trusted peer, non-strict mode: the client address is the left-most
    element that parses as an address among all comma-separated elements of all values of the
    configured headers (configured order, then wire order); the peer itself if there is none. -/
theorem trusted_leftmost_valid (N : Net Addr Prefix) (cfg : Cfg Prefix) (c : Conn) (w : List (Bytes × Bytes))
    (ht : serverTrusts N cfg c = true) (hs : cfg.strict = 0) :
    ∃ ip, peerAddr N c = some ip ∧
      (serve N cfg c w).clientIP =
        strOr N (N.toString ip)
          (leftmostValid N ((configuredValues w (effectiveHeaders cfg)).flatMap (splitOn comma))) := by
  obtain ⟨ip, ranges, hip, _, _, hd⟩ := determine_trusted N cfg c (fromWire w) ht
  refine ⟨ip, hip, ?_⟩
  simp only [serve, hd, hs, Nat.lt_irrefl, if_false]
  rw [trustedReal_eq, collectValues_fromWire]
  cases hv : configuredValues w (effectiveHeaders cfg) with
  | nil => simp [leftmostValid, strOr]
  | cons v vs =>
    rw [elements_eq_flatMap (v :: vs) (by simp)]
    simp

/-- **right-most untrusted.** Server-trusted peer, strict mode: the client address is, in the first
    configured header that has one, the right-most element that parses as an address outside the
    trusted ranges; the peer itself if no header has one. -/
theorem strict_rightmost_untrusted (N : Net Addr Prefix) (cfg : Cfg Prefix) (c : Conn) (w : List (Bytes × Bytes))
    (ht : serverTrusts N cfg c = true) (hs : cfg.strict > 0) :
    ∃ ip ranges, peerAddr N c = some ip ∧ cfg.srvTrusted = some ranges ∧
      (serve N cfg c w).clientIP =
        strOr N (N.toString ip)
          ((effectiveHeaders cfg).findSome?
            (fun name => rightmostUntrusted N ranges (elements (wireValues w (canonKey name))))) := by
  obtain ⟨ip, ranges, hip, hr, _, hd⟩ := determine_trusted N cfg c (fromWire w) ht
  refine ⟨ip, ranges, hip, hr, ?_⟩
  simp only [serve, hd, hs, if_true]
  rw [strictUntrusted_eq]
  unfold strictChoice
  simp only [hValues_fromWire]

/-- what "left-most valid" means, by position -/
theorem leftmost_is_leftmost (N : Net Addr Prefix) (parts : List Bytes) (a : Addr) :
    leftmostValid N parts = some a ↔
      ∃ i p, parts[i]? = some p ∧ partAddr N p = some a ∧
        ∀ (j : Nat) (q : Bytes), j < i → parts[j]? = some q → partAddr N q = none :=
  leftmostValid_some_iff N parts a

/-- what "right-most untrusted" means, by position -/
theorem rightmost_is_rightmost (N : Net Addr Prefix) (ranges : List Prefix) (parts : List Bytes) (a : Addr) :
    rightmostUntrusted N ranges parts = some a ↔
      ∃ i p, parts[i]? = some p ∧ untrustedAddr N ranges p = some a ∧
        ∀ (j : Nat) (q : Bytes), i < j → parts[j]? = some q → untrustedAddr N ranges q = none :=
  rightmostUntrusted_some_iff N ranges parts a

/-- in strict mode a trusted address is never chosen from a header: the client address is the
    peer's or an address outside the trusted ranges -/
theorem strict_never_picks_trusted (N : Net Addr Prefix) (ranges : List Prefix) (parts : List Bytes) (a : Addr)
    (h : rightmostUntrusted N ranges parts = some a) : isTrusted N ranges a = false := by
  obtain ⟨_, p, _, hp, _⟩ := (rightmostUntrusted_some_iff N ranges parts a).mp h
  unfold untrustedAddr at hp
  cases hpa : partAddr N p with
  | none => simp [hpa] at hp
  | some b =>
    simp only [hpa] at hp
    cases hb : isTrusted N ranges b
    · simp [hb] at hp; subst hp; exact hb
    · simp [hb] at hp

/-- **containment.** Whatever the configuration and the headers, the client address is the peer's own
    address (or empty when the socket address is unusable) or the textual form of an address that
    parses from one comma-separated element of one configured header — never anything else. -/
theorem client_ip_is_peer_or_header_element (N : Net Addr Prefix) (cfg : Cfg Prefix) (c : Conn)
    (w : List (Bytes × Bytes)) :
    (serve N cfg c w).clientIP = strOr N [] (peerAddr N c) ∨
    ∃ name p a, name ∈ effectiveHeaders cfg ∧ p ∈ elements (wireValues w (canonKey name)) ∧
      partAddr N p = some a ∧ (serve N cfg c w).clientIP = N.toString a := by
  cases hs : serverTrusts N cfg c with
  | false => exact Or.inl (untrusted_client_ip N cfg c w hs)
  | true =>
    by_cases hst : cfg.strict = 0
    · obtain ⟨ip, hip, hc⟩ := trusted_leftmost_valid N cfg c w hs hst
      cases hl : leftmostValid N ((configuredValues w (effectiveHeaders cfg)).flatMap (splitOn comma)) with
      | none => left; rw [hc, hl, hip]; rfl
      | some a =>
        right
        obtain ⟨i, p, hp, hpa, _⟩ := (leftmostValid_some_iff N _ a).mp hl
        have hmem := List.mem_of_getElem? hp
        obtain ⟨v, hv, hpv⟩ := List.mem_flatMap.mp hmem
        unfold configuredValues at hv
        obtain ⟨name, hname, hvn⟩ := List.mem_flatMap.mp hv
        refine ⟨name, p, a, hname, ?_, hpa, by rw [hc, hl]; rfl⟩
        rw [elements_eq_flatMap _ (List.ne_nil_of_mem hvn)]
        exact List.mem_flatMap.mpr ⟨v, hvn, hpv⟩
    · obtain ⟨ip, ranges, hip, _, hc⟩ := strict_rightmost_untrusted N cfg c w hs (Nat.pos_of_ne_zero hst)
      cases hl : (effectiveHeaders cfg).findSome?
          (fun name => rightmostUntrusted N ranges (elements (wireValues w (canonKey name)))) with
      | none => left; rw [hc, hl, hip]; rfl
      | some a =>
        right
        obtain ⟨name, hname, hr⟩ := List.exists_of_findSome?_eq_some hl
        obtain ⟨i, p, hp, hpa, _⟩ := (rightmostUntrusted_some_iff N ranges _ a).mp hr
        refine ⟨name, p, a, hname, List.mem_of_getElem? hp, ?_, by rw [hc, hl]; rfl⟩
        unfold untrustedAddr at hpa
        cases hpp : partAddr N p with
        | none => simp [hpp] at hpa
        | some b =>
          simp only [hpp] at hpa
          split at hpa
          · cases hpa
          · cases hpa; rfl

/-- join-then-split is element-wise split: the elements are those of each value, in order -/
theorem elements_are_per_value (vs : List Bytes) (h : vs ≠ []) :
    elements vs = vs.flatMap (splitOn comma) := elements_eq_flatMap vs h

/-! ## trusted peer: prior forwarding values are kept and appended to -/

/-- **general form.** A peer trusted at server OR handler level: every forwarding field sent upstream
    is `specField true …` of what was there when `addForwardedHeaders` ran (`fieldBefore`). -/
theorem trusted_fields (N : Net Addr Prefix) (cfg : Cfg Prefix) (c : Conn) (w : List (Bytes × Bytes))
    (ht : peerTrusted N cfg c = true) :
    ∃ host, remoteHost c = some host ∧
      (serve N cfg c w).fwd = some
        ⟨specField true keepXFF host (fieldBefore cfg.omitXFF (connectionDrops w kXFF) (wireValues w kXFF)),
         specField true keepLast (protoOf c) (fieldBefore cfg.omitXFP (connectionDrops w kXFP) (wireValues w kXFP)),
         specField true keepLast c.host (fieldBefore cfg.omitXFH (connectionDrops w kXFH) (wireValues w kXFH))⟩ := by
  unfold peerTrusted at ht
  cases hr : remoteHost c with
  | none => simp [serverTrusts, handlerTrusts, peerAddr, hr] at ht
  | some host =>
    refine ⟨host, rfl, ?_⟩
    cases hp : N.parseAddr host with
    | none => simp [serverTrusts, handlerTrusts, peerAddr, hr, hp] at ht
    | some ip =>
      have hflag : ((serve N cfg c w).trusted || isTrusted N cfg.handlerTrusted ip) = true := by
        rw [trusted_flag_iff]
        have : handlerTrusts N cfg c = isTrusted N cfg.handlerTrusted ip := by
          simp [handlerTrusts, peerAddr, hr, hp]
        rw [← this]; exact ht
      unfold serve at hflag ⊢
      simp only [prepareRequest, addForwardedHeaders, hr, hp, Option.map_some, hflag, fwdOf_setForwarded,
        hGet_prepared cfg w kXFF cfg.omitXFF hop_not_kXFF (hGet_applyOmit_xff cfg _),
        hGet_prepared cfg w kXFP cfg.omitXFP hop_not_kXFP (hGet_applyOmit_xfp cfg _),
        hGet_prepared cfg w kXFH cfg.omitXFH hop_not_kXFH (hGet_applyOmit_xfh cfg _)]

/-- **prior kept and appended.** Trusted peer, nothing pre-set to nil, `Connection` does not name the
    forwarding fields: X-Forwarded-For is all prior values joined by ", " with the peer's address
    appended; X-Forwarded-Proto and -Host keep their last prior value if it is not empty. -/
theorem trusted_prior_kept_and_appended (N : Net Addr Prefix) (cfg : Cfg Prefix) (c : Conn)
    (w : List (Bytes × Bytes)) (ht : peerTrusted N cfg c = true)
    (h1 : cfg.omitXFF = false) (h2 : cfg.omitXFP = false) (h3 : cfg.omitXFH = false)
    (d1 : connectionDrops w kXFF = false) (d2 : connectionDrops w kXFP = false)
    (d3 : connectionDrops w kXFH = false) :
    ∃ host, remoteHost c = some host ∧
      (serve N cfg c w).fwd = some
        ⟨some (some [keepXFF (wireValues w kXFF) host]),
         some (some [keepLast (wireValues w kXFP) (protoOf c)]),
         some (some [keepLast (wireValues w kXFH) c.host])⟩ := by
  obtain ⟨host, hr, hf⟩ := trusted_fields N cfg c w ht
  refine ⟨host, hr, ?_⟩
  rw [hf, h1, h2, h3, d1, d2, d3,
    specField_trusted_plain keepXFF host _ (by simp [keepXFF, joinWith]),
    specField_trusted_plain keepLast (protoOf c) _ rfl,
    specField_trusted_plain keepLast c.host _ rfl]

/-- appended-to, spelled out: with at least one non-empty prior X-Forwarded-For value the field sent
    upstream is `prior₁, prior₂, …, peer` -/
theorem xff_appended (prior : List Bytes) (host : Bytes) (h : (joinWith commaSpace prior).isEmpty = false) :
    keepXFF prior host = joinWith commaSpace prior ++ commaSpace ++ host := by
  simp [keepXFF, h]

/-! ## what consumes the attributed address -/

/-- the matchers' loop is "some configured range contains the address and accepts its zone" -/
theorem matcher_loop_is_any (N : Net Addr Prefix) (a : Addr) (z : Bytes) (ranges : List (MRange Prefix)) :
    matchCidrZones N a z ranges = ranges.any (fun r => N.contains r.pfx a && zoneOK r z) :=
  matchCidrZones_eq_any N a z ranges

/-- **the `client_ip` matcher sees the attributed address.** Whatever address `a` was attributed
    (the var holds `a.String()`), the matcher matches iff a configured range without zone filter
    contains `a` — it does not look at anything else of the request. -/
theorem client_ip_matcher_sees_attributed_address (N : Net Addr Prefix) (hN : PrintsParseBack N)
    (ranges : List (MRange Prefix)) (a : Addr) :
    matchAddress N ranges (N.toString a) =
      ranges.any (fun r => N.contains r.pfx a && decide (r.zone = [])) := by
  unfold matchAddress
  rw [parseIPZone_printed N hN a]
  simp only [matchCidrZones_eq_any, zoneOK]
  congr 1
  funext r
  by_cases hz : r.zone = []
  · simp [hz]
  · have : ¬ [] = r.zone := fun h => hz h.symm
    simp [hz, this]

/-- **the `remote_ip` matcher sees the peer.** For a `host:port` socket address it parses exactly the
    address `determineTrustedProxy` parses (`peerAddr`), and matches iff a configured range contains
    it and accepts the socket address's zone; headers are not an input. -/
theorem remote_ip_matcher_sees_the_peer (N : Net Addr Prefix) (ranges : List (MRange Prefix)) (c : Conn)
    (hp : Bytes × Bytes) (hr : splitHostPort c.remoteAddr = some hp) :
    matchAddress N ranges c.remoteAddr =
      match peerAddr N c with
      | some a => ranges.any (fun r => N.contains r.pfx a && zoneOK r (ipAndZone hp.1).2)
      | none => false := by
  unfold matchAddress parseIPZone hostOrAll peerAddr remoteHost
  simp only [hr, ipAndZone_fst]
  cases N.parseAddr (cutZone hp.1) with
  | none => rfl
  | some a => simp [matchCidrZones_eq_any]

/-- the var holds "" or what `Addr.String` printed for some address -/
theorem client_ip_is_empty_or_printed (N : Net Addr Prefix) (cfg : Cfg Prefix) (c : Conn)
    (w : List (Bytes × Bytes)) :
    (serve N cfg c w).clientIP = [] ∨ ∃ a, (serve N cfg c w).clientIP = N.toString a := by
  rcases client_ip_is_peer_or_header_element N cfg c w with h | ⟨_, _, a, _, _, _, h⟩
  · cases hp : peerAddr N c with
    | none => left; rw [h, hp]; rfl
    | some ip => right; exact ⟨ip, by rw [h, hp]; rfl⟩
  · exact Or.inr ⟨a, h⟩

/-- **every consumer reads the attributed address.** The `{http.vars.client_ip}` placeholder, templates'
    `{{.ClientIP}}` and the access log's `client_ip` field are the var; the PROXY-protocol address sent to the upstream is the
    var's address (invalid exactly when the var is empty). -/
theorem consumers_read_the_attributed_address (N : Net Addr Prefix) (hN : PrintsParseBack N)
    (cfg : Cfg Prefix) (ranges : List (MRange Prefix)) (c : Conn) (w : List (Bytes × Bytes)) :
    (serveConsumers N cfg ranges c w).placeholder = (serve N cfg c w).clientIP ∧
    (serveConsumers N cfg ranges c w).template = (serve N cfg c w).clientIP ∧
    (serveConsumers N cfg ranges c w).logField = (serve N cfg c w).clientIP ∧
    (serveConsumers N cfg ranges c w).proxyProto =
      (if (serve N cfg c w).clientIP = [] then none else some (serve N cfg c w).clientIP) := by
  refine ⟨rfl, ?_, rfl, ?_⟩
  · unfold serveConsumers consumers hostOrAll
    simp only
    rcases client_ip_is_empty_or_printed N cfg c w with h | ⟨a, h⟩
    · rw [h]; decide
    · rw [h, hN.noPort a]
  unfold serveConsumers consumers
  simp only
  rcases client_ip_is_empty_or_printed N cfg c w with h | ⟨a, h⟩
  · rw [h, hN.emptyInvalid]; rfl
  · rw [h, hN.back a]
    by_cases he : N.toString a = []
    · have := hN.back a
      rw [he, hN.emptyInvalid] at this
      cases this
    · simp [he]

/-- **consumers of an untrusted peer's request ignore its headers**: placeholder, log field, both
    matchers and the PROXY-protocol address are the same for any two header lists. -/
theorem untrusted_consumers_noninterference (N : Net Addr Prefix) (cfg : Cfg Prefix)
    (ranges : List (MRange Prefix)) (c : Conn) (w w' : List (Bytes × Bytes))
    (hs : serverTrusts N cfg c = false) :
    serveConsumers N cfg ranges c w = serveConsumers N cfg ranges c w' := by
  unfold serveConsumers
  rw [untrusted_client_ip N cfg c w hs, untrusted_client_ip N cfg c w' hs]

/-- **0-RTT data never matches.** While the TLS handshake is not complete the peer's address cannot be
    verified: both matchers refuse to match, whatever the ranges, the address and the headers. -/
theorem early_data_never_matches (N : Net Addr Prefix) (cfg : Cfg Prefix) (ranges : List (MRange Prefix))
    (c : Conn) (w : List (Bytes × Bytes)) (he : c.earlyData = true) :
    (serveConsumers N cfg ranges c w).clientMatch = false ∧
    (serveConsumers N cfg ranges c w).remoteMatch = false := by
  simp [serveConsumers, consumers, he]

/-- **the sticky cookie's `Secure` attribute of an untrusted peer comes from the connection.**
    Under the `cookie` selection policy a peer that is not a server-level trusted proxy gets
    `Secure` iff its own connection is TLS — whatever X-Forwarded-Proto (or anything else) it sent. -/
theorem untrusted_cookie_secure_from_connection (N : Net Addr Prefix) (cfg : Cfg Prefix) (c : Conn)
    (w : List (Bytes × Bytes)) (hs : serverTrusts N cfg c = false) (b : Bool)
    (h : cookieSecure N cfg c w = some b) : b = c.tls := by
  unfold cookieSecure at h
  rw [determine_untrusted N cfg c _ hs] at h
  cases hp : prepareRequest N cfg c false (applyOmit cfg (fromWire w)) with
  | none => simp [hp] at h
  | some hdr =>
    simp only [hp, Option.map_some, Option.some.injEq] at h
    rw [← h]
    simp [cookieSecureOf]

/-- for a trusted proxy the attribute may also come from the X-Forwarded-Proto that is SENT upstream
    (its last value being `https`) — never from anything else -/
theorem cookie_secure_spec (N : Net Addr Prefix) (cfg : Cfg Prefix) (c : Conn) (w : List (Bytes × Bytes))
    (b : Bool) (h : cookieSecure N cfg c w = some b) (hb : b = true) :
    c.tls = true ∨ (serverTrusts N cfg c = true ∧
      ∃ f vs, (serve N cfg c w).fwd = some f ∧ f.xfp = some (some vs) ∧ vs.getLast? = some sHttps) := by
  unfold cookieSecure at h
  cases hp : prepareRequest N cfg c (determineTrustedProxy N cfg c (fromWire w)).1 (applyOmit cfg (fromWire w)) with
  | none => simp [hp] at h
  | some hdr =>
    simp only [hp, Option.map_some, Option.some.injEq] at h
    subst hb
    unfold cookieSecureOf at h
    cases ht : c.tls with
    | true => exact Or.inl rfl
    | false =>
      right
      simp only [ht, Bool.false_or, Bool.and_eq_true, decide_eq_true_eq] at h
      obtain ⟨⟨h1, h2⟩, h3⟩ := h
      refine ⟨by rw [← trusted_flag_iff N cfg c w]; exact h1, fwdOf hdr, ?_⟩
      unfold lastHeaderValue at h2 h3
      cases hg : hGet hdr kXFP with
      | none => simp [hg] at h2
      | some o =>
        cases o with
        | none => simp [hg] at h3; exact absurd h3.symm (by decide)
        | some vs =>
          cases vs with
          | nil => simp [hg] at h2
          | cons v vs =>
            simp only [hg] at h3
            exact ⟨v :: vs, by simp [serve, hp], by simp [fwdOf, hg], by rw [lastOf_eq_getLast?, h3]⟩

/-! ## the `Connection` header cannot make the proxy's own fields disappear -/

/-- **a client cannot smuggle `Connection: X-Forwarded-For` to have caddy's own header dropped.**
    The fields named by `Connection` (and the hop-by-hop list) are removed BEFORE `addForwardedHeaders`
    writes: for every peer with a usable address — trusted or not —, every header list (whatever its
    `Connection` fields name), if no earlier handler pre-set a field to nil then X-Forwarded-For,
    -Proto and -Host are all sent upstream, each with exactly one value. -/
theorem forwarding_fields_always_sent (N : Net Addr Prefix) (cfg : Cfg Prefix) (c : Conn)
    (w : List (Bytes × Bytes)) (ip : Addr) (hp : peerAddr N c = some ip)
    (h1 : cfg.omitXFF = false) (h2 : cfg.omitXFP = false) (h3 : cfg.omitXFH = false) :
    ∃ f, (serve N cfg c w).fwd = some f ∧ Sent f.xff ∧ Sent f.xfp ∧ Sent f.xfh := by
  cases ht : peerTrusted N cfg c with
  | true =>
    obtain ⟨host, _, hf⟩ := trusted_fields N cfg c w ht
    rw [h1, h2, h3] at hf
    exact ⟨_, hf, specField_sent _ _ _ _ _, specField_sent _ _ _ _ _, specField_sent _ _ _ _ _⟩
  | false =>
    rw [untrusted_serve_eq N cfg c w ht]
    unfold peerAddr at hp
    unfold untrustedOut
    cases hr : remoteHost c with
    | none => simp [hr] at hp
    | some host =>
      simp only [hr] at hp ⊢
      simp only [hp, h1, h2, h3, Bool.false_and, Bool.false_eq_true, if_false]
      exact ⟨_, rfl, ⟨_, rfl⟩, ⟨_, rfl⟩, ⟨_, rfl⟩⟩

/-! ## retried attempts -/

/-- **every attempt sends the same forwarding fields.** However many upstream round trips fail and are
    retried, with or without request header operations (`header_up`) configured, every request handed
    to the transport carries exactly the X-Forwarded-For, -Proto and -Host that `prepareRequest`
    computed once (`serve`), with the operator's own operations applied once.  So all theorems above
    speak about every attempt, not only the first. -/
theorem every_attempt_sends_the_same_forwarded_headers (N : Net Addr Prefix) (cfg : Cfg Prefix) (c : Conn)
    (w : List (Bytes × Bytes)) (ops : Ops) (fails : Nat) :
    serveAttempts N cfg c w ops fails =
      (serve N cfg c w).fwd.map (fun f => List.replicate (fails + 1) (opsFwd ops f)) := by
  unfold serveAttempts serve
  simp only [Option.map_map]
  congr 1
  funext h
  exact proxyLoop_eq ops h fails h (fun _ => rfl)

/-- in particular no two attempts differ, and a retried attempt of an untrusted peer's request is as
    header-blind as the first one -/
theorem retried_attempts_untrusted (N : Net Addr Prefix) (cfg : Cfg Prefix) (c : Conn)
    (w w' : List (Bytes × Bytes)) (ops : Ops) (fails : Nat) (hu : peerTrusted N cfg c = false)
    (hc : wireValues w kConnection = wireValues w' kConnection) :
    serveAttempts N cfg c w ops fails = serveAttempts N cfg c w' ops fails := by
  rw [every_attempt_sends_the_same_forwarded_headers, every_attempt_sends_the_same_forwarded_headers,
    untrusted_forwarding_headers_irrelevant N cfg c w w' hu hc]

/-- … and on every attempt of the retry loop (the operator's own `header_up -X-Forwarded-Host` aside) -/
theorem forwarding_fields_sent_on_every_attempt (N : Net Addr Prefix) (cfg : Cfg Prefix) (c : Conn)
    (w : List (Bytes × Bytes)) (ip : Addr) (ops : Ops) (fails : Nat) (hp : peerAddr N c = some ip)
    (h1 : cfg.omitXFF = false) (h2 : cfg.omitXFP = false) (h3 : cfg.omitXFH = false) :
    ∃ l, serveAttempts N cfg c w ops fails = some l ∧ l.length = fails + 1 ∧
      ∀ a, a ∈ l → Sent a.xff ∧ Sent a.xfp ∧ (ops ≠ .delXFH → Sent a.xfh) := by
  obtain ⟨f, hf, s1, s2, s3⟩ := forwarding_fields_always_sent N cfg c w ip hp h1 h2 h3
  rw [every_attempt_sends_the_same_forwarded_headers, hf]
  refine ⟨_, rfl, by simp, ?_⟩
  intro a ha
  have : a = opsFwd ops f := List.eq_of_mem_replicate ha
  subst this
  cases ops
  · exact ⟨s1, s2, fun _ => s3⟩
  · exact ⟨dropNil_sent s1, dropNil_sent s2, fun _ => dropNil_sent s3⟩
  · exact ⟨dropNil_sent s1, dropNil_sent s2, fun h => absurd rfl h⟩

/-! ## requests on one connection: history independence -/

/-- **the attribution of a request does not depend on the other requests of its connection.** On a
    keep-alive or HTTP/2 connection, request number k is attributed exactly what it would be attributed
    alone: a function of the peer, the configuration and ITS OWN headers. -/
theorem request_attribution_is_history_independent (N : Net Addr Prefix) (cfg : Cfg Prefix) (c : Conn)
    (pre post : List (List (Bytes × Bytes))) (w : List (Bytes × Bytes)) :
    (serveConnection N cfg c (pre ++ w :: post))[pre.length]? = some (serve N cfg c w) := by
  simp [serveConnection]

/-- … so two connections that agree on request k agree on its attribution, whatever came before or after -/
theorem same_request_same_attribution_on_any_connection (N : Net Addr Prefix) (cfg : Cfg Prefix) (c : Conn)
    (pre post pre' post' : List (List (Bytes × Bytes))) (w : List (Bytes × Bytes)) :
    (serveConnection N cfg c (pre ++ w :: post))[pre.length]? =
      (serveConnection N cfg c (pre' ++ w :: post'))[pre'.length]? := by
  rw [request_attribution_is_history_independent, request_attribution_is_history_independent]

/-- every request on a trusted proxy's connection gets its own left-most valid address (non-strict mode) -/
theorem every_request_gets_its_own_client (N : Net Addr Prefix) (cfg : Cfg Prefix) (c : Conn)
    (reqs : List (List (Bytes × Bytes))) (ht : serverTrusts N cfg c = true) (hs : cfg.strict = 0) :
    ∃ ip, peerAddr N c = some ip ∧
      (serveConnection N cfg c reqs).map (·.clientIP) =
        reqs.map (fun w => strOr N (N.toString ip)
          (leftmostValid N ((configuredValues w (effectiveHeaders cfg)).flatMap (splitOn comma)))) := by
  obtain ⟨ip, hip, _⟩ := trusted_leftmost_valid N cfg c [] ht hs
  refine ⟨ip, hip, ?_⟩
  simp only [serveConnection, List.map_map]
  apply List.map_congr_left
  intro w _
  obtain ⟨ip', hip', h⟩ := trusted_leftmost_valid N cfg c w ht hs
  rw [hip] at hip'
  cases hip'
  exact h

/-! ## templates' httpInclude: the virtual sub-request -/

/-- **the included sub-request is attributed like the outer request.** The virtual request carries the outer
    request's remote address and headers, so `PrepareRequest` attributes it exactly what it attributed the
    outer request — for an untrusted outer peer therefore nothing its headers say (all `untrusted_*` theorems
    apply to the sub-request).  (The code before the repair violated this:
    `include_honoured_untrusted_headers_in_old_code`, Witness.lean.) -/
theorem include_attributed_like_the_outer_request (N : Net Addr Prefix) (cfg : Cfg Prefix) (c : Conn)
    (w : List (Bytes × Bytes)) (hr : c.remoteAddr ≠ []) :
    serveInclude N cfg c w = serve N cfg c w := by
  unfold serveInclude
  have : c.remoteAddr.isEmpty = false := by
    cases h : c.remoteAddr with
    | nil => exact absurd h hr
    | cons a l => rfl
  simp [this]

/-- in particular, for an outer peer that is not a trusted proxy it does not depend on the headers -/
theorem include_attribution_untrusted (N : Net Addr Prefix) (cfg : Cfg Prefix) (c : Conn)
    (w w' : List (Bytes × Bytes)) (hr : c.remoteAddr ≠ []) (hs : serverTrusts N cfg c = false) :
    (serveInclude N cfg c w).clientIP = (serveInclude N cfg c w').clientIP := by
  rw [include_attributed_like_the_outer_request N cfg c w hr, include_attributed_like_the_outer_request N cfg c w' hr,
    untrusted_client_ip N cfg c w hs, untrusted_client_ip N cfg c w' hs]

/-! ## the FastCGI transport (php_fastcgi): what the application is told about the client -/

/-- REMOTE_ADDR / REMOTE_PORT are cut out of the socket address — no header is an input -/
theorem fastcgi_remote_addr_from_connection (N : Net Addr Prefix) (cfg : Cfg Prefix) (c : Conn)
    (w : List (Bytes × Bytes)) (ops : Ops) (e : FcgiEnv) (h : serveFcgi N cfg c w ops = some e) :
    e.remoteAddr = (fcgiRemote c.remoteAddr).1 ∧ e.remotePort = (fcgiRemote c.remoteAddr).2 := by
  unfold serveFcgi at h
  cases hp : prepareRequest N cfg c (determineTrustedProxy N cfg c (fromWire w)).1 (applyOmit cfg (fromWire w)) with
  | none => simp [hp] at h
  | some hdr => simp [hp, fcgiEnvOf] at h; subst h; exact ⟨rfl, rfl⟩

/-- no other HYPHEN-spelled field of the request has the CGI name `name` than `key` itself (decidable; holds
    for every header map net/http builds, whose keys are canonical) -/
def cgiNameUnique (h : Header) (name key : Bytes) : Bool :=
  (h.filter (fun e => envName e.1 = name && hyphenSpelled e.1)).map (fun e => e.1) == [key]

/-- **the application sees the proxy's value.** Whatever fields spelled with underscores or spaces the
    client sent (`X_Forwarded_For: …`), the CGI variable of X-Forwarded-For can only take the value
    reverse_proxy set under that field.  (The code before the repair violated this:
    `fastcgi_underscore_twin_won_in_old_code`, Witness.lean.) -/
theorem fastcgi_forwarded_variable_is_the_field (h : Header) (vs : List Bytes)
    (hg : hGet h kXFF = some (some vs)) (hu : cgiNameUnique h envXFF kXFF = true) :
    envCandidates h envXFF = [joinWith commaSpace vs] := by
  unfold cgiNameUnique at hu
  unfold envCandidates
  have hm : (kXFF, some vs) ∈ h.filter (fun e => envName e.1 = envXFF && hyphenSpelled e.1) :=
    List.mem_filter.mpr ⟨hGet_mem h kXFF (some vs) hg, by
      have : (decide (envName kXFF = envXFF) && hyphenSpelled kXFF) = true := by decide
      simpa using this⟩
  generalize h.filter (fun e => envName e.1 = envXFF && hyphenSpelled e.1) = l at hu hm
  have hl : l.map (fun e => e.1) = [kXFF] := by simpa using hu
  cases l with
  | nil => simp at hl
  | cons e rest =>
    cases rest with
    | cons e2 r2 => simp at hl
    | nil =>
      have : (kXFF, some vs) = e := by simpa using hm
      subst this
      rfl

/-- a field spelled with '_' or ' ' never reaches the application, whatever its CGI name -/
theorem fastcgi_ambiguous_fields_dropped (h : Header) (name v : Bytes) (hv : v ∈ envCandidates h name) :
    ∃ e, e ∈ h ∧ envName e.1 = name ∧ hyphenSpelled e.1 = true ∧ v = envValueOf e := by
  unfold envCandidates at hv
  obtain ⟨e, he, rfl⟩ := List.mem_map.mp hv
  obtain ⟨hm, hp⟩ := List.mem_filter.mp he
  simp only [Bool.and_eq_true, decide_eq_true_eq] at hp
  exact ⟨e, hm, hp.1, hp.2, rfl⟩

/-! ## facts regenerated from the source on every run (tools/extract → Gen/Forwarding.lean) -/

/-- `prepareRequest` strips the headers named by `Connection` and the hop-by-hop list BEFORE it calls
    `addForwardedHeaders` — read off the AST; the model's `prepareRequest` has this order. -/
theorem prepare_order_matches_source :
    Gen.prepareRequestOrder = ["removeConnectionHeaders", "hopHeadersLoop", "addForwardedHeaders"] := by decide

/-- the literal keys `addForwardedHeaders` deletes (unusable remote address) and sets are exactly the
    three forwarding fields of the model, in the model's order -/
theorem forwarded_keys_match_source :
    Gen.forwardedDelKeys = [kXFF, kXFP, kXFH] ∧ Gen.forwardedSetKeys = [kXFF, kXFP, kXFH] := by decide

/-- no forwarding field is in the source's hop-by-hop list (else `prepareRequest` would strip what a
    trusted proxy sent before it can be kept) and `Connection` itself is -/
theorem hop_headers_spare_forwarding_fields :
    kXFF ∉ hopHeaders.map canonKey ∧ kXFP ∉ hopHeaders.map canonKey ∧ kXFH ∉ hopHeaders.map canonKey ∧
    kConnection ∈ hopHeaders := by decide

/-- the default of `client_ip_headers` in the source is X-Forwarded-For -/
theorem default_client_ip_header_matches_source (cfg : Cfg Unit) (h : cfg.clientIPHeaders = none) :
    effectiveHeaders cfg = [kXFF] := by
  unfold effectiveHeaders
  rw [h]
  decide

/-! ## Caddyfile glue: the configuration is what the operator wrote -/

/-- **no silent widening of trust (server).** Every range the adapter hands to the server's static
    source was written on the LAST `trusted_proxies static` line, or is one of the source's
    `private_ranges` and that line says `private_ranges`. -/
theorem adapted_server_ranges_are_written (s : List (List Bytes)) (n : Nat) (arg : Bool)
    (c rp : List (List Bytes)) (a : Adapted) (rs : List Bytes) (r : Bytes)
    (h : adaptOptions s n arg c rp = some a) (hs : a.srvRanges = some rs) (hr : r ∈ rs) :
    ∃ l, lastLine s = some l ∧ l ∈ s ∧ (r ∈ l ∨ (tokPrivateRanges ∈ l ∧ r ∈ Gen.privateRanges)) := by
  unfold adaptOptions at h
  split at h
  · cases h
  · split at h
    · cases h
    · cases h
      simp only at hs
      cases hl : lastLine s with
      | none => simp [hl] at hs
      | some l =>
        simp only [hl, Option.map_some, Option.some.injEq] at hs
        subst hs
        exact ⟨l, rfl, lastLine_mem s l hl, expandRanges_mem l r hr⟩

/-- **… (handler).** Every range of reverse_proxy's `trusted_proxies` was written on one of its
    lines, or is a `private_ranges` member and that line says `private_ranges`. -/
theorem adapted_handler_ranges_are_written (s : List (List Bytes)) (n : Nat) (arg : Bool)
    (c rp : List (List Bytes)) (a : Adapted) (r : Bytes)
    (h : adaptOptions s n arg c rp = some a) (hr : r ∈ a.rpRanges) :
    ∃ l, l ∈ rp ∧ (r ∈ l ∨ (tokPrivateRanges ∈ l ∧ r ∈ Gen.privateRanges)) := by
  unfold adaptOptions at h
  split at h
  · cases h
  · split at h
    · cases h
    · cases h
      simp only [List.mem_flatten, List.mem_map] at hr
      obtain ⟨_, ⟨l, hl, rfl⟩, hr⟩ := hr
      exact ⟨l, hl, expandRanges_mem l r hr⟩

/-- **`client_ip_headers` keeps the written order.** The adapter succeeds on the header lines iff no
    name is written twice, and then the configured list is the written names in file order (nil —
    hence the Provision default — iff none was written). -/
theorem adapted_client_ip_headers_keep_written_order (s : List (List Bytes)) (n : Nat)
    (c rp : List (List Bytes)) :
    (c.flatten.Nodup →
      ∃ a, adaptOptions s n false c rp = some a ∧
        a.clientIPHeaders = (if c.flatten.isEmpty then none else some c.flatten)) ∧
    (¬ c.flatten.Nodup → adaptOptions s n false c rp = none) := by
  have hl := clientIPHeaderLines_eq c [] List.nodup_nil
  simp only [List.nil_append] at hl
  constructor
  · intro hn
    simp [adaptOptions, hl, hn]
  · intro hn
    simp [adaptOptions, hl, hn]

/-- strict mode is on iff `trusted_proxies_strict` was written (any number of times) -/
theorem adapted_strict_iff_written (s : List (List Bytes)) (n : Nat) (arg : Bool)
    (c rp : List (List Bytes)) (a : Adapted) (h : adaptOptions s n arg c rp = some a) :
    a.strict = true ↔ n > 0 := by
  unfold adaptOptions at h
  split at h
  · cases h
  · split at h
    · cases h
    · cases h; simp

/-- **options written for one listener stay on it.** A `servers <address> { … }` block gives its
    trusted_proxies / strict / client_ip_headers to a server iff that server listens on the address; every
    other server keeps none of them (no trust, default headers).  A block without address applies as is. -/
theorem targeted_options_stay_on_their_listener (addr : Bytes) (listen : List Bytes) (a : Adapted) :
    (listen.contains addr = false →
      (optionsFor (some addr) listen a).srvRanges = none ∧ (optionsFor (some addr) listen a).strict = false ∧
      (optionsFor (some addr) listen a).clientIPHeaders = none) ∧
    (listen.contains addr = true → optionsFor (some addr) listen a = a) ∧ optionsFor none listen a = a := by
  refine ⟨fun h => ?_, fun h => ?_, rfl⟩
  · have hn : ¬ addr ∈ listen := by simpa using h
    simp [optionsFor, hn]
  · have hm : addr ∈ listen := by simpa using h
    simp [optionsFor, hm]

/-- the `private_ranges` shortcut stands for exactly the documented private and loopback ranges
    (regenerated from internal/ranges.go) -/
theorem private_ranges_matches_documented :
    Gen.privateRanges =
      [b!"192.168.0.0/16", b!"172.16.0.0/12", b!"10.0.0.0/8", b!"127.0.0.1/8", b!"fd00::/8", b!"::1"] := by decide

/-- the `{client_ip}` shorthand of the Caddyfile stands for the var `determineTrustedProxy` fills —
    looked up in the shorthand table regenerated from httpcaddyfile/shorthands.go -/
theorem client_ip_shorthand_matches_source :
    Gen.placeholderShorthands.lookup "{client_ip}" = some "{http.vars.client_ip}" ∧
    clientIPShorthandOf = phClientIP := by decide

/-! ## the PROXY protocol listener wrapper: who may say what the remote address is -/

/-- **a PROXY header is believed only with permission.** If the accepted connection's remote address is
    anything but the socket's own, then the socket is a unix/fd socket, or the peer's address (zone
    aside) is in no `deny` range and is in an `allow` range or the operator chose fallback USE / REQUIRE. -/
theorem proxy_claim_needs_permission (N : Net Addr Prefix) (cfg : PPCfg Prefix) (network peer : Bytes)
    (claim : Option Bytes) (a : Accepted)
    (h : wrapAccept N cfg network peer claim = some a) (hne : a.remote ≠ peer) :
    unixOrFd network = true ∨
    ∃ ip, ppPeerAddr N peer = some ip ∧ cfg.deny.any (fun r => N.contains r ip) = false ∧
      (cfg.allow.any (fun r => N.contains r ip) = true ∨ cfg.fallback = .use ∨ cfg.fallback = .require) := by
  unfold wrapAccept connPolicy at h
  unfold ppPeerAddr
  by_cases hu : unixOrFd network = true
  · exact Or.inl hu
  · right
    simp only [hu, Bool.false_eq_true, if_false] at h
    cases hs : splitHostPort peer with
    | none => simp [hs] at h
    | some hp =>
      simp only [hs] at h ⊢
      cases hp' : N.parseAddr hp.1 with
      | none => simp [hp'] at h
      | some ip0 =>
        simp only [hp'] at h ⊢
        cases hz : N.parseAddr (cutZone hp.1) with
        | none => simp [hz] at h
        | some ip =>
          simp only [hz, Option.some.injEq] at h
          refine ⟨ip, rfl, ?_⟩
          unfold rangePolicy at h
          cases hd : cfg.deny.any (fun r => N.contains r ip) with
          | true =>
            simp only [hd, if_true] at h
            subst h
            exfalso; apply hne
            cases claim <;> rfl
          | false =>
            refine ⟨rfl, ?_⟩
            simp only [hd, Bool.false_eq_true, if_false] at h
            cases hal : cfg.allow.any (fun r => N.contains r ip) with
            | true => exact Or.inl rfl
            | false =>
              right
              simp only [hal, Bool.false_eq_true, if_false] at h
              subst h
              cases hf : cfg.fallback with
              | use => exact Or.inl rfl
              | require => exact Or.inr rfl
              | ignore => exfalso; apply hne; rw [hf]; cases claim <;> rfl
              | reject => exfalso; apply hne; rw [hf]; cases claim <;> rfl
              | skip => exfalso; apply hne; rw [hf]; cases claim <;> rfl

/-- **the default is safe.** With `fallback_policy` left at its default (IGNORE), a TCP peer outside every
    `allow` range keeps its own address whatever PROXY header it sends; the header is swallowed. -/
theorem default_policy_ignores_claims (N : Net Addr Prefix) (cfg : PPCfg Prefix) (network peer : Bytes)
    (claim : Option Bytes) (a : Accepted) (hf : cfg.fallback = .ignore) (hu : unixOrFd network = false)
    (hal : ∀ ip, ppPeerAddr N peer = some ip → cfg.allow.any (fun r => N.contains r ip) = false)
    (h : wrapAccept N cfg network peer claim = some a) : a.remote = peer := by
  by_cases hne : a.remote = peer
  · exact hne
  · rcases proxy_claim_needs_permission N cfg network peer claim a h hne with h1 | ⟨ip, hip, _, h2 | h2 | h2⟩
    · rw [hu] at h1; cases h1
    · rw [hal ip hip] at h2; cases h2
    · rw [hf] at h2; cases h2
    · rw [hf] at h2; cases h2

/-- the policy names: the five documented ones in any letter case, nothing else; absent = IGNORE -/
theorem fallback_names (name : Bytes) (p : PPolicy) (h : parsePolicy name = some p) :
    asciiUpper name = (match p with
      | .ignore => [73, 71, 78, 79, 82, 69] | .use => [85, 83, 69] | .reject => [82, 69, 74, 69, 67, 84]
      | .require => [82, 69, 81, 85, 73, 82, 69] | .skip => [83, 75, 73, 80]) := by
  unfold parsePolicy at h
  split at h
  · cases h; assumption
  · split at h
    · cases h; assumption
    · split at h
      · cases h; assumption
      · split at h
        · cases h; assumption
        · split at h
          · cases h; assumption
          · cases h

/-- **deny wins — for every peer, link-local ones with their zone included.** A TCP peer whose address
    (zone aside) lies in a `deny` range never gets its PROXY header believed, and a connection that sends
    one fails its first read.  (The code before the repair violated this for zoned peers:
    `denied_peer_believed_by_old_code`, Witness.lean.) -/
theorem denied_peer_never_believed (N : Net Addr Prefix) (cfg : PPCfg Prefix) (network peer : Bytes)
    (ip : Addr) (claim : Option Bytes) (a : Accepted)
    (hu : unixOrFd network = false) (hp : ppPeerAddr N peer = some ip)
    (hd : cfg.deny.any (fun r => N.contains r ip) = true)
    (h : wrapAccept N cfg network peer claim = some a) :
    a.remote = peer ∧ (claim.isSome → a.readOK = false) := by
  unfold ppPeerAddr at hp
  unfold wrapAccept connPolicy at h
  cases hs : splitHostPort peer with
  | none => simp [hs] at hp
  | some hp0 =>
    simp only [hs] at hp h
    cases hz : N.parseAddr hp0.1 with
    | none => simp [hz] at hp
    | some ip0 =>
      simp only [hz] at hp h
      simp only [hu, Bool.false_eq_true, if_false, hp, rangePolicy, hd, if_true, Option.some.injEq] at h
      subst h
      cases claim <;> simp [underPolicy]

/-! ## provision-time reading of range expressions -/

/-- **an invalid range is an error, never a silently different trust set.** Provisioning accepts a list
    of range expressions iff EVERY expression is accepted by the parser its syntax selects (a slash
    selects `ParsePrefix`, otherwise `ParseAddr`). -/
theorem provision_accepts_iff_all_valid (l : List (Bytes × RangeVerdict)) :
    provisionAccepts l = true ↔ ∀ e v, (e, v) ∈ l → rangeAccepted e v = true := by
  induction l with
  | nil => simp [provisionAccepts]
  | cons ev rest ih =>
    obtain ⟨e, v⟩ := ev
    unfold provisionAccepts
    cases h : rangeAccepted e v
    · simp only [Bool.false_eq_true, if_false, false_iff]
      intro hall
      have := hall e v (by simp)
      rw [h] at this; cases this
    · simp only [if_true, ih]
      constructor
      · intro hr e' v' hm
        rcases List.mem_cons.mp hm with heq | hm
        · cases heq; exact h
        · exact hr e' v' hm
      · intro hall e' v' hm
        exact hall e' v' (List.mem_cons_of_mem _ hm)

/-- the slash decides: a bare address is never read as a CIDR and vice versa -/
theorem slash_selects_the_parser (e : Bytes) (v : RangeVerdict) :
    (e.contains slash = true → rangeAccepted e v = v.prefixOK) ∧
    (e.contains slash = false → rangeAccepted e v = v.addrOK) := by
  unfold rangeAccepted
  constructor <;> intro h <;> rw [h] <;> rfl

/-! ## model artefacts -/

/-- `strings.TrimSpace`'s fuel (the input length) is never exhausted: nothing is left to trim -/
theorem trimSpace_never_runs_out_of_fuel (s : Bytes) :
    spaceHead (trimLeftFuel s.length s) = 0 ∧
    spaceLast (trimLastFuel s.length (trimLeftFuel s.length s).reverse) = 0 := by
  refine ⟨trimLeftFuel_done _ _ (Nat.le_refl _), trimLastFuel_done _ _ ?_⟩
  simpa using trimLeftFuel_length s.length s

end

/-! ## non-vacuity: the hypotheses are met by concrete, non-trivial requests (kernel-evaluated) -/

/-- trusted_proxies 10.0.0.0/8, client_ip_headers [X-Forwarded-For, x-real-ip], non-strict -/
def exCfg : Cfg Bytes :=
  { srvTrusted := some [b!"10."], clientIPHeaders := some [b!"X-Forwarded-For", b!"x-real-ip"], strict := 0,
    handlerTrusted := [], omitXFF := false, omitXFP := false, omitXFH := false }
def exStrict : Cfg Bytes := { exCfg with strict := 1 }
/-- no server-level source, reverse_proxy trusts 10.0.0.0/8 itself -/
def exHandler : Cfg Bytes := { exCfg with srvTrusted := none, handlerTrusted := [b!"10."] }

def exUntrusted : Conn := ⟨b!"[fe80::1%eth0]:51234", true, b!"example.com", false⟩
def exTrusted : Conn := ⟨b!"10.0.0.1:443", false, b!"example.com", false⟩

/-- multi-valued, port-bearing, malformed, mixed-case forwarding headers -/
def exHeaders : List (Bytes × Bytes) :=
  [(b!"x-forwarded-for", b!"junk, 9.9.9.9:1234 ,10.0.0.2"),
   (b!"X-Real-IP", b!"8.8.8.8"),
   (b!"X-Forwarded-For", b!" [::1]:80,1.2.3.4%eth0"),
   (b!"X-Forwarded-Proto", b!"https"), (b!"X-Forwarded-Proto", b!"wss"),
   (b!"X-Forwarded-Host", b!"evil.test")]

-- untrusted_serve_eq / untrusted_noninterference / untrusted_values: a zoned IPv6 peer over TLS
example : peerTrusted toyNet exCfg exUntrusted = false := by decide
example : serve toyNet exCfg exUntrusted exHeaders =
    ⟨b!"fe80::1", false, some ⟨some (some [b!"fe80::1"]), some (some [b!"https"]), some (some [b!"example.com"])⟩⟩ := by
  decide
example : serve toyNet exCfg exUntrusted exHeaders = serve toyNet exCfg exUntrusted [] := by decide
example : remoteHost exUntrusted = some b!"fe80::1" ∧ toyNet.parseAddr b!"fe80::1" = some b!"fe80::1" := by decide
-- untrusted_noninterference_partial: its exclusion is decidable and met with a pre-set-to-nil field
example : omitDropsAgree witCfg exHeaders [] = true ∧ peerTrusted toyNet witCfg witConn = false := by decide
example : omitDropsAgree witCfg [] [(b!"Connection", b!"X-Forwarded-For")] = false := by decide
-- untrusted_forwarding_headers_irrelevant
example : wireValues exHeaders kConnection = wireValues ([] : List (Bytes × Bytes)) kConnection := by decide
-- untrusted_client_ip: server-untrusted but handler-trusted peer
example : serverTrusts toyNet exHandler exTrusted = false ∧ peerTrusted toyNet exHandler exTrusted = true := by decide
-- unparsable_remote_strips_headers / non_ip_remote_refused
example : splitHostPort b!"/run/caddy.sock" = none := by decide
example : serve toyNet exCfg ⟨b!"/run/caddy.sock", false, b!"h", false⟩ exHeaders = ⟨[], false, some ⟨none, none, none⟩⟩ := by decide
example : remoteHost ⟨b!"example.com:80", false, b!"h", false⟩ = some b!"example.com" ∧ toyNet.parseAddr b!"example.com" = none := by
  decide
-- trusted_leftmost_valid: "junk" is skipped, "9.9.9.9:1234 " (port, trailing blank) is the left-most valid element
example : serverTrusts toyNet exCfg exTrusted = true ∧ exCfg.strict = 0 := by decide
example : (serve toyNet exCfg exTrusted exHeaders).clientIP = b!"9.9.9.9" := by decide
example : (configuredValues exHeaders (effectiveHeaders exCfg)).flatMap (splitOn comma) =
    [b!"junk", b!" 9.9.9.9:1234 ", b!"10.0.0.2", b!" [::1]:80", b!"1.2.3.4%eth0", b!"8.8.8.8"] := by decide
-- strict_rightmost_untrusted: right-most is "1.2.3.4%eth0" (zone cut); " [::1]:80" (leading blank) does not parse
example : serverTrusts toyNet exStrict exTrusted = true ∧ exStrict.strict > 0 := by decide
example : (serve toyNet exStrict exTrusted exHeaders).clientIP = b!"1.2.3.4" := by decide
example : rightmostUntrusted toyNet [b!"10."] [b!"9.9.9.9", b!"10.0.0.2", b!"junk"] = some b!"9.9.9.9" := by decide
example : leftmostValid toyNet [b!"junk", b!" 9.9.9.9:1234 ", b!"10.0.0.2"] = some b!"9.9.9.9" := by decide
-- trusted_fields / trusted_prior_kept_and_appended / xff_appended
example : peerTrusted toyNet exCfg exTrusted = true ∧ connectionDrops exHeaders kXFF = false := by decide
example : (serve toyNet exCfg exTrusted exHeaders).fwd =
    some ⟨some (some [b!"junk, 9.9.9.9:1234 ,10.0.0.2,  [::1]:80,1.2.3.4%eth0, 10.0.0.1"]),
          some (some [b!"wss"]), some (some [b!"evil.test"])⟩ := by decide
example : (joinWith commaSpace [b!"a", b!""]).isEmpty = false := by decide
-- client_ip_is_peer_or_header_element: here the second disjunct, with the element " 9.9.9.9:1234 "
example : b!" 9.9.9.9:1234 " ∈ elements (wireValues exHeaders (canonKey b!"X-Forwarded-For")) ∧
    partAddr toyNet b!" 9.9.9.9:1234 " = some b!"9.9.9.9" := by decide
-- every_attempt_sends_the_same_forwarded_headers / retried_attempts_untrusted: two failed round trips,
-- a header_up op, spoofed forwarding headers from an untrusted peer
example : serveAttempts toyNet exCfg exUntrusted exHeaders .setOther 2 =
    some (List.replicate 3 ⟨some (some [b!"fe80::1"]), some (some [b!"https"]), some (some [b!"example.com"])⟩) := by
  decide
example : serveAttempts toyNet exCfg exTrusted exHeaders .delXFH 1 =
    some (List.replicate 2 ⟨some (some [b!"junk, 9.9.9.9:1234 ,10.0.0.2,  [::1]:80,1.2.3.4%eth0, 10.0.0.1"]),
                            some (some [b!"wss"]), none⟩) := by decide
-- a field pre-set to nil is not sent on any attempt, with or without header_up (nil, resp. not carried over)
example : serveAttempts toyNet witCfg witConn [] .none 1 =
    some (List.replicate 2 ⟨some none, some (some [b!"http"]), some (some [b!"a"])⟩) ∧
  serveAttempts toyNet witCfg witConn [] .setOther 1 =
    some (List.replicate 2 ⟨none, some (some [b!"http"]), some (some [b!"a"])⟩) := by decide
-- consumers: toyNet prints what it parsed (PrintsParseBack is inhabited by it on its seven addresses);
-- a zoned range only matches the zoned socket address, never the (zone-less) attributed address
def exRanges : List (MRange Bytes) := [⟨b!"10.", []⟩, ⟨b!"fe80", b!"eth0"⟩]
example : serveConsumers toyNet exCfg exRanges exUntrusted exHeaders =
    ⟨b!"fe80::1", b!"fe80::1", b!"fe80::1", false, true, some b!"fe80::1"⟩ := by decide
example : serveConsumers toyNet exCfg exRanges exTrusted exHeaders =
    ⟨b!"9.9.9.9", b!"9.9.9.9", b!"9.9.9.9", false, true, some b!"9.9.9.9"⟩ := by decide
example : splitHostPort (toyNet.toString b!"fe80::1") = none ∧ cutZone (toyNet.toString b!"10.0.0.1") = b!"10.0.0.1" ∧
    toyNet.parseAddr (toyNet.toString b!"::1") = some b!"::1" ∧ toyNet.parseAddr [] = none := by decide
example : matchCidrZones toyNet b!"fe80::1" b!"eth0" exRanges = true ∧
    matchCidrZones toyNet b!"fe80::1" b!"eth1" exRanges = false := by decide
-- default_client_ip_header_matches_source: the witness configuration leaves client_ip_headers unset
example : witCfg.clientIPHeaders = none ∧ effectiveHeaders witCfg = [b!"X-Forwarded-For"] := by decide
-- Caddyfile glue: two `trusted_proxies static` lines (the last wins, `private_ranges` expands), strict
-- written twice, two header lines, a handler line; a repeated header name makes the adapter fail
example : adaptOptions [[b!"8.8.8.8"], [b!"private_ranges", b!"203.0.113.0/24"]] 2 false
      [[b!"X-Real-IP"], [b!"X-Forwarded-For", b!"Forwarded"]] [[b!"::1"], [b!"private_ranges"]] =
    some ⟨some (Gen.privateRanges ++ [b!"203.0.113.0/24"]), true,
          some [b!"X-Real-IP", b!"X-Forwarded-For", b!"Forwarded"], b!"::1" :: Gen.privateRanges,
          b!"{http.vars.client_ip}"⟩ := by decide
example : adaptOptions [] 0 false [[b!"X-Real-IP"], [b!"X-Real-IP"]] [] = none ∧
    ¬ ([[b!"X-Real-IP"], [b!"X-Real-IP"]] : List (List Bytes)).flatten.Nodup := by decide
example : adaptOptions [] 0 false [] [] = some ⟨none, false, none, [], phClientIP⟩ := by decide
-- early_data_never_matches / forwarding_fields_always_sent: a 0-RTT request from 10.0.0.1 naming all three
-- fields in Connection — nothing matches, all three fields are sent on both attempts
def exEarly : Conn := ⟨b!"10.0.0.1:443", true, b!"example.com", true⟩
def exSmuggle : List (Bytes × Bytes) :=
  [(b!"Connection", b!"X-Forwarded-For, x-forwarded-proto"), (b!"connection", b!"X-Forwarded-Host"),
   (b!"X-Forwarded-For", b!"6.6.6.6")]
example : (serveConsumers toyNet exCfg exRanges exEarly exSmuggle).clientMatch = false ∧
    matchAddress toyNet exRanges exEarly.remoteAddr = true := by decide
example : peerAddr toyNet exEarly = some b!"10.0.0.1" ∧
    serveAttempts toyNet exCfg exEarly exSmuggle .none 1 =
      some (List.replicate 2 ⟨some (some [b!"10.0.0.1"]), some (some [b!"https"]), some (some [b!"example.com"])⟩) := by
  decide
-- cookie policy: the untrusted peer's "X-Forwarded-Proto: https" does not make the cookie Secure on a plain
-- connection; the trusted proxy's does
example : cookieSecure toyNet exCfg ⟨b!"8.8.8.8:1", false, b!"h", false⟩ exHeaders = some false ∧
    cookieSecure toyNet exCfg exTrusted [(b!"X-Forwarded-Proto", b!"https")] = some true ∧
    cookieSecure toyNet exCfg exTrusted exHeaders = some false := by decide
-- provision-time: "10.0.0.0/33" has a slash and ParsePrefix rejects it; "fe80::1%eth0" is one (zoned) address
example : provisionAccepts [(b!"10.0.0.0/8", ⟨true, false⟩), (b!"fe80::1%eth0", ⟨false, true⟩)] = true ∧
    provisionAccepts [(b!"10.0.0.0/8", ⟨true, false⟩), (b!"10.0.0.0/33", ⟨false, false⟩)] = false ∧
    rangeAccepted b!"10.0.0.1" ⟨false, true⟩ = true := by decide
-- PROXY protocol wrapper: an allowed peer's claim is believed, an outsider's is swallowed (default IGNORE),
-- a denied peer's connection fails; policy names are case-insensitive
def exPP : PPCfg Bytes := ⟨[b!"10."], [b!"8.8"], .ignore⟩
example : wrapAccept toyNetZ exPP b!"tcp" b!"10.0.0.1:443" (some b!"6.6.6.6:7777") = some ⟨b!"6.6.6.6:7777", true⟩ ∧
    wrapAccept toyNetZ exPP b!"tcp" b!"[fe80::1]:1" (some b!"6.6.6.6:7777") = some ⟨b!"[fe80::1]:1", true⟩ ∧
    wrapAccept toyNetZ exPP b!"tcp" b!"8.8.8.8:53" (some b!"6.6.6.6:7777") = some ⟨b!"8.8.8.8:53", false⟩ ∧
    wrapAccept toyNetZ exPP b!"tcp" b!"garbage" none = none ∧
    wrapAccept toyNetZ exPP b!"unix" b!"@" (some b!"6.6.6.6:7777") = some ⟨b!"6.6.6.6:7777", true⟩ := by decide
example : ppPeerAddr toyNetZ b!"[fe80::1%eth0]:1" = some b!"fe80::1" ∧ unixOrFd b!"tcp" = false ∧
    witPP.deny.any (fun r => toyNetZ.contains r b!"fe80::1") = true := by decide
example : parsePolicy b!"Require" = some .require ∧ parsePolicy b!"bogus" = none ∧ ppFallback none = some .ignore := by decide
-- FastCGI: REMOTE_ADDR of a bracketed, zoned IPv6 socket address; an underscore twin does not change what
-- the variable can take
example : fcgiRemote b!"[fe80::1%eth0]:51234" = (b!"fe80::1%eth0", b!"51234") ∧ fcgiRemote b!"/run/x.sock" = (b!"/run/x.sock", []) ∧
    envName b!"X_forwarded-For" = envXFF := by decide
example : (serveFcgi toyNet exCfg exUntrusted exHeaders .none).map (fun e => (e.xff, e.xfp, e.xfh)) =
    some ([b!"fe80::1"], [b!"https"], [b!"example.com"]) := by decide
example : (serveFcgi toyNet exCfg exUntrusted ((b!"X_Forwarded_Proto", b!"http") :: exHeaders) .none).map (fun e => e.xfp) =
    some [b!"https"] := by decide
-- targeted_options_stay_on_their_listener: a block for :8443 does not reach the server listening on :80
example : (optionsFor (some b!":8443") [b!":80"] ⟨some [b!"10.0.0.0/8"], true, some [b!"X-Real-IP"], [], phClientIP⟩).srvRanges = none ∧
    optionsFor (some b!":8443") [b!":8443"] ⟨some [b!"10.0.0.0/8"], true, none, [], phClientIP⟩ =
      ⟨some [b!"10.0.0.0/8"], true, none, [], phClientIP⟩ := by decide
-- include_attribution_untrusted: 8.8.8.8 is not trusted although loopback is
example : serverTrusts toyNetL witInc ⟨b!"8.8.8.8:1", false, b!"a", false⟩ = false := by decide
-- requests on one connection: three requests from the trusted 10.0.0.1 — each gets its own client, the last
-- (no header) the peer itself
example : (serveConnection toyNet exCfg exTrusted [[(b!"X-Forwarded-For", b!"9.9.9.9")], [(b!"X-Real-IP", b!"8.8.8.8")], []]).map (·.clientIP) =
    [b!"9.9.9.9", b!"8.8.8.8", b!"10.0.0.1"] := by decide
-- elements_are_per_value
example : elements [b!"a,b", b!"", b!"c"] = [b!"a", b!"b", b!"", b!"c"] := by decide
-- trimSpace_never_runs_out_of_fuel: NBSP, EM SPACE and ASCII blanks around an address
example : trimSpace [194, 160, 9, 49, 46, 50, 226, 128, 131, 32] = [49, 46, 50] := by decide

/-! ## paths that run more handlers on the same request: handle_errors routes, handle_response routes
(Paths.lean; server.go `Server.ServeHTTP` after the primary chain failed, reverseproxy.go `reverseProxy`) -/

/-- **source facts.** `Server.ServeHTTP` puts `RemoteAddr` back from the original request before the error routes
    run, does not put the header map back, and calls `PrepareRequest` once (REGENERATED from server.go) -/
theorem error_path_restore_matches_source :
    restoresRemoteAddr = true ∧ restoresHeader = false ∧ Gen.serveHTTPPrepareCalls = 1 := by decide

/-- **source fact.** every handle_response route is served the request the handler was given (`origReq`), not the
    prepared clone that already carries X-Forwarded-* (REGENERATED from reverseproxy.go) -/
theorem response_routes_served_original_matches_source : responseRoutesGetOriginal = true := by decide

section
variable {Addr Prefix : Type}

/-- the request the error routes run on has the CONNECTION's facts again, whatever a handler of the primary route
    wrote into `r.RemoteAddr` -/
theorem error_route_conn_is_the_connection (N : Net Addr Prefix) (cfg : Cfg Prefix) (c : Conn)
    (spoil : Option Bytes) (w : List (Bytes × Bytes)) :
    (errorRouteReq N cfg c spoil w).conn = c := by
  have h : restoresRemoteAddr = true := by decide
  unfold errorRouteReq restoreOriginal stageOne prepared
  cases spoil <;> simp [h]

/-- **error routes.** A probe and a reverse_proxy inside handle_errors routes see exactly what they would see in
    the primary route: same client address, same trusted flag, same X-Forwarded-* — for every request, every
    configuration and whatever a handler of the primary route wrote into `r.RemoteAddr` before the error. -/
theorem error_route_attributed_like_the_primary_route (N : Net Addr Prefix) (cfg : Cfg Prefix) (c : Conn)
    (spoil : Option Bytes) (w : List (Bytes × Bytes)) :
    serveErrorRoute N cfg c spoil w = serve N cfg c w := by
  have h : restoresRemoteAddr = true := by decide
  have h' : restoresHeader = false := by decide
  unfold serveErrorRoute routeOut errorRouteReq restoreOriginal stageOne prepared serve
  cases spoil <;> simp [h, h']

/-- … hence non-interference holds inside error routes: nothing an untrusted peer sends changes what they see -/
theorem error_route_untrusted_noninterference (N : Net Addr Prefix) (cfg : Cfg Prefix) (c : Conn)
    (spoil spoil' : Option Bytes) (w w' : List (Bytes × Bytes)) (hu : peerTrusted N cfg c = false)
    (h1 : cfg.omitXFF = false) (h2 : cfg.omitXFP = false) (h3 : cfg.omitXFH = false) :
    serveErrorRoute N cfg c spoil w = serveErrorRoute N cfg c spoil' w' := by
  rw [error_route_attributed_like_the_primary_route, error_route_attributed_like_the_primary_route]
  exact untrusted_noninterference N cfg c w w' hu h1 h2 h3

/-- `{http.request.remote.host}` inside an error route is the connection's host (empty for 0-RTT data): no header
    and no handler's write to `r.RemoteAddr` reaches it -/
theorem error_route_remote_host_from_the_connection (N : Net Addr Prefix) (cfg : Cfg Prefix) (c : Conn)
    (spoil : Option Bytes) (w : List (Bytes × Bytes)) :
    remoteHostPlaceholder (errorRouteReq N cfg c spoil w).conn =
      if c.earlyData then [] else hostOrAll c.remoteAddr := by
  rw [error_route_conn_is_the_connection]; rfl

/-- **response routes, the vars.** handle_response routes read the vars table `PrepareRequest` filled: the client
    address and the trusted flag are the primary route's, whatever happened to the request in between -/
theorem response_route_vars_from_the_primary_route (N : Net Addr Prefix) (cfg : Cfg Prefix) (c : Conn)
    (spoil : Option Bytes) (w : List (Bytes × Bytes)) (o : Out)
    (h : serveResponseRoute N cfg c spoil w = some o) :
    o.clientIP = (serve N cfg c w).clientIP ∧ o.trusted = (serve N cfg c w).trusted := by
  have hr : responseRoutesGetOriginal = true := by decide
  unfold serveResponseRoute responseRouteReq at h
  split at h
  · simp at h
  · simp only [hr, if_true, Option.map_some, Option.some.injEq] at h
    subst h
    simp [routeOut, stageOne, prepared, serve]

/-- **response routes, the forwarding fields.** When no handler touched `r.RemoteAddr`, a reverse_proxy inside a
    handle_response route sends exactly what it would send in the primary route (the outer handler's own
    X-Forwarded-* are not appended to a second time); the route does not run iff the outer handler refused. -/
theorem response_route_attributed_like_the_primary_route (N : Net Addr Prefix) (cfg : Cfg Prefix) (c : Conn)
    (w : List (Bytes × Bytes)) :
    serveResponseRoute N cfg c none w =
      if (serve N cfg c w).fwd.isSome then some (serve N cfg c w) else none := by
  have hr : responseRoutesGetOriginal = true := by decide
  unfold serveResponseRoute responseRouteReq
  simp only [stageOne, prepared, serve, hr, if_true]
  split
  · rename_i hp; simp [hp]
  · rename_i clone hp; simp [routeOut, hp]

end

/-- **wrappers.** Whatever forward_auth / php_fastcgi pre-fill in the reverse_proxy handler they build, it is none
    of the three forwarding fields (REGENERATED lists): the auth backend / the PHP application get the same
    X-Forwarded-For, -Proto, -Host as any upstream -/
theorem wrapper_prefill_leaves_forwarding_fields_alone (wr : Wrapper) :
    ¬ kXFF ∈ (wrapperPrefill wr).map canonKey ∧ ¬ kXFP ∈ (wrapperPrefill wr).map canonKey ∧
    ¬ kXFH ∈ (wrapperPrefill wr).map canonKey := by
  cases wr <;> decide

/-- **source fact.** what the wrappers pre-fill on the pinned tree -/
theorem wrapper_prefill_matches_source :
    Gen.forwardAuthPrefill = [b!"X-Forwarded-Method", b!"X-Forwarded-Uri"] ∧ Gen.phpFastcgiPrefill = [] ∧
    Gen.phpFastcgiHandlerKeys = ["TransportRaw"] := by decide

/-- model fact: WITHOUT the restore, a reverse_proxy inside an error route forwards the address a handler wrote
    (here 9.9.9.9 instead of the peer 1.2.3.4) — what `r.RemoteAddr = origReq.RemoteAddr` is there for -/
theorem error_route_without_restore_forwards_the_written_address :
    (routeOut toyNet exCfg (stageOne exCfg (some b!"9.9.9.9:1") (prepared toyNet exCfg witConn []))).fwd ≠
      (serve toyNet exCfg witConn []).fwd := by decide

/-- model fact: a response route served the PREPARED clone would append the trusted peer's address a second time -/
theorem response_route_on_the_clone_appends_twice :
    (prepareRequest toyNet exCfg exTrusted true (fromWire [(b!"X-Forwarded-For", b!"9.9.9.9")])).bind
        (fun clone => (prepareRequest toyNet exCfg exTrusted true clone).map (fun h => (fwdOf h).xff)) =
      some (some (some [b!"9.9.9.9, 10.0.0.1, 10.0.0.1"])) ∧
    (serve toyNet exCfg exTrusted [(b!"X-Forwarded-For", b!"9.9.9.9")]).fwd.map (·.xff) =
      some (some (some [b!"9.9.9.9, 10.0.0.1"])) := by decide

-- error_route_*: the zoned IPv6 peer; a handler wrote a trusted address into r.RemoteAddr, X-Forwarded-Proto pre-set to nil
example : serveErrorRoute toyNet { exCfg with omitXFP := true } exUntrusted (some b!"10.0.0.1:1") exHeaders =
    ⟨b!"fe80::1", false, some ⟨some (some [b!"fe80::1"]), some none, some (some [b!"example.com"])⟩⟩ := by decide
example : (errorRouteReq toyNet exCfg exUntrusted (some b!"10.0.0.1:1") exHeaders).conn = exUntrusted ∧
    remoteHostPlaceholder exUntrusted = b!"fe80::1%eth0" ∧ remoteHostPlaceholder exEarly = [] := by decide
-- response routes: a trusted peer's prior values are appended to once; a written garbage address makes the outer handler refuse
example : serveResponseRoute toyNet exCfg exTrusted none [(b!"X-Forwarded-For", b!"9.9.9.9")] =
    some ⟨b!"9.9.9.9", true, some ⟨some (some [b!"9.9.9.9, 10.0.0.1"]), some (some [b!"http"]), some (some [b!"example.com"])⟩⟩ ∧
    serveResponseRoute toyNet exCfg exTrusted (some b!"garbage:1") [] = none ∧
    (serveResponseRoute toyNet exCfg exTrusted (some b!"8.8.8.8:1") []).map (·.clientIP) = some b!"10.0.0.1" := by decide
example : (wrapperPrefill .forwardAuth).length = 2 ∧ wrapperPrefill .phpFastcgi = [] := by decide

end CaddyModel.C10
