/-
C10 — the paths that run MORE handlers on the same request:

  modules/caddyhttp/server.go         Server.ServeHTTP, after `err := s.primaryHandlerChain.ServeHTTP(w, r)`:
                                        origReq := r.Context().Value(OriginalRequestCtxKey).(http.Request)
                                        r.Method = origReq.Method; r.RemoteAddr = origReq.RemoteAddr; r.RequestURI = …
                                        ("this does not restore original headers"), then
                                        s.errorHandlerChain.ServeHTTP(w, r)        — the handle_errors routes
  reverseproxy/reverseproxy.go        reverseProxy: `rh.Routes.Compile(next).ServeHTTP(rw, origReq.WithContext(ctx))`
                                                                                 — the handle_response routes
  modules/caddyhttp/replacer.go       {http.request.remote.host}
  reverseproxy/forwardauth, fastcgi   what the forward_auth / php_fastcgi wrappers pre-fill in the reverse_proxy
                                      handler they build (request header `Set` keys)

A request is the `*http.Request` the handlers share: the connection facts as the handlers CURRENTLY read them
(`r.RemoteAddr` can be overwritten by a handler), the header map (a handler can store nil under a field) and the
vars table `PrepareRequest` filled once (client_ip, trusted_proxy).  WHICH fields ServeHTTP restores and WHICH
request the response routes are served are regenerated from the source (Gen/RequestPaths.lean) and looked up here.
-/
import CaddyModel.C10.Model
import CaddyModel.Gen.RequestPaths

namespace CaddyModel.C10

/-- the request as handlers see it -/
structure Req where
  conn : Conn                  -- RemoteAddr / TLS / Host as the handlers currently read them
  header : Header              -- r.Header
  clientIP : Bytes             -- vars["client_ip"]
  trusted : Bool               -- vars["trusted_proxy"]
deriving DecidableEq, Repr

/-- does `Server.ServeHTTP` put the original `RemoteAddr` back before the error routes run?  (regenerated) -/
def restoresRemoteAddr : Bool := Gen.errorPathRestores.contains "RemoteAddr"

/-- … and the header map?  (regenerated; it does not on the pinned tree) -/
def restoresHeader : Bool := Gen.errorPathRestores.contains "Header"

/-- are the handle_response routes served the request the handler was GIVEN (`origReq`), not its prepared clone?
    (regenerated) -/
def responseRoutesGetOriginal : Bool := Gen.handleResponseServes == ["origReq"]

section
variable {Addr Prefix : Type}

/-- `PrepareRequest` (server.go): the vars table is filled from the connection and the wire headers, once -/
def prepared (N : Net Addr Prefix) (cfg : Cfg Prefix) (c : Conn) (wire : List (Bytes × Bytes)) : Req :=
  { conn := c, header := fromWire wire,
    clientIP := (determineTrustedProxy N cfg c (fromWire wire)).2,
    trusted := (determineTrustedProxy N cfg c (fromWire wire)).1 }

/-- what a handler of the primary route may do to the shared request before the error is raised / before the
    outer reverse_proxy: store nil under forwarding fields, overwrite `r.RemoteAddr` -/
def stageOne (cfg : Cfg Prefix) (spoil : Option Bytes) (r : Req) : Req :=
  { r with header := applyOmit cfg r.header,
           conn := match spoil with
                   | some a => { r.conn with remoteAddr := a }
                   | none => r.conn }

/-- server.go: "restore original request before invoking error handler chain" — the fields the source restores -/
def restoreOriginal (orig : Req) (r : Req) : Req :=
  { r with conn := if restoresRemoteAddr then { r.conn with remoteAddr := orig.conn.remoteAddr } else r.conn,
           header := if restoresHeader then orig.header else r.header }

/-- the handlers of an error / response route as the harness configures them: a probe reading the vars, then
    reverse_proxy (`prepareRequest` on whatever request it is handed) -/
def routeOut (N : Net Addr Prefix) (cfg : Cfg Prefix) (r : Req) : Out :=
  { clientIP := r.clientIP, trusted := r.trusted,
    fwd := (prepareRequest N cfg r.conn r.trusted r.header).map fwdOf }

/-- the request the handle_errors routes are run on -/
def errorRouteReq (N : Net Addr Prefix) (cfg : Cfg Prefix) (c : Conn) (spoil : Option Bytes)
    (wire : List (Bytes × Bytes)) : Req :=
  restoreOriginal (prepared N cfg c wire) (stageOne cfg spoil (prepared N cfg c wire))

/-- a request whose primary route fails: what the handle_errors routes attribute and forward -/
def serveErrorRoute (N : Net Addr Prefix) (cfg : Cfg Prefix) (c : Conn) (spoil : Option Bytes)
    (wire : List (Bytes × Bytes)) : Out :=
  routeOut N cfg (errorRouteReq N cfg c spoil wire)

/-- the request the handle_response routes of an outer reverse_proxy are run on; `none` = the outer handler's own
    `prepareRequest` refused the request (500, no response route runs) -/
def responseRouteReq (N : Net Addr Prefix) (cfg : Cfg Prefix) (c : Conn) (spoil : Option Bytes)
    (wire : List (Bytes × Bytes)) : Option Req :=
  match prepareRequest N cfg (stageOne cfg spoil (prepared N cfg c wire)).conn (prepared N cfg c wire).trusted
          (stageOne cfg spoil (prepared N cfg c wire)).header with
  | none => none
  | some clone =>
    some (if responseRoutesGetOriginal then stageOne cfg spoil (prepared N cfg c wire)
          else { stageOne cfg spoil (prepared N cfg c wire) with header := clone })

/-- … what they attribute and forward -/
def serveResponseRoute (N : Net Addr Prefix) (cfg : Cfg Prefix) (c : Conn) (spoil : Option Bytes)
    (wire : List (Bytes × Bytes)) : Option Out :=
  (responseRouteReq N cfg c spoil wire).map (routeOut N cfg)

end

/-- replacer.go `{http.request.remote.host}`: nil (printed empty) for 0-RTT data, else
    `host, _, err := net.SplitHostPort(req.RemoteAddr); if err != nil { return req.RemoteAddr }` -/
def remoteHostPlaceholder (c : Conn) : Bytes :=
  if c.earlyData then [] else hostOrAll c.remoteAddr

/-! ### the forward_auth / php_fastcgi wrappers (Caddyfile): what they pre-fill in the handler they build -/

inductive Wrapper where
  | reverseProxy | forwardAuth | phpFastcgi
deriving DecidableEq, Repr

/-- request header fields the wrapper sets before the operator's subdirectives are read (regenerated) -/
def wrapperPrefill : Wrapper → List Bytes
  | .reverseProxy => []
  | .forwardAuth => Gen.forwardAuthPrefill
  | .phpFastcgi => Gen.phpFastcgiPrefill

end CaddyModel.C10
