import CaddyModel.C10.Spec

namespace CaddyModel.C10

/-! ### http.Header as an association list -/

theorem hGet_hDel (h : Header) (k k' : Bytes) :
    hGet (hDel h k) k' = if k' = k then none else hGet h k' := by
  induction h with
  | nil => simp [hDel, hGet]
  | cons e rest ih =>
    obtain ⟨ek, ev⟩ := e
    unfold hDel at ih ⊢
    by_cases hek : ek = k
    · subst hek
      simp only [List.filter, ne_eq, not_true_eq_false, decide_false]
      rw [ih]
      by_cases hk : k' = ek
      · simp [hk]
      · have : ¬ ek = k' := fun h => hk h.symm
        simp [hk, hGet, this]
    · simp only [List.filter, ne_eq, hek, not_false_eq_true, decide_true]
      simp only [hGet]
      by_cases hk : ek = k'
      · subst hk
        simp [hek]
      · simp only [hk, if_false]
        exact ih

theorem hGet_hPut (h : Header) (k k' : Bytes) (v : Option (List Bytes)) :
    hGet (hPut h k v) k' = if k' = k then some v else hGet h k' := by
  unfold hPut
  simp only [hGet]
  by_cases hk : k = k'
  · subst hk; simp
  · have : ¬ k' = k := fun h => hk h.symm
    simp [hk, this, hGet_hDel]

theorem hGet_foldl_hDelField (ts : List Bytes) (h : Header) (k : Bytes) :
    hGet (ts.foldl hDelField h) k = if ts.any (fun t => canonKey t == k) then none else hGet h k := by
  induction ts generalizing h with
  | nil => simp
  | cons t rest ih =>
    simp only [List.foldl, List.any_cons]
    rw [ih]
    unfold hDelField
    rw [hGet_hDel]
    by_cases h1 : canonKey t = k
    · simp [h1]
    · have : ¬ k = canonKey t := fun h => h1 h.symm
      simp [h1, this]

/-- values stored under an (already canonical) key; nil and absent give none -/
def rawValues (h : Header) (k : Bytes) : List Bytes :=
  match hGet h k with
  | some (some vs) => vs
  | _ => []

theorem hValues_eq_raw (h : Header) (f : Bytes) : hValues h f = rawValues h (canonKey f) := rfl

/-- a header map as net/http builds it: no nil values, no empty value lists -/
def WireLike (h : Header) : Prop :=
  ∀ k, hGet h k = none ∨ ∃ v vs, hGet h k = some (some (v :: vs))

theorem rawValues_hAdd (h : Header) (f v k : Bytes) :
    rawValues (hAdd h f v) k = if k = canonKey f then rawValues h k ++ [v] else rawValues h k := by
  unfold hAdd rawValues
  rw [hGet_hPut]
  by_cases hk : k = canonKey f
  · subst hk; simp [hValues]
    cases hGet h (canonKey f) with
    | none => rfl
    | some o => cases o <;> rfl
  · simp [hk]

theorem wireLike_hAdd (h : Header) (f v : Bytes) (hw : WireLike h) : WireLike (hAdd h f v) := by
  intro k
  unfold hAdd
  rw [hGet_hPut]
  by_cases hk : k = canonKey f
  · right
    simp only [hk, if_true]
    cases hh : hValues h f with
    | nil => exact ⟨v, [], rfl⟩
    | cons a as => exact ⟨a, as ++ [v], rfl⟩
  · simp only [hk, if_false]
    exact hw k

theorem foldl_hAdd (w : List (Bytes × Bytes)) (h : Header) (hw : WireLike h) :
    WireLike (w.foldl (fun h f => hAdd h f.1 f.2) h) ∧
    ∀ k, rawValues (w.foldl (fun h f => hAdd h f.1 f.2) h) k = rawValues h k ++ wireValues w k := by
  induction w generalizing h with
  | nil => simp [wireValues, hw]
  | cons f rest ih =>
    obtain ⟨a, b⟩ := ih (hAdd h f.1 f.2) (wireLike_hAdd h f.1 f.2 hw)
    refine ⟨a, fun k => ?_⟩
    simp only [List.foldl]
    rw [b k, rawValues_hAdd]
    unfold wireValues
    by_cases hk : k = canonKey f.1
    · subst hk; simp
    · have : ¬ canonKey f.1 = k := fun h => hk h.symm
      simp [hk, this]

theorem wireLike_fromWire (w : List (Bytes × Bytes)) : WireLike (fromWire w) :=
  (foldl_hAdd w [] (fun _ => Or.inl rfl)).1

theorem rawValues_fromWire (w : List (Bytes × Bytes)) (k : Bytes) :
    rawValues (fromWire w) k = wireValues w k := by
  have := (foldl_hAdd w [] (fun _ => Or.inl rfl)).2 k
  simpa [fromWire, rawValues, hGet] using this

/-- what net/http stores under a key: absent, or the non-empty list of wire values -/
theorem hGet_fromWire (w : List (Bytes × Bytes)) (k : Bytes) :
    hGet (fromWire w) k = fieldBefore false false (wireValues w k) := by
  have h1 := wireLike_fromWire w k
  have h2 := rawValues_fromWire w k
  unfold rawValues at h2
  unfold fieldBefore
  rcases h1 with h1 | ⟨v, vs, h1⟩
  · rw [h1] at h2 ⊢
    simp at h2
    simp [← h2]
  · rw [h1] at h2 ⊢
    simp at h2
    simp [← h2]

theorem hValues_fromWire (w : List (Bytes × Bytes)) (f : Bytes) :
    hValues (fromWire w) f = wireValues w (canonKey f) := by
  rw [hValues_eq_raw, rawValues_fromWire]


/-! ### the three forwarding keys are distinct, canonical, and not hop-by-hop -/

theorem kXFF_ne_kXFP : kXFF ≠ kXFP := by decide
theorem kXFF_ne_kXFH : kXFF ≠ kXFH := by decide
theorem kXFP_ne_kXFH : kXFP ≠ kXFH := by decide
theorem kConnection_ne_kXFF : kConnection ≠ kXFF := by decide
theorem kConnection_ne_kXFP : kConnection ≠ kXFP := by decide
theorem kConnection_ne_kXFH : kConnection ≠ kXFH := by decide
theorem canonKey_kConnection : canonKey kConnection = kConnection := by decide
theorem hop_not_kXFF : hopHeaders.any (fun t => canonKey t == kXFF) = false := by decide
theorem hop_not_kXFP : hopHeaders.any (fun t => canonKey t == kXFP) = false := by decide
theorem hop_not_kXFH : hopHeaders.any (fun t => canonKey t == kXFH) = false := by decide

section
variable {Addr Prefix : Type}

/-! ### applyOmit, removeConnectionHeaders, removeHopHeaders -/

theorem hGet_applyOmit_conn (cfg : Cfg Prefix) (h : Header) :
    hGet (applyOmit cfg h) kConnection = hGet h kConnection := by
  unfold applyOmit
  cases cfg.omitXFF <;> cases cfg.omitXFP <;> cases cfg.omitXFH <;>
    simp [hGet_hPut, kConnection_ne_kXFF, kConnection_ne_kXFP, kConnection_ne_kXFH]

theorem hGet_applyOmit_xff (cfg : Cfg Prefix) (h : Header) :
    hGet (applyOmit cfg h) kXFF = if cfg.omitXFF then some none else hGet h kXFF := by
  unfold applyOmit
  cases cfg.omitXFF <;> cases cfg.omitXFP <;> cases cfg.omitXFH <;>
    simp [hGet_hPut, kXFF_ne_kXFP, kXFF_ne_kXFH]

theorem hGet_applyOmit_xfp (cfg : Cfg Prefix) (h : Header) :
    hGet (applyOmit cfg h) kXFP = if cfg.omitXFP then some none else hGet h kXFP := by
  unfold applyOmit
  cases cfg.omitXFF <;> cases cfg.omitXFP <;> cases cfg.omitXFH <;>
    simp [hGet_hPut, kXFF_ne_kXFP.symm, kXFP_ne_kXFH]

theorem hGet_applyOmit_xfh (cfg : Cfg Prefix) (h : Header) :
    hGet (applyOmit cfg h) kXFH = if cfg.omitXFH then some none else hGet h kXFH := by
  unfold applyOmit
  cases cfg.omitXFF <;> cases cfg.omitXFP <;> cases cfg.omitXFH <;>
    simp [hGet_hPut, kXFF_ne_kXFH.symm, kXFP_ne_kXFH.symm]

theorem connectionTokens_applyOmit (cfg : Cfg Prefix) (h : Header) :
    connectionTokens (applyOmit cfg h) = connectionTokens h := by
  unfold connectionTokens hValues
  rw [canonKey_kConnection, hGet_applyOmit_conn]

/-- a forwarding key survives the hop-by-hop phase unless the Connection header names it -/
theorem hGet_removed (h : Header) (k : Bytes) (hk : hopHeaders.any (fun t => canonKey t == k) = false) :
    hGet (removeHopHeaders (removeConnectionHeaders h)) k =
      if (connectionTokens h).any (fun t => canonKey t == k) then none else hGet h k := by
  unfold removeHopHeaders removeConnectionHeaders
  rw [hGet_foldl_hDelField, hk, hGet_foldl_hDelField]
  simp

/-- the state of a forwarding field when `addForwardedHeaders` reads it -/
theorem hGet_prepared (cfg : Cfg Prefix) (w : List (Bytes × Bytes)) (k : Bytes) (flag : Bool)
    (hk : hopHeaders.any (fun t => canonKey t == k) = false)
    (ho : hGet (applyOmit cfg (fromWire w)) k = if flag then some none else hGet (fromWire w) k) :
    hGet (removeHopHeaders (removeConnectionHeaders (applyOmit cfg (fromWire w)))) k =
      fieldBefore flag (connectionDrops w k) (wireValues w k) := by
  rw [hGet_removed _ _ hk, connectionTokens_applyOmit, ho, hGet_fromWire]
  unfold connectionDrops fieldBefore
  cases (connectionTokens (fromWire w)).any (fun t => canonKey t == k) <;> cases flag <;> simp

/-! ### addForwardedHeaders -/

theorem hGet_setUnlessOmitted_ne (h : Header) (k k' : Bytes) (p : Prior) (v : Bytes) (hne : k' ≠ k) :
    hGet (setUnlessOmitted h k p v) k' = hGet h k' := by
  unfold setUnlessOmitted
  split
  · rfl
  · rw [hGet_hPut]; simp [hne]

theorem setXFF_spec (trusted : Bool) (fresh : Bytes) (h : Header) (k : Bytes) :
    hGet (setUnlessOmitted h k (allHeaderValues h k) (xffValue trusted (allHeaderValues h k) fresh)) k =
      specField trusted keepXFF fresh (hGet h k) := by
  unfold setUnlessOmitted allHeaderValues
  cases hh : hGet h k with
  | none => simp [specField, hGet_hPut, xffValue, keepPrior]
  | some o =>
    cases o with
    | none => simp [specField, hh]
    | some vs =>
      cases vs with
      | nil => cases trusted <;> simp [specField, hGet_hPut, xffValue, keepPrior, keepXFF, joinWith]
      | cons v vs =>
        cases trusted <;> simp [specField, hGet_hPut, xffValue, keepPrior, keepXFF]

theorem lastOf_eq_getLast? (v : Bytes) (vs : List Bytes) : (v :: vs).getLast? = some (lastOf v vs) := by
  induction vs generalizing v with
  | nil => rfl
  | cons w ws ih => rw [List.getLast?_cons_cons, ih]; rfl

theorem setLast_spec (trusted : Bool) (fresh : Bytes) (h : Header) (k : Bytes) :
    hGet (setUnlessOmitted h k (lastHeaderValue h k) (overridable trusted (lastHeaderValue h k) fresh)) k =
      specField trusted keepLast fresh (hGet h k) := by
  unfold setUnlessOmitted lastHeaderValue
  cases hh : hGet h k with
  | none => simp [specField, hGet_hPut, overridable, keepPrior]
  | some o =>
    cases o with
    | none => simp [specField, hh]
    | some vs =>
      cases vs with
      | nil => cases trusted <;> simp [specField, hGet_hPut, overridable, keepPrior, keepLast]
      | cons v vs =>
        cases trusted <;> simp [specField, hGet_hPut, overridable, keepPrior, keepLast, lastOf_eq_getLast?]

/-- `addForwardedHeaders` after the remote address parsed: each field is `specField` of what was there -/
theorem fwdOf_setForwarded (trusted : Bool) (clientIP : Bytes) (c : Conn) (h : Header) :
    fwdOf (setForwarded trusted clientIP c h) =
      ⟨specField trusted keepXFF clientIP (hGet h kXFF),
       specField trusted keepLast (protoOf c) (hGet h kXFP),
       specField trusted keepLast c.host (hGet h kXFH)⟩ := by
  unfold fwdOf setForwarded
  simp only
  congr 1
  · rw [hGet_setUnlessOmitted_ne _ _ _ _ _ kXFF_ne_kXFH, hGet_setUnlessOmitted_ne _ _ _ _ _ kXFF_ne_kXFP, setXFF_spec]
  · rw [hGet_setUnlessOmitted_ne _ _ _ _ _ kXFP_ne_kXFH, setLast_spec,
      hGet_setUnlessOmitted_ne _ _ _ _ _ kXFF_ne_kXFP.symm]
  · rw [setLast_spec, hGet_setUnlessOmitted_ne _ _ _ _ _ kXFP_ne_kXFH.symm,
      hGet_setUnlessOmitted_ne _ _ _ _ _ kXFF_ne_kXFH.symm]


theorem specField_untrusted (keep : List Bytes → Bytes → Bytes) (fresh : Bytes) (flag d : Bool) (vals : List Bytes) :
    specField false keep fresh (fieldBefore flag d vals) =
      if flag && !d then some none else some (some [fresh]) := by
  unfold fieldBefore
  cases flag <;> cases d <;> cases vals <;> simp [specField]

theorem specField_trusted_plain (keep : List Bytes → Bytes → Bytes) (fresh : Bytes) (vals : List Bytes)
    (hk : keep [] fresh = fresh) :
    specField true keep fresh (fieldBefore false false vals) = some (some [keep vals fresh]) := by
  unfold fieldBefore
  cases vals <;> simp [specField, hk]

/-- whatever the `Connection` header named and whatever the peer sent: a field that no earlier handler
    pre-set to nil is sent with exactly one value -/
theorem specField_sent (trusted : Bool) (keep : List Bytes → Bytes → Bytes) (fresh : Bytes) (d : Bool)
    (vals : List Bytes) : Sent (specField trusted keep fresh (fieldBefore false d vals)) := by
  unfold fieldBefore Sent
  cases d <;> cases vals <;> simp [specField]

theorem dropNil_sent {x : Option (Option (List Bytes))} (h : Sent x) : Sent (dropNil x) := by
  obtain ⟨v, rfl⟩ := h
  exact ⟨v, rfl⟩

/-! ### join-then-split -/

theorem splitAux_append (c : UInt8) (b : Bytes) : ∀ (a acc : Bytes),
    splitAux c (a ++ c :: b) acc = splitAux c a acc ++ splitAux c b []
  | [], acc => by simp [splitAux]
  | x :: a, acc => by
    by_cases hx : x = c
    · simp [splitAux, hx, splitAux_append c b a []]
    · simp [splitAux, hx, splitAux_append c b a (x :: acc)]

theorem splitOn_join_cons (v w : Bytes) (vs : List Bytes) :
    splitOn comma (joinWith [comma] (v :: w :: vs)) =
      splitOn comma v ++ splitOn comma (joinWith [comma] (w :: vs)) := by
  unfold splitOn
  rw [joinWith]
  simpa using splitAux_append comma (joinWith [comma] (w :: vs)) v []

/-- joining the values with ',' and splitting on ',' is splitting each value -/
theorem elements_eq_flatMap : ∀ (vs : List Bytes), vs ≠ [] → elements vs = vs.flatMap (splitOn comma)
  | [], h => absurd rfl h
  | [v], _ => by simp [elements, joinWith]
  | v :: w :: vs, _ => by
    have ih := elements_eq_flatMap (w :: vs) (by simp)
    unfold elements at ih ⊢
    rw [splitOn_join_cons, ih]
    simp

/-! ### the two scans -/

theorem firstValid_eq (N : Net Addr Prefix) (parts : List Bytes) :
    firstValid N parts = leftmostValid N parts := by
  unfold leftmostValid
  induction parts with
  | nil => rfl
  | cons p rest ih =>
    unfold firstValid
    cases hp : partAddr N p with
    | none => simp [hp, ih]
    | some a => simp [hp]

theorem strictScan_eq_head (N : Net Addr Prefix) (ranges : List Prefix) (l : List Bytes) :
    strictScan N ranges l = ((l.filterMap (partAddr N)).filter (fun a => !isTrusted N ranges a)).head? := by
  induction l with
  | nil => rfl
  | cons p rest ih =>
    unfold strictScan
    cases hp : partAddr N p with
    | none => simp [hp, ih]
    | some a =>
      cases ht : isTrusted N ranges a <;> simp [hp, ht, ih]

theorem strictScan_reverse (N : Net Addr Prefix) (ranges : List Prefix) (parts : List Bytes) :
    strictScan N ranges parts.reverse = rightmostUntrusted N ranges parts := by
  rw [strictScan_eq_head]
  unfold rightmostUntrusted
  rw [List.filterMap_reverse, List.filter_reverse, List.head?_reverse]

theorem strictUntrusted_eq (N : Net Addr Prefix) (h : Header) (ranges : List Prefix) (cip : Bytes)
    (headers : List Bytes) :
    strictUntrustedClientIp N h ranges cip headers = strOr N cip (strictChoice N ranges h headers) := by
  unfold strictChoice
  induction headers with
  | nil => rfl
  | cons name rest ih =>
    unfold strictUntrustedClientIp
    rw [strictScan_reverse, List.findSome?_cons]
    unfold elements
    cases rightmostUntrusted N ranges (splitOn comma (joinWith [comma] (hValues h name))) with
    | some a => rfl
    | none => exact ih

theorem trustedReal_eq (N : Net Addr Prefix) (h : Header) (headers : List Bytes) (cip : Bytes) :
    trustedRealClientIP N h headers cip =
      if (collectValues h headers).isEmpty then cip
      else strOr N cip (leftmostValid N (elements (collectValues h headers))) := by
  unfold trustedRealClientIP elements
  rw [firstValid_eq]
  split
  · rfl
  · cases leftmostValid N (splitOn comma (joinWith [comma] (collectValues h headers))) <;> rfl

/-! ### determineTrustedProxy -/

theorem determine_untrusted (N : Net Addr Prefix) (cfg : Cfg Prefix) (c : Conn) (h : Header)
    (hu : serverTrusts N cfg c = false) :
    determineTrustedProxy N cfg c h = (false, strOr N [] (peerAddr N c)) := by
  unfold serverTrusts peerAddr at hu
  unfold determineTrustedProxy peerAddr
  cases hr : remoteHost c with
  | none => rfl
  | some host =>
    rw [hr] at hu
    cases hp : N.parseAddr host with
    | none => simp [strOr, hp]
    | some ip =>
      simp only [hp] at hu ⊢
      cases hs : cfg.srvTrusted with
      | none => rfl
      | some ranges =>
        simp only [hs] at hu ⊢
        simp [hu, strOr]

theorem determine_trusted (N : Net Addr Prefix) (cfg : Cfg Prefix) (c : Conn) (h : Header)
    (ht : serverTrusts N cfg c = true) :
    ∃ ip ranges, peerAddr N c = some ip ∧ cfg.srvTrusted = some ranges ∧ isTrusted N ranges ip = true ∧
      determineTrustedProxy N cfg c h =
        (true, if cfg.strict > 0 then strictUntrustedClientIp N h ranges (N.toString ip) (effectiveHeaders cfg)
               else trustedRealClientIP N h (effectiveHeaders cfg) (N.toString ip)) := by
  unfold serverTrusts peerAddr at ht
  unfold determineTrustedProxy peerAddr
  cases hr : remoteHost c with
  | none => simp [hr] at ht
  | some host =>
    rw [hr] at ht
    cases hp : N.parseAddr host with
    | none => simp [hp] at ht
    | some ip =>
      simp only [hp] at ht ⊢
      cases hs : cfg.srvTrusted with
      | none => simp [hs] at ht
      | some ranges =>
        simp only [hs] at ht ⊢
        refine ⟨ip, ranges, rfl, rfl, ht, ?_⟩
        simp only [ht, if_true]
        split <;> rfl


theorem collectValues_fromWire (w : List (Bytes × Bytes)) (headers : List Bytes) :
    collectValues (fromWire w) headers = configuredValues w headers := by
  unfold configuredValues
  induction headers with
  | nil => rfl
  | cons f rest ih => simp [collectValues, ih, hValues_fromWire]

/-- the Connection header's tokens are a function of the Connection fields on the wire -/
theorem connectionTokens_fromWire (w : List (Bytes × Bytes)) :
    connectionTokens (fromWire w) =
      (wireValues w kConnection).flatMap
        (fun f => ((splitOn comma f).map trimOWS).filter (fun sf => sf ≠ [])) := by
  unfold connectionTokens
  rw [hValues_fromWire, canonKey_kConnection]

/-! ### positional reading of the two choices -/

theorem leftmostValid_cons (N : Net Addr Prefix) (p : Bytes) (rest : List Bytes) :
    leftmostValid N (p :: rest) =
      match partAddr N p with
      | some a => some a
      | none => leftmostValid N rest := by
  unfold leftmostValid
  cases hp : partAddr N p <;> simp [hp]

theorem leftmostValid_none_iff (N : Net Addr Prefix) (parts : List Bytes) :
    leftmostValid N parts = none ↔ ∀ p, p ∈ parts → partAddr N p = none := by
  induction parts with
  | nil => simp [leftmostValid]
  | cons p rest ih =>
    rw [leftmostValid_cons]
    cases hp : partAddr N p with
    | none => simp [ih, hp]
    | some a => simp [hp]

theorem leftmostValid_some_iff (N : Net Addr Prefix) (parts : List Bytes) (a : Addr) :
    leftmostValid N parts = some a ↔
      ∃ i p, parts[i]? = some p ∧ partAddr N p = some a ∧
        ∀ (j : Nat) (q : Bytes), j < i → parts[j]? = some q → partAddr N q = none := by
  induction parts with
  | nil => simp [leftmostValid]
  | cons p rest ih =>
    rw [leftmostValid_cons]
    cases hp : partAddr N p with
    | some b =>
      constructor
      · intro h
        cases h
        exact ⟨0, p, rfl, hp, fun j q hj => absurd hj (Nat.not_lt_zero j)⟩
      · rintro ⟨i, q, hq, hqa, hall⟩
        cases i with
        | zero =>
          simp at hq; subst hq
          rw [hp] at hqa; exact hqa
        | succ i =>
          have := hall 0 p (Nat.succ_pos i) rfl
          rw [hp] at this; cases this
    | none =>
      simp only
      rw [ih]
      constructor
      · rintro ⟨i, q, hq, hqa, hall⟩
        refine ⟨i + 1, q, by simpa using hq, hqa, ?_⟩
        intro j r hj hr
        cases j with
        | zero => simp at hr; subst hr; exact hp
        | succ j => exact hall j r (Nat.lt_of_succ_lt_succ hj) (by simpa using hr)
      · rintro ⟨i, q, hq, hqa, hall⟩
        cases i with
        | zero =>
          simp at hq; subst hq
          rw [hp] at hqa; cases hqa
        | succ i =>
          refine ⟨i, q, by simpa using hq, hqa, ?_⟩
          intro j r hj hr
          exact hall (j + 1) r (Nat.succ_lt_succ hj) (by simpa using hr)

/-- an element that parses as an address outside the trusted ranges -/
def untrustedAddr (N : Net Addr Prefix) (ranges : List Prefix) (p : Bytes) : Option Addr :=
  match partAddr N p with
  | some a => if isTrusted N ranges a then none else some a
  | none => none

theorem rightmostUntrusted_cons (N : Net Addr Prefix) (ranges : List Prefix) (p : Bytes) (rest : List Bytes) :
    rightmostUntrusted N ranges (p :: rest) =
      match rightmostUntrusted N ranges rest with
      | some a => some a
      | none => untrustedAddr N ranges p := by
  unfold rightmostUntrusted untrustedAddr
  cases hp : partAddr N p with
  | none =>
    simp only [List.filterMap_cons, hp]
    cases (List.filter (fun a => !isTrusted N ranges a) (List.filterMap (partAddr N) rest)).getLast? <;> rfl
  | some a =>
    simp only [List.filterMap_cons, hp, List.filter_cons]
    cases ht : isTrusted N ranges a
    · simp only [Bool.not_false, if_true, Bool.false_eq_true, if_false]
      generalize List.filter (fun a => !isTrusted N ranges a) (List.filterMap (partAddr N) rest) = L
      cases L with
      | nil => rfl
      | cons x xs =>
        rw [List.getLast?_cons_cons]
        cases h : (x :: xs).getLast? with
        | none => simp at h
        | some y => rfl
    · simp only [Bool.not_true, Bool.false_eq_true, if_false, if_true]
      cases (List.filter (fun a => !isTrusted N ranges a) (List.filterMap (partAddr N) rest)).getLast? <;> rfl

theorem rightmostUntrusted_none_iff (N : Net Addr Prefix) (ranges : List Prefix) (parts : List Bytes) :
    rightmostUntrusted N ranges parts = none ↔ ∀ p, p ∈ parts → untrustedAddr N ranges p = none := by
  induction parts with
  | nil => simp [rightmostUntrusted]
  | cons p rest ih =>
    rw [rightmostUntrusted_cons]
    cases hr : rightmostUntrusted N ranges rest with
    | some a =>
      simp only [reduceCtorEq, false_iff]
      intro hall
      have : rightmostUntrusted N ranges rest = none := ih.mpr (fun q hq => hall q (List.mem_cons_of_mem _ hq))
      rw [hr] at this; cases this
    | none =>
      have := ih.mp hr
      simp only [List.mem_cons, forall_eq_or_imp]
      constructor
      · intro h; exact ⟨h, this⟩
      · intro h; exact h.1

theorem rightmostUntrusted_some_iff (N : Net Addr Prefix) (ranges : List Prefix) (parts : List Bytes) (a : Addr) :
    rightmostUntrusted N ranges parts = some a ↔
      ∃ i p, parts[i]? = some p ∧ untrustedAddr N ranges p = some a ∧
        ∀ (j : Nat) (q : Bytes), i < j → parts[j]? = some q → untrustedAddr N ranges q = none := by
  induction parts with
  | nil => simp [rightmostUntrusted]
  | cons p rest ih =>
    rw [rightmostUntrusted_cons]
    cases hr : rightmostUntrusted N ranges rest with
    | some b =>
      simp only
      constructor
      · intro h
        cases h
        obtain ⟨i, q, hq, hqa, hall⟩ := ih.mp hr
        refine ⟨i + 1, q, by simpa using hq, hqa, ?_⟩
        intro j r hj hr'
        cases j with
        | zero => exact absurd hj (Nat.not_lt_zero _)
        | succ j => exact hall j r (Nat.lt_of_succ_lt_succ hj) (by simpa using hr')
      · rintro ⟨i, q, hq, hqa, hall⟩
        cases i with
        | zero =>
          -- everything behind position 0 is trusted or invalid: contradiction with `hr`
          have : rightmostUntrusted N ranges rest = none := by
            rw [rightmostUntrusted_none_iff]
            intro r hrm
            obtain ⟨j, hj⟩ := List.getElem?_of_mem hrm
            exact hall (j + 1) r (Nat.succ_pos j) (by simpa using hj)
          rw [hr] at this; cases this
        | succ i =>
          have : rightmostUntrusted N ranges rest = some a := by
            rw [ih]
            refine ⟨i, q, by simpa using hq, hqa, ?_⟩
            intro j r hj hr'
            exact hall (j + 1) r (Nat.succ_lt_succ hj) (by simpa using hr')
          rw [hr] at this; exact this
    | none =>
      simp only
      have hnone := (rightmostUntrusted_none_iff N ranges rest).mp hr
      constructor
      · intro h
        refine ⟨0, p, rfl, h, ?_⟩
        intro j r hj hr'
        cases j with
        | zero => exact absurd hj (Nat.lt_irrefl 0)
        | succ j =>
          have : r ∈ rest := List.mem_of_getElem? (by simpa using hr')
          exact hnone r this
      · rintro ⟨i, q, hq, hqa, _⟩
        cases i with
        | zero => simp at hq; subst hq; exact hqa
        | succ i =>
          have : q ∈ rest := List.mem_of_getElem? (by simpa using hq)
          rw [hnone q this] at hqa; cases hqa

/-! ### TrimSpace never runs out of fuel -/

theorem spaceHead_nil : spaceHead [] = 0 := rfl
theorem spaceLast_nil : spaceLast [] = 0 := rfl

theorem trimLeftFuel_done : ∀ (fuel : Nat) (s : Bytes), s.length ≤ fuel → spaceHead (trimLeftFuel fuel s) = 0
  | 0, s, h => by
    have : s = [] := List.length_eq_zero_iff.mp (Nat.le_zero.mp h)
    subst this; rfl
  | fuel + 1, s, h => by
    unfold trimLeftFuel
    split
    · assumption
    · rename_i hne
      apply trimLeftFuel_done fuel
      cases s with
      | nil => exact absurd spaceHead_nil hne
      | cons b rest =>
        simp only [List.length_drop, List.length_cons] at h ⊢
        omega

theorem trimLastFuel_done : ∀ (fuel : Nat) (s : Bytes), s.length ≤ fuel → spaceLast (trimLastFuel fuel s) = 0
  | 0, s, h => by
    have : s = [] := List.length_eq_zero_iff.mp (Nat.le_zero.mp h)
    subst this; rfl
  | fuel + 1, s, h => by
    unfold trimLastFuel
    split
    · assumption
    · rename_i hne
      apply trimLastFuel_done fuel
      cases s with
      | nil => exact absurd spaceLast_nil hne
      | cons b rest =>
        simp only [List.length_drop, List.length_cons] at h ⊢
        omega

theorem trimLeftFuel_length : ∀ (fuel : Nat) (s : Bytes), (trimLeftFuel fuel s).length ≤ s.length
  | 0, s => Nat.le_refl _
  | fuel + 1, s => by
    unfold trimLeftFuel
    split
    · exact Nat.le_refl _
    · exact Nat.le_trans (trimLeftFuel_length fuel _) (by simp)

/-! ### consumers of the attributed address -/

theorem matchCidrZones_eq_any (N : Net Addr Prefix) (a : Addr) (z : Bytes) (ranges : List (MRange Prefix)) :
    matchCidrZones N a z ranges = ranges.any (fun r => N.contains r.pfx a && zoneOK r z) := by
  induction ranges with
  | nil => rfl
  | cons r rest ih =>
    unfold matchCidrZones
    simp only [List.any_cons, zoneOK, ih]
    cases N.contains r.pfx a && (decide (r.zone = []) || decide (z = r.zone)) <;> simp

/-- the first piece of `strings.Split(s, "%")` is `strings.Cut(s, "%")`'s `before` -/
theorem splitAux_percent_head : ∀ (s acc : Bytes),
    ∃ tail, splitAux percent s acc = (acc.reverse ++ cutZone s) :: tail
  | [], acc => ⟨[], by simp [splitAux, cutZone]⟩
  | b :: rest, acc => by
    by_cases hb : b = percent
    · exact ⟨splitAux percent rest [], by simp [splitAux, cutZone, hb]⟩
    · obtain ⟨tail, ht⟩ := splitAux_percent_head rest (b :: acc)
      exact ⟨tail, by simp [splitAux, cutZone, hb, ht]⟩

theorem ipAndZone_fst (s : Bytes) : (ipAndZone s).1 = cutZone s := by
  obtain ⟨tail, ht⟩ := splitAux_percent_head s []
  unfold ipAndZone splitOn
  rw [ht]
  cases tail <;> simp

/-- without a '%' there is no zone -/
theorem splitAux_noPercent : ∀ (s acc : Bytes), cutZone s = s → splitAux percent s acc = [acc.reverse ++ s]
  | [], acc, _ => by simp [splitAux]
  | b :: rest, acc, h => by
    by_cases hb : b = percent
    · simp [cutZone, hb] at h
    · have h' : cutZone rest = rest := by simpa [cutZone, hb] using h
      simp [splitAux, hb, splitAux_noPercent rest (b :: acc) h']

theorem ipAndZone_noZone (s : Bytes) (h : cutZone s = s) : ipAndZone s = (s, []) := by
  unfold ipAndZone splitOn
  rw [splitAux_noPercent s [] h]
  simp

/-- the consumers parse what `Addr.String` printed back to the same address, without zone -/
theorem parseIPZone_printed (N : Net Addr Prefix) (hN : PrintsParseBack N) (a : Addr) :
    parseIPZone N (N.toString a) = some (a, []) := by
  unfold parseIPZone hostOrAll
  rw [hN.noPort a]
  simp only [ipAndZone_noZone _ (hN.noZone a), hN.back a]

/-! ### the proxy retry loop -/

theorem kVerifUp_ne : kXFF ≠ kVerifUp ∧ kXFP ≠ kVerifUp ∧ kXFH ≠ kVerifUp := by decide

theorem hGet_filter_key (q : Bytes → Bool) (h : Header) (k : Bytes) :
    hGet (h.filter (fun e => q e.1)) k = if q k then hGet h k else none := by
  induction h with
  | nil => simp [hGet]
  | cons e rest ih =>
    obtain ⟨ek, ev⟩ := e
    by_cases hk : ek = k
    · subst hk
      cases hq : q ek
      · simp [List.filter, hq, ih]
      · simp [List.filter, hq, hGet]
    · cases hq : q ek
      · simp [List.filter, hq, ih, hGet, hk]
      · simp [List.filter, hq, ih, hGet, hk]

theorem hGet_copyHeader (h : Header) (k : Bytes) : hGet (copyHeader h) k = dropNil (hGet h k) := by
  unfold copyHeader
  rw [hGet_filter_key (carried h) h k]
  unfold carried
  cases hh : hGet h k with
  | none => rfl
  | some o =>
    cases o with
    | none => rfl
    | some vs => cases vs <;> rfl

theorem fwdOf_copyHeader (h : Header) :
    fwdOf (copyHeader h) = ⟨dropNil (fwdOf h).xff, dropNil (fwdOf h).xfp, dropNil (fwdOf h).xfh⟩ := by
  simp [fwdOf, hGet_copyHeader]

theorem fwdOf_applyOps (ops : Ops) (h : Header) : fwdOf (applyOps ops h) = (match ops with
    | .none => fwdOf h
    | .setOther => fwdOf h
    | .delXFH => { fwdOf h with xfh := none }) := by
  cases ops
  · rfl
  · simp [applyOps, fwdOf, hGet_hPut, kVerifUp_ne.1, kVerifUp_ne.2.1, kVerifUp_ne.2.2]
  · simp [applyOps, fwdOf, hGet_hDel, kXFF_ne_kXFH, kXFP_ne_kXFH]

/-- every pass hands the transport the prepared headers with the operator's ops applied once —
    provided that, without ops, nothing changed the header map since `prepareRequest` -/
theorem fwdOf_attemptHeader (ops : Ops) (h cur : Header) (hc : ops = .none → cur = h) :
    fwdOf (attemptHeader ops h cur) = opsFwd ops (fwdOf h) := by
  cases ops
  · simp [attemptHeader, hc rfl, opsFwd]
  · simp [attemptHeader, fwdOf_applyOps, fwdOf_copyHeader, opsFwd]
  · simp [attemptHeader, fwdOf_applyOps, fwdOf_copyHeader, opsFwd]

theorem proxyLoop_eq (ops : Ops) (h : Header) : ∀ (fails : Nat) (cur : Header), (ops = .none → cur = h) →
    proxyLoop ops h fails cur = List.replicate (fails + 1) (opsFwd ops (fwdOf h))
  | 0, cur, hc => by simp [proxyLoop, fwdOf_attemptHeader ops h cur hc]
  | fails + 1, cur, hc => by
    have hc' : ops = .none → attemptHeader ops h cur = h := by
      intro ho; subst ho; simp [attemptHeader, hc rfl]
    rw [proxyLoop, fwdOf_attemptHeader ops h cur hc, proxyLoop_eq ops h fails _ hc']
    simp [List.replicate_succ]

end

/-! ### FastCGI environment -/

theorem hGet_mem (h : Header) (k : Bytes) (v : Option (List Bytes)) (hg : hGet h k = some v) : (k, v) ∈ h := by
  induction h with
  | nil => simp [hGet] at hg
  | cons e rest ih =>
    obtain ⟨ek, ev⟩ := e
    unfold hGet at hg
    split at hg
    · rename_i hk; cases hg; subst hk; simp
    · exact List.mem_cons_of_mem _ (ih hg)

/-! ### Caddyfile glue -/

theorem expandRanges_mem (args : List Bytes) (r : Bytes) (h : r ∈ expandRanges args) :
    r ∈ args ∨ (tokPrivateRanges ∈ args ∧ r ∈ Gen.privateRanges) := by
  induction args with
  | nil => simp [expandRanges] at h
  | cons a rest ih =>
    unfold expandRanges at h
    split at h
    · rename_i ha
      rcases List.mem_append.mp h with h | h
      · exact Or.inr ⟨by simp [ha], h⟩
      · rcases ih h with h | ⟨h1, h2⟩
        · exact Or.inl (List.mem_cons_of_mem _ h)
        · exact Or.inr ⟨List.mem_cons_of_mem _ h1, h2⟩
    · rcases List.mem_cons.mp h with h | h
      · exact Or.inl (by simp [h])
      · rcases ih h with h | ⟨h1, h2⟩
        · exact Or.inl (List.mem_cons_of_mem _ h)
        · exact Or.inr ⟨List.mem_cons_of_mem _ h1, h2⟩

theorem addClientIPHeaders_eq : ∀ (l acc : List Bytes), acc.Nodup →
    addClientIPHeaders acc l = if (acc ++ l).Nodup then some (acc ++ l) else none
  | [], acc, hn => by simp [addClientIPHeaders, hn]
  | h :: rest, acc, hn => by
    unfold addClientIPHeaders
    by_cases hc : acc.contains h = true
    · have hm : h ∈ acc := by simpa using hc
      have : ¬ (acc ++ h :: rest).Nodup := by
        intro hnd
        have := (List.nodup_append.mp hnd).2.2 h hm h (by simp)
        exact this rfl
      simp [this, hm]
    · have hm : h ∉ acc := by simpa using hc
      have hn' : (acc ++ [h]).Nodup := by
        rw [List.nodup_append]
        refine ⟨hn, by simp, ?_⟩
        intro a ha b hb
        simp at hb; subst hb
        exact fun e => hm (e ▸ ha)
      simp only [hc, Bool.false_eq_true, if_false]
      rw [addClientIPHeaders_eq rest (acc ++ [h]) hn']
      simp [List.append_assoc]

theorem clientIPHeaderLines_eq : ∀ (ls : List (List Bytes)) (acc : List Bytes), acc.Nodup →
    clientIPHeaderLines acc ls = if (acc ++ ls.flatten).Nodup then some (acc ++ ls.flatten) else none
  | [], acc, hn => by simp [clientIPHeaderLines, hn]
  | l :: ls, acc, hn => by
    unfold clientIPHeaderLines
    rw [addClientIPHeaders_eq l acc hn]
    by_cases h1 : (acc ++ l).Nodup
    · simp only [h1, if_true]
      rw [clientIPHeaderLines_eq ls (acc ++ l) h1]
      simp [List.append_assoc]
    · have : ¬ (acc ++ (l :: ls).flatten).Nodup := by
        intro hnd
        apply h1
        have hs : (acc ++ l).Sublist (acc ++ (l :: ls).flatten) := by
          simp only [List.flatten_cons, ← List.append_assoc]
          exact List.sublist_append_left _ _
        exact hnd.sublist hs
      have this' : ¬ (acc ++ (l ++ ls.flatten)).Nodup := by simpa using this
      simp [h1, this']

theorem lastLine_mem : ∀ (ls : List (List Bytes)) (l : List Bytes), lastLine ls = some l → l ∈ ls
  | [], l, h => by simp [lastLine] at h
  | [x], l, h => by simp [lastLine] at h; simp [h]
  | x :: y :: ls, l, h => by
    unfold lastLine at h
    exact List.mem_cons_of_mem _ (lastLine_mem (y :: ls) l h)

end CaddyModel.C10
