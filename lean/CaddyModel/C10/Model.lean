/-
C10 — model of the code that decides which client address caddy attributes to a request and
which X-Forwarded-* fields reverse_proxy sends upstream:

  modules/caddyhttp/server.go     determineTrustedProxy, isTrustedClientIP,
                                  trustedRealClientIP, strictUntrustedClientIp
  modules/caddyhttp/app.go        default `client_ip_headers` = ["X-Forwarded-For"]
  reverseproxy/reverseproxy.go    prepareRequest (removeConnectionHeaders, hop-by-hop
                                  removal, then addForwardedHeaders), allHeaderValues,
                                  lastHeaderValue

The Go glue (SplitHostPort, zone cut, join-then-split on ',', TrimSpace, left-most /
right-most scans, header canonicalisation, `omit` on a nil header value) is inside the model;
`net/netip` is a PARAMETER (`Net`): `ParseAddr`, `Prefix.Contains`, `Addr.String`.
Nothing in this file looks inside them, so every theorem holds for every such triple.
-/
import CaddyModel.C10.Glue
import CaddyModel.Gen.Forwarding
import CaddyModel.Gen.Glue

namespace CaddyModel.C10

/-- `net/netip` as the code uses it -/
structure Net (Addr Prefix : Type) where
  parseAddr : Bytes → Option Addr        -- netip.ParseAddr (none = error)
  contains : Prefix → Addr → Bool        -- Prefix.Contains
  toString : Addr → Bytes                -- Addr.String

/-- server and handler configuration after provisioning -/
structure Cfg (Prefix : Type) where
  srvTrusted : Option (List Prefix)      -- s.trustedProxies.GetIPRanges(r); none = no source configured
  clientIPHeaders : Option (List Bytes)  -- client_ip_headers; none = not configured
  strict : Nat                           -- trusted_proxies_strict
  handlerTrusted : List Prefix           -- reverse_proxy's own trusted_proxies
  omitXFF : Bool                         -- an earlier handler stored nil under X-Forwarded-For
  omitXFP : Bool                         --   … X-Forwarded-Proto
  omitXFH : Bool                         --   … X-Forwarded-Host

/-- what the connection itself says about the request -/
structure Conn where
  remoteAddr : Bytes                     -- r.RemoteAddr
  tls : Bool                             -- r.TLS != nil once Server.ServeHTTP ran (it recovers the state from the
                                         --   connection in the context when a listener wrapper left r.TLS nil)
  host : Bytes                           -- r.Host
  earlyData : Bool                       -- r.TLS != nil && !r.TLS.HandshakeComplete (request arrived as TLS 0-RTT data)
deriving DecidableEq, Repr

def kXFF : Bytes := [88, 45, 70, 111, 114, 119, 97, 114, 100, 101, 100, 45, 70, 111, 114]
def kXFP : Bytes := [88, 45, 70, 111, 114, 119, 97, 114, 100, 101, 100, 45, 80, 114, 111, 116, 111]
def kXFH : Bytes := [88, 45, 70, 111, 114, 119, 97, 114, 100, 101, 100, 45, 72, 111, 115, 116]
def kConnection : Bytes := [67, 111, 110, 110, 101, 99, 116, 105, 111, 110]
def sHttp : Bytes := [104, 116, 116, 112]
def sHttps : Bytes := [104, 116, 116, 112, 115]
def commaSpace : Bytes := [44, 32]

/-- reverseproxy.go `hopHeaders` — REGENERATED from the source on every run (tools/extract →
    Gen/Forwarding.lean): Alt-Svc, Connection, Proxy-Connection, Keep-Alive, Proxy-Authenticate,
    Proxy-Authorization, Te, Trailer, Transfer-Encoding, Upgrade on the pinned tree.  The lemmas
    `hop_not_kXFF/kXFP/kXFH` (no forwarding field is hop-by-hop) are re-proved against whatever the
    source lists. -/
def hopHeaders : List Bytes := Gen.hopHeaders

section
variable {Addr Prefix : Type}

/-! ### server.go -/

/-- `isTrustedClientIP` -/
def isTrusted (N : Net Addr Prefix) (ranges : List Prefix) (a : Addr) : Bool :=
  ranges.any (fun p => N.contains p a)

/-- one element of a client-IP header, as both scans treat it:
    `host, _, err := net.SplitHostPort(part); if err != nil { host = part }`,
    `host, _, _ = strings.Cut(strings.TrimSpace(host), "%")` -/
def partHost (part : Bytes) : Bytes :=
  cutZone (trimSpace (match splitHostPort part with
                      | some hp => hp.1
                      | none => part))

/-- `netip.ParseAddr(host)` of an element -/
def partAddr (N : Net Addr Prefix) (part : Bytes) : Option Addr := N.parseAddr (partHost part)

/-- `for _, field := range headers { values = append(values, r.Header.Values(field)...) }` -/
def collectValues (h : Header) : List Bytes → List Bytes
  | [] => []
  | field :: rest => hValues h field ++ collectValues h rest

/-- the loop "get first valid left-most IP address" -/
def firstValid (N : Net Addr Prefix) : List Bytes → Option Addr
  | [] => none
  | part :: rest =>
    match partAddr N part with
    | some a => some a
    | none => firstValid N rest

/-- `trustedRealClientIP` -/
def trustedRealClientIP (N : Net Addr Prefix) (h : Header) (headers : List Bytes) (clientIP : Bytes) : Bytes :=
  if (collectValues h headers).isEmpty then clientIP
  else
    match firstValid N (splitOn comma (joinWith [comma] (collectValues h headers))) with
    | some a => N.toString a
    | none => clientIP

/-- the loop `for i := len(parts) - 1; i >= 0; i--` of `strictUntrustedClientIp`, written over
    the parts in the order it visits them (last first) -/
def strictScan (N : Net Addr Prefix) (trusted : List Prefix) : List Bytes → Option Addr
  | [] => none
  | part :: earlier =>
    match partAddr N part with
    | some a => if !isTrusted N trusted a then some a else strictScan N trusted earlier
    | none => strictScan N trusted earlier

/-- `strictUntrustedClientIp` -/
def strictUntrustedClientIp (N : Net Addr Prefix) (h : Header) (trusted : List Prefix) (clientIP : Bytes) :
    List Bytes → Bytes
  | [] => clientIP
  | name :: rest =>
    match strictScan N trusted (splitOn comma (joinWith [comma] (hValues h name))).reverse with
    | some a => N.toString a
    | none => strictUntrustedClientIp N h trusted clientIP rest

/-- app.go: `if srv.ClientIPHeaders == nil { srv.ClientIPHeaders = []string{"X-Forwarded-For"} }` -/
def effectiveHeaders (cfg : Cfg Prefix) : List Bytes :=
  match cfg.clientIPHeaders with
  | some l => l
  | none => Gen.defaultClientIPHeaders     -- regenerated from app.go (X-Forwarded-For on the pinned tree)

/-- the remote IP both functions derive from `r.RemoteAddr`:
    `SplitHostPort`, cut the zone; `none` = SplitHostPort failed -/
def remoteHost (c : Conn) : Option Bytes :=
  match splitHostPort c.remoteAddr with
  | some hp => some (cutZone hp.1)
  | none => none

/-- `determineTrustedProxy` (with a non-nil server): `(trusted, clientIP)` -/
def determineTrustedProxy (N : Net Addr Prefix) (cfg : Cfg Prefix) (c : Conn) (h : Header) : Bool × Bytes :=
  match remoteHost c with
  | none => (false, [])
  | some host =>
    match N.parseAddr host with
    | none => (false, [])
    | some ip =>
      match cfg.srvTrusted with
      | none => (false, N.toString ip)
      | some ranges =>
        if isTrusted N ranges ip then
          if cfg.strict > 0 then
            (true, strictUntrustedClientIp N h ranges (N.toString ip) (effectiveHeaders cfg))
          else
            (true, trustedRealClientIP N h (effectiveHeaders cfg) (N.toString ip))
        else (false, N.toString ip)

/-! ### reverseproxy.go -/

/-- the field names `removeConnectionHeaders` deletes: every non-empty, trimmed, comma-separated
    token of every `Connection` value -/
def connectionTokens (h : Header) : List Bytes :=
  (hValues h kConnection).flatMap (fun f => ((splitOn comma f).map trimOWS).filter (fun sf => sf ≠ []))

/-- `removeConnectionHeaders` -/
def removeConnectionHeaders (h : Header) : Header := (connectionTokens h).foldl hDelField h

/-- `for _, h := range hopHeaders { req.Header.Del(h) }`.  (The `Te: trailers` exception and the
    re-added `Connection`/`Upgrade` pair for protocol upgrades only concern those three fields,
    which are not observed here.) -/
def removeHopHeaders (h : Header) : Header := hopHeaders.foldl hDelField h

/-- result of `allHeaderValues` / `lastHeaderValue` -/
structure Prior where
  value : Bytes
  ok : Bool
  omitted : Bool
deriving DecidableEq, Repr

/-- `allHeaderValues(h, key)` (key already canonical) -/
def allHeaderValues (h : Header) (key : Bytes) : Prior :=
  match hGet h key with
  | some none => ⟨[], true, true⟩
  | none => ⟨[], false, false⟩
  | some (some []) => ⟨[], false, false⟩
  | some (some (v :: vs)) => ⟨joinWith commaSpace (v :: vs), true, false⟩

/-- `values[len(values)-1]` -/
def lastOf : Bytes → List Bytes → Bytes
  | v, [] => v
  | _, w :: ws => lastOf w ws

/-- `lastHeaderValue(h, key)` -/
def lastHeaderValue (h : Header) (key : Bytes) : Prior :=
  match hGet h key with
  | some none => ⟨[], true, true⟩
  | none => ⟨[], false, false⟩
  | some (some []) => ⟨[], false, false⟩
  | some (some (v :: vs)) => ⟨lastOf v vs, true, false⟩

/-- `trusted && ok && prior != ""` -/
def keepPrior (trusted : Bool) (p : Prior) : Bool := trusted && p.ok && !p.value.isEmpty

/-- `if !omit { req.Header.Set(key, value) }` -/
def setUnlessOmitted (h : Header) (key : Bytes) (p : Prior) (value : Bytes) : Header :=
  if p.omitted then h else hPut h key (some [value])

def xffValue (trusted : Bool) (p : Prior) (clientIP : Bytes) : Bytes :=
  if keepPrior trusted p then p.value ++ commaSpace ++ clientIP else clientIP

def overridable (trusted : Bool) (p : Prior) (fresh : Bytes) : Bytes :=
  if keepPrior trusted p then p.value else fresh

def protoOf (c : Conn) : Bytes := if c.tls then sHttps else sHttp

/-- the part of `addForwardedHeaders` after the remote address has been parsed -/
def setForwarded (trusted : Bool) (clientIP : Bytes) (c : Conn) (h : Header) : Header :=
  (fun h1 : Header =>
    (fun h2 : Header =>
      setUnlessOmitted h2 kXFH (lastHeaderValue h2 kXFH) (overridable trusted (lastHeaderValue h2 kXFH) c.host))
    (setUnlessOmitted h1 kXFP (lastHeaderValue h1 kXFP) (overridable trusted (lastHeaderValue h1 kXFP) (protoOf c))))
  (setUnlessOmitted h kXFF (allHeaderValues h kXFF) (xffValue trusted (allHeaderValues h kXFF) clientIP))

/-- `addForwardedHeaders`; `none` = it returned an error (the request is answered with 500) -/
def addForwardedHeaders (N : Net Addr Prefix) (cfg : Cfg Prefix) (c : Conn) (trustedVar : Bool) (h : Header) :
    Option Header :=
  match remoteHost c with
  | none => some (hDel (hDel (hDel h kXFF) kXFP) kXFH)
  | some host =>
    match N.parseAddr host with
    | none => none
    | some ip => some (setForwarded (trustedVar || isTrusted N cfg.handlerTrusted ip) host c h)

/-- the header-relevant part of `prepareRequest` -/
def prepareRequest (N : Net Addr Prefix) (cfg : Cfg Prefix) (c : Conn) (trustedVar : Bool) (h : Header) :
    Option Header :=
  addForwardedHeaders N cfg c trustedVar (removeHopHeaders (removeConnectionHeaders h))

/-! ### the request as the harness drives it -/

/-- what an earlier handler may have done: `r.Header[key] = nil` -/
def applyOmit (cfg : Cfg Prefix) (h : Header) : Header :=
  (fun h1 : Header =>
    (fun h2 : Header => if cfg.omitXFH then hPut h2 kXFH none else h2)
    (if cfg.omitXFP then hPut h1 kXFP none else h1))
  (if cfg.omitXFF then hPut h kXFF none else h)

/-- the three forwarding fields of the request sent upstream -/
structure Fwd where
  xff : Option (Option (List Bytes))     -- none = absent, some none = nil (omitted), some (some vs)
  xfp : Option (Option (List Bytes))
  xfh : Option (Option (List Bytes))
deriving DecidableEq, Repr

def fwdOf (h : Header) : Fwd := ⟨hGet h kXFF, hGet h kXFP, hGet h kXFH⟩

/-- everything the property talks about -/
structure Out where
  clientIP : Bytes             -- the `client_ip` var
  trusted : Bool               -- the `trusted_proxy` var
  fwd : Option Fwd             -- none = reverse_proxy refused the request
deriving DecidableEq, Repr

/-- one request: PrepareRequest (server.go), then the route's handlers -/
def serve (N : Net Addr Prefix) (cfg : Cfg Prefix) (c : Conn) (wire : List (Bytes × Bytes)) : Out :=
  { clientIP := (determineTrustedProxy N cfg c (fromWire wire)).2
    trusted := (determineTrustedProxy N cfg c (fromWire wire)).1
    fwd := (prepareRequest N cfg c (determineTrustedProxy N cfg c (fromWire wire)).1
              (applyOmit cfg (fromWire wire))).map fwdOf }

/-! ### what consumes the attributed address
`client_ip` / `remote_ip` matchers (ip_matchers.go), the `{http.vars.client_ip}` placeholder
(replacer.go), the access log's `request.client_ip` field (marshalers.go) and the PROXY-protocol
address reverse_proxy derives for the upstream (reverseproxy.go `prepareRequest`). -/

/-- one configured range of a matcher after `provisionCidrsZonesFromRanges`: prefix and zone filter -/
structure MRange (Prefix : Type) where
  pfx : Prefix
  zone : Bytes          -- "" = no zone filter

/-- `ipStr, _, err := net.SplitHostPort(address); if err != nil { ipStr = address }` -/
def hostOrAll (address : Bytes) : Bytes :=
  match splitHostPort address with
  | some hp => hp.1
  | none => address

/-- `if strings.Contains(ipStr, "%") { split := strings.Split(ipStr, "%"); ipStr = split[0]; zoneID = split[1] }` -/
def ipAndZone (ipStr : Bytes) : Bytes × Bytes :=
  match splitOn percent ipStr with
  | a :: b :: _ => (a, b)
  | a :: _ => (a, [])          -- no '%': `Split` returns the string itself
  | [] => (ipStr, [])          -- (`Split` never returns an empty slice)

/-- `parseIPZoneFromString`; `none` = `netip.ParseAddr` failed -/
def parseIPZone (N : Net Addr Prefix) (address : Bytes) : Option (Addr × Bytes) :=
  match N.parseAddr (ipAndZone (hostOrAll address)).1 with
  | some a => some (a, (ipAndZone (hostOrAll address)).2)
  | none => none

/-- `matchIPByCidrZones` (its first result; the second only selects a debug log line) -/
def matchCidrZones (N : Net Addr Prefix) (a : Addr) (zoneID : Bytes) : List (MRange Prefix) → Bool
  | [] => false
  | r :: rest =>
    if N.contains r.pfx a && (decide (r.zone = []) || decide (zoneID = r.zone)) then true
    else matchCidrZones N a zoneID rest

/-- `MatchClientIP.MatchWithError` / `MatchRemoteIP.MatchWithError` on their respective address, after
    their guard `if r.TLS != nil && !r.TLS.HandshakeComplete { return false, Error(425, …) }`
    ("remote IP cannot be verified" for 0-RTT data; the guard is in `consumers`) -/
def matchAddress (N : Net Addr Prefix) (ranges : List (MRange Prefix)) (address : Bytes) : Bool :=
  match parseIPZone N address with
  | some az => matchCidrZones N az.1 az.2 ranges
  | none => false

/-- everything downstream of the `client_ip` var -/
structure Consumers where
  placeholder : Bytes            -- `{http.vars.client_ip}`
  template : Bytes               -- templates' `{{.ClientIP}}` (tplcontext.go): the var, a port split off if it has one
  logField : Bytes               -- access log `request.client_ip`
  clientMatch : Bool             -- `client_ip` matcher
  remoteMatch : Bool             -- `remote_ip` matcher (reads `r.RemoteAddr`, not the var)
  proxyProto : Option Bytes      -- PROXY-protocol source address (port 0); none = invalid
deriving DecidableEq, Repr

/-- the consumers, given the var's value.  (`netip.ParseAddrPort` never accepts what `Addr.String`
    prints, so `prepareRequest` always takes its `ParseAddr` branch — checked by the stream.) -/
def consumers (N : Net Addr Prefix) (ranges : List (MRange Prefix)) (c : Conn) (clientIP : Bytes) : Consumers :=
  { placeholder := clientIP
    template := hostOrAll clientIP
    logField := clientIP
    clientMatch := if c.earlyData then false else matchAddress N ranges clientIP
    remoteMatch := if c.earlyData then false else matchAddress N ranges c.remoteAddr
    proxyProto := (N.parseAddr clientIP).map N.toString }

/-- one request: what the consumers see -/
def serveConsumers (N : Net Addr Prefix) (cfg : Cfg Prefix) (ranges : List (MRange Prefix)) (c : Conn)
    (wire : List (Bytes × Bytes)) : Consumers :=
  consumers N ranges c (serve N cfg c wire).clientIP

/-- selectionpolicies.go `CookieHashSelection.Select`, the `Secure` attribute of the sticky cookie:
    `isProxyHttps := false; if trusted { xfp, xfpOk, _ := lastHeaderValue(req.Header, "X-Forwarded-Proto"); isProxyHttps = xfpOk && xfp == "https" }`,
    `if req.TLS != nil || isProxyHttps { cookie.Secure = true }` — `req` is the PREPARED request -/
def cookieSecureOf (c : Conn) (trustedVar : Bool) (prepared : Header) : Bool :=
  c.tls || (trustedVar && (lastHeaderValue prepared kXFP).ok && decide ((lastHeaderValue prepared kXFP).value = sHttps))

/-- one request under the `cookie` selection policy: is the sticky cookie `Secure`?
    (`none` = `prepareRequest` failed, no upstream is selected) -/
def cookieSecure (N : Net Addr Prefix) (cfg : Cfg Prefix) (c : Conn) (wire : List (Bytes × Bytes)) : Option Bool :=
  (prepareRequest N cfg c (determineTrustedProxy N cfg c (fromWire wire)).1
      (applyOmit cfg (fromWire wire))).map
    (cookieSecureOf c (determineTrustedProxy N cfg c (fromWire wire)).1)

/-! ### the proxy retry loop (reverseproxy.go `ServeHTTP` / `proxyLoopIteration`) -/

/-- the request header operations (`headers.request`, Caddyfile `header_up`) the harness configures -/
inductive Ops where
  | none       -- `h.Headers == nil`
  | setOther   -- set `X-Verif-Up` from the placeholder `{http.reverse_proxy.upstream.hostport}`
  | delXFH     -- delete `X-Forwarded-Host`
deriving DecidableEq, Repr

def kVerifUp : Bytes := [88, 45, 86, 101, 114, 105, 102, 45, 85, 112]
/-- the harness's only upstream, `127.0.0.1:9` -/
def upstreamHostport : Bytes := [49, 50, 55, 46, 48, 46, 48, 46, 49, 58, 57]

/-- `h.Headers.Request.ApplyToRequest(r)` for those operations -/
def applyOps (ops : Ops) (h : Header) : Header :=
  match ops with
  | .none => h
  | .setOther => hPut h kVerifUp (some [upstreamHostport])
  | .delXFH => hDel h kXFH

/-- does `copyHeader` carry the field over?  It re-`Add`s value by value, so a key holding nil (or
    no values) is not carried -/
def carried (h : Header) (key : Bytes) : Bool :=
  match hGet h key with
  | some (some (_ :: _)) => true
  | _ => false

/-- `r.Header = make(http.Header); copyHeader(r.Header, reqHeader)` (the keys of `reqHeader` are
    already canonical) -/
def copyHeader (h : Header) : Header := h.filter (fun e => carried h e.1)

/-- one pass of `proxyLoopIteration` up to the round trip.  `reqHeader` is what `ServeHTTP` saved
    right after `prepareRequest` (`reqHeader := clonedReq.Header`), `cur` is the cloned request's
    header map as the previous pass left it:
    `if h.Headers != nil && h.Headers.Request != nil { r.Header = copy(reqHeader); ApplyToRequest(r) }`.
    The result is `r.Header` as it is handed to the transport. -/
def attemptHeader (ops : Ops) (reqHeader cur : Header) : Header :=
  match ops with
  | .none => cur
  | .setOther => applyOps .setOther (copyHeader reqHeader)
  | .delXFH => applyOps .delXFH (copyHeader reqHeader)

/-- the `for` loop of `ServeHTTP`: `fails` passes whose round trip fails and is retried, then one
    that succeeds; the forwarding fields of every request handed to the transport, in order -/
def proxyLoop (ops : Ops) (reqHeader : Header) : Nat → Header → List Fwd
  | 0, cur => [fwdOf (attemptHeader ops reqHeader cur)]
  | fails + 1, cur =>
    fwdOf (attemptHeader ops reqHeader cur) :: proxyLoop ops reqHeader fails (attemptHeader ops reqHeader cur)

/-! ### requests on one connection (app.go `ConnContext`, `Server.ServeHTTP` per request)

A connection carries a sequence of requests (HTTP/1.1 keep-alive, HTTP/2 streams).  The connection's context
holds the `net.Conn` only; `PrepareRequest` runs for every request and builds a fresh vars table. -/

/-- what each request of a connection is attributed: `PrepareRequest` per request, nothing carried over -/
def serveConnection (N : Net Addr Prefix) (cfg : Cfg Prefix) (c : Conn) (reqs : List (List (Bytes × Bytes))) :
    List Out :=
  reqs.map (serve N cfg c)

/-! ### templates' `httpInclude` (templates/tplcontext.go `funcHTTPInclude`): the virtual sub-request -/

/-- the dummy address `"127.0.0.1:10000"` a virtual request gets when the outer request has none -/
def virtualRemote : Bytes := [49, 50, 55, 46, 48, 46, 48, 46, 49, 58, 49, 48, 48, 48, 48]

/-- the virtual request goes through `server.ServeHTTP` → `PrepareRequest` like any other, with
    `virtReq.Header = c.Req.Header.Clone()` (plus Accept-Encoding and the recursion counter, which no modelled
    function reads) and the OUTER request's remote address — `virtReq.RemoteAddr = c.Req.RemoteAddr`, the
    dummy loopback address only if that is empty -/
def serveInclude (N : Net Addr Prefix) (cfg : Cfg Prefix) (c : Conn) (wire : List (Bytes × Bytes)) : Out :=
  serve N cfg { c with remoteAddr := if c.remoteAddr.isEmpty then virtualRemote else c.remoteAddr } wire

/-! ### the FastCGI transport (reverseproxy/fastcgi/fastcgi.go `buildEnv`, what php_fastcgi configures):
what the application is told about the client -/

/-- `strings.Replace(s, string(c), "", 1)` -/
def removeFirst (c : UInt8) : Bytes → Bytes
  | [] => []
  | b :: rest => if b = c then rest else b :: removeFirst c rest

/-- "Separate remote IP and port; more lenient than net.SplitHostPort" + "Remove [] from IPv6 addresses":
    `(REMOTE_ADDR, REMOTE_PORT)` -/
def fcgiRemote (remote : Bytes) : Bytes × Bytes :=
  match lastIndexByte colon remote with
  | some i => (removeFirst rbr (removeFirst lbr (remote.take i)), remote.drop (i + 1))
  | none => (removeFirst rbr (removeFirst lbr remote), [])

/-- `headerNameReplacer.Replace(strings.ToUpper(field))`: ' ' and '-' become '_' -/
def envName (field : Bytes) : Bytes := (asciiUpper field).map (fun c => if c = 32 || c = 45 then 95 else c)

def envXFF : Bytes := envName kXFF
def envXFP : Bytes := envName kXFP
def envXFH : Bytes := envName kXFH

/-- a field name without '_' and ' ' (the spelling whose CGI name is not ambiguous) -/
def hyphenSpelled (field : Bytes) : Bool := !(field.contains 95 || field.contains 32)

/-- the value a field contributes: `strings.Join(val, ", ")` -/
def envValueOf (e : Bytes × Option (List Bytes)) : Bytes :=
  joinWith commaSpace (match e.2 with | some vs => vs | none => [])

/-- the loop at the end of `buildEnv`: every field spelled with hyphens only whose CGI name is `name` writes
    the variable (`if strings.ContainsAny(field, "_ ") { continue }`: a field spelled with '_' or ' ' is not
    passed on, its CGI name would be ambiguous) — the values the variable CAN take (`[]` = not set) -/
def envCandidates (h : Header) (name : Bytes) : List Bytes :=
  (h.filter (fun e => envName e.1 = name && hyphenSpelled e.1)).map envValueOf

/-- what the FastCGI application can be told -/
structure FcgiEnv where
  remoteAddr : Bytes
  remotePort : Bytes
  xff : List Bytes         -- possible values of HTTP_X_FORWARDED_FOR
  xfp : List Bytes
  xfh : List Bytes
deriving DecidableEq, Repr

def fcgiEnvOf (c : Conn) (h : Header) : FcgiEnv :=
  ⟨(fcgiRemote c.remoteAddr).1, (fcgiRemote c.remoteAddr).2,
   envCandidates h envXFF, envCandidates h envXFP, envCandidates h envXFH⟩

/-- one request through reverse_proxy with the fastcgi transport; `none` = `prepareRequest` failed -/
def serveFcgi (N : Net Addr Prefix) (cfg : Cfg Prefix) (c : Conn) (wire : List (Bytes × Bytes)) (ops : Ops) :
    Option FcgiEnv :=
  (prepareRequest N cfg c (determineTrustedProxy N cfg c (fromWire wire)).1
      (applyOmit cfg (fromWire wire))).map (fun h => fcgiEnvOf c (attemptHeader ops h h))

/-- one request whose first `fails` upstream round trips fail: what every attempt sends;
    `none` = `prepareRequest` returned an error (500, no attempt) -/
def serveAttempts (N : Net Addr Prefix) (cfg : Cfg Prefix) (c : Conn) (wire : List (Bytes × Bytes))
    (ops : Ops) (fails : Nat) : Option (List Fwd) :=
  (prepareRequest N cfg c (determineTrustedProxy N cfg c (fromWire wire)).1
      (applyOmit cfg (fromWire wire))).map (fun h => proxyLoop ops h fails h)

end

/-! ### provision-time reading of range expressions
ip_range.go `CIDRExpressionToPrefix` (static source), reverseproxy.go `Provision` (handler
`trusted_proxies`), ip_matchers.go `provisionCidrsZonesFromRanges`: "having a slash means it should be
a CIDR expression, otherwise it's likely a single IP address" (then `PrefixFrom(addr, addr.BitLen())`). -/

def slash : UInt8 := 47

/-- net/netip's verdict on one range expression (supplied per case) -/
structure RangeVerdict where
  prefixOK : Bool      -- netip.ParsePrefix accepts it
  addrOK : Bool        -- netip.ParseAddr accepts it
deriving DecidableEq, Repr

/-- does provisioning accept the expression?  The slash decides which parser is asked. -/
def rangeAccepted (expr : Bytes) (v : RangeVerdict) : Bool :=
  if expr.contains slash then v.prefixOK else v.addrOK

/-- `for _, str := range ranges { …; if err != nil { return err } }`: provisioning succeeds iff every
    expression is accepted -/
def provisionAccepts : List (Bytes × RangeVerdict) → Bool
  | [] => true
  | (e, v) :: rest => if rangeAccepted e v then provisionAccepts rest else false

/-! ### the PROXY protocol listener wrapper (modules/caddyhttp/proxyprotocol)
It runs before any HTTP code and decides what `RemoteAddr` IS: listenerwrapper.go `Provision`
(the `ConnPolicyFunc` closure), policy.go (`fallback_policy` names), and what go-proxyproto's
`Listener.Accept` / `Conn.readHeader` do with the chosen policy. -/

/-- policy.go `Policy` (caddy's numbering: IGNORE is the zero value, hence the default) -/
inductive PPolicy where
  | ignore | use | reject | require | skip
deriving DecidableEq, Repr

/-- policy.go `parsePolicy` (`UnmarshalText`): `policyMapRev[strings.ToUpper(name)]`; `none` = "invalid policy" -/
def parsePolicy (name : Bytes) : Option PPolicy :=
  if asciiUpper name = [73, 71, 78, 79, 82, 69] then some .ignore                  -- IGNORE
  else if asciiUpper name = [85, 83, 69] then some .use                            -- USE
  else if asciiUpper name = [82, 69, 74, 69, 67, 84] then some .reject             -- REJECT
  else if asciiUpper name = [82, 69, 81, 85, 73, 82, 69] then some .require        -- REQUIRE
  else if asciiUpper name = [83, 75, 73, 80] then some .skip                       -- SKIP
  else none

/-- `caddy.IsUnixNetwork(network) || caddy.IsFdNetwork(network)`: `strings.HasPrefix(netw, "unix")` / `"fd"` -/
def unixOrFd (network : Bytes) : Bool :=
  ([117, 110, 105, 120] : Bytes).isPrefixOf network || ([102, 100] : Bytes).isPrefixOf network

/-- the provisioned wrapper -/
structure PPCfg (Prefix : Type) where
  allow : List Prefix
  deny : List Prefix
  fallback : PPolicy

/-- what the `ConnPolicyFunc` returns: a policy, or an error (the connection is not accepted) -/
inductive PolicyResult where
  | policy (p : PPolicy)
  | refuse
deriving DecidableEq, Repr

section
variable {Addr Prefix : Type}

/-- the containment tests of the policy closure, on the (zone-less) peer address -/
def rangePolicy (N : Net Addr Prefix) (cfg : PPCfg Prefix) (ip : Addr) : PPolicy :=
  if cfg.deny.any (fun r => N.contains r ip) then .reject
  else if cfg.allow.any (fun r => N.contains r ip) then .use
  else cfg.fallback

/-- listenerwrapper.go, the closure assigned to `pp.policy`.  The host is parsed as it stands (a zoned
    link-local address is accepted) and the zone is then dropped — `ip = ip.WithZone("")`, modelled as
    parsing the host again without its zone — so that the ranges apply to link-local peers too. -/
def connPolicy (N : Net Addr Prefix) (cfg : PPCfg Prefix) (network peer : Bytes) : PolicyResult :=
  if unixOrFd network then .policy .use                     -- "trust unix sockets"
  else
    match splitHostPort peer with
    | none => .refuse
    | some hp =>
      match N.parseAddr hp.1 with
      | none => .refuse
      | some _ =>
        match N.parseAddr (cutZone hp.1) with
        | none => .refuse          -- (not reachable with net/netip: what parses with a zone parses without)
        | some ip => .policy (rangePolicy N cfg ip)

/-- an accepted connection as the HTTP server sees it -/
structure Accepted where
  remote : Bytes         -- `conn.RemoteAddr().String()`
  readOK : Bool          -- the first `Read` succeeds
deriving DecidableEq, Repr

/-- go-proxyproto `Listener.Accept` + `Conn.readHeader` + `Conn.RemoteAddr` under a policy.
    `claim` = the source address a PROXY header sent by the peer claims (`none` = no header). -/
def underPolicy (p : PPolicy) (peer : Bytes) (claim : Option Bytes) : Accepted :=
  match p, claim with
  | .skip, _ => ⟨peer, true⟩                    -- not wrapped at all: the header (if any) is payload
  | .reject, some _ => ⟨peer, false⟩            -- ErrSuperfluousProxyHeader
  | .require, none => ⟨peer, false⟩             -- ErrNoProxyProtocol
  | .use, some src => ⟨src, true⟩
  | .require, some src => ⟨src, true⟩
  | _, _ => ⟨peer, true⟩                        -- IGNORE with a header; USE / REJECT / IGNORE without

/-- one connection through the wrapper; `none` = not accepted -/
def wrapAccept (N : Net Addr Prefix) (cfg : PPCfg Prefix) (network peer : Bytes) (claim : Option Bytes) :
    Option Accepted :=
  match connPolicy N cfg network peer with
  | .refuse => none
  | .policy p => some (underPolicy p peer claim)

end

/-- `Provision`: every `allow` / `deny` expression goes through `netip.ParsePrefix` (CIDRs only: a bare
    address is an error here), the JSON `fallback_policy` through `parsePolicy`; absent = IGNORE -/
def ppFallback : Option Bytes → Option PPolicy
  | none => some .ignore
  | some name => parsePolicy name

/-! ### Caddyfile glue: how the options above are read
httpcaddyfile/serveroptions.go (`trusted_proxies static …`, `trusted_proxies_strict`,
`client_ip_headers …` of the global `servers` block), ip_range.go `StaticIPRange.UnmarshalCaddyfile`,
reverseproxy/caddyfile.go (`trusted_proxies …` of the handler), shorthands.go (`{client_ip}`). -/

def tokPrivateRanges : Bytes := [112, 114, 105, 118, 97, 116, 101, 95, 114, 97, 110, 103, 101, 115]
/-- `{http.vars.client_ip}` -/
def phClientIP : Bytes :=
  [123, 104, 116, 116, 112, 46, 118, 97, 114, 115, 46, 99, 108, 105, 101, 110, 116, 95, 105, 112, 125]

/-- the ASCII bytes of a generated string fact -/
def asciiBytes (s : String) : Bytes := s.toList.map (fun c => c.toNat.toUInt8)

/-- what the adapter replaces the `{client_ip}` shorthand by: looked up in the shorthand table
    REGENERATED from httpcaddyfile/shorthands.go `placeholderShorthands()` (Gen/Glue.lean); a shorthand
    that is not in the table stays as written -/
def clientIPShorthandOf : Bytes :=
  match Gen.placeholderShorthands.lookup "{client_ip}" with
  | some v => asciiBytes v
  | none => asciiBytes "{client_ip}"

/-- `for d.NextArg() { if d.Val() == "private_ranges" { ranges = append(ranges, internal.PrivateRangesCIDR()...); continue }; ranges = append(ranges, d.Val()) }`
    (the same loop in ip_range.go and reverseproxy/caddyfile.go); the list is regenerated from internal/ranges.go -/
def expandRanges : List Bytes → List Bytes
  | [] => []
  | a :: rest => if a = tokPrivateRanges then Gen.privateRanges ++ expandRanges rest else a :: expandRanges rest

/-- one `client_ip_headers` line: append, "specified more than once" is an error (`none`) -/
def addClientIPHeaders : List Bytes → List Bytes → Option (List Bytes)
  | acc, [] => some acc
  | acc, h :: rest => if acc.contains h then none else addClientIPHeaders (acc ++ [h]) rest

/-- all `client_ip_headers` lines, in file order -/
def clientIPHeaderLines : List Bytes → List (List Bytes) → Option (List Bytes)
  | acc, [] => some acc
  | acc, l :: ls =>
    match addClientIPHeaders acc l with
    | none => none
    | some acc' => clientIPHeaderLines acc' ls

/-- `serverOpts.TrustedProxiesRaw = jsonSource` on every `trusted_proxies static` line: the last wins -/
def lastLine : List (List Bytes) → Option (List Bytes)
  | [] => none
  | [l] => some l
  | _ :: l :: ls => lastLine (l :: ls)

/-- what the adapter hands to the server and to the handler -/
structure Adapted where
  srvRanges : Option (List Bytes)        -- none = no trusted_proxies source
  strict : Bool
  clientIPHeaders : Option (List Bytes)  -- none = nil (the Provision default applies)
  rpRanges : List Bytes
  clientIPShorthand : Bytes              -- what `{client_ip}` is replaced by
deriving DecidableEq, Repr

/-- the adapter on the four groups of lines; `strictLines` = number of `trusted_proxies_strict`
    lines, `strictArg` = one of them carries an argument (ArgErr).  `none` = the adapter fails. -/
def adaptOptions (srvLines : List (List Bytes)) (strictLines : Nat) (strictArg : Bool)
    (cihLines rpLines : List (List Bytes)) : Option Adapted :=
  if strictArg then none else
  match clientIPHeaderLines [] cihLines with
  | none => none
  | some hs =>
    some { srvRanges := (lastLine srvLines).map expandRanges
           strict := decide (strictLines > 0)
           clientIPHeaders := if hs.isEmpty then none else some hs
           rpRanges := (rpLines.map expandRanges).flatten
           clientIPShorthand := clientIPShorthandOf }

/-- serveroptions.go `applyServerOptions`: a `servers [<listener address>] { … }` block applies to a server
    iff it names no address or one the server listens on
    (`s.ListenerAddress == "" || slices.Contains(server.Listen, s.ListenerAddress)`); a server no block
    applies to keeps the zero values -/
def optionsFor (target : Option Bytes) (listen : List Bytes) (a : Adapted) : Adapted :=
  match target with
  | none => a
  | some addr =>
    if listen.contains addr then a
    else { a with srvRanges := none, strict := false, clientIPHeaders := none }

end CaddyModel.C10
