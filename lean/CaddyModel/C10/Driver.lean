/-
C10 line-protocol driver (see harness/internal/c10/c10.go for the field list):

  req <srvT> <cih> <strict> <hT> <omit> <remote> <tls> <host> <hdrs> <tbl> <fails> <hops> <mode> <lb> <rt>

  erq <via 1|2|3> <spoil -|hex> <the 15 fields of req>     the same request observed inside handle_errors routes (1|2) /
                                                           handle_response routes (3), see Paths.lean and harness paths.go;
                                                           answer of req ++ ` rh=<hex>` | `noprobe status=500`
  cf <srvTP> <strict> <cih> <rpTP> <target> [<dir r|a|p>]  dir: reverse_proxy | forward_auth | php_fastcgi, answer ++ ` pre=…`

`tbl` carries net/netip's answers for this case (every '%'-free substring of the remote
address / a header value that `ParseAddr` accepts, its `String()`, and `Prefix.Contains`
for each configured range); it instantiates the model's `Net` parameter.
`fails` (0-2) upstream round trips fail and are retried; `hops` = reverse_proxy request header ops
(0 none, 1 set an unrelated field, 2 delete X-Forwarded-Host).
Answers: `ip=<hex> tp=<0|1> ph=<hex> tm=<hex> lg=<hex> cm=<0|1> rm=<0|1> pp=<hex>/0|invalid xff=<H> xfp=<H> xfh=<H>[ | xff=… xfp=… xfh=…]*` (one triple per attempt) | `ip=<hex> tp=<0|1> err` | `bad-op`.
-/
import CaddyModel.C10.Model
import CaddyModel.C10.Paths

namespace CaddyModel.C10

/-- one row of the netip table -/
structure Entry where
  sub : Bytes
  canon : Bytes
  sbits : List Bool
  hbits : List Bool
  fbits : List Bool

/-- a configured range: which list it is in and its position -/
structure PIdx where
  kind : Nat      -- 0 server trusted_proxies, 1 reverse_proxy trusted_proxies, 2 the harness's fixed matcher ranges
  idx : Nat

def tableNet (tbl : List Entry) : Net Entry PIdx where
  parseAddr := fun b => tbl.find? (fun e => e.sub == b)
  contains := fun p a => (if p.kind = 0 then a.sbits else if p.kind = 1 then a.hbits else a.fbits)[p.idx]? == some true
  toString := fun a => a.canon

def cidrChar (c : Char) : Bool :=
  ('0' ≤ c && c ≤ '9') || ('a' ≤ c && c ≤ 'z') || ('A' ≤ c && c ≤ 'Z') || c == ':' || c == '.' || c == '/' ||
  c == '%' || c == '_' || c == '-'

/-- the range expressions of a field, as bytes (ASCII) -/
def rangeExprs (s : String) : List Bytes :=
  if s == "." || s == "nil" then [] else (s.splitOn ",").map asciiBytes

/-- `rt`: one `PA` pair per range expression -/
def parseVerdicts (n : Nat) (s : String) : Option (List RangeVerdict) :=
  if s == "." then (if n = 0 then some [] else none) else
  let ps := s.splitOn ","
  if ps.length ≠ n then none else
  ps.mapM fun p =>
    match p.toList with
    | [a, b] =>
      if (a == '0' || a == '1') && (b == '0' || b == '1') then some ⟨a == '1', b == '1'⟩ else none
    | _ => none

/-- a range list: only its length matters to the model; `none` = malformed -/
def parseRanges (s : String) : Option Nat :=
  if s == "." then some 0 else if s == "nil" then none else
  let ps := s.splitOn ","
  if ps.all (fun p => !p.isEmpty && p.toList.all cidrChar) then some ps.length else none

def parseHexList (s : String) : Option (List Bytes) :=
  if s == "." then some [] else (s.splitOn ",").mapM Hex.decode

def parseBits (n : Nat) (s : String) : Option (List Bool) :=
  if s == "-" then (if n = 0 then some [] else none) else
  if s.length ≠ n then none else
  s.toList.mapM fun c => if c == '0' then some false else if c == '1' then some true else none

/-- zones of the harness's fixed matcher ranges `10.0.0.0/8 2001:db8::/32 ::1 fe80::/10%eth0`
    (same constants in harness/internal/c10/c10.go) -/
def fixedZones : List Bytes := [[], [], [], [101, 116, 104, 48]]

def parseTable (ns nh : Nat) (s : String) : Option (List Entry) :=
  if s == "." then some [] else
  (s.splitOn ";").mapM fun row =>
    match row.splitOn ":" with
    | [a, b, c, d, e] => do
      let sub ← Hex.decode a
      let canon ← Hex.decode b
      let sb ← parseBits ns c
      let hb ← parseBits nh d
      let fb ← parseBits fixedZones.length e
      pure ⟨sub, canon, sb, hb, fb⟩
    | _ => none

def parseHdrs (s : String) : Option (List (Bytes × Bytes)) :=
  if s == "." then some [] else
  (s.splitOn ";").mapM fun nv =>
    match nv.splitOn ":" with
    | [n, v] => do pure ((← Hex.decode n), (← Hex.decode v))
    | _ => none

def parseBool (s : String) : Option Bool :=
  if s == "0" then some false else if s == "1" then some true else none

def showVal : Option (Option (List Bytes)) → String
  | none => "absent"
  | some none => "nil"
  | some (some []) => "empty"
  | some (some vs) => ",".intercalate (vs.map Hex.encode)

def showFwd (f : Fwd) : String :=
  "xff=" ++ showVal f.xff ++ " xfp=" ++ showVal f.xfp ++ " xfh=" ++ showVal f.xfh

def showOut (o : Out) (k : Consumers) (ck : String) (attempts : Option (List Fwd)) (fcgi : Option (Option String)) : String :=
  "ip=" ++ Hex.encode o.clientIP ++ " tp=" ++ (if o.trusted then "1" else "0") ++
  " ph=" ++ Hex.encode k.placeholder ++ " tm=" ++ Hex.encode k.template ++ " lg=" ++ Hex.encode k.logField ++
  " cm=" ++ (if k.clientMatch then "1" else "0") ++ " rm=" ++ (if k.remoteMatch then "1" else "0") ++
  " pp=" ++ (match k.proxyProto with | some a => Hex.encode a ++ "/0" | none => "invalid") ++ " ck=" ++ ck ++
  (match fcgi with
   | some (some e) => " " ++ e
   | some none => " err"
   | none =>
     match attempts with
     | none => " err"
     | some l => " " ++ " | ".intercalate (l.map showFwd))

/-- the set of values a CGI variable was/can be seen to take: `absent` or sorted, `|`-separated hex -/
def showSet (l : List Bytes) : String :=
  if l.isEmpty then "absent" else
  "|".intercalate (((l.map Hex.encode).eraseDups).mergeSort (fun a b => a < b || a == b))

def showFcgi (e : FcgiEnv) : String :=
  "fcgi ra=" ++ Hex.encode e.remoteAddr ++ " rp=" ++ Hex.encode e.remotePort ++
  " xff=" ++ showSet e.xff ++ " xfp=" ++ showSet e.xfp ++ " xfh=" ++ showSet e.xfh

def parseSmall (s : String) : Option Nat :=
  if s == "0" then some 0 else if s == "1" then some 1 else if s == "2" then some 2 else none

def parseOps (s : String) : Option Ops :=
  if s == "0" then some .none else if s == "1" then some .setOther else if s == "2" then some .delXFH else none

def idxList (kind : Nat) (n : Nat) : List PIdx := (List.range n).map (fun i => ⟨kind, i⟩)

/-! `cf <srvTP> <strict> <cih> <rpTP> <target>` — the Caddyfile adapter's reading of the options (see
harness/internal/c10/cf.go).  Answer `srv=… strict=… cih=… rp=… up=…` | `err`. -/

def tokenChar (c : UInt8) : Bool :=
  (48 ≤ c && c ≤ 57) || (97 ≤ c && c ≤ 122) || (65 ≤ c && c ≤ 90) || c == 95 || c == 46 || c == 58 || c == 47 || c == 45

def parseLines (s : String) : Option (List (List Bytes)) :=
  if s == "." then some [] else
  (s.splitOn "|").mapM fun l =>
    if l == "_" then some [] else
    (l.splitOn ",").mapM fun h =>
      match Hex.decode h with
      | some t => if !t.isEmpty && t.all tokenChar then some t else none
      | none => none

def showList (nilWord : String) : Option (List Bytes) → String
  | none => nilWord
  | some [] => "."
  | some l => ",".intercalate (l.map Hex.encode)

def handleCF5 (srvTP strict cih rpTP target : String) (wrapper : Option Wrapper) : String :=
    if target != "g" && target != "t" then "bad-op" else
    let st : Option (Nat × Bool) :=
      if strict == "0" then some (0, false) else if strict == "1" then some (1, false)
      else if strict == "2" then some (2, false) else if strict == "x" then some (1, true) else none
    match parseLines srvTP, st, parseLines cih, parseLines rpTP with
    | some s, some (n, arg), some c, some r =>
      match adaptOptions s n arg c r with
      | none => "err"
      | some a0 =>
        -- g: global block, the one server (:80);  t: block for :8443 — that server gets the options, :80 none
        let tgt : Option Bytes := if target == "t" then some [58, 56, 52, 52, 51] else none
        let a := optionsFor tgt [[58, 56, 52, 52, 51]] a0
        let other := optionsFor tgt [[58, 56, 48]] a0
        (fun body => if target == "t" then
            body ++ " other=" ++ (if other.srvRanges.isSome then "1" else "0") ++ (if other.strict then "1" else "0") ++
              (if other.clientIPHeaders.isSome then "1" else "0")
          else body) <|
        "srv=" ++ showList "nil" a.srvRanges ++ " strict=" ++ (if a.strict then "1" else "0") ++
        " cih=" ++ showList "nil" a.clientIPHeaders ++ " rp=" ++ showList "nil" (some a.rpRanges) ++
        " up=" ++ Hex.encode a.clientIPShorthand ++
        -- the wrappers (forward_auth, php_fastcgi) build the reverse_proxy handler themselves: what they pre-filled
        (match wrapper with
         | none => ""
         | some wr => " pre=" ++ (if (wrapperPrefill wr).isEmpty then "." else
             ",".intercalate (((wrapperPrefill wr).map Hex.encode).mergeSort (fun a b => a < b || a == b))))
    | _, _, _, _ => "bad-op"

def handleCF : List String → String
  | [srvTP, strict, cih, rpTP, target] => handleCF5 srvTP strict cih rpTP target none
  | [srvTP, strict, cih, rpTP, target, dir] =>
    if dir == "r" then handleCF5 srvTP strict cih rpTP target (some .reverseProxy)
    else if dir == "a" then handleCF5 srvTP strict cih rpTP target (some .forwardAuth)
    else if dir == "p" then handleCF5 srvTP strict cih rpTP target (some .phpFastcgi)
    else "bad-op"
  | _ => "bad-op"

/-! `pp <allow> <deny> <fallback> <network> <peer> <claim> <tbl> <via>` — the PROXY protocol listener wrapper (see
harness/internal/c10/pp.go).  The table is the `req` table of the peer string (sbits = allow, hbits = deny),
plus a row for the zoned host when netip accepts it.
Answer `provision-error` | `refused` | `addr=<hex> rd=<ok|err>`. -/

def handlePP : List String → String
  | [allowF, denyF, fb, network, peer, claim, tbl, via] =>
    -- via: j = configured from JSON, c = from a Caddyfile block; the same wrapper either way
    if via != "j" && via != "c" then "bad-op" else
    let fbB : Option (Option Bytes) := if fb == "-" then some none else
      match Hex.decode fb with | some b => (if b.isEmpty then none else some (some b)) | none => none
    let claimB : Option (Option Bytes) := if claim == "-" then some none else (Hex.decode claim).map some
    match parseRanges allowF, parseRanges denyF, fbB, Hex.decode network, Hex.decode peer, claimB with
    | some na, some nd, some fbv, some netw, some peerB, some cl =>
      -- Provision: a range expression without a slash is never a CIDR; an unknown policy name is an error
      if (rangeExprs allowF ++ rangeExprs denyF).any (fun e => !e.contains slash) then "provision-error" else
      match ppFallback fbv with
      | none => "provision-error"
      | some pol =>
        match parseTable na nd tbl with
        | none => "bad-op"
        | some table =>
          match wrapAccept (tableNet table) ⟨idxList 0 na, idxList 1 nd, pol⟩ netw peerB cl with
          | none => "refused"
          | some a => "addr=" ++ Hex.encode a.remote ++ " rd=" ++ (if a.readOK then "ok" else "err")
    | _, _, _, _, _, _ => "bad-op"
  | _ => "bad-op"

/-- `req …` and `inc …` (same fields; `inc` asks for /outer whose template includes /inner through
    templates' httpInclude: the answer is what the virtual sub-request is attributed) -/
def handleReq (inc : Bool) (via : Nat) (spoil : Option Bytes) : List String → String
  | [srvT, cih, strict, hT, omitF, remote, tls, host, hdrs, tbl, failsF, hopsF, modeF, lbF, rtF] =>
    -- `dyn:` = the same ranges answered by a request-scoped IPRangeSource (not among the probe's matcher ranges)
    let dyn := srvT.startsWith "dyn:"
    if inc && dyn then "bad-op" else
    let srvT := if dyn then (srvT.drop 4).toString else srvT
    let srv : Option (Option Nat) := if srvT == "nil" then (if dyn then none else some none) else (parseRanges srvT).map some
    let ci : Option (Option (List Bytes)) := if cih == "nil" then some none else (parseHexList cih).map some
    let st : Option Nat := parseSmall strict
    let om : Option (Bool × Bool × Bool) :=
      match omitF.toList.map (fun c => parseBool c.toString) with
      | [some a, some b, some c] => some (a, b, c)
      | _ => none
    -- tls: 0 plain | 1 r.TLS set | 3 r.TLS set, handshake incomplete | 2 r.TLS recovered by Server.ServeHTTP from the connection in the context
    let early := tls == "3"      -- 3 = TLS, handshake not complete (0-RTT)
    let tlsB : Option Bool := if tls == "2" || tls == "3" then some true else parseBool tls
    match srv, ci, st, parseRanges hT, om, Hex.decode remote, tlsB, Hex.decode host, parseHdrs hdrs with
    | some srv, some ci, some st, some nh, some (o1, o2, o3), some remote, some tls, some host, some wire =>
      let ns := match srv with | some n => n | none => 0
      let exprs := rangeExprs srvT ++ rangeExprs hT
      match parseVerdicts exprs.length rtF with
      | none => "bad-op"
      | some verdicts =>
      -- provisioning (static source, reverse_proxy, matchers) rejects the configuration if an expression is invalid
      -- (the request-scoped source is fed parsed prefixes: an invalid expression there is a malformed case)
      if dyn && !provisionAccepts ((rangeExprs srvT).zip verdicts) then "bad-op" else
      if !provisionAccepts (exprs.zip verdicts) then (if via ≠ 0 then "bad-op" else "provision-error") else
      -- mode: 0 GET over HTTP/1.1 | 1 websocket over HTTP/2; ServeHTTP's rewriting of the prepared request
      -- (method, Upgrade/Connection, :protocol, Sec-WebSocket-Key) does not touch a modelled field
      match parseTable ns nh tbl, parseSmall failsF, parseOps hopsF, (if modeF == "0" || modeF == "1" then (if lbF == "3" then some 3 else parseSmall lbF) else none) with
      | some table, some fails, some ops, some lb =>
        let cfg : Cfg PIdx :=
          { srvTrusted := srv.map (idxList 0), clientIPHeaders := ci, strict := st,
            handlerTrusted := idxList 1 nh, omitXFF := o1, omitXFP := o2, omitXFH := o3 }
        -- the probe's matchers: server ranges, handler ranges, then the fixed ranges
        let mranges : List (MRange PIdx) :=
          (((idxList 0 (if dyn then 0 else ns)).zip (rangeExprs srvT) ++ (idxList 1 nh).zip (rangeExprs hT)).map
            (fun pe => ⟨pe.1, (ipAndZone pe.2).2⟩)) ++
          (fixedZones.zipIdx.map (fun zi => ⟨⟨2, zi.2⟩, zi.1⟩))
        if via ≠ 0 then
          -- `erq`: the same request observed inside a handle_errors route (via 1|2) / a handle_response route (via 3)
          if fails ≠ 0 || ops ≠ Ops.none || lb ≠ 0 || modeF ≠ "0" then "bad-op" else
          (fun (r : Option Req) =>
            match r with
            | none => "noprobe status=500"
            | some r =>
              showOut (routeOut (tableNet table) cfg r) (consumers (tableNet table) mranges r.conn r.clientIP) "-"
                ((routeOut (tableNet table) cfg r).fwd.map (fun f => [f])) none ++
              " rh=" ++ Hex.encode (remoteHostPlaceholder r.conn))
            (if via = 3 then responseRouteReq (tableNet table) cfg ⟨remote, tls, host, early⟩ spoil wire
             else some (errorRouteReq (tableNet table) cfg ⟨remote, tls, host, early⟩ spoil wire))
        else if inc then
          (fun (o : Out) => "inner=" ++ Hex.encode (o.clientIP ++ [124] ++ asciiBytes (if o.trusted then "true" else "false")) ++ " status=200")
            (serveInclude (tableNet table) cfg ⟨remote, tls, host, early⟩ wire)
        else
        showOut (serve (tableNet table) cfg ⟨remote, tls, host, early⟩ wire)
          (serveConsumers (tableNet table) cfg mranges ⟨remote, tls, host, early⟩ wire)
          -- lb: 0 default policy | 1 client_ip_hash (oracle only) | 2 cookie: Secure attribute of the sticky cookie
          (if lb = 2 then
             (match cookieSecure (tableNet table) cfg ⟨remote, tls, host, early⟩ wire with
              | some true => "1" | some false => "0" | none => "-")
           else "-")
          (serveAttempts (tableNet table) cfg ⟨remote, tls, host, early⟩ wire ops fails)
          -- lb = 3: the fastcgi transport; the answer ends with what the application can be told
          (if lb = 3 then some ((serveFcgi (tableNet table) cfg ⟨remote, tls, host, early⟩ wire ops).map showFcgi) else none)
      | _, _, _, _ => "bad-op"
    | _, _, _, _, _, _, _, _, _ => "bad-op"
  | _ => "bad-op"

/-! `seq <server> <proto> <reqs> <tbl>` — 1-4 requests over one real connection to one of twelve running servers
(harness/internal/c10/seq.go): index = 4*t + 2*h + s with trusted_proxies none | 127.0.0.0/8 | 10.0.0.0/8,
client_ip_headers default | [X-Real-IP, X-Forwarded-For], strict 0 | 1.  The peer is 127.0.0.1. -/

def seqCIH : List Bytes :=
  [[88, 45, 82, 101, 97, 108, 45, 73, 80], kXFF]   -- X-Real-IP, X-Forwarded-For

def handleSeq : List String → String
  | [server, proto, reqsF, tbl] =>
    if proto != "1" && proto != "2" then "bad-op" else
    match server.toNat?, (reqsF.splitOn "|").mapM parseHdrs with
    | some idx, some reqs =>
      if idx > 11 || server.length > 2 || reqs.length > 4 then "bad-op" else
      let t := idx / 4
      match parseTable (if t = 0 then 0 else 1) 1 tbl with
      | none => "bad-op"
      | some table =>
        let cfg : Cfg PIdx :=
          { srvTrusted := if t = 0 then none else some [⟨0, 0⟩],
            clientIPHeaders := if (idx / 2) % 2 = 0 then none else some seqCIH,
            strict := idx % 2, handlerTrusted := [], omitXFF := false, omitXFP := false, omitXFH := false }
        let c : Conn := ⟨[49, 50, 55, 46, 48, 46, 48, 46, 49, 58, 49], false, [], false⟩     -- 127.0.0.1:1
        let mr : List (MRange PIdx) := [⟨⟨1, 0⟩, []⟩]                                        -- client_ip 6.6.6.0/24
        " | ".intercalate ((serveConnection (tableNet table) cfg c reqs).map fun o =>
          Hex.encode o.clientIP ++ "/" ++ (if o.trusted then "1" else "0") ++ "/" ++
            (if matchAddress (tableNet table) mr o.clientIP then "1" else "0"))
    | _, _ => "bad-op"
  | _ => "bad-op"

def handle : List String → String
  | "seq" :: rest => handleSeq rest
  | "cf" :: rest => handleCF rest
  | "pp" :: rest => handlePP rest
  | "req" :: rest => handleReq false 0 none rest
  | "inc" :: rest => handleReq true 0 none rest
  | "erq" :: via :: spoil :: rest =>
    -- `erq <via 1|2|3> <spoil: - | hex> <the fields of req>` (harness/internal/c10/paths.go)
    match (if via == "1" then some 1 else if via == "2" then some 2 else if via == "3" then some 3 else none),
          (if spoil == "-" then some none else
            match Hex.decode spoil with
            | some [] => none
            | some b => some (some b)
            | none => none) with
    | some v, some sp => handleReq false v sp rest
    | _, _ => "bad-op"
  | _ => "bad-op"

/-- counter-example lines replayed on the implementation on every run (see Witness.lean) -/
def witnessLines : List String := []   -- the tree violates no clause of C10 (Witness.lean holds model facts about old behaviour)

end CaddyModel.C10
