/-
C13 — facts about the net/netip model (Netip.lean): host NAMES are not IP addresses.
-/
import CaddyModel.C13.Netip
import CaddyModel.C13.UrlLemmas

namespace CaddyModel.C13

theorem v4Loop_none_of_bad_byte : ∀ (s : Bytes) (val digLen : Nat) (fields : List UInt8) (first prevDot : Bool),
    (∃ b ∈ s, isDigitB b = false ∧ b ≠ 46) → v4Loop s val digLen fields first prevDot = none := by
  intro s
  induction s with
  | nil => intro _ _ _ _ _ ⟨b, hb, _⟩; simp at hb
  | cons c cs ih =>
    intro val digLen fields first prevDot ⟨b, hb, hnd, hndot⟩
    unfold v4Loop
    by_cases hc : isDigitB c = true
    · have hbc : b ∈ cs := by
        simp at hb
        rcases hb with rfl | hb
        · rw [hc] at hnd; cases hnd
        · exact hb
      simp only [hc, if_true]
      split
      · rfl
      · split
        · rfl
        · exact ih _ _ _ _ _ ⟨b, hbc, hnd, hndot⟩
    · simp only [hc, Bool.false_eq_true, if_false]
      by_cases hd : c = 46
      · have hbc : b ∈ cs := by
          simp at hb
          rcases hb with rfl | hb
          · exact absurd hd hndot
          · exact hb
        simp only [hd, if_true]
        split
        · rfl
        · split
          · rfl
          · exact ih _ _ _ _ _ ⟨b, hbc, hnd, hndot⟩
      · simp [hd]

theorem firstIpMark_some : ∀ (s : Bytes) (c : UInt8), firstIpMark s = some c → c ∈ s := by
  intro s
  induction s with
  | nil => intro c h; simp [firstIpMark] at h
  | cons x xs ih =>
    intro c h
    unfold firstIpMark at h
    split at h
    · cases h; simp
    · simp [ih c h]

/-- **a host name is not an IP address**: a host without `:` and `%` that contains a byte other
    than digits and dots (a letter, a hyphen …) is never classified as unspecified or loopback by
    netip — so `isWildcardInterface` is false for it and the Host check stays on. -/
theorem ipClassOf_hostname (h : Bytes) (hc : ∀ b ∈ h, b ≠ colon ∧ b ≠ percent)
    (hbad : ∃ b ∈ h, isDigitB b = false ∧ b ≠ 46) : ipClassOf h = .notIP := by
  unfold ipClassOf
  by_cases h1 : firstIpMark h = some 46
  · simp only [h1, if_true]
    have : parseIPv4Fields h = none := v4Loop_none_of_bad_byte h 0 0 [] true false hbad
    rw [this]
  · simp only [h1, if_false]
    by_cases h2 : firstIpMark h = some colon
    · exact absurd rfl (hc colon (firstIpMark_some h colon h2)).1
    · simp [h2]

end CaddyModel.C13
