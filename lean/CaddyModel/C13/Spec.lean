/-
C13 — the small abstract account the property talks about.  Nothing here mentions the order of
the checks, the mux, the redirect loop or the scanning order of the ACL: only *who is allowed*.

  SpecificAddress      "bound to a specific address (not a wildcard interface, unix socket or fd)"
  AllowedOrigin        the allowed origins of a configuration: the configured list, else the defaults
                       of the listen address
  HostAllowed / OriginAllowed     a Host value / a parsed Origin-or-Referer value is an allowed origin
  IsWebsocketUpgrade   some Upgrade value names the websocket protocol (ASCII case-insensitive)
  Authorised           a verified certificate carries a listed key whose permissions allow (method, path)
  Served / Untouched   a registered handler ran / no handler ran and the state is what it was
-/
import CaddyModel.C13.Model

namespace CaddyModel.C13

def SpecificAddress (a : Addr) : Prop :=
  a.isUnix = false ∧ a.isFd = false ∧ a.isWildcard = false

/-- `localhost:<port>` -/
def hpLocalhost (port : Bytes) : Bytes := sLocalhost ++ colon :: port
/-- `[::1]:<port>` -/
def hpV6Loop (port : Bytes) : Bytes := 91 :: sV6Loop ++ 93 :: colon :: port
/-- `127.0.0.1:<port>` -/
def hpV4Loop (port : Bytes) : Bytes := sV4Loop ++ colon :: port

/-- `(scheme, host)` is an allowed origin of the endpoint configured by `cfg` on address `a`
    (`scheme = []` means "any scheme"). -/
def AllowedOrigin (cfg : AdminCfg) (a : Addr) (scheme host : Bytes) : Prop :=
  match cfg.origins with
  | some l =>
    ∃ e ∈ l,
      (containsSub e.raw sSchemeSep = true ∧ e.parsed.ok = true ∧ scheme = e.parsed.scheme ∧ host = e.parsed.host)
      ∨ (containsSub e.raw sSchemeSep = false ∧ scheme = [] ∧ host = e.raw)
  | none =>
    a.isUnix = false ∧ a.isFd = false ∧ scheme = [] ∧
      ((a.isLoopback = true ∧
          (host = hpLocalhost (natToDec a.port) ∨ host = hpV6Loop (natToDec a.port) ∨ host = hpV4Loop (natToDec a.port)))
       ∨ (a.isLoopback = false ∧ host = joinHostPort a.host (natToDec a.port)))

def HostAllowed (cfg : AdminCfg) (a : Addr) (host : Bytes) : Prop :=
  ∃ scheme, AllowedOrigin cfg a scheme host

/-- the parsed Origin (else Referer) value names an allowed origin -/
def OriginAllowed (cfg : AdminCfg) (a : Addr) (u : Url) : Prop :=
  u.ok = true ∧ ∃ scheme, AllowedOrigin cfg a scheme u.host ∧ (scheme = [] ∨ scheme = u.scheme)

/-- neither an Origin nor a Referer header -/
def OriginMissing (r : Req) : Prop := r.origin = [] ∧ r.referer = []

/-- RFC 6455 §4.2.1: an Upgrade header field containing the value "websocket", compared ASCII
    case-insensitively; every value of the (possibly repeated) header counts -/
def IsWebsocketUpgrade (r : Req) : Prop :=
  ∃ v ∈ r.upgrade, containsSub (asciiLower v) sWebsocket = true

def PermAllows (p : Perm) (method path : Bytes) : Prop :=
  (p.methods = none ∨ ∃ ms, p.methods = some ms ∧ method ∈ ms) ∧
  (p.paths = none ∨ ∃ ps, p.paths = some ps ∧ ∃ ap ∈ ps, hasPrefix path ap = true)

/-- some verified certificate carries a listed public key, and the permissions attached to that
    key allow the method and the path -/
def Authorised (acl : List Access) (chains : List (List Nat)) (method path : Bytes) : Prop :=
  ∃ chain ∈ chains, ∃ k ∈ chain, ∃ a ∈ acl, k ∈ a.keys ∧ ∀ p ∈ a.perms, PermAllows p method path

/-- some verified certificate carries a listed public key -/
def KeyListed (acl : List Access) (chains : List (List Nat)) : Prop :=
  ∃ chain ∈ chains, ∃ k ∈ chain, ∃ a ∈ acl, k ∈ a.keys

/-- a registered handler (built-in or module) ran -/
def Served {σ : Type} (res : Result σ) : Prop := res.trace ≠ []

/-- no handler ran and the server state is what it was before the request -/
def Untouched {σ : Type} (res : Result σ) (s : σ) : Prop := res.trace = [] ∧ res.state = s

instance (a : Addr) : Decidable (SpecificAddress a) := by unfold SpecificAddress; infer_instance
instance (r : Req) : Decidable (OriginMissing r) := by unfold OriginMissing; infer_instance
instance (r : Req) : Decidable (IsWebsocketUpgrade r) := by unfold IsWebsocketUpgrade; infer_instance
instance {σ : Type} (res : Result σ) : Decidable (Served res) := by unfold Served; infer_instance
instance (acl : List Access) (chains : List (List Nat)) : Decidable (KeyListed acl chains) := by
  unfold KeyListed; infer_instance

end CaddyModel.C13
