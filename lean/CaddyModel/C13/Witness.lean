/-
C13 — proved counter-examples: clauses of the property that the code as it is does NOT satisfy.
Each witness is also a protocol line (`witnessLines` in Driver.lean) replayed on the real
adminHandler on every run; the oracle of the harness must still flag it (KNOWN-FINDING).
-/
import CaddyModel.C13.Lemmas

namespace CaddyModel.C13

def exAddr : Addr := ⟨str "tcp", str "localhost", 2019, .notIP⟩
def emptyUrl : Url := ⟨true, [], []⟩
/-- a handler effect that counts invocations -/
def count (_ : Bytes) (_ : Req) (n : Nat) : Nat := n + 1

/-- default local endpoint on localhost:2019 -/
def wHandler : Handler := newAdminHandler ⟨none, false, none⟩ exAddr false []

def wReq (upgrade : List Bytes) : Req :=
  ⟨str "GET", str "localhost:2019", str "/config/", upgrade, [], [], emptyUrl, emptyUrl, none⟩

/-- "websocket upgrades are always refused" fails: `Upgrade: WebSocket` (the check is
    case-sensitive) reaches the `/config/` handler. -/
theorem websocket_refused_full_fails :
    ∃ (h : Handler) (r : Req), IsWebsocketUpgrade r ∧ Served (serveReal count h [] 3 r 0) :=
  ⟨wHandler, wReq [str "WebSocket"], by decide⟩

/-- … and so does a lower-case `websocket` in a second Upgrade value (only the first is read). -/
theorem websocket_refused_later_value_full_fails :
    ∃ (h : Handler) (r : Req), IsWebsocketUpgrade r ∧
      containsSub (asciiLower (firstUpgrade r)) sWebsocket = false ∧ Served (serveReal count h [] 3 r 0) :=
  ⟨wHandler, wReq [str "h2c", str "websocket"], by decide⟩

/-- `"origins": ["", "localhost:2019"], "enforce_origin": true` -/
def wCfgEmptyOrigin : AdminCfg :=
  ⟨some [⟨[], emptyUrl⟩, ⟨str "localhost:2019", emptyUrl⟩], true, none⟩

/-- "with origin enforcement on, a request whose Origin/Referer is missing is refused" fails on a
    specific address when an allowed origin has an empty host: the missing header parses as the
    empty URL, whose host is empty, and is "allowed". -/
theorem origin_missing_refused_full_fails :
    ∃ (cfg : AdminCfg) (a : Addr) (r : Req),
      SpecificAddress a ∧ cfg.enforceOrigin = true ∧ OriginMissing r ∧ r.refererUrl = ⟨true, [], []⟩ ∧
      Served (serveReal count (newAdminHandler cfg a false []) [] 3 r 0) :=
  ⟨wCfgEmptyOrigin, exAddr, wReq [], by decide⟩

end CaddyModel.C13
