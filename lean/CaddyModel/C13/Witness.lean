/-
C13 — counter-examples.  No clause of the property fails of the code as it is now; the two clauses
that failed of earlier code (websocket, missing origin) were repaired in /repo and their
counter-examples are kept here as theorems about the OLD checks (`gateOld`, `gateOldOrigin`), with
the protocol lines as regression cases in corpus/C13/.  A current witness would also be a protocol line (`witnessLines` in Driver.lean) replayed on the real
adminHandler on every run; the oracle of the harness must still flag it (KNOWN-FINDING).
-/
import CaddyModel.C13.Lemmas
import CaddyModel.C13.Lifecycle

namespace CaddyModel.C13

def exAddr : Addr := ⟨str "tcp", str "localhost", 2019, .notIP⟩
def emptyUrl : Url := ⟨true, [], []⟩
/-- a handler effect that counts invocations -/
def count (_ : Bytes) (_ : Req) (n : Nat) : Nat := n + 1

/-- default local endpoint on localhost:2019 -/
def wHandler : Handler := newAdminHandler ⟨none, false, none⟩ exAddr false []

/-- probes for `Props.gate_order_matches_source` -/
def probeLocal : Handler := newAdminHandler ⟨none, true, none⟩ exAddr false []
def probeRemote : Handler := newAdminHandler ⟨none, true, some []⟩ exAddr true []
/-- no client key, websocket upgrade, foreign Host, foreign Origin -/
def probeAllWrong : Req :=
  ⟨str "GET", str "evil.com", str "/config/", [str "websocket"], str "http://evil.com", [],
   ⟨true, str "http", str "evil.com"⟩, emptyUrl, some []⟩
def probeAllRight : Req :=
  ⟨str "GET", str "localhost:2019", str "/config/", [], str "http://localhost:2019", [],
   ⟨true, str "http", str "localhost:2019"⟩, emptyUrl, some []⟩

def wReq (upgrade : List Bytes) : Req :=
  ⟨str "GET", str "localhost:2019", str "/config/", upgrade, [], [], emptyUrl, emptyUrl, none⟩

/-- The two former counter-examples to "websocket upgrades are always refused", as a statement
    about the OLD test (`wsCheckOld`, the code before /repo cc84cea): `Upgrade: WebSocket` and
    `Upgrade: h2c` + `Upgrade: websocket` are websocket upgrades, the old gate let them pass, the
    current gate refuses them.  (Their protocol lines are regression cases in corpus/C13/.) -/
theorem websocket_old_code_fails :
    ∀ up ∈ [[str "WebSocket"], [str "h2c", str "websocket"]],
      IsWebsocketUpgrade (wReq up) ∧ gateOld wHandler (wReq up) = .pass 0 ∧
      gate wHandler (wReq up) = .refuse .websocket := by
  decide

/-- `"origins": ["", "localhost:2019"], "enforce_origin": true` -/
def wCfgEmptyOrigin : AdminCfg :=
  ⟨some [⟨[], emptyUrl⟩, ⟨str "localhost:2019", emptyUrl⟩], true, none⟩

/-- The former counter-example to "with origin enforcement on, a request whose Origin/Referer is
    missing is refused", as a statement about the OLD `checkOrigin` (`gateOldOrigin`): on a
    specific address with an allowed origin whose host is empty, the old gate let a request without
    Origin/Referer pass (the absent header parsed as the empty URL, whose empty host "matched");
    the current gate refuses it as missing.  (Its protocol line is a regression case in corpus/C13/.) -/
theorem origin_missing_old_code_fails :
    SpecificAddress exAddr ∧ wCfgEmptyOrigin.enforceOrigin = true ∧ OriginMissing (wReq []) ∧
    gateOldOrigin (newAdminHandler wCfgEmptyOrigin exAddr false []) (wReq []) = .pass 1 ∧
    gate (newAdminHandler wCfgEmptyOrigin exAddr false []) (wReq []) = .refuse .originMissing := by
  decide

/-- the permission loop with the `pathFound` flag declared OUTSIDE the loop and never reset (a
    plausible "tidy-up" of `enforceAccessControls`): once one permission entry has allowed the
    path, the path test of every later entry passes. -/
def permsCheckSticky (method path : Bytes) : List Perm → Bool → AclRes
  | [], _ => .allow
  | p :: ps, found =>
    if !methodOK p method then .methodDenied
    else if !(found || pathOK p path) then .pathDenied
    else permsCheckSticky method path ps true

/-- … which is NOT the loop of the code: with permissions `[{paths:["/config/"]}, {paths:["/id/"]}]`
    a request for `/config/x` is allowed by the sticky variant and refused (second entry) by the
    real loop — the per-entry reset of `pathFound` matters. -/
theorem permissions_sticky_path_flag_fails :
    ∃ (perms : List Perm) (m p : Bytes),
      permsCheckSticky m p perms false = .allow ∧ permsCheck m p perms = .pathDenied :=
  ⟨[⟨none, some [str "/config/"]⟩, ⟨none, some [str "/id/"]⟩], str "GET", str "/config/x", by decide⟩

/-- the lifecycle variant with the "remote administration not configured" guard merged in front of
    the `defer` (`replaceRemoteMerged`) is NOT the lifecycle of the code: after "remote on with key
    0, then remote off" it leaves the first server listening, still serving key 0, whereas the real
    step leaves nothing — where the guard stands matters. -/
theorem remote_merged_guard_fails :
    ∃ hist : List LoadCfg,
      (hist.getLast?.map (·.remote)) = some none ∧
      (afterHistory hist).liveRemote = [] ∧
      ∃ srv ∈ (hist.foldl loadMerged Life.init).liveRemote, keyAnswer srv.acl 0 = 's' :=
  ⟨[⟨.listen 0 false, some (2, [⟨[0], []⟩])⟩, ⟨.listen 0 false, none⟩], by decide⟩

/-- the variant of `replaceLocalAdminServer` that assigns `localAdminServer` before the listener is
    bound (`replaceLocalAssignFirst`) is NOT the lifecycle of the code: after "endpoint with the
    default origins, a load that cannot bind, the same address with tightened origins" it leaves
    TWO servers listening on the address, one of them still with the old, loose policy (the
    variable pointed at the never-started server, so the real one was never stopped) — whereas
    the real steps leave exactly the tightened one. -/
theorem local_assign_before_bind_fails :
    ∃ hist : List LoadCfg,
      (afterHistory hist).liveLocal = [⟨1, 0, true⟩] ∧
      ∃ srv ∈ (hist.foldl loadAssignFirst Life.init).liveLocal, srv.addr = 0 ∧ srv.tight = false :=
  ⟨[⟨.listen 0 false, none⟩, ⟨.blocked, none⟩, ⟨.listen 0 true, none⟩], by decide⟩

/-- **a REJECTED config's local admin policy takes effect** (`caddy.go run`: the local endpoint is
    replaced before the rest of the load can fail).  Read with "allowed origin" = allowed by the
    running config, the Host clause fails of the tree: (1) the running config allows only
    c13-only.example on address 0; a config with default origins is rejected while provisioning its
    apps — afterwards the server on address 0 serves the Host 127.0.0.1:port; (2) a rejected config
    names another address — an admin endpoint the running config never configured listens there.
    Protocol lines: `witnessLines`. -/
theorem local_endpoint_of_running_config_full_fails :
    (∃ hist, localAsRunning hist = false ∧
       (afterAttempts hist).liveLocal = [⟨1, 0, false⟩] ∧ runningConfig hist = some ⟨.listen 0 true, none⟩) ∧
    (∃ hist, localAsRunning hist = false ∧
       (afterAttempts hist).liveLocal = [⟨1, 1, false⟩] ∧ runningConfig hist = some ⟨.listen 0 false, none⟩) :=
  ⟨⟨[⟨⟨.listen 0 true, none⟩, .none⟩, ⟨⟨.listen 0 false, none⟩, .prov⟩], by decide⟩,
   ⟨[⟨⟨.listen 0 false, none⟩, .none⟩, ⟨⟨.listen 1 false, none⟩, .prov⟩], by decide⟩⟩

end CaddyModel.C13
