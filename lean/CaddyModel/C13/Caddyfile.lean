/-
C13 — the Caddyfile glue: the `admin` global option (caddyconfig/httpcaddyfile/options.go,
`parseOptAdmin`), which is where `enforce_origin` and `origins` come from for Caddyfile users.

    admin [<listen> | off] {
        enforce_origin
        origins <origin…>
    }

Input: the arguments after `admin` on its line, and the block as a list of lines of tokens (`none` =
no block).  The dispenser walks the block TOKEN by token (`NextBlock`), only `origins` consumes the
rest of its line (`RemainingArgs`), so `enforce_origin origins a b` on one line is accepted and
`enforce_origin x` is an "unrecognized parameter x" error.  Tokens are plain words (no braces,
quotes, placeholders).
-/
import CaddyModel.C13.Model

namespace CaddyModel.C13

def sOff : Bytes := [111, 102, 102]   -- "off"
def sEnforceOrigin : Bytes := [101, 110, 102, 111, 114, 99, 101, 95, 111, 114, 105, 103, 105, 110]   -- "enforce_origin"
def sOrigins : Bytes := [111, 114, 105, 103, 105, 110, 115]   -- "origins"

/-- the fields of `caddy.AdminConfig` the option can set -/
structure CfAdmin where
  disabled : Bool
  listen : Bytes
  enforceOrigin : Bool
  origins : Option (List Bytes)     -- `none` = nil slice (JSON: absent → default origins)
deriving DecidableEq, Repr

/-- one line of the block, token by token; `none` = "unrecognized parameter" -/
def cfLine : List Bytes → CfAdmin → Option CfAdmin
  | [], a => some a
  | t :: rest, a =>
    if t = sEnforceOrigin then cfLine rest { a with enforceOrigin := true }
    else if t = sOrigins then some { a with origins := if rest = [] then none else some rest }
    else none

def cfBlock : List (List Bytes) → CfAdmin → Option CfAdmin
  | [], a => some a
  | l :: ls, a =>
    match cfLine l a with
    | some a' => cfBlock ls a'
    | none => none

def blockLines (block : Option (List (List Bytes))) : List (List Bytes) :=
  match block with
  | some ls => ls
  | none => []

/-- `parseOptAdmin`; `dflt` = `caddy.DefaultAdminListen`; `none` = a parse error -/
def parseOptAdmin (dflt : Bytes) (args : List Bytes) (block : Option (List (List Bytes))) : Option CfAdmin :=
  match args with
  | [] =>
    (cfBlock (blockLines block) ⟨false, [], false, none⟩).map
      (fun a => { a with listen := dflt })
  | [l] =>
    if l = sOff then (if block.isSome then none else some ⟨true, [], false, none⟩)
    else (cfBlock (blockLines block) ⟨false, l, false, none⟩).map
      (fun a => if a.listen = [] then { a with listen := dflt } else a)
  | _ :: _ :: _ => none     -- "off" + anything, or a second argument

-- ---------------------------------------------------------------- facts

theorem cfLine_inv : ∀ (l : List Bytes) (a a' : CfAdmin), cfLine l a = some a' →
    (a'.enforceOrigin = true → a.enforceOrigin = true ∨ sEnforceOrigin ∈ l) ∧
    (a.origins ≠ some [] → a'.origins ≠ some []) ∧ a'.disabled = a.disabled ∧ a'.listen = a.listen := by
  intro l
  induction l with
  | nil => intro a a' h; simp [cfLine] at h; subst h; simp
  | cons t rest ih =>
    intro a a' h
    unfold cfLine at h
    split at h
    · rename_i ht
      obtain ⟨h1, h2, h3, h4⟩ := ih _ _ h
      refine ⟨?_, h2, h3, h4⟩
      intro he
      right
      rcases h1 he with _ | hm
      · simp [ht]
      · simp [hm]
    · split at h
      · cases h
        refine ⟨fun he => Or.inl he, ?_, rfl, rfl⟩
        intro _
        by_cases hr : rest = []
        · simp [hr]
        · simp [hr]
      · cases h

theorem cfBlock_inv : ∀ (ls : List (List Bytes)) (a a' : CfAdmin), cfBlock ls a = some a' →
    (a'.enforceOrigin = true → a.enforceOrigin = true ∨ ∃ l ∈ ls, sEnforceOrigin ∈ l) ∧
    (a.origins ≠ some [] → a'.origins ≠ some []) ∧ a'.disabled = a.disabled ∧ a'.listen = a.listen := by
  intro ls
  induction ls with
  | nil => intro a a' h; simp [cfBlock] at h; subst h; simp
  | cons l ls ih =>
    intro a a' h
    unfold cfBlock at h
    split at h
    · rename_i a1 h1
      obtain ⟨i1, i2, i3, i4⟩ := cfLine_inv l a a1 h1
      obtain ⟨j1, j2, j3, j4⟩ := ih a1 a' h
      refine ⟨?_, fun hn => j2 (i2 hn), j3.trans i3, j4.trans i4⟩
      intro he
      rcases j1 he with h' | ⟨l', hl', hm⟩
      · rcases i1 h' with h'' | hm
        · left; exact h''
        · right; exact ⟨l, by simp, hm⟩
      · right; exact ⟨l', by simp [hl'], hm⟩
    · cases h

theorem cfLine_origins : ∀ (l : List Bytes) (a a' : CfAdmin) (os : List Bytes), cfLine l a = some a' →
    a'.origins = some os → a.origins = some os ∨ ∀ o ∈ os, o ∈ l := by
  intro l
  induction l with
  | nil => intro a a' os h ho; simp [cfLine] at h; subst h; exact Or.inl ho
  | cons t rest ih =>
    intro a a' os h ho
    unfold cfLine at h
    split at h
    · rcases ih _ _ os h ho with h1 | h1
      · exact Or.inl h1
      · exact Or.inr (fun o hm => by simp [h1 o hm])
    · split at h
      · cases h
        by_cases hr : rest = []
        · simp [hr] at ho
        · simp [hr] at ho
          subst ho
          exact Or.inr (fun o hm => by simp [hm])
      · cases h

theorem cfBlock_origins : ∀ (ls : List (List Bytes)) (a a' : CfAdmin) (os : List Bytes), cfBlock ls a = some a' →
    a'.origins = some os → a.origins = some os ∨ ∃ l ∈ ls, ∀ o ∈ os, o ∈ l := by
  intro ls
  induction ls with
  | nil => intro a a' os h ho; simp [cfBlock] at h; subst h; exact Or.inl ho
  | cons l ls ih =>
    intro a a' os h ho
    unfold cfBlock at h
    split at h
    · rename_i a1 h1
      rcases ih a1 a' os h ho with h2 | ⟨l', hl', hm⟩
      · rcases cfLine_origins l a a1 os h1 h2 with h3 | h3
        · exact Or.inl h3
        · exact Or.inr ⟨l, by simp, h3⟩
      · exact Or.inr ⟨l', by simp [hl'], hm⟩
    · cases h

/-- every successful parse is "`off`" or a run of the block from a start state with the flag off and
    no origins -/
theorem parseOptAdmin_cases (dflt : Bytes) (args : List Bytes) (block : Option (List (List Bytes)))
    (a : CfAdmin) (hp : parseOptAdmin dflt args block = some a) :
    a = ⟨true, [], false, none⟩ ∨
    ∃ a0 a1, a0.enforceOrigin = false ∧ a0.origins = none ∧ cfBlock (blockLines block) a0 = some a1 ∧
      a.enforceOrigin = a1.enforceOrigin ∧ a.origins = a1.origins := by
  unfold parseOptAdmin at hp
  match args, hp with
  | [], hp =>
    cases hb : cfBlock (blockLines block) ⟨false, [], false, none⟩ with
    | none => simp [hb] at hp
    | some a1 =>
      simp [hb] at hp
      subst hp
      exact Or.inr ⟨_, a1, rfl, rfl, hb, rfl, rfl⟩
  | [l], hp =>
    simp only at hp
    by_cases hl : l = sOff
    · simp only [hl, if_true] at hp
      split at hp
      · cases hp
      · cases hp; exact Or.inl rfl
    · simp only [hl, if_false] at hp
      cases hb : cfBlock (blockLines block) ⟨false, l, false, none⟩ with
      | none => simp [hb] at hp
      | some a1 =>
        simp [hb] at hp
        refine Or.inr ⟨_, a1, rfl, rfl, hb, ?_, ?_⟩
        · subst hp; split <;> rfl
        · subst hp; split <;> rfl
  | _ :: _ :: _, hp => simp at hp

end CaddyModel.C13
