/-
C13 — a byte-level model of what `isWildcardInterface` / `isLoopback` (listeners.go) need from
`net/netip` (Go 1.24): does the host parse as an IP address (`ParseAddr`: `parseIPv4`,
`parseIPv4Fields`, `parseIPv6` with zone, `::` ellipsis and embedded IPv4), and is it unspecified
(`IsUnspecified`: exactly 0.0.0.0 or `::` without zone) or loopback (`IsLoopback`: 127.x.y.z,
`::1` with any zone, or an IPv4-mapped 127.x.y.z).  Replaces the `IpClass` table.
-/
import CaddyModel.C13.Url

namespace CaddyModel.C13

/-- `parseIPv4Fields`: the four octets; `none` = any of its errors -/
def v4Loop : Bytes → Nat → Nat → List UInt8 → Bool → Bool → Option (List UInt8)
  | [], val, _, fields, _, _ => if fields.length < 3 then none else some (fields ++ [val.toUInt8])
  | c :: cs, val, digLen, fields, first, prevDot =>
    if isDigitB c then
      (if digLen = 1 && val = 0 then none                                   -- leading zero
       else if val * 10 + (c.toNat - 48) > 255 then none
       else v4Loop cs (val * 10 + (c.toNat - 48)) (digLen + 1) fields false false)
    else if c = 46 then
      (if first || cs = [] || prevDot then none                             -- a field without digits
       else if fields.length = 3 then none                                  -- too long
       else v4Loop cs 0 0 (fields ++ [val.toUInt8]) false true)
    else none

def parseIPv4Fields (s : Bytes) : Option (List UInt8) := v4Loop s 0 0 [] true false

/-- the hex digits at the front of `s`: (how many, value, rest); `none` = a fifth digit -/
def hexGroup : Bytes → Nat → Nat → Option (Nat × Nat × Bytes)
  | [], off, acc => some (off, acc, [])
  | c :: cs, off, acc =>
    if isHexB c then (if off > 3 then none else hexGroup cs (off + 1) (acc * 16 + (unhexB c).toNat))
    else some (off, acc, c :: cs)

/-- the main loop of `parseIPv6`: `s` = what is left, `ip` = the bytes so far, `ell` = where the
    `::` was; result = (left over, bytes, ellipsis) -/
def v6Loop : Nat → Bytes → List UInt8 → Option Nat → Option (Bytes × List UInt8 × Option Nat)
  | 0, s, ip, ell => some (s, ip, ell)
  | fuel + 1, s, ip, ell =>
    if 16 ≤ ip.length then some (s, ip, ell)
    else match hexGroup s 0 0 with
    | none => none
    | some (off, acc, rest) =>
      if off = 0 then none
      else if rest.head? = some 46 then
        (if ell.isNone && ip.length ≠ 12 then none
         else if ip.length + 4 > 16 then none
         else match parseIPv4Fields s with
           | some v4 => some ([], ip ++ v4, ell)
           | none => none)
      else if rest = [] then some ([], ip ++ [(acc / 256).toUInt8, (acc % 256).toUInt8], ell)
      else if rest.head? ≠ some colon then none
      else if rest.length = 1 then none
      else if (rest.drop 1).head? = some colon then
        (if ell.isSome then none
         else if rest.drop 2 = [] then
           some ([], ip ++ [(acc / 256).toUInt8, (acc % 256).toUInt8], some (ip.length + 2))
         else v6Loop fuel (rest.drop 2) (ip ++ [(acc / 256).toUInt8, (acc % 256).toUInt8]) (some (ip.length + 2)))
      else v6Loop fuel (rest.drop 1) (ip ++ [(acc / 256).toUInt8, (acc % 256).toUInt8]) ell

/-- `parseIPv6` → (16 bytes, zone); `none` = any of its errors -/
def parseIPv6 (inp : Bytes) : Option (List UInt8 × Bytes) :=
  if inp.contains percent && afterB percent inp = [] then none                 -- empty zone
  else
    match (if hasPrefix (beforeB percent inp) [colon, colon] then
             (if (beforeB percent inp).drop 2 = [] then some ([], [], some 0)
              else v6Loop 9 ((beforeB percent inp).drop 2) [] (some 0))
           else v6Loop 9 (beforeB percent inp) [] none) with
    | none => none
    | some (left, ip, ell) =>
      if left ≠ [] then none
      else if ip.length < 16 then
        (match ell with
         | none => none
         | some e => some (ip.take e ++ List.replicate (16 - ip.length) 0 ++ ip.drop e, afterB percent inp))
      else if ell.isSome then none
      else some (ip, afterB percent inp)

/-- which parser `ParseAddr` hands the string to: the first of `.`, `:`, `%` decides -/
def firstIpMark : Bytes → Option UInt8
  | [] => none
  | c :: cs => if c = 46 || c = colon || c = percent then some c else firstIpMark cs

/-- `netip.ParseAddr(host)` followed by `IsUnspecified` / `IsLoopback` -/
def ipClassOf (host : Bytes) : IpClass :=
  if firstIpMark host = some 46 then
    (match parseIPv4Fields host with
     | some v4 => if v4.all (· = 0) then .unspecified else if v4.head? = some 127 then .loopback else .other
     | none => .notIP)
  else if firstIpMark host = some colon then
    (match parseIPv6 host with
     | some (ip, zone) =>
       if ip.all (· = 0) && zone = [] then .unspecified
       else if ip = List.replicate 15 0 ++ [1] then .loopback
       else if ip.take 10 = List.replicate 10 0 && (ip.drop 10).take 2 = [255, 255] && (ip.drop 12).head? = some 127 then .loopback
       else .other
     | none => .notIP)
  else .notIP

end CaddyModel.C13
