import CaddyModel.Util.DrvMain
import CaddyModel.C13.Driver

def main (args : List String) : IO Unit :=
  CaddyModel.drvMain "C13" CaddyModel.C13.handle CaddyModel.C13.witnessLines args
