/-
C13 — the lifecycle glue: WHICH admin servers are alive after a history of config loads, and which
access list each of them enforces.  Transliterated from admin.go

  replaceLocalAdminServer   old := localAdminServer; defer (stop old, asynchronously, unless starting
                            the new one failed); disabled → return; parse address, build handler,
                            listen, localAdminServer = new server
  replaceRemoteAdminServer  cfg == nil → return; old := remoteAdminServer; defer (stop old);
                            no admin.remote → return (the deferred stop still runs!); parse address,
                            build handler, extract keys, listen, remoteAdminServer = new server

as run by every `caddy.Load` (`run`: local endpoint first, `finishSettingUp`: remote endpoint).
The package variables may keep pointing at a server that was stopped (they are not reset when an
endpoint is switched off); what matters is the set of servers that are still LISTENING.
Starting a server is assumed to succeed (the protocol uses free loopback ports).
-/
import CaddyModel.C13.Model

namespace CaddyModel.C13

/-- a started remote admin `http.Server`: a unique identity, its address, the access list its
    handler enforces (`adminHandler.remoteControl`) -/
structure RSrv where
  id : Nat
  addr : Nat
  acl : List Access
deriving DecidableEq, Repr

/-- a local admin `http.Server`: identity, address, and the policy its handler enforces (`tight` =
    origins restricted so that the address's own Host value is NOT allowed) -/
structure LSrv where
  id : Nat
  addr : Nat
  tight : Bool
deriving DecidableEq, Repr

/-- the admin part of one loaded config -/
inductive LocalCfg where
  | absent                 -- no "admin" object: the default address (not observed by the protocol)
  | disabled               -- admin.disabled
  | listen (addr : Nat) (tight : Bool)
  | blocked                -- admin.listen names an address that cannot be bound (held by a foreign socket)
deriving DecidableEq, Repr

structure LoadCfg where
  loc : LocalCfg
  remote : Option (Nat × List Access)      -- admin.remote: (address, access_control)
deriving DecidableEq, Repr

/-- the process state the two functions read and write -/
structure Life where
  next : Nat                    -- source of server identities
  localVar : Option LSrv        -- `localAdminServer`
  liveLocal : List LSrv         -- local servers still listening
  remoteVar : Option RSrv       -- `remoteAdminServer`
  liveRemote : List RSrv        -- remote servers still listening
deriving DecidableEq, Repr

def Life.init : Life := ⟨0, none, [], none, []⟩

/-- the address the default listen setting stands for (outside the probed ones) -/
def defaultLocalAddr : Nat := 99

def stopL (live : List LSrv) (old : Option LSrv) : List LSrv :=
  match old with
  | some o => live.filter (· ≠ o)
  | none => live

def stopR (live : List RSrv) (old : Option RSrv) : List RSrv :=
  match old with
  | some o => live.filter (· ≠ o)
  | none => live

/-- `replaceLocalAdminServer`.  When the listener cannot be bound the function returns the error
    BEFORE it assigns `localAdminServer`, and the deferred stop is skipped (`err != nil`): nothing
    changes, in particular the variable keeps pointing at the server that is really running. -/
def replaceLocal (s : Life) (c : LoadCfg) : Life :=
  match c.loc with
  | .disabled => { s with liveLocal := stopL s.liveLocal s.localVar }
  | .blocked => s
  | .absent =>
    { s with next := s.next + 1, localVar := some ⟨s.next, defaultLocalAddr, false⟩,
             liveLocal := stopL s.liveLocal s.localVar ++ [⟨s.next, defaultLocalAddr, false⟩] }
  | .listen a t =>
    { s with next := s.next + 1, localVar := some ⟨s.next, a, t⟩,
             liveLocal := stopL s.liveLocal s.localVar ++ [⟨s.next, a, t⟩] }

/-- the variant that assigns `localAdminServer` BEFORE binding the listener (the order
    `replaceRemoteAdminServer` uses): after a failed bind the variable points at a server that
    never started.  Kept for `local_assign_before_bind_fails`. -/
def replaceLocalAssignFirst (s : Life) (c : LoadCfg) : Life :=
  match c.loc with
  | .blocked => { s with next := s.next + 1, localVar := some ⟨s.next, defaultLocalAddr, false⟩ }
  | _ => replaceLocal s c

/-- `replaceRemoteAdminServer`: the previous server is stopped on BOTH paths, because the `defer`
    is registered before the "remote administration not configured" return -/
def replaceRemote (s : Life) (c : LoadCfg) : Life :=
  match c.remote with
  | none => { s with liveRemote := stopR s.liveRemote s.remoteVar }
  | some (a, acl) =>
    { s with next := s.next + 1, remoteVar := some ⟨s.next, a, acl⟩,
             liveRemote := stopR s.liveRemote s.remoteVar ++ [⟨s.next, a, acl⟩] }

/-- one `caddy.Load`; a load whose local admin listener cannot be bound is rejected there and
    then (`run` → `provisionContext` returns the error): the remote endpoint is not touched -/
def load (s : Life) (c : LoadCfg) : Life :=
  if c.loc = .blocked then replaceLocal s c else replaceRemote (replaceLocal s c) c

def loadAssignFirst (s : Life) (c : LoadCfg) : Life :=
  if c.loc = .blocked then replaceLocalAssignFirst s c else replaceRemote (replaceLocalAssignFirst s c) c

/-- the state after a history of loads -/
def afterHistory (hist : List LoadCfg) : Life := hist.foldl load Life.init

/-- the variant with the two guards of `replaceRemoteAdminServer` merged in front of the `defer`
    (a plausible tidy-up): switching remote administration off returns before the stop is
    registered.  Kept for `remote_merged_guard_fails`. -/
def replaceRemoteMerged (s : Life) (c : LoadCfg) : Life :=
  match c.remote with
  | none => s
  | some (a, acl) =>
    { s with next := s.next + 1, remoteVar := some ⟨s.next, a, acl⟩,
             liveRemote := stopR s.liveRemote s.remoteVar ++ [⟨s.next, a, acl⟩] }

def loadMerged (s : Life) (c : LoadCfg) : Life := replaceRemoteMerged (replaceLocal s c) c

/-- what a client holding key `k` gets for `GET /config/` from a remote server enforcing `acl`:
    s served, m method refused, p path refused, r rejected (not a listed key) -/
def keyAnswer (acl : List Access) (k : Nat) : Char :=
  match chainScan acl [71, 69, 84] pConfig [[k]] with
  | some .allow => 's'
  | some .methodDenied => 'm'
  | some .pathDenied => 'p'
  | none => 'r'

end CaddyModel.C13
