/-
C13 — the lifecycle glue: WHICH admin servers are alive after a history of config loads, and which
access list each of them enforces.  Transliterated from admin.go

  replaceLocalAdminServer   old := localAdminServer; defer (stop old, asynchronously, unless starting
                            the new one failed); disabled → return; parse address, build handler,
                            listen, localAdminServer = new server
  replaceRemoteAdminServer  cfg == nil → return; old := remoteAdminServer; defer (stop old);
                            no admin.remote → return (the deferred stop still runs!); parse address,
                            build handler, extract keys, listen, remoteAdminServer = new server

as run by every `caddy.Load` (`run`: local endpoint first, `finishSettingUp`: remote endpoint).
The package variables may keep pointing at a server that was stopped (they are not reset when an
endpoint is switched off); what matters is the set of servers that are still LISTENING.
Starting a server is assumed to succeed (the protocol uses free loopback ports).
-/
import CaddyModel.C13.Model

namespace CaddyModel.C13

/-- a started remote admin `http.Server`: a unique identity, its address, the access list its
    handler enforces (`adminHandler.remoteControl`) -/
structure RSrv where
  id : Nat
  addr : Nat
  acl : List Access
deriving DecidableEq, Repr

/-- a local admin `http.Server`: identity, address, and the policy its handler enforces (`tight` =
    origins restricted so that the address's own Host value is NOT allowed) -/
structure LSrv where
  id : Nat
  addr : Nat
  tight : Bool
deriving DecidableEq, Repr

/-- the admin part of one loaded config -/
inductive LocalCfg where
  | absent                 -- no "admin" object: the default address (not observed by the protocol)
  | disabled               -- admin.disabled
  | listen (addr : Nat) (tight : Bool)
  | blocked                -- admin.listen names an address that cannot be bound (held by a foreign socket)
deriving DecidableEq, Repr

structure LoadCfg where
  loc : LocalCfg
  remote : Option (Nat × List Access)      -- admin.remote: (address, access_control)
deriving DecidableEq, Repr

/-- the process state the two functions read and write -/
structure Life where
  next : Nat                    -- source of server identities
  localVar : Option LSrv        -- `localAdminServer`
  liveLocal : List LSrv         -- local servers still listening
  remoteVar : Option RSrv       -- `remoteAdminServer`
  liveRemote : List RSrv        -- remote servers still listening
deriving DecidableEq, Repr

def Life.init : Life := ⟨0, none, [], none, []⟩

/-- the address the default listen setting stands for (outside the probed ones) -/
def defaultLocalAddr : Nat := 99

def stopL (live : List LSrv) (old : Option LSrv) : List LSrv :=
  match old with
  | some o => live.filter (· ≠ o)
  | none => live

def stopR (live : List RSrv) (old : Option RSrv) : List RSrv :=
  match old with
  | some o => live.filter (· ≠ o)
  | none => live

/-- `replaceLocalAdminServer`.  When the listener cannot be bound the function returns the error
    BEFORE it assigns `localAdminServer`, and the deferred stop is skipped (`err != nil`): nothing
    changes, in particular the variable keeps pointing at the server that is really running. -/
def replaceLocal (s : Life) (c : LoadCfg) : Life :=
  match c.loc with
  | .disabled => { s with liveLocal := stopL s.liveLocal s.localVar }
  | .blocked => s
  | .absent =>
    { s with next := s.next + 1, localVar := some ⟨s.next, defaultLocalAddr, false⟩,
             liveLocal := stopL s.liveLocal s.localVar ++ [⟨s.next, defaultLocalAddr, false⟩] }
  | .listen a t =>
    { s with next := s.next + 1, localVar := some ⟨s.next, a, t⟩,
             liveLocal := stopL s.liveLocal s.localVar ++ [⟨s.next, a, t⟩] }

/-- the variant that assigns `localAdminServer` BEFORE binding the listener (the order
    `replaceRemoteAdminServer` uses): after a failed bind the variable points at a server that
    never started.  Kept for `local_assign_before_bind_fails`. -/
def replaceLocalAssignFirst (s : Life) (c : LoadCfg) : Life :=
  match c.loc with
  | .blocked => { s with next := s.next + 1, localVar := some ⟨s.next, defaultLocalAddr, false⟩ }
  | _ => replaceLocal s c

/-- `replaceRemoteAdminServer`: the previous server is stopped on BOTH paths, because the `defer`
    is registered before the "remote administration not configured" return -/
def replaceRemote (s : Life) (c : LoadCfg) : Life :=
  match c.remote with
  | none => { s with liveRemote := stopR s.liveRemote s.remoteVar }
  | some (a, acl) =>
    { s with next := s.next + 1, remoteVar := some ⟨s.next, a, acl⟩,
             liveRemote := stopR s.liveRemote s.remoteVar ++ [⟨s.next, a, acl⟩] }

/-- one `caddy.Load`; a load whose local admin listener cannot be bound is rejected there and
    then (`run` → `provisionContext` returns the error): the remote endpoint is not touched -/
def load (s : Life) (c : LoadCfg) : Life :=
  if c.loc = .blocked then replaceLocal s c else replaceRemote (replaceLocal s c) c

def loadAssignFirst (s : Life) (c : LoadCfg) : Life :=
  if c.loc = .blocked then replaceLocalAssignFirst s c else replaceRemote (replaceLocalAssignFirst s c) c

/-- the state after a history of loads -/
def afterHistory (hist : List LoadCfg) : Life := hist.foldl load Life.init


/-! ### loads that are REJECTED LATE

`caddy.go run`: `provisionContext` replaces the local admin endpoint FIRST (`replaceLocalAdminServer`),
then provisions storage and apps — which may fail —, then `provisionAdminRouters`, app start, and
`finishSettingUp` → `manageIdentity`, `replaceRemoteAdminServer` — which may fail too (an access
list entry whose public key cannot be decoded; its error return comes after the `defer` that stops
the previous remote server and before `remoteAdminServer` is assigned).  None of these error paths
puts the previous local endpoint back. -/

/-- where a load is rejected after the local admin endpoint was replaced -/
inductive Fail where
  | none       -- not at all (the load is accepted unless its local listener cannot be bound)
  | prov       -- `provisionContext`: an app cannot be loaded / provisioned (remote endpoint not reached)
  | key        -- `replaceRemoteAdminServer`: a listed public key cannot be decoded
deriving DecidableEq, Repr

/-- one call of `caddy.Load`: the admin part of the config, and how the rest of it fares -/
structure Attempt where
  cfg : LoadCfg
  fail : Fail
deriving DecidableEq, Repr

/-- `replaceRemoteAdminServer` returning from inside the key loop: the deferred stop of the previous
    server runs (it has no `err == nil` condition), no new server is created, the variable is not
    assigned -/
def replaceRemoteKeyErr (s : Life) : Life :=
  { s with liveRemote := stopR s.liveRemote s.remoteVar }

/-- one `caddy.Load`, accepted or rejected -/
def attempt (s : Life) (a : Attempt) : Life :=
  if a.cfg.loc = .blocked then s
  else match a.fail with
    | .none => replaceRemote (replaceLocal s a.cfg) a.cfg
    | .prov => replaceLocal s a.cfg
    | .key => replaceRemoteKeyErr (replaceLocal s a.cfg)

/-- is the load accepted (does its config become the running one)? -/
def Attempt.accepted (a : Attempt) : Bool := a.cfg.loc != .blocked && a.fail == .none

/-- the endpoint a config asks for: address and origin policy (none: disabled / cannot be bound) -/
def LocalCfg.endpoint : LocalCfg → Option (Nat × Bool)
  | .absent => some (defaultLocalAddr, false)
  | .disabled => none
  | .listen a t => some (a, t)
  | .blocked => none

def afterAttempts (hist : List Attempt) : Life := hist.foldl attempt Life.init

/-- the running config: that of the last ACCEPTED load -/
def runningStep (cur : Option LoadCfg) (a : Attempt) : Option LoadCfg :=
  if a.accepted then some a.cfg else cur

def runningConfig (hist : List Attempt) : Option LoadCfg := hist.foldl runningStep none

/-- what the property says of the local endpoint when "allowed origin" is read as "allowed by the
    RUNNING config": every local admin server that listens is the endpoint the running config asks
    for, with its origin policy -/
def localAsRunning (hist : List Attempt) : Bool :=
  (afterAttempts hist).liveLocal.all (fun srv =>
    match runningConfig hist with
    | some c => c.loc.endpoint == some (srv.addr, srv.tight)
    | none => false)

/-- the candidate repair (`.run/fixes/C13-rejected-load-admin-endpoint.patch`): a load that is rejected
    after the admin endpoints were touched re-runs both replace functions with the running config
    (`none`: nothing was ever accepted — the endpoints are stopped) -/
def restore (s : Life) (cur : Option LoadCfg) : Life :=
  match cur with
  | some c => replaceRemote (replaceLocal s c) c
  | none => { s with liveLocal := stopL s.liveLocal s.localVar, liveRemote := stopR s.liveRemote s.remoteVar }

def attemptFixed (st : Life × Option LoadCfg) (a : Attempt) : Life × Option LoadCfg :=
  if a.cfg.loc = .blocked then st
  else match a.fail with
    | .none => (replaceRemote (replaceLocal st.1 a.cfg) a.cfg, some a.cfg)
    | .prov => (restore (replaceLocal st.1 a.cfg) st.2, st.2)
    | .key => (restore (replaceRemoteKeyErr (replaceLocal st.1 a.cfg)) st.2, st.2)

def afterAttemptsFixed (hist : List Attempt) : Life × Option LoadCfg := hist.foldl attemptFixed (Life.init, none)

/-- the variant with the two guards of `replaceRemoteAdminServer` merged in front of the `defer`
    (a plausible tidy-up): switching remote administration off returns before the stop is
    registered.  Kept for `remote_merged_guard_fails`. -/
def replaceRemoteMerged (s : Life) (c : LoadCfg) : Life :=
  match c.remote with
  | none => s
  | some (a, acl) =>
    { s with next := s.next + 1, remoteVar := some ⟨s.next, a, acl⟩,
             liveRemote := stopR s.liveRemote s.remoteVar ++ [⟨s.next, a, acl⟩] }

def loadMerged (s : Life) (c : LoadCfg) : Life := replaceRemoteMerged (replaceLocal s c) c

/-- what a client holding key `k` gets for `GET /config/` from a remote server enforcing `acl`:
    s served, m method refused, p path refused, r rejected (not a listed key) -/
def keyAnswer (acl : List Access) (k : Nat) : Char :=
  match chainScan acl [71, 69, 84] pConfig [[k]] with
  | some .allow => 's'
  | some .methodDenied => 'm'
  | some .pathDenied => 'p'
  | none => 'r'

end CaddyModel.C13
