/-
C13 — helper lemmas: characterisation of the gate, the invariants of the serveHTTP loop,
the ACL scan, allowedOrigins vs. the spec.
-/
import CaddyModel.C13.Spec

namespace CaddyModel.C13

-- ---------------------------------------------------------------- the gate

/-- the gate passed (with some CORS decoration) -/
def Passes (h : Handler) (r : Req) : Prop := ∃ c, gate h r = .pass c

theorem aclGate_ne_pass (h : Handler) (r : Req) (c : Nat) : aclGate h r ≠ some (.pass c) := by
  unfold aclGate
  split
  · simp
  · split
    · simp
    · split <;> simp

theorem gate_pass_iff (h : Handler) (r : Req) (c : Nat) :
    gate h r = .pass c ↔ aclGate h r = none ∧ localGate h r = .pass c := by
  unfold gate
  cases hg : aclGate h r with
  | none => simp
  | some g =>
    simp
    intro hgp
    subst hgp
    exact aclGate_ne_pass h r c hg

theorem aclGate_none_iff (h : Handler) (r : Req) :
    aclGate h r = none ↔
      (h.remote = none ∨ ∃ acl chains, h.remote = some acl ∧ r.tls = some chains ∧
        chainScan acl r.method r.path chains = some .allow) := by
  unfold aclGate
  cases hr : h.remote with
  | none => simp
  | some acl =>
    cases ht : r.tls with
    | none => simp
    | some chains =>
      cases hc : chainScan acl r.method r.path chains with
      | none => simp [hc]
      | some res => cases res <;> simp [hc]

theorem localGate_pass (h : Handler) (r : Req) (c : Nat) (hp : localGate h r = .pass c) :
    wsCheck r = false ∧
    (h.enforceHost = true → checkHost h r = true) ∧
    (h.enforceOrigin = true →
      originStr r ≠ [] ∧ (getOrigin r).ok = true ∧ originAllowed h (getOrigin r) = true) := by
  unfold localGate localGateWith at hp
  split at hp
  · cases hp
  · rename_i hws
    split at hp
    · cases hp
    · rename_i hh
      refine ⟨by simpa using hws, ?_, ?_⟩
      · intro he
        cases hc : checkHost h r with
        | true => rfl
        | false => simp [he, hc] at hh
      · intro heo
        rw [if_pos heo] at hp
        split at hp
        · cases hp
        · rename_i hok
          split at hp
          · cases hp
          · rename_i hal
            simp at hok
            exact ⟨hok.1, hok.2, by simpa using hal⟩

/-- the local half of the gate never looks at the path -/
theorem localGate_withPath (h : Handler) (r : Req) (p : Bytes) :
    localGate h (r.withPath p) = localGate h r := rfl

theorem withPath_withPath (r : Req) (p q : Bytes) : (r.withPath p).withPath q = r.withPath q := rfl
theorem withPath_self (r : Req) : r.withPath r.path = r := rfl
theorem withPath_path (r : Req) (p : Bytes) : (r.withPath p).path = p := rfl

-- ---------------------------------------------------------------- the serveHTTP loop

/-- **every handler invocation was preceded by a passed gate evaluated on the request as it was
    at that moment** (same headers, same TLS state, the path of that invocation) and was chosen by
    the mux for that path. -/
theorem serve_trace_gated {σ : Type} (H : Bytes → Req → σ → σ) (mux : Bytes → Bytes → Route) (h : Handler) (idx : Index) :
    ∀ (fuel : Nat) (r : Req) (s : σ) (tr : List Dispatch) (c : Nat) (d : Dispatch),
      d ∈ (serve H mux h idx fuel r s tr c).trace →
      d ∈ tr ∨ (Passes h (r.withPath d.path) ∧ mux r.method d.path = .handler d.pat) := by
  intro fuel
  induction fuel with
  | zero => intro r s tr c d hd; left; simpa [serve] using hd
  | succ n ih =>
    intro r s tr c d hd
    unfold serve at hd
    split at hd
    · left; simpa using hd
    · left; simpa using hd
    · rename_i c' hg
      split at hd
      · left; simpa using hd
      · left; simpa using hd
      · rename_i pat hroute
        have here : Passes h (r.withPath r.path) ∧ mux r.method r.path = .handler pat :=
          ⟨⟨c', hg⟩, hroute⟩
        split at hd
        · split at hd
          · simp at hd
            rcases hd with hd | hd
            · left; exact hd
            · right; subst hd; exact here
          · simp at hd
            rcases hd with hd | hd
            · left; exact hd
            · right; subst hd; exact here
          · rename_i np _
            rcases ih (r.withPath np) s _ _ d hd with hd | hd
            · simp at hd
              rcases hd with hd | hd
              · left; exact hd
              · right; subst hd; exact here
            · right; exact hd
        · simp at hd
          rcases hd with hd | hd
          · left; exact hd
          · right; subst hd; exact here

/-- the trace only grows -/
theorem serve_trace_prefix {σ : Type} (H : Bytes → Req → σ → σ) (mux : Bytes → Bytes → Route) (h : Handler) (idx : Index) :
    ∀ (fuel : Nat) (r : Req) (s : σ) (tr : List Dispatch) (c : Nat),
      ∃ ext, (serve H mux h idx fuel r s tr c).trace = tr ++ ext := by
  intro fuel
  induction fuel with
  | zero => intro r s tr c; exact ⟨[], by simp [serve]⟩
  | succ n ih =>
    intro r s tr c
    unfold serve
    split
    · exact ⟨[], by simp⟩
    · exact ⟨[], by simp⟩
    · split
      · exact ⟨[], by simp⟩
      · exact ⟨[], by simp⟩
      · rename_i c' _ _ pat _
        split
        · split
          · exact ⟨_, rfl⟩
          · exact ⟨_, rfl⟩
          · rename_i np _
            obtain ⟨ext, he⟩ := ih (r.withPath np) s (tr ++ [⟨pat, r.path⟩]) (max c c')
            refine ⟨(⟨pat, r.path⟩ : Dispatch) :: ext, ?_⟩
            rw [he]; simp
        · exact ⟨_, rfl⟩

/-- **the server state changes only through a handler that was dispatched**: either the state
    is untouched, or the request ended in a non-redirecting handler `pat`, which is the last entry
    of the trace, and the state is that handler's effect. -/
theorem serve_state {σ : Type} (H : Bytes → Req → σ → σ) (mux : Bytes → Bytes → Route) (h : Handler) (idx : Index) :
    ∀ (fuel : Nat) (r : Req) (s : σ) (tr : List Dispatch) (c : Nat),
      (serve H mux h idx fuel r s tr c).state = s ∨
      ∃ pat, (serve H mux h idx fuel r s tr c).final = .handled pat ∧
        (⟨pat, (serve H mux h idx fuel r s tr c).path⟩ : Dispatch) ∈ (serve H mux h idx fuel r s tr c).trace ∧
        (serve H mux h idx fuel r s tr c).state = H pat (r.withPath (serve H mux h idx fuel r s tr c).path) s := by
  intro fuel
  induction fuel with
  | zero => intro r s tr c; left; simp [serve]
  | succ n ih =>
    intro r s tr c
    unfold serve
    split
    · left; rfl
    · left; rfl
    · split
      · left; rfl
      · left; rfl
      · rename_i pat _
        split
        · split
          · left; rfl
          · left; rfl
          · rename_i np _
            rcases ih (r.withPath np) s (tr ++ [⟨pat, r.path⟩]) (max c _) with hs | ⟨p, h1, h2, h3⟩
            · left; exact hs
            · right; exact ⟨p, h1, h2, h3⟩
        · right; exact ⟨pat, rfl, by simp, rfl⟩

/-- CORS headers appear on the response only if some pass of the gate granted them -/
theorem serve_cors {σ : Type} (H : Bytes → Req → σ → σ) (mux : Bytes → Bytes → Route) (h : Handler) (idx : Index) :
    ∀ (fuel : Nat) (r : Req) (s : σ) (tr : List Dispatch) (c : Nat),
      (serve H mux h idx fuel r s tr c).cors ≤ c ∨
      ∃ p c', c' ≠ 0 ∧ gate h (r.withPath p) = .pass c' := by
  intro fuel
  induction fuel with
  | zero => intro r s tr c; left; simp [serve]
  | succ n ih =>
    intro r s tr c
    unfold serve
    split
    · left; simp
    · left; simp
    · rename_i c' hg
      by_cases hc : c' = 0
      · subst hc
        split
        · left; simp
        · left; simp
        · split
          · split
            · left; simp
            · left; simp
            · rename_i np _
              rcases ih (r.withPath np) s (tr ++ [⟨_, r.path⟩]) (max c 0) with hle | hex
              · left; simpa using hle
              · right; exact hex
          · left; simp
      · right; exact ⟨r.path, c', hc, hg⟩

/-- nothing dispatched ⇒ nothing changed -/
theorem serve_untouched_of_no_dispatch {σ : Type} (H : Bytes → Req → σ → σ) (mux : Bytes → Bytes → Route) (h : Handler) (idx : Index)
    (fuel : Nat) (r : Req) (s : σ)
    (hno : ∀ d, d ∈ (serveHTTP H mux h idx fuel r s).trace → False) :
    Untouched (serveHTTP H mux h idx fuel r s) s := by
  constructor
  · cases ht : (serveHTTP H mux h idx fuel r s).trace with
    | nil => rfl
    | cons d t => exact absurd (hno d (by rw [ht]; simp)) id
  · rcases serve_state H mux h idx fuel r s [] 0 with hs | ⟨pat, _, hmem, _⟩
    · exact hs
    · exact absurd (hno _ hmem) id

-- ---------------------------------------------------------------- checkHost / originAllowed

theorem checkHost_iff (h : Handler) (r : Req) :
    checkHost h r = true ↔ ∃ a ∈ h.allowed, a.host = r.host := by
  unfold checkHost
  simp [List.any_eq_true]
  constructor
  · rintro ⟨a, ha, he⟩; exact ⟨a, ha, he.symm⟩
  · rintro ⟨a, ha, he⟩; exact ⟨a, ha, he.symm⟩

theorem originAllowed_iff (h : Handler) (u : Url) :
    originAllowed h u = true ↔
      ∃ a ∈ h.allowed, (a.scheme = [] ∨ a.scheme = u.scheme) ∧ a.host = u.host := by
  unfold originAllowed originMatches
  simp [List.any_eq_true]
  constructor
  · rintro ⟨a, ha, hs, hh⟩
    exact ⟨a, ha, hs.imp id Eq.symm, hh.symm⟩
  · rintro ⟨a, ha, hs, hh⟩
    exact ⟨a, ha, hs.imp id Eq.symm, hh.symm⟩

-- ---------------------------------------------------------------- allowedOrigins = the spec's AllowedOrigin

theorem joinHostPort_localhost (port : Bytes) : joinHostPort sLocalhost port = hpLocalhost port := by
  have h1 : sLocalhost.contains colon = false := by decide
  unfold joinHostPort hpLocalhost; rw [h1]; rfl

theorem joinHostPort_v6 (port : Bytes) : joinHostPort sV6Loop port = hpV6Loop port := by
  have h1 : sV6Loop.contains colon = true := by decide
  unfold joinHostPort hpV6Loop; rw [h1]; rfl

theorem joinHostPort_v4 (port : Bytes) : joinHostPort sV4Loop port = hpV4Loop port := by
  have h1 : sV4Loop.contains colon = false := by decide
  unfold joinHostPort hpV4Loop; rw [h1]; rfl

theorem entryAllowed_some (e : OriginEntry) (al : Allowed) :
    entryAllowed e = some al ↔
      (containsSub e.raw sSchemeSep = true ∧ e.parsed.ok = true ∧ al.scheme = e.parsed.scheme ∧ al.host = e.parsed.host)
      ∨ (containsSub e.raw sSchemeSep = false ∧ al.scheme = [] ∧ al.host = e.raw) := by
  unfold entryAllowed
  cases al with
  | mk sc ho =>
    by_cases h1 : containsSub e.raw sSchemeSep = true
    · by_cases h2 : e.parsed.ok = true
      · simp [h1, h2]; constructor
        · rintro ⟨a, b⟩; exact ⟨a.symm, b.symm⟩
        · rintro ⟨a, b⟩; exact ⟨a.symm, b.symm⟩
      · simp [h1, h2]
    · simp [h1]; intro _; exact eq_comm

/-- the model's `allowedOrigins` lists exactly the spec's allowed origins -/
theorem mem_allowedOrigins_iff (cfg : AdminCfg) (a : Addr) (al : Allowed) :
    al ∈ allowedOrigins cfg.origins a ↔ AllowedOrigin cfg a al.scheme al.host := by
  unfold allowedOrigins AllowedOrigin
  cases ho : cfg.origins with
  | some l =>
    simp only [List.mem_filterMap]
    constructor
    · rintro ⟨e, he, hs⟩; exact ⟨e, he, (entryAllowed_some e al).1 hs⟩
    · rintro ⟨e, he, hs⟩; exact ⟨e, he, (entryAllowed_some e al).2 hs⟩
  | none =>
    cases al with
    | mk sc ho' =>
    by_cases hu : a.isUnix = true
    · simp [hu]
    · by_cases hf : a.isFd = true
      · simp [hf]
      · have hu' : a.isUnix = false := by simpa using hu
        have hf' : a.isFd = false := by simpa using hf
        simp only [hu', hf', Bool.not_false, Bool.and_self, if_true, true_and]
        unfold defaultOrigins
        by_cases hl : a.isLoopback = true
        · simp [hl, joinHostPort_localhost, joinHostPort_v6, joinHostPort_v4]
          constructor
          · rintro (⟨hs, h⟩ | ⟨hs, h⟩ | ⟨hs, h⟩)
            · exact ⟨hs, Or.inl h⟩
            · exact ⟨hs, Or.inr (Or.inl h)⟩
            · exact ⟨hs, Or.inr (Or.inr h)⟩
          · rintro ⟨hs, h | h | h⟩
            · exact Or.inl ⟨hs, h⟩
            · exact Or.inr (Or.inl ⟨hs, h⟩)
            · exact Or.inr (Or.inr ⟨hs, h⟩)
        · have hl' : a.isLoopback = false := by simpa using hl
          simp [hl', Addr.joinHostPort, hu', hf']

-- ---------------------------------------------------------------- enforceAccessControls

theorem methodOK_iff (p : Perm) (m : Bytes) :
    methodOK p m = true ↔ (p.methods = none ∨ ∃ ms, p.methods = some ms ∧ m ∈ ms) := by
  unfold methodOK
  cases p.methods with
  | none => simp
  | some ms => simp

theorem pathOK_iff (p : Perm) (path : Bytes) :
    pathOK p path = true ↔ (p.paths = none ∨ ∃ ps, p.paths = some ps ∧ ∃ ap ∈ ps, hasPrefix path ap = true) := by
  unfold pathOK
  cases p.paths with
  | none => simp
  | some ps => simp [List.any_eq_true]

theorem permsCheck_allow (m path : Bytes) :
    ∀ perms, permsCheck m path perms = .allow ↔ ∀ p ∈ perms, PermAllows p m path := by
  intro perms
  induction perms with
  | nil => simp [permsCheck]
  | cons p ps ih =>
    unfold permsCheck
    by_cases h1 : methodOK p m = true
    · by_cases h2 : pathOK p path = true
      · simp [h1, h2, ih, PermAllows, ← methodOK_iff, ← pathOK_iff]
      · simp [h1, h2, PermAllows, ← methodOK_iff, ← pathOK_iff]
    · simp [h1, PermAllows, ← methodOK_iff, ← pathOK_iff]

theorem accessScan_some (m path : Bytes) (k : Nat) :
    ∀ acl res, accessScan m path k acl = some res →
      ∃ a ∈ acl, k ∈ a.keys ∧ res = permsCheck m path a.perms := by
  intro acl
  induction acl with
  | nil => intro res h; simp [accessScan] at h
  | cons a as ih =>
    intro res h
    unfold accessScan at h
    split at h
    · rename_i hk
      refine ⟨a, by simp, by simpa using hk, ?_⟩
      cases h; rfl
    · obtain ⟨a', ha', r⟩ := ih res h
      exact ⟨a', by simp [ha'], r⟩

theorem accessScan_none (m path : Bytes) (k : Nat) :
    ∀ acl, accessScan m path k acl = none ↔ ∀ a ∈ acl, k ∉ a.keys := by
  intro acl
  induction acl with
  | nil => simp [accessScan]
  | cons a as ih =>
    unfold accessScan
    by_cases hk : a.keys.contains k = true
    · have hk' : k ∈ a.keys := by simpa using hk
      simp [hk']
    · have hk' : k ∉ a.keys := by simpa using hk
      simp [hk', ih]

theorem certScan_some (acl : List Access) (m path : Bytes) :
    ∀ certs res, certScan acl m path certs = some res →
      ∃ k ∈ certs, ∃ a ∈ acl, k ∈ a.keys ∧ res = permsCheck m path a.perms := by
  intro certs
  induction certs with
  | nil => intro res h; simp [certScan] at h
  | cons k ks ih =>
    intro res h
    unfold certScan at h
    split at h
    · rename_i r hr
      cases h
      obtain ⟨a, ha, hk, he⟩ := accessScan_some m path k acl _ hr
      exact ⟨k, by simp, a, ha, hk, he⟩
    · obtain ⟨k', hk', r⟩ := ih res h
      exact ⟨k', by simp [hk'], r⟩

theorem certScan_none (acl : List Access) (m path : Bytes) :
    ∀ certs, certScan acl m path certs = none ↔ ∀ k ∈ certs, ∀ a ∈ acl, k ∉ a.keys := by
  intro certs
  induction certs with
  | nil => simp [certScan]
  | cons k ks ih =>
    unfold certScan
    cases hs : accessScan m path k acl with
    | some r =>
      simp
      obtain ⟨a, ha, hk, _⟩ := accessScan_some m path k acl _ hs
      intro hall
      exact absurd hk (hall a ha)
    | none =>
      simp [ih]
      intro _
      exact (accessScan_none m path k acl).1 hs

theorem chainScan_some (acl : List Access) (m path : Bytes) :
    ∀ chains res, chainScan acl m path chains = some res →
      ∃ chain ∈ chains, ∃ k ∈ chain, ∃ a ∈ acl, k ∈ a.keys ∧ res = permsCheck m path a.perms := by
  intro chains
  induction chains with
  | nil => intro res h; simp [chainScan] at h
  | cons c cs ih =>
    intro res h
    unfold chainScan at h
    split at h
    · rename_i r hr
      cases h
      obtain ⟨k, hk, a, ha, hka, he⟩ := certScan_some acl m path c _ hr
      exact ⟨c, by simp, k, hk, a, ha, hka, he⟩
    · obtain ⟨c', hc', r⟩ := ih res h
      exact ⟨c', by simp [hc'], r⟩

theorem chainScan_none (acl : List Access) (m path : Bytes) :
    ∀ chains, chainScan acl m path chains = none ↔ ¬ KeyListed acl chains := by
  intro chains
  induction chains with
  | nil => simp [chainScan, KeyListed]
  | cons c cs ih =>
    unfold chainScan
    cases hs : certScan acl m path c with
    | some r =>
      simp
      obtain ⟨k, hk, a, ha, hka, _⟩ := certScan_some acl m path c _ hs
      exact ⟨c, by simp, k, hk, a, ha, hka⟩
    | none =>
      simp only [ih]
      have hn := (certScan_none acl m path c).1 hs
      constructor
      · rintro hno ⟨ch, hch, k, hk, a, ha, hka⟩
        simp at hch
        rcases hch with rfl | hch
        · exact hn k hk a ha hka
        · exact hno ⟨ch, hch, k, hk, a, ha, hka⟩
      · rintro hno ⟨ch, hch, k, hk, a, ha, hka⟩
        exact hno ⟨ch, by simp [hch], k, hk, a, ha, hka⟩

theorem chainScan_allow_authorised (acl : List Access) (m path : Bytes) (chains : List (List Nat))
    (h : chainScan acl m path chains = some .allow) : Authorised acl chains m path := by
  obtain ⟨c, hc, k, hk, a, ha, hka, he⟩ := chainScan_some acl m path chains _ h
  exact ⟨c, hc, k, hk, a, ha, hka, (permsCheck_allow m path a.perms).1 he.symm⟩

end CaddyModel.C13
