/-
C13 — property theorems (kept apart from the helper lemmas).

Statement: on a local admin endpoint bound to a specific address (not a wildcard interface, unix
socket or fd), no request whose Host header is not an allowed origin — and, when origin
enforcement is on, whose Origin/Referer is missing or not allowed — reaches any API handler or
changes any state, for every route including those contributed by modules and paths reached
through /id/ redirection, and websocket upgrades are always refused.  On the remote endpoint a
request is served only if a verified client certificate carries a listed public key and the
permissions attached to that key allow its method and path; otherwise it is refused.

Every theorem below is for ALL handlers / configurations, listen addresses, id indexes, requests,
handler effects `H`, initial states, recursion budgets (= any number of /id/ redirects) and for
EVERY routing function `mux` (= every route table modules can register, whatever pattern syntax
they use; `muxOf` is the instance the driver runs).  Every clause now holds of the code as it is.  Two clauses were false of earlier code and were
repaired in /repo; `Witness.lean` (imported here so that it is built and audited with the
theorems) keeps their former counter-examples as statements about the OLD checks:
  * "websocket upgrades are always refused" — false until /repo cc84cea (case variants, later
    header values); now `websocket_refused`; old: `Witness.websocket_old_code_fails`
  * "missing Origin/Referer is refused" — false when an allowed origin had an empty host until
    the `checkOrigin` fix; now `origin_missing_refused`; old: `Witness.origin_missing_old_code_fails`
-/
import CaddyModel.C13.Lemmas
import CaddyModel.C13.Witness
import CaddyModel.C13.ListenLemmas
import CaddyModel.C13.Caddyfile
import CaddyModel.C13.UrlLemmas
import CaddyModel.C13.NetipLemmas
import CaddyModel.C13.LifecycleLemmas
import CaddyModel.C13.Cli
import CaddyModel.Gen.AdminGate
import CaddyModel.Gen.Glue
import CaddyModel.Gen.ConfigLocks

namespace CaddyModel.C13

variable {σ : Type}

-- ================================================================ the structure of the gate

/-- **Nothing is served ungated — for every route and after any number of /id/ redirects.**
    Each handler invocation `d` of a request (built-in route, module route, or the target of an
    internal redirect) was chosen by the mux for the path `d.path` and was preceded by a pass of
    the complete gate (remote ACL, websocket, Host, Origin) evaluated on the request carrying
    exactly that path. -/
theorem every_dispatch_is_gated (H : Bytes → Req → σ → σ) (mux : Bytes → Bytes → Route) (h : Handler) (idx : Index) (fuel : Nat)
    (r : Req) (s : σ) (d : Dispatch) (hd : d ∈ (serveHTTP H mux h idx fuel r s).trace) :
    Passes h (r.withPath d.path) ∧ mux r.method d.path = .handler d.pat := by
  rcases serve_trace_gated H mux h idx fuel r s [] 0 d hd with hd | hd
  · simp at hd
  · exact hd

/-- **State changes only through a dispatched handler.**  Either the server state is what it was,
    or the request ended in a handler that is recorded in the trace (hence gated, by
    `every_dispatch_is_gated`) and the new state is that handler's effect. -/
theorem state_changes_only_through_dispatch (H : Bytes → Req → σ → σ) (mux : Bytes → Bytes → Route) (h : Handler) (idx : Index)
    (fuel : Nat) (r : Req) (s : σ) :
    (serveHTTP H mux h idx fuel r s).state = s ∨
    ∃ pat, (serveHTTP H mux h idx fuel r s).final = .handled pat ∧
      (⟨pat, (serveHTTP H mux h idx fuel r s).path⟩ : Dispatch) ∈ (serveHTTP H mux h idx fuel r s).trace ∧
      (serveHTTP H mux h idx fuel r s).state = H pat (r.withPath (serveHTTP H mux h idx fuel r s).path) s :=
  serve_state H mux h idx fuel r s [] 0

/-- a refusal at the first pass answers with that refusal and touches nothing -/
theorem refused_at_entry_untouched (H : Bytes → Req → σ → σ) (mux : Bytes → Bytes → Route) (h : Handler) (idx : Index) (fuel : Nat)
    (r : Req) (s : σ) (w : Refusal) (hg : gate h r = .refuse w) :
    (serveHTTP H mux h idx (fuel + 1) r s).final = .refused w ∧ Untouched (serveHTTP H mux h idx (fuel + 1) r s) s := by
  simp [serveHTTP, serve, hg, Untouched]

/-- … and it carries no CORS header -/
theorem refused_at_entry_no_cors (H : Bytes → Req → σ → σ) (mux : Bytes → Bytes → Route) (h : Handler)
    (idx : Index) (fuel : Nat) (r : Req) (s : σ) (w : Refusal) (hg : gate h r = .refuse w) :
    (serveHTTP H mux h idx (fuel + 1) r s).cors = 0 := by
  simp [serveHTTP, serve, hg]

-- ================================================================ local endpoint: Host

/-- **enforcement is decided by the kind of listen address**: the Host check is on exactly for
    specific addresses (not a wildcard interface, not a unix socket, not an fd), whatever else is
    configured. -/
theorem enforceHost_iff_specific_address (cfg : AdminCfg) (a : Addr) (modulePats : List Bytes) :
    (newAdminHandler cfg a false modulePats).enforceHost = true ↔ SpecificAddress a := by
  simp [newAdminHandler, SpecificAddress]
  constructor
  · rintro ⟨⟨h1, h2⟩, h3⟩; exact ⟨h2, h3, h1⟩
  · rintro ⟨h2, h3, h1⟩; exact ⟨⟨h1, h2⟩, h3⟩

/-- **host gate** (handler level): with host enforcement on, a request whose Host equals the host
    of no allowed origin reaches no handler — on any route, module routes and /id/ targets included —
    and changes no state. -/
theorem host_gate (H : Bytes → Req → σ → σ) (mux : Bytes → Bytes → Route) (h : Handler) (idx : Index) (fuel : Nat) (r : Req) (s : σ)
    (he : h.enforceHost = true) (hh : ∀ a ∈ h.allowed, a.host ≠ r.host) :
    Untouched (serveHTTP H mux h idx fuel r s) s := by
  apply serve_untouched_of_no_dispatch
  intro d hd
  obtain ⟨⟨c, hp⟩, _⟩ := every_dispatch_is_gated H mux h idx fuel r s d hd
  have hl := ((gate_pass_iff h _ c).1 hp).2
  rw [localGate_withPath] at hl
  obtain ⟨a, ha, heq⟩ := (checkHost_iff h r).1 ((localGate_pass h r c hl).2.1 he)
  exact hh a ha heq

/-- **host gate** (configuration level, the property's first clause): on a local endpoint bound to
    a specific address, for every origin list, enforce flag, module route table, id index and
    request: if the Host header is not an allowed origin, nothing is served and nothing changes. -/
theorem local_endpoint_rejects_foreign_host (H : Bytes → Req → σ → σ) (mux : Bytes → Bytes → Route) (cfg : AdminCfg) (a : Addr)
    (modulePats : List Bytes) (idx : Index) (fuel : Nat) (r : Req) (s : σ)
    (hs : SpecificAddress a) (hh : ¬ HostAllowed cfg a r.host) :
    Untouched (serveHTTP H mux (newAdminHandler cfg a false modulePats) idx fuel r s) s := by
  apply host_gate
  · exact (enforceHost_iff_specific_address cfg a modulePats).2 hs
  · intro al hal heq
    have hal' : al ∈ allowedOrigins cfg.origins a := by simpa [newAdminHandler] using hal
    exact hh ⟨al.scheme, heq ▸ (mem_allowedOrigins_iff cfg a al).1 hal'⟩

-- ================================================================ from the configured listen STRING to the gate

/-- **`host:port` listen strings** (the glue in front of `newAdminHandler`, parsed by the model of
    `parseAdminListenAddr`): for a non-empty plain host (a name or an IPv4 address) that netip does
    not classify as unspecified, and a decimal port, the endpoint starts, the Host check is on,
    and a request whose Host is not an allowed origin of exactly that host and port reaches no
    handler and changes nothing. -/
theorem plain_listen_string_host_gate (H : Bytes → Req → σ → σ) (mux : Bytes → Bytes → Route) (cfg : AdminCfg)
    (h ds dflt : Bytes) (ip : IpClass) (modulePats : List Bytes) (idx : Index) (fuel : Nat) (r : Req) (s : σ)
    (hh : ∀ b ∈ h, plainHostByte b) (hne : h ≠ []) (hip : ip ≠ .unspecified)
    (hdne : ds ≠ []) (hd : ∀ b ∈ ds, isDigitB b = true) (hle : digitsVal 10 ds ≤ 65535)
    (hhost : ¬ HostAllowed cfg ⟨sTcp, h, digitsVal 10 ds, ip⟩ r.host) :
    ∃ hd', localEndpoint cfg (h ++ colon :: ds) dflt ip modulePats = some hd' ∧ hd'.enforceHost = true ∧
      Untouched (serveHTTP H mux hd' idx fuel r s) s := by
  have hspec : SpecificAddress ⟨sTcp, h, digitsVal 10 ds, ip⟩ := by
    refine ⟨(by show hasPrefix sTcp sUnix = false; decide), (by show hasPrefix sTcp sFd = false; decide), ?_⟩
    cases ip <;> simp_all [Addr.isWildcard]
  refine ⟨newAdminHandler cfg ⟨sTcp, h, digitsVal 10 ds, ip⟩ false modulePats, ?_, ?_, ?_⟩
  · simp [localEndpoint, parse_plain_host_port h ds dflt hh hdne hd hle]
  · exact (enforceHost_iff_specific_address cfg _ modulePats).2 hspec
  · exact local_endpoint_rejects_foreign_host H mux cfg _ modulePats idx fuel r s hspec hhost

/-- **`name:port` listen strings, the netip verdict computed by the model**: for a host NAME (plain
    bytes, at least one of them neither a digit nor a dot) nothing is left to a table — the listen
    string parses, netip does not take the name for an address, the Host check is on, and a
    foreign Host is never served. -/
theorem hostname_listen_string_host_gate (H : Bytes → Req → σ → σ) (mux : Bytes → Bytes → Route) (cfg : AdminCfg)
    (h ds dflt : Bytes) (modulePats : List Bytes) (idx : Index) (fuel : Nat) (r : Req) (s : σ)
    (hh : ∀ b ∈ h, plainHostByte b ∧ b ≠ percent) (hname : ∃ b ∈ h, isDigitB b = false ∧ b ≠ 46)
    (hdne : ds ≠ []) (hd : ∀ b ∈ ds, isDigitB b = true) (hle : digitsVal 10 ds ≤ 65535)
    (hhost : ¬ HostAllowed cfg ⟨sTcp, h, digitsVal 10 ds, ipClassOf h⟩ r.host) :
    ∃ hd', localEndpoint cfg (h ++ colon :: ds) dflt (ipClassOf h) modulePats = some hd' ∧ hd'.enforceHost = true ∧
      Untouched (serveHTTP H mux hd' idx fuel r s) s := by
  have hne : h ≠ [] := by
    obtain ⟨b, hb, _⟩ := hname
    intro e; rw [e] at hb; simp at hb
  have hip : ipClassOf h = .notIP := ipClassOf_hostname h (fun b hb => ⟨(hh b hb).1.1, (hh b hb).2⟩) hname
  exact plain_listen_string_host_gate H mux cfg h ds dflt (ipClassOf h) modulePats idx fuel r s
    (fun b hb => (hh b hb).1) hne (by rw [hip]; decide) hdne hd hle hhost

/-- **a placeholder in `listen` that cannot be expanded stops the endpoint**: whenever
    `ReplaceOrErr(addr, true, true)` does not succeed — unknown placeholder, placeholder that
    expands to nothing (an unset environment variable), too many unclosed braces — the result is an
    error and no endpoint starts; in particular `{env.HOST}:2019` with HOST unset never becomes
    `:2019`, the wildcard interface without Host check.  (And without braces the replacer step
    changes nothing: `parseAdminListenAddrP_no_braces`.) -/
theorem listen_placeholder_error_stops_endpoint (env : C18.Env) (addr dflt : Bytes)
    (h : ∀ out, C18.replaceOrErr addr true true env ≠ .ok out) :
    parseAdminListenAddrP env addr dflt = .err := by
  unfold parseAdminListenAddrP
  split
  · rename_i out heq; exact absurd heq (h out)
  · rfl

/-- **`:port` listen strings bind every interface**: the host is empty, so the Host check is off
    (the "not a wildcard interface" exclusion of the property, decided from the string). -/
theorem empty_host_listen_string_not_enforced (cfg : AdminCfg) (ds dflt : Bytes) (ip : IpClass)
    (modulePats : List Bytes) (hdne : ds ≠ []) (hd : ∀ b ∈ ds, isDigitB b = true) (hle : digitsVal 10 ds ≤ 65535) :
    ∃ hd', localEndpoint cfg (colon :: ds) dflt ip modulePats = some hd' ∧ hd'.enforceHost = false := by
  have hp := parse_plain_host_port [] ds dflt (by simp) hdne hd hle
  simp at hp
  exact ⟨newAdminHandler cfg ⟨sTcp, [], digitsVal 10 ds, ip⟩ false modulePats, by simp [localEndpoint, hp],
    by simp [newAdminHandler, Addr.isWildcard]⟩

/-- **`unix/<path>` listen strings**: the endpoint is a unix socket and the Host check is off,
    whatever the path looks like (the "not a unix socket" exclusion, decided from the string). -/
theorem unix_listen_string_not_enforced (cfg : AdminCfg) (path dflt : Bytes) (ip : IpClass)
    (modulePats : List Bytes) (hp : ∀ b ∈ path, b ≠ 124) :
    ∃ hd', localEndpoint cfg (sUnix ++ slash :: path) dflt ip modulePats = some hd' ∧
      hd'.enforceHost = false ∧ hd'.allowed = (match cfg.origins with | some l => l.filterMap entryAllowed | none => []) := by
  refine ⟨newAdminHandler cfg ⟨sUnix, path, 0, ip⟩ false modulePats,
    by simp [localEndpoint, parse_unix_socket path dflt hp], ?_, ?_⟩
  · have : Addr.isUnix ⟨sUnix, path, 0, ip⟩ = true := by show hasPrefix sUnix sUnix = true; decide
    simp [newAdminHandler, this]
  · have : Addr.isUnix ⟨sUnix, path, 0, ip⟩ = true := by show hasPrefix sUnix sUnix = true; decide
    simp [newAdminHandler, allowedOrigins, this]
    cases cfg.origins <;> rfl

-- ================================================================ the Caddyfile `admin` option (where the enforce flag and the origins come from)

/-- **`enforce_origin` is on only if the user wrote it**: whatever the `admin` option's arguments and
    block are, the adapted AdminConfig has the flag set only if some line of the block contains
    the token `enforce_origin` (there is no other way to switch origin enforcement on, and it
    defaults to off). -/
theorem caddyfile_enforce_origin_only_if_written (dflt : Bytes) (args : List Bytes)
    (block : Option (List (List Bytes))) (a : CfAdmin)
    (hp : parseOptAdmin dflt args block = some a) (he : a.enforceOrigin = true) :
    ∃ ls, block = some ls ∧ ∃ l ∈ ls, sEnforceOrigin ∈ l := by
  rcases parseOptAdmin_cases dflt args block a hp with h | ⟨a0, a1, h0, _, hb, heq, _⟩
  · subst h; cases he
  · rcases (cfBlock_inv _ a0 a1 hb).1 (heq ▸ he) with h | ⟨l, hl, hm⟩
    · rw [h0] at h; cases h
    · cases block with
      | none => simp [blockLines] at hl
      | some ls => exact ⟨ls, rfl, l, hl, hm⟩

/-- **the Caddyfile cannot express "no origin is allowed"**: the adapted `origins` is never the
    empty list — `origins` without arguments yields the nil list, i.e. the DEFAULT origins of the
    listen address (unlike JSON `"origins": []`, which allows nothing). -/
theorem caddyfile_origins_never_empty (dflt : Bytes) (args : List Bytes)
    (block : Option (List (List Bytes))) (a : CfAdmin)
    (hp : parseOptAdmin dflt args block = some a) : a.origins ≠ some [] := by
  rcases parseOptAdmin_cases dflt args block a hp with h | ⟨a0, a1, _, h0, hb, _, heq⟩
  · subst h; simp
  · rw [heq]
    exact (cfBlock_inv _ a0 a1 hb).2.1 (by rw [h0]; simp)

/-- **allowed origins come only from what the user wrote**: every origin of the adapted AdminConfig
    is a token of one single line of the `admin` block (the arguments of an `origins` line) — the
    adapter neither invents origins nor merges lines. -/
theorem caddyfile_origins_only_written (dflt : Bytes) (args : List Bytes)
    (block : Option (List (List Bytes))) (a : CfAdmin) (os : List Bytes)
    (hp : parseOptAdmin dflt args block = some a) (ho : a.origins = some os) :
    ∃ ls, block = some ls ∧ ∃ l ∈ ls, ∀ o ∈ os, o ∈ l := by
  rcases parseOptAdmin_cases dflt args block a hp with h | ⟨a0, a1, _, h0, hb, _, heq⟩
  · subst h; cases ho
  · rcases cfBlock_origins _ a0 a1 os hb (heq ▸ ho) with h | ⟨l, hl, hm⟩
    · rw [h0] at h; cases h
    · cases block with
      | none => simp [blockLines] at hl
      | some ls => exact ⟨ls, rfl, l, hl, hm⟩

-- ================================================================ Caddyfile → listen string → gate, end to end

/-- the AdminConfig a Caddyfile `admin` option yields, as the model's configuration (origin entries
    parsed by the net/url model) -/
def cfgOfCaddyfile (a : CfAdmin) : AdminCfg :=
  ⟨a.origins.map (fun l => l.map (fun raw => (⟨raw, urlParse raw⟩ : OriginEntry))), a.enforceOrigin, none⟩

/-- adapter + start-up: the local endpoint a Caddyfile's `admin` option leads to (`none`: parse
    error, `admin off`, or an unusable listen address) -/
def caddyfileEndpoint (dflt : Bytes) (args : List Bytes) (block : Option (List (List Bytes)))
    (ip : IpClass) (modulePats : List Bytes) : Option Handler :=
  match parseOptAdmin dflt args block with
  | some a => if a.disabled then none else localEndpoint (cfgOfCaddyfile a) a.listen dflt ip modulePats
  | none => none

/-- **`admin <name>:<port>` in a Caddyfile** (no block — the usual way to move the endpoint to a
    LAN address): the three glue layers compose — `parseOptAdmin`, `parseAdminListenAddr`,
    `newAdminHandler` — to an endpoint with the Host check on, whose allowed origins are the
    defaults of that address, and on which a request with any other Host reaches no handler and
    changes nothing. -/
theorem caddyfile_admin_address_host_gate (H : Bytes → Req → σ → σ) (mux : Bytes → Bytes → Route)
    (h ds dflt : Bytes) (ip : IpClass) (modulePats : List Bytes) (idx : Index) (fuel : Nat) (r : Req) (s : σ)
    (hh : ∀ b ∈ h, plainHostByte b) (hne : h ≠ []) (hip : ip ≠ .unspecified)
    (hdne : ds ≠ []) (hd : ∀ b ∈ ds, isDigitB b = true) (hle : digitsVal 10 ds ≤ 65535)
    (hhost : ¬ HostAllowed ⟨none, false, none⟩ ⟨sTcp, h, digitsVal 10 ds, ip⟩ r.host) :
    ∃ hd', caddyfileEndpoint dflt [h ++ colon :: ds] none ip modulePats = some hd' ∧ hd'.enforceHost = true ∧
      Untouched (serveHTTP H mux hd' idx fuel r s) s := by
  have hoff : h ++ colon :: ds ≠ sOff := by
    intro e
    have : colon ∈ sOff := by rw [← e]; simp
    revert this; decide
  have hnil : h ++ colon :: ds ≠ [] := by simp
  have hparse : parseOptAdmin dflt [h ++ colon :: ds] none = some ⟨false, h ++ colon :: ds, false, none⟩ := by
    simp [parseOptAdmin, hoff, blockLines, cfBlock, hnil]
  obtain ⟨hd', h1, h2, h3⟩ := plain_listen_string_host_gate H mux ⟨none, false, none⟩ h ds dflt ip modulePats
    idx fuel r s hh hne hip hdne hd hle hhost
  refine ⟨hd', ?_, h2, h3⟩
  simp [caddyfileEndpoint, hparse, cfgOfCaddyfile, h1]

-- ================================================================ local endpoint: Origin

/-- **origin gate** (handler level): with origin enforcement on, a request whose Origin (else
    Referer) does not parse, or names no allowed origin, reaches no handler and changes no state. -/
theorem origin_gate (H : Bytes → Req → σ → σ) (mux : Bytes → Bytes → Route) (h : Handler) (idx : Index) (fuel : Nat) (r : Req) (s : σ)
    (he : h.enforceOrigin = true)
    (ho : ¬ ((getOrigin r).ok = true ∧
              ∃ a ∈ h.allowed, (a.scheme = [] ∨ a.scheme = (getOrigin r).scheme) ∧ a.host = (getOrigin r).host)) :
    Untouched (serveHTTP H mux h idx fuel r s) s := by
  apply serve_untouched_of_no_dispatch
  intro d hd
  obtain ⟨⟨c, hp⟩, _⟩ := every_dispatch_is_gated H mux h idx fuel r s d hd
  have hl := ((gate_pass_iff h _ c).1 hp).2
  rw [localGate_withPath] at hl
  obtain ⟨_, hok, hal⟩ := (localGate_pass h r c hl).2.2 he
  exact ho ⟨hok, (originAllowed_iff h _).1 hal⟩

/-- **origin gate** (configuration level, second clause): on a local endpoint with
    `enforce_origin`, a request whose Origin/Referer is not an allowed origin is never served. -/
theorem local_endpoint_rejects_foreign_origin (H : Bytes → Req → σ → σ) (mux : Bytes → Bytes → Route) (cfg : AdminCfg) (a : Addr)
    (modulePats : List Bytes) (idx : Index) (fuel : Nat) (r : Req) (s : σ)
    (he : cfg.enforceOrigin = true) (ho : ¬ OriginAllowed cfg a (getOrigin r)) :
    Untouched (serveHTTP H mux (newAdminHandler cfg a false modulePats) idx fuel r s) s := by
  apply origin_gate
  · simpa [newAdminHandler] using he
  · rintro ⟨hok, al, hal, hsch, hhost⟩
    have hal' : al ∈ allowedOrigins cfg.origins a := by simpa [newAdminHandler] using hal
    exact ho ⟨hok, al.scheme, hhost ▸ (mem_allowedOrigins_iff cfg a al).1 hal', hsch⟩

/-- **origin gate on the header BYTES** (net/url inside the model): with origin enforcement on, a
    request whose Origin header is the serialised origin `scheme://name:port` (scheme of letters;
    name of letters, digits, `.`, `-`; decimal port) — parsed by the byte-level model of
    `url.Parse` — reaches no handler and changes nothing unless `name:port` is the host of an
    allowed origin.  (What a browser sends for a cross-site request is exactly of this form.) -/
theorem origin_header_bytes_gate (H : Bytes → Req → σ → σ) (mux : Bytes → Bytes → Route) (h : Handler)
    (idx : Index) (fuel : Nat) (r : Req) (s : σ) (sch name ds : Bytes)
    (he : h.enforceOrigin = true)
    (hsch : ∀ b ∈ sch, isAlphaB b = true) (hsne : sch ≠ [])
    (hname : ∀ b ∈ name, nameByte b = true) (hnne : name ≠ []) (hd : ∀ b ∈ ds, isDigitB b = true)
    (horigin : r.origin = sch ++ colon :: slash :: slash :: (name ++ colon :: ds))
    (hparsed : r.originUrl = urlParse r.origin)
    (hforeign : ∀ a ∈ h.allowed, a.host ≠ name ++ colon :: ds) :
    Untouched (serveHTTP H mux h idx fuel r s) s := by
  have hauth : ∀ b ∈ name ++ colon :: ds, b ≠ 35 ∧ b ≠ 63 ∧ b ≠ slash ∧ b ≠ 64 := by
    intro b hb
    rcases List.mem_append.1 hb with hb | hb
    · have := name_ne (hname b hb); exact ⟨this.1, this.2.1, this.2.2.1, this.2.2.2.1⟩
    · simp only [List.mem_cons] at hb
      rcases hb with hb | hb
      · subst hb; decide
      · have := digit_ne (hd b hb)
        refine ⟨?_, ?_, this.2.1, ?_⟩ <;> intro e <;> subst e <;> revert hb <;> intro hb <;>
          exact absurd (hd _ hb) (by decide)
  have hctl : ∀ b ∈ name ++ colon :: ds, isCtlB b = false := by
    intro b hb
    rcases List.mem_append.1 hb with hb | hb
    · exact name_not_ctl b (hname b hb)
    · simp only [List.mem_cons] at hb
      rcases hb with hb | hb
      · subst hb; decide
      · exact digit_not_ctl b (hd b hb)
  have hurl : getOrigin r = ⟨true, asciiLower sch, name ++ colon :: ds⟩ := by
    have hne : r.origin ≠ [] := by rw [horigin]; cases sch with
      | nil => exact absurd rfl hsne
      | cons x xs => simp
    unfold getOrigin
    rw [if_neg hne, hparsed, horigin, urlParse_scheme_authority sch _ hsch hsne hauth hctl,
      parseHost_name_port name ds hname hnne hd]
  apply origin_gate H mux h idx fuel r s he
  rintro ⟨_, a, ha, _, hhost⟩
  rw [hurl] at hhost
  exact hforeign a ha hhost

/-- **missing origin** (handler level, full strength since the `checkOrigin` fix): with origin
    enforcement on, a request that carries neither an Origin nor a Referer header reaches no
    handler and changes no state — whatever the allowed origins are (an allowed origin with an
    empty host included) and whatever `url.Parse("")` is said to return. -/
theorem missing_origin_gate (H : Bytes → Req → σ → σ) (mux : Bytes → Bytes → Route) (h : Handler)
    (idx : Index) (fuel : Nat) (r : Req) (s : σ)
    (he : h.enforceOrigin = true) (hm : OriginMissing r) :
    Untouched (serveHTTP H mux h idx fuel r s) s := by
  apply serve_untouched_of_no_dispatch
  intro d hd
  obtain ⟨⟨c, hp⟩, _⟩ := every_dispatch_is_gated H mux h idx fuel r s d hd
  have hl := ((gate_pass_iff h _ c).1 hp).2
  rw [localGate_withPath] at hl
  have hne := ((localGate_pass h r c hl).2.2 he).1
  exact hne (by simp [originStr, hm.1, hm.2])

/-- **missing origin** (configuration level, the "missing" half of the second clause): on a local
    endpoint with `enforce_origin`, a request without Origin/Referer is never served. -/
theorem origin_missing_refused (H : Bytes → Req → σ → σ) (mux : Bytes → Bytes → Route) (cfg : AdminCfg) (a : Addr)
    (modulePats : List Bytes) (idx : Index) (fuel : Nat) (r : Req) (s : σ)
    (he : cfg.enforceOrigin = true) (hm : OriginMissing r) :
    Untouched (serveHTTP H mux (newAdminHandler cfg a false modulePats) idx fuel r s) s := by
  apply missing_origin_gate
  · simpa [newAdminHandler] using he
  · exact hm

/-- **CORS headers are granted only to allowed origins**: `Access-Control-Allow-Origin` (and, for
    OPTIONS, the other `Access-Control-Allow-*` headers) is present on a response only if origin
    enforcement is on and the request's Origin/Referer parses and names an allowed origin. -/
theorem cors_only_for_allowed_origin (H : Bytes → Req → σ → σ) (mux : Bytes → Bytes → Route) (h : Handler)
    (idx : Index) (fuel : Nat) (r : Req) (s : σ) (hc : (serveHTTP H mux h idx fuel r s).cors ≠ 0) :
    h.enforceOrigin = true ∧ (getOrigin r).ok = true ∧
      ∃ a ∈ h.allowed, (a.scheme = [] ∨ a.scheme = (getOrigin r).scheme) ∧ a.host = (getOrigin r).host := by
  rcases serve_cors H mux h idx fuel r s [] 0 with hle | ⟨p, c', hne, hp⟩
  · exact absurd (Nat.le_zero.1 hle) hc
  · have hl := ((gate_pass_iff h _ c').1 hp).2
    rw [localGate_withPath] at hl
    cases heo : h.enforceOrigin with
    | false =>
      unfold localGate localGateWith at hl
      split at hl
      · cases hl
      · split at hl
        · cases hl
        · simp [heo] at hl
          exact absurd hl.symm hne
    | true =>
      obtain ⟨_, hok, hal⟩ := (localGate_pass h r c' hl).2.2 heo
      exact ⟨rfl, hok, (originAllowed_iff h _).1 hal⟩

-- ================================================================ websocket

/-- **websocket upgrades are always refused** (full strength since /repo cc84cea): a request with
    an Upgrade value — in any position of a repeated header — that contains "websocket" in any
    ASCII casing reaches no handler and changes no state, on every endpoint and route. -/
theorem websocket_refused (H : Bytes → Req → σ → σ) (mux : Bytes → Bytes → Route) (h : Handler)
    (idx : Index) (fuel : Nat) (r : Req) (s : σ) (hw : IsWebsocketUpgrade r) :
    Untouched (serveHTTP H mux h idx fuel r s) s := by
  apply serve_untouched_of_no_dispatch
  intro d hd
  obtain ⟨⟨c, hp⟩, _⟩ := every_dispatch_is_gated H mux h idx fuel r s d hd
  have hl := ((gate_pass_iff h _ c).1 hp).2
  rw [localGate_withPath] at hl
  have hno := (localGate_pass h r c hl).1
  obtain ⟨v, hv, hc⟩ := hw
  have : wsCheck r = true := by
    unfold wsCheck
    exact List.any_eq_true.2 ⟨v, hv, hc⟩
  rw [this] at hno
  cases hno

/-- … and when the first pass is reached (fuel ≠ 0) on a local endpoint the answer is the
    websocket refusal itself. -/
theorem websocket_refused_answer (H : Bytes → Req → σ → σ) (mux : Bytes → Bytes → Route) (h : Handler)
    (idx : Index) (fuel : Nat) (r : Req) (s : σ) (hl : h.remote = none) (hw : IsWebsocketUpgrade r) :
    (serveHTTP H mux h idx (fuel + 1) r s).final = .refused .websocket := by
  obtain ⟨v, hv, hc⟩ := hw
  have hws : wsCheck r = true := by
    unfold wsCheck
    exact List.any_eq_true.2 ⟨v, hv, hc⟩
  have hg : gate h r = .refuse .websocket := by
    simp [gate, aclGate, hl, localGate, localGateWith, hws]
  exact (refused_at_entry_untouched H mux h idx fuel r s _ hg).1

-- ================================================================ the order of the checks, re-read from the source

/-- **the modelled gate order is the order of the statements of `serveHTTP` in /repo's admin.go as
    it is now** (`Gen/AdminGate.lean` is regenerated from the source by tools/extract on every
    run): the sequence of top-level checks extracted from the source equals the sequence in which
    the model's `gate` answers a ladder of probe requests (everything wrong → ACL; no ACL →
    websocket; no upgrade → host; allowed host → origin; allowed origin → mux), the mux call is
    the last statement of `serveHTTP`, and it is the only `mux.ServeHTTP` call site of admin.go —
    which is what `state_changes_only_through_dispatch` and `every_dispatch_is_gated` rely on. -/
theorem gate_order_matches_source :
    Gen.adminGateSequence =
      [answeredBy probeRemote probeAllWrong, answeredBy probeLocal probeAllWrong,
       answeredBy probeLocal { probeAllWrong with upgrade := [] },
       answeredBy probeLocal { probeAllWrong with upgrade := [], host := str "localhost:2019" },
       answeredBy probeLocal probeAllRight]
    ∧ Gen.adminMuxIsLastStatement = true ∧ Gen.adminMuxCallSites = 1 := by
  decide

-- ================================================================ remote endpoint

/-- **the permission loop, for arbitrary permission lists**: `for _, accessPerm := range
    adminAccess.Permissions` lets a request through iff EVERY entry allows both its method (nil
    list or listed) and its path (nil list or some listed prefix) — each entry decided on its own,
    nothing carried from one entry to the next; no entries = everything allowed. -/
theorem permissions_every_entry_must_allow (method path : Bytes) (perms : List Perm) :
    permsCheck method path perms = .allow ↔ ∀ p ∈ perms, PermAllows p method path :=
  permsCheck_allow method path perms

/-- … and the FIRST entry that does not allow decides the refusal, its method being looked at
    before its path (403 "not authorized to use this method" / "… to access this path"). -/
theorem permissions_first_failing_entry_decides (method path : Bytes) (pre post : List Perm) (q : Perm)
    (hpre : ∀ p ∈ pre, PermAllows p method path) (hq : ¬ PermAllows q method path) :
    permsCheck method path (pre ++ q :: post) =
      if methodOK q method = false then .methodDenied else .pathDenied := by
  induction pre with
  | nil =>
    simp only [List.nil_append]
    unfold permsCheck
    by_cases hm : methodOK q method = true
    · have hp : pathOK q path = false := by
        cases hpo : pathOK q path with
        | false => rfl
        | true => exact absurd ⟨(methodOK_iff q method).1 hm, (pathOK_iff q path).1 hpo⟩ hq
      simp [hm, hp]
    · have hm' : methodOK q method = false := by simpa using hm
      simp [hm']
  | cons a pre ih =>
    have ha := hpre a (by simp)
    have h1 : methodOK a method = true := (methodOK_iff a method).2 ha.1
    have h2 : pathOK a path = true := (pathOK_iff a path).2 ha.2
    simp only [List.cons_append]
    unfold permsCheck
    simp only [h1, h2, Bool.not_true, Bool.false_eq_true, if_false]
    exact ih (fun p hp => hpre p (by simp [hp]))

/-- **remote: served only if authorised** — including the target of every /id/ redirect, which
    is re-authorised with its own path.  Whenever a handler runs for path `d.path`, the connection
    has verified chains, one of their certificates carries a key listed in an ACL entry, and every
    permission of that entry allows the request's method and `d.path`. -/
theorem remote_served_only_if_authorised (H : Bytes → Req → σ → σ) (mux : Bytes → Bytes → Route) (h : Handler) (idx : Index)
    (fuel : Nat) (r : Req) (s : σ) (acl : List Access) (hr : h.remote = some acl)
    (d : Dispatch) (hd : d ∈ (serveHTTP H mux h idx fuel r s).trace) :
    ∃ chains, r.tls = some chains ∧ Authorised acl chains r.method d.path := by
  obtain ⟨⟨c, hp⟩, _⟩ := every_dispatch_is_gated H mux h idx fuel r s d hd
  have hn := ((gate_pass_iff h _ c).1 hp).1
  rcases (aclGate_none_iff h _).1 hn with hnone | ⟨acl', chains, hacl, htls, hscan⟩
  · rw [hr] at hnone; cases hnone
  · rw [hr] at hacl; cases hacl
    exact ⟨chains, htls, chainScan_allow_authorised acl r.method d.path chains hscan⟩

/-- **remote: no listed key ⇒ 401, nothing served, nothing changed.** -/
theorem remote_unlisted_identity_401 (H : Bytes → Req → σ → σ) (mux : Bytes → Bytes → Route) (h : Handler) (idx : Index) (fuel : Nat)
    (r : Req) (s : σ) (acl : List Access) (chains : List (List Nat))
    (hr : h.remote = some acl) (ht : r.tls = some chains) (hk : ¬ KeyListed acl chains) :
    (serveHTTP H mux h idx (fuel + 1) r s).final = .refused .aclIdentity ∧
    Untouched (serveHTTP H mux h idx (fuel + 1) r s) s := by
  apply refused_at_entry_untouched
  have hc := (chainScan_none acl r.method r.path chains).2 hk
  simp [gate, aclGate, hr, ht, hc]

/-- **remote: no TLS connection state, nothing served** — the remote gate dereferences `r.TLS`
    before anything else; a request that somehow arrives without one panics there (the server's
    recover answers nothing) instead of falling through to the handlers. -/
theorem remote_without_tls_never_served (H : Bytes → Req → σ → σ) (mux : Bytes → Bytes → Route) (h : Handler)
    (idx : Index) (fuel : Nat) (r : Req) (s : σ) (acl : List Access)
    (hr : h.remote = some acl) (ht : r.tls = none) :
    Untouched (serveHTTP H mux h idx fuel r s) s := by
  apply serve_untouched_of_no_dispatch
  intro d hd
  obtain ⟨⟨c, hp⟩, _⟩ := every_dispatch_is_gated H mux h idx fuel r s d hd
  have hn := ((gate_pass_iff h _ c).1 hp).1
  rcases (aclGate_none_iff h _).1 hn with hnone | ⟨_, chains, _, htls, _⟩
  · rw [hr] at hnone; cases hnone
  · have : (r.withPath d.path).tls = r.tls := rfl
    rw [this, ht] at htls; cases htls

/-- **remote endpoint, configuration level**: the handler built for the remote endpoint of a
    configuration with access controls serves a request only if it is authorised; Host and
    Origin play no role there. -/
theorem remote_endpoint_serves_only_authorised (H : Bytes → Req → σ → σ) (mux : Bytes → Bytes → Route) (cfg : AdminCfg) (a : Addr)
    (modulePats : List Bytes) (idx : Index) (fuel : Nat) (r : Req) (s : σ) (acl : List Access)
    (hc : cfg.remote = some acl)
    (hserved : Served (serveHTTP H mux (newAdminHandler cfg a true modulePats) idx fuel r s)) :
    ∃ chains, r.tls = some chains ∧ KeyListed acl chains ∧
      ∀ d ∈ (serveHTTP H mux (newAdminHandler cfg a true modulePats) idx fuel r s).trace,
        Authorised acl chains r.method d.path := by
  have hr : (newAdminHandler cfg a true modulePats).remote = some acl := by simpa [newAdminHandler] using hc
  cases ht : (serveHTTP H mux (newAdminHandler cfg a true modulePats) idx fuel r s).trace with
  | nil => exact absurd ht hserved
  | cons d0 t =>
    obtain ⟨chains, htls, hauth⟩ :=
      remote_served_only_if_authorised H mux _ idx fuel r s acl hr d0 (by rw [ht]; simp)
    refine ⟨chains, htls, ?_, ?_⟩
    · obtain ⟨c, hc, k, hk, ac, hac, hka, _⟩ := hauth
      exact ⟨c, hc, k, hk, ac, hac, hka⟩
    · intro d hd
      obtain ⟨chains', htls', hauth'⟩ :=
        remote_served_only_if_authorised H mux _ idx fuel r s acl hr d (by rw [ht]; exact hd)
      rw [htls] at htls'; cases htls'
      exact hauth'

/-- a route pattern of the two forms the executable mux model (`route`, `routeConnect`) covers:
    "/exact" or "/subtree/" — it starts with a slash (no method or host qualifier) and has no
    wildcard -/
def simplePatternString (s : String) : Bool :=
  s.toList.head? == some '/' && s.toList.all (fun c => c != ' ' && c != '{')

/-- the pattern expression of an `addRoute…(pattern, label, handler)` call as the extractor prints it
    (`pattern|handler|nesting`) -/
def routePatternExpr (s : String) : List Char := s.toList.takeWhile (· != '|')

/-- the built-in route table of the model, next to the expression admin.go registers it with -/
def builtinPatSource : List (String × Bytes) :=
  [("\"/\"+rawConfigKey+\"/\"", pConfig), ("\"/id/\"", pId), ("\"/stop\"", pStop), ("\"/debug/pprof/\"", pPprof),
   ("\"/debug/pprof/cmdline\"", pCmdline), ("\"/debug/pprof/profile\"", pProfile),
   ("\"/debug/pprof/symbol\"", pSymbol), ("\"/debug/pprof/trace\"", pTrace), ("\"/debug/vars\"", pVars)]

/-- **the route table of the model is the route table of the source as it is now**
    (`Gen/ConfigLocks.lean`, `Gen/AdminGate.lean`: regenerated from /repo on every run): `newAdminHandler`
    registers exactly the nine built-in patterns of `builtinPats`, in this order, followed by the
    module routes (`route.Pattern`); and every pattern any admin.api module of the tree registers
    is of the two simple forms the executable mux model covers (which is why richer ServeMux
    pattern syntax is not modelled; the theorems hold for every mux anyway). -/
theorem admin_route_table_matches_source :
    Gen.adminRoutes.map routePatternExpr = (builtinPatSource.map (·.1.toList)) ++ ["route.Pattern".toList] ∧
    builtinPatSource.map (·.2) = builtinPats ∧
    Gen.moduleAdminRoutePatterns.all (fun fp => simplePatternString fp.2) = true ∧
    (Gen.moduleAdminRoutePatterns.map (·.2)).all (fun s => !builtinPats.contains (str s)) = true := by
  decide

/-- what the model of the remote endpoint takes for granted about `replaceRemoteAdminServer`:
    the TLS server requires AND verifies a client certificate (so `Req.tls` really is the list of
    VERIFIED chains, and a request without one never arrives) … -/
def assumedRemoteClientAuth : List String := ["tls.RequireAndVerifyClientCert"]
/-- … and the public key of each configured certificate is appended to the access-control entry
    it was configured under (so `Access.keys` are the keys of that entry's `public_keys`, and the
    permissions checked for a key are those written next to it). -/
def assumedRemoteKeyAppends : List String :=
  ["accessControl <- range cfg.Admin.Remote.AccessControl : append(accessControl.publicKeys,cert.PublicKey)"]

/-- **the remote-endpoint glue the model assumes is the glue of the source as it is now**
    (`Gen/Glue.lean` is regenerated from /repo's admin.go by tools/extract on every run): every value
    assigned to a `.ClientAuth` field in `replaceRemoteAdminServer` is
    `tls.RequireAndVerifyClientCert` (and there is such an assignment), and the only assignment to
    a `.publicKeys` field appends the certificate's key to the very entry the loop ranges over.
    `remote_served_only_if_authorised` talks about verified chains and about the keys of one entry;
    this is what makes those the right notions. -/
theorem remote_admin_glue_matches_source :
    Gen.remoteAdminClientAuth = assumedRemoteClientAuth ∧
    Gen.remoteAdminKeyAppends = assumedRemoteKeyAppends := by
  decide

-- ================================================================ the client side: caddy stop | reload | …

/-- **which endpoint the CLI talks to**: `--address` wins whatever the config says; without it the
    config's `admin.listen` if set; else the default address. -/
theorem cli_address_resolution (flag l dflt : Bytes) :
    (flag ≠ [] → ∀ c, determineAdminAddr flag c dflt = flag) ∧
    (l ≠ [] → determineAdminAddr [] (some l) dflt = l) ∧
    determineAdminAddr [] (some []) dflt = dflt ∧ determineAdminAddr [] none dflt = dflt := by
  refine ⟨?_, ?_, ?_, ?_⟩
  · intro h c; simp [determineAdminAddr, h]
  · intro h; simp [determineAdminAddr, h]
  · simp [determineAdminAddr]
  · simp [determineAdminAddr]

/-- **the instance's own CLI is an authorised client of its endpoint** (client glue and server glue
    agree): on a specific, non-loopback TCP address with the default origins, the request
    `AdminAPIRequest` builds for that address — Host and Origin both `JoinHostPort(host, port)` —
    passes the gate, with or without `enforce_origin`.  (For loopback addresses the defaults are the
    three aliases localhost / ::1 / 127.0.0.1, so this holds for those three spellings only:
    an endpoint on 127.0.0.2 refuses its own CLI unless `origins` names it — not a clause of the
    property, which is about refusals.) -/
theorem cli_request_passes_own_gate (cfg : AdminCfg) (h : Bytes) (p : Nat) (ip : IpClass) (modulePats : List Bytes) (r : Req)
    (horig : cfg.origins = none)
    (hspec : SpecificAddress ⟨sTcp, h, p, ip⟩) (hloop : Addr.isLoopback ⟨sTcp, h, p, ip⟩ = false)
    (hhost : r.host = joinHostPort h (natToDec p)) (hup : r.upgrade = [])
    (hor : r.origin = sHttpPrefix ++ r.host) (hurl : r.originUrl = ⟨true, [104, 116, 116, 112], r.host⟩) :
    Passes (newAdminHandler cfg ⟨sTcp, h, p, ip⟩ false modulePats) r := by
  obtain ⟨hu, hf, hw⟩ := hspec
  have hne : r.origin ≠ [] := by rw [hor]; simp [sHttpPrefix]
  have hallowed : (newAdminHandler cfg ⟨sTcp, h, p, ip⟩ false modulePats).allowed = [⟨[], r.host⟩] := by
    simp [newAdminHandler, allowedOrigins, horig, hu, hf, defaultOrigins, hloop, Addr.joinHostPort, hhost]
  have heh : (newAdminHandler cfg ⟨sTcp, h, p, ip⟩ false modulePats).enforceHost = true := by
    simp [newAdminHandler, hu, hf, hw]
  have hrem : (newAdminHandler cfg ⟨sTcp, h, p, ip⟩ false modulePats).remote = none := by simp [newAdminHandler]
  have heo : (newAdminHandler cfg ⟨sTcp, h, p, ip⟩ false modulePats).enforceOrigin = cfg.enforceOrigin := by
    simp [newAdminHandler]
  unfold Passes gate aclGate
  rw [hrem]
  simp only
  unfold localGate localGateWith
  have hws : wsCheck r = false := by simp [wsCheck, hup]
  have hch : checkHost (newAdminHandler cfg ⟨sTcp, h, p, ip⟩ false modulePats) r = true := by
    simp [checkHost, hallowed]
  have hgo : getOrigin r = ⟨true, [104, 116, 116, 112], r.host⟩ := by simp [getOrigin, hne, hurl]
  have hos : originStr r ≠ [] := by simp [originStr, hne]
  have hoa : originAllowed (newAdminHandler cfg ⟨sTcp, h, p, ip⟩ false modulePats) ⟨true, [104, 116, 116, 112], r.host⟩ = true := by
    simp [originAllowed, hallowed, originMatches]
  rw [heo]
  cases hc : cfg.enforceOrigin with
  | false => exact ⟨0, by simp [hws, heh, hch]⟩
  | true =>
    refine ⟨if r.method = sOPTIONS then 2 else 1, ?_⟩
    simp [hws, heh, hch, hgo, hos, hoa]

-- ================================================================ lifecycle: histories of config loads

/-- **after every load the only admin servers still listening are those of the CURRENT config** —
    for every history of loads (endpoints switched on and off, moved between addresses, access
    lists and origins changed, and loads REJECTED because the admin listener could not be bound
    anywhere in between): if the last load succeeded, the remote endpoint is down if its config has
    no `admin.remote`, else exactly one remote server listens, on the configured address,
    enforcing the configured access list; the local endpoint is down if the config disables it,
    else exactly one local server listens, on the configured address, with the configured policy.
    No server of an earlier config survives. -/
theorem only_current_config_servers_live (pre : List LoadCfg) (c : LoadCfg) (hok : c.loc ≠ .blocked) :
    (c.remote = none → (afterHistory (pre ++ [c])).liveRemote = []) ∧
    (∀ a acl, c.remote = some (a, acl) → ∃ id, (afterHistory (pre ++ [c])).liveRemote = [⟨id, a, acl⟩]) ∧
    (c.loc = .disabled → (afterHistory (pre ++ [c])).liveLocal = []) ∧
    (∀ a t, c.loc = .listen a t → ∃ id, (afterHistory (pre ++ [c])).liveLocal = [⟨id, a, t⟩]) := by
  have hpre := foldl_inv pre Life.init init_inv.1 init_inv.2
  have h := load_step (pre.foldl load Life.init) c hok hpre.1 hpre.2
  have heq : afterHistory (pre ++ [c]) = load (pre.foldl load Life.init) c := by
    simp [afterHistory, List.foldl_append]
  rw [heq]
  exact ⟨h.2.2.1, h.2.2.2.1, h.2.2.2.2.1, h.2.2.2.2.2⟩

/-- **a rejected load leaves everything as it was** — the servers that listen, AND the package
    variables through which the next load will stop them: a load whose admin listener cannot be
    bound is a no-op, so any history has the state of its successful loads alone, and after it
    the live servers are those of the last load that SUCCEEDED. -/
theorem failed_loads_change_nothing (hist : List LoadCfg) :
    (∀ s c, c.loc = .blocked → load s c = s) ∧
    afterHistory hist = afterHistory (hist.filter (fun c => c.loc != .blocked)) :=
  ⟨load_blocked, foldl_filter_blocked hist Life.init⟩

/-- **the remote clause over histories, not just per request**: after any history of loads, whatever
    remote admin server is still listening, a request it serves — any handler invocation, /id/
    redirect targets included — is authorised by the access list of the CURRENT config: a verified
    certificate carries a key that list names, with permissions that allow the method and path.
    A key that only an earlier config listed is never served, and once `admin.remote` is removed
    nothing is. -/
theorem served_remotely_only_if_current_config_authorises (H : Bytes → Req → σ → σ) (mux : Bytes → Bytes → Route)
    (pre : List LoadCfg) (c : LoadCfg) (hok : c.loc ≠ .blocked) (srv : RSrv)
    (hsrv : srv ∈ (afterHistory (pre ++ [c])).liveRemote)
    (h : Handler) (hh : h.remote = some srv.acl)
    (idx : Index) (fuel : Nat) (r : Req) (s : σ) (d : Dispatch) (hd : d ∈ (serveHTTP H mux h idx fuel r s).trace) :
    ∃ a acl chains, c.remote = some (a, acl) ∧ srv.addr = a ∧ r.tls = some chains ∧
      Authorised acl chains r.method d.path := by
  have hlive := only_current_config_servers_live pre c hok
  cases hc : c.remote with
  | none => rw [hlive.1 hc] at hsrv; simp at hsrv
  | some p =>
    obtain ⟨a, acl⟩ := p
    obtain ⟨id, hl⟩ := hlive.2.1 a acl hc
    rw [hl] at hsrv
    simp at hsrv
    subst hsrv
    obtain ⟨chains, htls, hauth⟩ := remote_served_only_if_authorised H mux h idx fuel r s acl hh d hd
    exact ⟨a, acl, chains, rfl, rfl, htls, hauth⟩

-- ================================================================ lifecycle: loads that are REJECTED LATE

/-- histories without late rejections are the histories of `afterHistory` (the theorems above are
    the special case `fail = none` of the ones below) -/
theorem attempts_without_late_rejections_are_loads (hist : List LoadCfg) :
    afterAttempts (hist.map (fun c => (⟨c, .none⟩ : Attempt))) = afterHistory hist :=
  foldl_attempt_none hist Life.init

/-- **whose policy the local endpoint enforces after ANY load that got past the bind — accepted or
    rejected** (`caddy.go run`: `replaceLocalAdminServer` runs before app provisioning, start and
    `finishSettingUp` can fail, and nothing puts the previous endpoint back): exactly one local
    server listens (none if that config disables the endpoint), on the address and with the origin
    policy of the config of THAT load.  So after a rejected load a request is accepted only if the
    REJECTED config's own policy accepts it — never one that neither config would accept; the
    endpoint of the running config is gone. -/
theorem local_endpoint_is_of_last_bound_load (pre : List Attempt) (a : Attempt) (hnb : a.cfg.loc ≠ .blocked) :
    ∃ id, (afterAttempts (pre ++ [a])).liveLocal =
      (match a.cfg.loc.endpoint with | some (ad, t) => [⟨id, ad, t⟩] | none => []) := by
  have hpre := foldl_attempt_inv pre Life.init none init_inv.1 init_inv.2 init_remoteCur
  have h := attempt_step (pre.foldl attempt Life.init) (pre.foldl runningStep none) a hnb hpre.1 hpre.2.1 hpre.2.2
  refine ⟨(pre.foldl attempt Life.init).next, ?_⟩
  have heq : afterAttempts (pre ++ [a]) = attempt (pre.foldl attempt Life.init) a := by
    simp [afterAttempts, List.foldl_append]
  rw [heq]; exact h.2.2.2

/-- **the remote clause holds across rejected loads at full strength**: after any history of loads
    — accepted, rejected at the bind, rejected while provisioning apps, rejected for an undecodable
    public key — whatever remote admin server still listens, a request it serves (any handler
    invocation, /id/ targets included) is authorised by the access list of the RUNNING config, the
    last one that was accepted.  A rejected config's access list never takes effect; a rejected
    load can only switch the remote endpoint off. -/
theorem rejected_loads_never_widen_remote_access (H : Bytes → Req → σ → σ) (mux : Bytes → Bytes → Route)
    (hist : List Attempt) (srv : RSrv) (hsrv : srv ∈ (afterAttempts hist).liveRemote)
    (h : Handler) (hh : h.remote = some srv.acl)
    (idx : Index) (fuel : Nat) (r : Req) (s : σ) (d : Dispatch) (hd : d ∈ (serveHTTP H mux h idx fuel r s).trace) :
    ∃ c chains, runningConfig hist = some c ∧ c.remote = some (srv.addr, srv.acl) ∧ r.tls = some chains ∧
      Authorised srv.acl chains r.method d.path := by
  have hinv := foldl_attempt_inv hist Life.init none init_inv.1 init_inv.2 init_remoteCur
  obtain ⟨c, hc, hrem⟩ := hinv.2.2 srv hsrv
  obtain ⟨chains, htls, hauth⟩ := remote_served_only_if_authorised H mux h idx fuel r s srv.acl hh d hd
  exact ⟨c, chains, hc, hrem, htls, hauth⟩

/-- a load rejected for an undecodable public key leaves NO remote endpoint (the deferred stop of the
    previous server has no error condition) — it fails closed -/
theorem undecodable_key_stops_remote_endpoint (pre : List Attempt) (a : Attempt)
    (hnb : a.cfg.loc ≠ .blocked) (hk : a.fail = .key) :
    (afterAttempts (pre ++ [a])).liveRemote = [] := by
  have hpre := foldl_attempt_inv pre Life.init none init_inv.1 init_inv.2 init_remoteCur
  have heq : afterAttempts (pre ++ [a]) = attempt (pre.foldl attempt Life.init) a := by
    simp [afterAttempts, List.foldl_append]
  have hrl := replaceLocal_remote (pre.foldl attempt Life.init) a.cfg
  have hr' : RemoteInv (replaceLocal (pre.foldl attempt Life.init) a.cfg) := by
    unfold RemoteInv; rw [hrl.1, hrl.2]; exact hpre.1
  rw [heq]; simp [attempt, hnb, hk, replaceRemoteKeyErr, stopR_inv _ hr']

/- FULL STATEMENT (fails of the tree, see Witness.lean `local_endpoint_of_running_config_full_fails`):
     ∀ hist, localAsRunning hist = true
   "every local admin server that listens is the endpoint of the RUNNING config, with its origins". -/

/-- **…_partial: the next ACCEPTED load repairs it** — whatever happened before (late rejections
    included), after a load that is accepted the local endpoint is that of the running config. -/
theorem local_endpoint_of_running_config_partial (pre : List Attempt) (a : Attempt) (hacc : a.accepted = true) :
    localAsRunning (pre ++ [a]) = true := by
  have hnb : a.cfg.loc ≠ .blocked := by
    intro hb; simp [Attempt.accepted, hb] at hacc
  obtain ⟨id, hl⟩ := local_endpoint_is_of_last_bound_load pre a hnb
  have hrun : runningConfig (pre ++ [a]) = some a.cfg := by
    simp [runningConfig, List.foldl_append, runningStep, hacc]
  unfold localAsRunning
  rw [hl, hrun]
  cases he : a.cfg.loc.endpoint with
  | none => simp
  | some p => cases p; simp [he]

/-- **the lifecycle code the model follows is the code of the source as it is now**
    (`Gen/AdminGate.lean`, regenerated on every run): both replace functions register a `defer`
    that stops the previous server; in `replaceRemoteAdminServer` the only returning guard in front
    of it is `cfg == nil` (so "no admin.remote" returns AFTER the stop is registered), in
    `replaceLocalAdminServer` there is none (so `admin.disabled` stops the previous server too), and
    there the assignment to `localAdminServer` comes after the `Listen` call and its error return
    (so a failed bind leaves the variable on the server that is really running). -/
theorem admin_lifecycle_matches_source :
    Gen.remoteStopsPreviousServer = true ∧ Gen.remoteGuardsBeforeStop = ["cfg==nil"] ∧
    Gen.localStopsPreviousServer = true ∧ Gen.localGuardsBeforeStop = [] ∧
    Gen.localServerAssignedAfterBind = true := by
  decide

-- ================================================================ termination

/-- **termination**: when the `/id/` chain of the request path ends within `n` hops (what the
    driver and the harness check before running a case; always true for an index whose targets do
    not lead back to `/id/`), a budget of `n + 1` passes is never exhausted. -/
theorem serve_never_runs_out_of_fuel (H : Bytes → Req → σ → σ) (mux : Bytes → Bytes → Route) (h : Handler) (idx : Index) :
    ∀ (n : Nat) (r : Req) (s : σ) (tr : List Dispatch) (c : Nat),
      (idChain idx n r.path).isSome = true → (serve H mux h idx (n + 1) r s tr c).final ≠ .fuel := by
  intro n
  induction n with
  | zero =>
    intro r s tr c hc
    unfold serve
    split
    · simp
    · simp
    · split
      · simp
      · simp
      · split
        · split
          · simp
          · simp
          · rename_i np hnp
            simp [idChain, hnp] at hc
        · simp
  | succ n ih =>
    intro r s tr c hc
    unfold serve
    split
    · simp
    · simp
    · split
      · simp
      · simp
      · split
        · split
          · simp
          · simp
          · rename_i np hnp
            apply ih
            simp [idChain, hnp] at hc
            simpa [withPath_path] using hc
        · simp

-- ================================================================ non-vacuity: concrete instances of the hypotheses

section Examples

def exLan : Addr := ⟨str "tcp", str "192.168.1.5", 2019, .other⟩
def exCfg : AdminCfg := ⟨none, true, none⟩
/-- `POST /id/item` with Host evil.com, Origin http://evil.com -/
def exEvil : Req :=
  ⟨str "POST", str "evil.com", str "/id/item", [], str "http://evil.com", [], ⟨true, str "http", str "evil.com"⟩, emptyUrl, none⟩
/-- the same request sent with the right Host and Origin -/
def exGood : Req :=
  ⟨str "POST", str "localhost:2019", str "/id/item", [], str "http://localhost:2019", [],
   ⟨true, str "http", str "localhost:2019"⟩, emptyUrl, none⟩
def exIdx : Index := [(str "item", str "/probe/x")]
def exPats : List Bytes := [str "/probe/"]

-- every_dispatch_is_gated / state_changes_only_through_dispatch: a request that IS served, through an
-- /id/ redirect into a module route: two dispatches, state changed once
example : (serveReal count (newAdminHandler exCfg exAddr false exPats) exIdx 3 exGood 0).trace
    = [⟨str "/id/", str "/id/item"⟩, ⟨str "/probe/", str "/probe/x"⟩] := by decide
example : (serveReal count (newAdminHandler exCfg exAddr false exPats) exIdx 3 exGood 0).state = 1 := by decide
-- refused_at_entry_untouched
example : gate (newAdminHandler exCfg exAddr false exPats) exEvil = .refuse .host := by decide
-- enforceHost_iff_specific_address: both sides occur
example : SpecificAddress exAddr ∧ SpecificAddress exLan := by decide
example : ¬ SpecificAddress ⟨str "tcp", [], 2019, .notIP⟩ ∧ ¬ SpecificAddress ⟨str "unix", str "/run/caddy.sock", 0, .notIP⟩
    ∧ ¬ SpecificAddress ⟨str "fd", str "3", 0, .notIP⟩ ∧ ¬ SpecificAddress ⟨str "tcp", str "0.0.0.0", 2019, .unspecified⟩ := by decide
-- host_gate / local_endpoint_rejects_foreign_host: hypotheses hold for the evil request
example : (newAdminHandler exCfg exAddr false exPats).enforceHost = true ∧
    ∀ a ∈ (newAdminHandler exCfg exAddr false exPats).allowed, a.host ≠ exEvil.host := by decide
example : SpecificAddress exLan ∧ ¬ HostAllowed ⟨none, false, none⟩ exLan (str "evil.com") := by
  refine ⟨by decide, ?_⟩
  rintro ⟨sc, h⟩
  simp [AllowedOrigin] at h
  rcases h with ⟨_, _, _, h⟩
  revert h; decide
-- … and the conclusion is not vacuous: the same request with an allowed Host is served
example : Served (serveReal count (newAdminHandler exCfg exAddr false exPats) exIdx 3 exGood 0) := by decide
-- plain_listen_string_host_gate: "192.168.1.5:2019" with Host evil.com; the parser's other branches
example : (∀ b ∈ str "192.168.1.5", plainHostByte b) ∧ str "192.168.1.5" ≠ [] ∧ (∀ b ∈ str "2019", isDigitB b = true)
    ∧ digitsVal 10 (str "2019") = 2019 ∧ ¬ HostAllowed ⟨some [], false, none⟩ ⟨sTcp, str "192.168.1.5", 2019, .other⟩ (str "evil.com") := by
  refine ⟨by decide, by decide, by decide, by decide, ?_⟩
  rintro ⟨sc, hx⟩
  simp [AllowedOrigin] at hx
example : parseAdminListenAddr (str "[::1]:2019") [] = .ok sTcp (str "::1") 2019
    ∧ parseAdminListenAddr (str "::1") [] = .ok sTcp (str "::1") 0
    ∧ parseAdminListenAddr (str " TCP /localhost:02019") [] = .ok sTcp (str "localhost") 2019
    ∧ parseAdminListenAddr [] (str "localhost:2019") = .ok sTcp (str "localhost") 2019
    ∧ parseAdminListenAddr (str "fd/3") [] = .ok sFd (str "3") 0
    ∧ parseAdminListenAddr (str "unix//run/c.sock|0220") [] = .ok sUnix (str "/run/c.sock|0220") 0
    ∧ parseAdminListenAddr (str "unix//run/c.sock|0444") [] = .err
    ∧ parseAdminListenAddr (str "localhost:2019-2020") [] = .err
    ∧ parseAdminListenAddr (str "localhost:x") [] = .err
    ∧ parseAdminListenAddr (str "a:b:c") [] = .ok sTcp (str "a:b:c") 0 := by decide   -- (sic: the lenient second try)
-- hostname_listen_string_host_gate, and netip's verdicts as computed by the model
example : (∀ b ∈ str "admin.example.com", plainHostByte b ∧ b ≠ percent) ∧ (∃ b ∈ str "admin.example.com", isDigitB b = false ∧ b ≠ 46) := by
  decide
example : ipClassOf (str "0.0.0.0") = .unspecified ∧ ipClassOf (str "::") = .unspecified ∧ ipClassOf (str "0:0:0:0:0:0:0:0") = .unspecified
    ∧ ipClassOf (str "::%eth0") = .other ∧ ipClassOf (str "::ffff:0.0.0.0") = .other
    ∧ ipClassOf (str "127.0.0.1") = .loopback ∧ ipClassOf (str "127.9.9.9") = .loopback ∧ ipClassOf (str "::1") = .loopback
    ∧ ipClassOf (str "::ffff:127.0.0.1") = .loopback ∧ ipClassOf (str "::1%lo") = .loopback
    ∧ ipClassOf (str "192.168.1.5") = .other ∧ ipClassOf (str "fe80::1%eth0") = .other
    ∧ ipClassOf (str "127.0.0.01") = .notIP ∧ ipClassOf (str "127.1") = .notIP ∧ ipClassOf (str "1:2:3:4:5:6:7:8::") = .notIP
    ∧ ipClassOf (str "localhost") = .notIP ∧ ipClassOf [] = .notIP := by decide
example : (localEndpoint exCfg (str "0.0.0.0:2019") [] (ipClassOf (str "0.0.0.0")) []).map (·.enforceHost) = some false
    ∧ (localEndpoint exCfg (str "[::]:2019") [] (ipClassOf (str "::")) []).map (·.enforceHost) = some false
    ∧ (localEndpoint exCfg (str "192.168.1.5:2019") [] (ipClassOf (str "192.168.1.5")) []).map (·.enforceHost) = some true := by decide
-- listen_placeholder_error_stops_endpoint: HOST=localhost, PORT=2019, UNSET unset
def exEnv : C18.Env := fun k =>
  if k = str "env.HOST" then some (str "localhost") else if k = str "env.PORT" then some (str "2019")
  else if hasPrefix k (str "env.") then some [] else none
example : parseAdminListenAddrP exEnv (str "{env.HOST}:{env.PORT}") [] = .ok sTcp (str "localhost") 2019
    ∧ parseAdminListenAddrP exEnv (str "{env.UNSET}:2019") [] = .err
    ∧ parseAdminListenAddrP exEnv (str "{nope}:2019") [] = .err
    ∧ (∀ out, C18.replaceOrErr (str "{env.UNSET}:2019") true true exEnv ≠ .ok out) := by
  refine ⟨by decide, by decide, by decide, ?_⟩
  intro out h
  have : C18.replaceOrErr (str "{env.UNSET}:2019") true true exEnv = .emptyVal (str "env.UNSET") := by decide
  rw [this] at h; cases h
-- empty_host_listen_string_not_enforced / unix_listen_string_not_enforced
example : (localEndpoint exCfg (str ":2019") [] .notIP []).map (·.enforceHost) = some false
    ∧ (localEndpoint exCfg (str "unix//run/caddy.sock") [] .notIP []).map (·.enforceHost) = some false
    ∧ (localEndpoint exCfg (str "localhost:2019") [] .notIP []).map (·.enforceHost) = some true := by decide
-- caddyfile_admin_address_host_gate: `admin 192.168.1.5:2019`; `admin off` and a typo give no endpoint
example : (caddyfileEndpoint (str "d") [str "192.168.1.5:2019"] none .other []).map (·.enforceHost) = some true
    ∧ caddyfileEndpoint (str "d") [sOff] none .other [] = none
    ∧ caddyfileEndpoint (str "d") [str "localhost:2019"] (some [[str "enforce_origins"]]) .notIP [] = none
    ∧ (caddyfileEndpoint (str "d") [str "localhost:2019"] (some [[sEnforceOrigin], [sOrigins, str "https://a.example:8443"]]) .notIP []).map
        (fun hd => (hd.enforceOrigin, hd.allowed)) = some (true, [⟨str "https", str "a.example:8443"⟩]) := by decide
-- caddyfile_*: `admin localhost:2019 { enforce_origin \n origins a b }`, `admin off`, `origins` without arguments
example : parseOptAdmin (str "d") [str "localhost:2019"] (some [[sEnforceOrigin], [sOrigins, str "a", str "b"]])
      = some ⟨false, str "localhost:2019", true, some [str "a", str "b"]⟩
    ∧ parseOptAdmin (str "d") [sOff] none = some ⟨true, [], false, none⟩
    ∧ parseOptAdmin (str "d") [sOff] (some []) = none
    ∧ parseOptAdmin (str "d") [] (some [[sOrigins, str "a"], [sOrigins]]) = some ⟨false, str "d", false, none⟩
    ∧ parseOptAdmin (str "d") [] (some [[sEnforceOrigin, str "x"]]) = none
    ∧ parseOptAdmin (str "d") [] (some [[sEnforceOrigin, sOrigins, sEnforceOrigin]])
        = some ⟨false, str "d", true, some [sEnforceOrigin]⟩ := by decide
-- origin_gate / local_endpoint_rejects_foreign_origin: right Host, foreign Origin
def exCsrf : Req := { exGood with origin := str "http://evil.com", originUrl := ⟨true, str "http", str "evil.com"⟩ }
example : (newAdminHandler exCfg exAddr false exPats).enforceOrigin = true ∧
    ¬ ((getOrigin exCsrf).ok = true ∧ ∃ a ∈ (newAdminHandler exCfg exAddr false exPats).allowed,
        (a.scheme = [] ∨ a.scheme = (getOrigin exCsrf).scheme) ∧ a.host = (getOrigin exCsrf).host) := by decide
example : gate (newAdminHandler exCfg exAddr false exPats) exCsrf = .refuse .originDenied := by decide
-- cors_only_for_allowed_origin: the served request above carries the header, an OPTIONS preflight all of them
example : (serveReal count (newAdminHandler exCfg exAddr false exPats) exIdx 3 exGood 0).cors = 1 ∧
    (serveReal count (newAdminHandler exCfg exAddr false exPats) exIdx 3 { exGood with method := sOPTIONS } 0).cors = 2 := by decide
-- origin_header_bytes_gate: Origin: http://evil.com:8080 — and the model of url.Parse on the usual suspects
example : urlParse (str "http://h%C3%A9.example") = ⟨true, str "http", [104, 195, 169] ++ str ".example"⟩
    ∧ urlParse (str "http://[fe80::1%25eth0]:80/x") = ⟨true, str "http", str "[fe80::1%eth0]:80"⟩
    ∧ (urlParse (str "http://h%41")).ok = false ∧ (urlParse (str "%zz")).ok = false
    ∧ (urlParse (str "http://h/p#f%z")).ok = false ∧ (urlParse (str "x:%zz")).ok = true
    ∧ (urlParse [104, 1]).ok = false := by decide
example : urlParse (str "http://evil.com:8080") = ⟨true, str "http", str "evil.com:8080"⟩
    ∧ urlParse (str "HTTPS://localhost:2019/p?q#f") = ⟨true, str "https", str "localhost:2019"⟩
    ∧ urlParse (str "http://user@localhost:2019@evil.com") = ⟨true, str "http", str "evil.com"⟩
    ∧ urlParse (str "http://[::1]:2019") = ⟨true, str "http", str "[::1]:2019"⟩
    ∧ urlParse (str "localhost:2019") = ⟨true, str "localhost", []⟩
    ∧ urlParse (str "null") = ⟨true, [], []⟩ ∧ urlParse [] = ⟨true, [], []⟩
    ∧ urlParse (str "//example.com") = ⟨true, [], str "example.com"⟩
    ∧ (urlParse (str "http://localhost:2019.evil.com")).ok = false
    ∧ (urlParse (str "http://[::1")).ok = false ∧ (urlParse (str "1.2.3.4:80")).ok = false := by decide
-- missing_origin_gate / origin_missing_refused: the request has no Origin; also with the empty-host origin configured
def exNoOrigin : Req := { exGood with origin := [], originUrl := emptyUrl }
example : exCfg.enforceOrigin = true ∧ OriginMissing exNoOrigin ∧
    (newAdminHandler exCfg exAddr false exPats).enforceOrigin = true := by decide
example : (serveReal count (newAdminHandler wCfgEmptyOrigin exAddr false []) [] 3 (wReq []) 0).final
    = .refused .originMissing := by decide
-- websocket_refused / websocket_refused_answer: capitals, and a second Upgrade value
def exWs : Req := { exGood with upgrade := [str "h2c", str "WebSocket"] }
example : IsWebsocketUpgrade exWs ∧ (newAdminHandler exCfg exAddr false exPats).remote = none := by decide
example : (serveReal count (newAdminHandler exCfg exAddr false exPats) exIdx 3 exWs 0).final = .refused .websocket := by decide
-- remote endpoint: key 1 may GET under /config/, key 2 may do anything
def exAcl : List Access := [⟨[1], [⟨some [str "GET"], some [str "/config/"]⟩]⟩, ⟨[2], []⟩]
def exRemoteCfg : AdminCfg := ⟨none, false, some exAcl⟩
def exRemoteAddr : Addr := ⟨str "tcp", [], 2021, .notIP⟩
def exRemoteReq (m p : String) (chains : List (List Nat)) : Req :=
  ⟨str m, str "whatever", str p, [], [], [], emptyUrl, emptyUrl, some chains⟩
-- remote_served_only_if_authorised / remote_endpoint_serves_only_authorised: a served request exists …
example : Served (serveReal count (newAdminHandler exRemoteCfg exRemoteAddr true []) [] 3
    (exRemoteReq "GET" "/config/apps" [[7, 1]]) 0) := by decide
-- … an /id/ redirect whose target the key may not access is refused at the second pass …
example : (serveReal count (newAdminHandler ⟨none, false, some [⟨[1], [⟨none, some [str "/id/"]⟩]⟩]⟩ exRemoteAddr true [])
    [(str "x", str "/stop")] 3 (exRemoteReq "GET" "/id/x" [[1]]) 0).final = .refused .aclPath := by decide
-- permissions_*: two entries, the second refuses the path although the first allowed it
example : (∀ p ∈ [(⟨none, some [str "/config/"]⟩ : Perm)], PermAllows p (str "GET") (str "/config/x"))
    ∧ ¬ PermAllows ⟨none, some [str "/id/"]⟩ (str "GET") (str "/config/x")
    ∧ permsCheck (str "GET") (str "/config/x") [⟨none, some [str "/config/"]⟩, ⟨none, some [str "/id/"]⟩] = .pathDenied := by
  refine ⟨?_, ?_, by decide⟩
  · intro p hp; simp at hp; subst hp; exact ⟨Or.inl rfl, Or.inr ⟨_, rfl, str "/config/", by simp, by decide⟩⟩
  · rintro ⟨_, h⟩
    rcases h with h | ⟨ps, hps, ap, hap, hpre⟩
    · cases h
    · cases hps; simp at hap; subst hap; revert hpre; decide
-- remote_without_tls_never_served: the model's outcome is the panic
example : (serveReal count (newAdminHandler exRemoteCfg exRemoteAddr true []) [] 3
    { exRemoteReq "GET" "/config/" [] with tls := none } 0).final = .panic := by decide
-- remote_unlisted_identity_401: hypotheses hold for a client presenting only key 7
example : (newAdminHandler exRemoteCfg exRemoteAddr true []).remote = some exAcl ∧
    (exRemoteReq "GET" "/config/" [[7]]).tls = some [[7]] ∧ ¬ KeyListed exAcl [[7]] := by decide
-- cli_*: `caddy reload --address …`, the request for 192.168.1.5:2019, and a unix socket
example : determineAdminAddr (str "127.0.0.1:2999") (some (str "localhost:2019")) (str "d") = str "127.0.0.1:2999"
    ∧ determineAdminAddr [] (some (str "localhost:2019")) (str "d") = str "localhost:2019"
    ∧ cliRequestFor (str "192.168.1.5:2019") = some (sTcp, str "192.168.1.5:2019", str "192.168.1.5:2019", str "http://192.168.1.5:2019")
    ∧ cliRequestFor (str "unix//run/caddy.sock") = some (sUnix, str "/run/caddy.sock", str "127.0.0.1", [])
    ∧ cliRequestFor (str "localhost:2019-2020") = none := by decide
example : SpecificAddress ⟨sTcp, str "192.168.1.5", 2019, .other⟩ ∧ Addr.isLoopback ⟨sTcp, str "192.168.1.5", 2019, .other⟩ = false := by decide
-- lifecycle: a history that switches the remote endpoint on (key 0), changes its list (key 1), then off
def exHist : List LoadCfg :=
  [⟨.listen 0 false, some (2, [⟨[0], []⟩])⟩, ⟨.listen 0 false, some (2, [⟨[1], []⟩])⟩, ⟨.listen 1 false, none⟩]
example : (afterHistory (exHist.take 1)).liveRemote = [⟨1, 2, [⟨[0], []⟩]⟩]
    ∧ (afterHistory (exHist.take 2)).liveRemote = [⟨3, 2, [⟨[1], []⟩]⟩]
    ∧ (afterHistory exHist).liveRemote = [] ∧ (afterHistory exHist).liveLocal = [⟨4, 1, false⟩]
    ∧ ([0, 1].map (keyAnswer [⟨[1], []⟩])) = ['r', 's'] := by decide
-- failed_loads_change_nothing: loose endpoint, a load that cannot bind, then the origins are tightened
example : (afterHistory [⟨.listen 0 false, none⟩, ⟨.blocked, none⟩, ⟨.listen 0 true, none⟩]).liveLocal = [⟨1, 0, true⟩]
    ∧ afterHistory [⟨.listen 0 false, none⟩, ⟨.blocked, none⟩] = afterHistory [⟨.listen 0 false, none⟩] := by decide
-- loads rejected late: tight endpoint accepted, then a config with default origins is rejected while
-- provisioning its apps; remote endpoint with key 0, then a load with an undecodable key
example : (afterAttempts [⟨⟨.listen 0 true, none⟩, .none⟩, ⟨⟨.listen 0 false, none⟩, .prov⟩]).liveLocal = [⟨1, 0, false⟩]
    ∧ runningConfig [⟨⟨.listen 0 true, none⟩, .none⟩, ⟨⟨.listen 0 false, none⟩, .prov⟩] = some ⟨.listen 0 true, none⟩
    ∧ (afterAttempts [⟨⟨.listen 0 false, some (2, [⟨[0], []⟩])⟩, .none⟩, ⟨⟨.listen 0 true, some (2, [⟨[1], []⟩])⟩, .key⟩]).liveRemote = []
    ∧ (afterAttempts [⟨⟨.listen 0 false, some (2, [⟨[0], []⟩])⟩, .none⟩, ⟨⟨.disabled, some (3, [⟨[1], []⟩])⟩, .prov⟩]).liveRemote = [⟨1, 2, [⟨[0], []⟩]⟩]
    ∧ localAsRunning [⟨⟨.listen 0 true, none⟩, .none⟩, ⟨⟨.listen 0 false, none⟩, .prov⟩, ⟨⟨.listen 1 false, none⟩, .none⟩] = true
    ∧ (⟨⟨.listen 1 false, none⟩, .none⟩ : Attempt).accepted = true := by decide
-- serve_never_runs_out_of_fuel: a two-hop chain ends within 2 hops, a cyclic index does not
example : (idChain [(str "a", str "/id/b"), (str "b", str "/config/x")] 2 (str "/id/a")).isSome = true := by decide
example : (idChain [(str "a", str "/id/a")] 16 (str "/id/a")).isSome = false := by decide

end Examples

end CaddyModel.C13
