/-
C13 — the glue in front of `newAdminHandler`: how the configured `listen` string becomes the
`NetworkAddress` the gate decisions are taken from.  Transliterated from

  admin.go      parseAdminListenAddr      (empty → default, exactly one port)
  listeners.go  ParseNetworkAddressWithDefaults, SplitNetworkAddress, IsUnixNetwork, IsFdNetwork
  internal      SplitUnixSocketPermissionsBits   (only its error cases matter here)
  net           SplitHostPort, JoinHostPort       (Go 1.24: brackets iff the host contains ':')

on ASCII strings without placeholder braces (the protocol's domain; `strings.ToLower`,
`strings.TrimSpace` and the replacer are the identity / ASCII versions there).  What
`netip.ParseAddr` says about the resulting host stays a table (`IpClass`).
-/
import CaddyModel.C13.Model
import CaddyModel.C18.Model

namespace CaddyModel.C13

def lbrack : UInt8 := 91
def rbrack : UInt8 := 93

/-- `strings.IndexByte` -/
def indexOfB (c : UInt8) : Bytes → Option Nat
  | [] => none
  | x :: xs => if x = c then some 0 else (indexOfB c xs).map (· + 1)

/-- `strings.LastIndexByte` -/
def lastIndexOfB (c : UInt8) : Bytes → Option Nat
  | [] => none
  | x :: xs =>
    match lastIndexOfB c xs with
    | some i => some (i + 1)
    | none => if x = c then some 0 else none

/-- `net.SplitHostPort`; `none` = any of its errors -/
def splitHostPort (hp : Bytes) : Option (Bytes × Bytes) :=
  match lastIndexOfB colon hp with
  | none => none                                        -- missing port
  | some i =>
    if hp.head? = some lbrack then
      match indexOfB rbrack hp with
      | none => none                                    -- missing ']'
      | some e =>
        if e + 1 = i then
          (if ((hp.drop 1).contains lbrack) || ((hp.drop (e + 1)).contains rbrack) then none
           else some ((hp.drop 1).take (e - 1), hp.drop (i + 1)))
        else none                                       -- missing port / too many colons
    else
      if (hp.take i).contains colon then none           -- too many colons
      else if hp.contains lbrack || hp.contains rbrack then none
      else some (hp.take i, hp.drop (i + 1))

/-- `strings.Cut(s, "/")` -/
def cutAt (c : UInt8) : Bytes → Option (Bytes × Bytes)
  | [] => none
  | x :: xs =>
    if x = c then some ([], xs)
    else match cutAt c xs with
      | some (b, a) => some (x :: b, a)
      | none => none

def isSpaceB (b : UInt8) : Bool := b = 32 || (9 ≤ b && b ≤ 13)

/-- `strings.TrimSpace` on ASCII -/
def trimSpace (s : Bytes) : Bytes := ((s.dropWhile isSpaceB).reverse.dropWhile isSpaceB).reverse

def isBracket (b : UInt8) : Bool := b = lbrack || b = rbrack

/-- `strings.Trim(s, "[]")` -/
def trimBrackets (s : Bytes) : Bytes := ((s.dropWhile isBracket).reverse.dropWhile isBracket).reverse

/-- `net.JoinHostPort` of Go 1.24 -/
def netJoinHostPort (host port : Bytes) : Bytes :=
  if host.contains colon then lbrack :: host ++ rbrack :: colon :: port else host ++ colon :: port

/-- the host/port half of `SplitNetworkAddress`: SplitHostPort, and on error a second try with
    the square brackets trimmed and an artificial port -/
def splitHostPortLenient (a : Bytes) : Option (Bytes × Bytes) :=
  match splitHostPort a with
  | some hp => some hp
  | none =>
    match splitHostPort (netJoinHostPort (trimBrackets a) [48]) with
    | some (h, _) => some (h, [])
    | none => none

/-- `SplitNetworkAddress` → (network, host, port) -/
def splitNetworkAddress (a : Bytes) : Option (Bytes × Bytes × Bytes) :=
  match cutAt slash a with
  | some (before, after) =>
    if hasPrefix (asciiLower (trimSpace before)) sUnix || hasPrefix (asciiLower (trimSpace before)) sFd then
      some (asciiLower (trimSpace before), after, [])
    else (splitHostPortLenient after).map (fun hp => (asciiLower (trimSpace before), hp.1, hp.2))
  | none => (splitHostPortLenient a).map (fun hp => ([], hp.1, hp.2))

def isDigitB (b : UInt8) : Bool := 48 ≤ b && b ≤ 57
def isOctB (b : UInt8) : Bool := 48 ≤ b && b ≤ 55

def digitsVal (base : Nat) (s : Bytes) : Nat := s.foldl (fun acc b => acc * base + (b.toNat - 48)) 0

/-- `strconv.ParseUint(s, 10, 16)` -/
def parsePort (s : Bytes) : Option Nat :=
  if s = [] || !s.all isDigitB then none
  else if digitsVal 10 s ≤ 65535 then some (digitsVal 10 s) else none

/-- does `SplitUnixSocketPermissionsBits(host)` succeed?  (no `|`, or octal bits with owner-write) -/
def unixPermOK (host : Bytes) : Bool :=
  match cutAt 124 host with
  | none => true
  | some (_, bits) =>
    bits != [] && bits.all isOctB && digitsVal 8 bits < 4294967296 && (digitsVal 8 bits / 128) % 2 = 1

def sTcp : Bytes := [116, 99, 112]   -- "tcp"

inductive ListenRes where
  | ok (network host : Bytes) (port : Nat)
  | err
deriving DecidableEq, Repr

/-- the port part of `ParseNetworkAddressWithDefaults` followed by `PortRangeSize() != 1` of
    `parseAdminListenAddr`: `none` = error (bad number, descending range, more than one port) -/
def singlePort (port : Bytes) : Option Nat :=
  if port = [] then some 0
  else match cutAt 45 port with
    | none => parsePort port
    | some (before, after) =>
      match parsePort before, parsePort after with
      | some s, some e => if s = e then some s else none
      | _, _ => none

/-- `ParseNetworkAddress(input)` + the single-port requirement -/
def parseNetworkAddress (input : Bytes) : ListenRes :=
  match splitNetworkAddress input with
  | none => .err
  | some (network, host, port) =>
    if hasPrefix (if network = [] then sTcp else network) sUnix then
      (if unixPermOK host then .ok network host 0 else .err)
    else if hasPrefix (if network = [] then sTcp else network) sFd then .ok network host 0
    else match singlePort port with
      | some p => .ok (if network = [] then sTcp else network) host p
      | none => .err

/-- `parseAdminListenAddr(addr, defaultAddr)` (the replacer is the identity on brace-free strings) -/
def parseAdminListenAddr (addr dflt : Bytes) : ListenRes :=
  parseNetworkAddress (if addr = [] then dflt else addr)

/-- `parseAdminListenAddr` with its first statement, `NewReplacer().ReplaceOrErr(addr, true, true)`
    (the replacer is the C18 model; `env` = the global placeholder providers): an unknown
    placeholder, or one that expands to nothing, is an ERROR — the endpoint does not start — and
    not an empty host, which would be the wildcard interface. -/
def parseAdminListenAddrP (env : C18.Env) (addr dflt : Bytes) : ListenRes :=
  match C18.replaceOrErr addr true true env with
  | .ok input => parseNetworkAddress (if input = [] then dflt else input)
  | _ => .err

/-- `replaceLocalAdminServer` up to the handler: parse `admin.listen` (or the default), build the
    handler for that address; `none` = the endpoint does not start.  `ip` is netip's verdict on the
    host the string parses to. -/
def localEndpoint (cfg : AdminCfg) (listen dflt : Bytes) (ip : IpClass) (modulePats : List Bytes) : Option Handler :=
  match parseAdminListenAddr listen dflt with
  | .ok network host port => some (newAdminHandler cfg ⟨network, host, port, ip⟩ false modulePats)
  | .err => none

end CaddyModel.C13
