/-
C13 — the client-side glue: how `caddy stop | reload | …` find the admin endpoint and what they
send to it (cmd/commandfuncs.go).

  DetermineAdminAPIAddress   --address wins; else `admin.listen` of the given config; else the default
  AdminAPIRequest            ParseNetworkAddress(adminAddr) (no placeholders, no default, one port);
                             TCP: URL and Origin header "http://" + JoinHostPort, hence the same Host;
                             unix / fd: Host "127.0.0.1" and NO Origin header

Together with the server side (Listen.lean, Model.lean) this says whether the instance's own CLI is
an authorised client of the endpoint the same config starts.
-/
import CaddyModel.C13.Netip

namespace CaddyModel.C13

/-- `DetermineAdminAPIAddress(address, config, configFile, adapter)` with a config given
    (`cfgListen = none`: no config; `some l`: its `admin.listen`, empty when unset) -/
def determineAdminAddr (addressFlag : Bytes) (cfgListen : Option Bytes) (dflt : Bytes) : Bytes :=
  if addressFlag ≠ [] then addressFlag
  else match cfgListen with
    | some l => if l ≠ [] then l else dflt
    | none => dflt

def sHttpPrefix : Bytes := [104, 116, 116, 112, 58, 47, 47]   -- "http://"

/-- what `AdminAPIRequest` puts on the wire for `adminAddr`: (network, dial address, Host, Origin
    header — empty = none); `none` = "invalid admin address" -/
def cliRequestFor (adminAddr : Bytes) : Option (Bytes × Bytes × Bytes × Bytes) :=
  match parseNetworkAddress adminAddr with
  | .err => none
  | .ok network host port =>
    if hasPrefix network sUnix || hasPrefix network sFd then some (network, host, sV4Loop, [])
    else some (network, netJoinHostPort host (natToDec port), netJoinHostPort host (natToDec port),
               sHttpPrefix ++ netJoinHostPort host (natToDec port))

end CaddyModel.C13
