/-
C13 line-protocol driver.  One case = one admin handler + one request:

  req  <side> <addr> <origins> <eo> <acl> <pats> <idx> <method> <host> <path> <upg> <origin> <referer> <tls>
  load <side> <addr> …same fields…     the same case driven through caddy.Load of a JSON config
  cli  <flag> <listen|~> <origins> <eo>  the CLI side: real DetermineAdminAPIAddress + AdminAPIRequest (GET /config/) against the endpoint
                                       the real caddy.Load of that config starts; the free TCP port is written PORT
  hist <step> …                        a HISTORY of config loads (real caddy.Load each), step = <local>@<remote>, local = n | d | a0 | a1
                                       (default origins) | t0 | t1 (origins that exclude the address's own Host) | b (an address that
                                       cannot be bound: the load must be rejected) | a0! … t1! d! (the config is REJECTED LATE: an app cannot
                                       be provisioned), remote = ~ | a2=<acl> | a3=<acl> | x2=<acl> | x3=<acl> (an undecodable public
                                       key follows: rejected in replaceRemoteAdminServer); after each load
                                       every admin address configured so far is probed over the network (32 HTTP requests / mutual TLS
                                       with the keys 0..3): L<id>:dn|ok|no|mix  R<id>:dn|<4 × s m p r>
  ip   <hex>                           netip.ParseAddr + IsUnspecified / IsLoopback of a host → n | u | l | o
  url  <hex>                           net/url.Parse on printable ASCII without `%` → `ok <scheme> <host>` | `err`
  cf   <args> <block>                  the Caddyfile `admin` global option: args = . | hex,hex…  block = ~ (none) |
                                       . (empty) | line;line… (line = hex,hex…) → `ok <disabled> <listen> <eo> <origins>` | `err`

  side     L | R                                  local / remote endpoint (newAdminHandler's `remote`)
  addr     listen:ipclass                         listen = the configured `admin.listen` / `remote.listen`
                                                  string (hex; printable ASCII; placeholders only {env.C13_…}), expanded and parsed by the
                                                  model (Listen.lean); ipclass = netip's verdict on the
                                                  host it parses to (n|u|l|o)
  origins  ~ (null) | . (empty) | raw:ok:scheme:host;…     ok,scheme,host = url.Parse(raw) table
  eo       0 | 1                                  enforce_origin
  acl      ~ (no remote config) | . | keys/perms;…   keys = . | k,k…   perms = . | methods|paths+…
                                                  methods, paths = ~ (nil) | . (empty) | hex,hex…
  pats     . | hex,hex…                           patterns of the admin.api probe module
  idx      . | id:path;…                          rawCfgIndex
  method host path                                hex
  upg      . | hex,hex…                           values of the Upgrade header (ASCII bytes only)
  origin referer   raw:ok:scheme:host             header value + url.Parse table
  tls      ~ (r.TLS == nil) | . (no chain) | k,k;k…   VerifiedChains as key ids (< 8)

Answer:  <final> <path> <cors> <hits>     final = refused:<why> | handled:<pattern hex> | id-bad |
         id-unknown | mux-redirect | mux-notfound | panic;  path = r.URL.Path at the end (hex);
         cors = 0|1|2;  hits = invocations of probe-module handlers.
         `too-many-redirects` when the /id/ chain does not end within 16 hops, `bad-op` outside the domain
         (malformed, unsafe bytes in the path or in an index target).
-/
import CaddyModel.C13.Listen
import CaddyModel.C13.Caddyfile
import CaddyModel.C13.Url
import CaddyModel.C13.Netip
import CaddyModel.C13.Lifecycle
import CaddyModel.C13.Cli

namespace CaddyModel.C13

def maxHops : Nat := 16

def splitC (s : String) (c : String) : List String := s.splitOn c

def decList (s : String) (sep : String) : Option (List Bytes) :=
  if s == "." then some [] else (s.splitOn sep).mapM Hex.decode

def decOptList (s : String) (sep : String) : Option (Option (List Bytes)) :=
  if s == "~" then some none else (decList s sep).map some

def parseBool (s : String) : Option Bool :=
  if s == "0" then some false else if s == "1" then some true else none

def parseIp (s : String) : Option IpClass :=
  if s == "n" then some .notIP else if s == "u" then some .unspecified
  else if s == "l" then some .loopback else if s == "o" then some .other else none

/-- the addr field: the configured listen string and the netip class of the host it parses to -/
def parseAddr (s : String) : Option (Bytes × IpClass) :=
  match s.splitOn ":" with
  | [listen, ip] => do pure (← Hex.decode listen, ← parseIp ip)
  | _ => none

/-- the harness overrides `caddy.DefaultAdminListen` with this (nothing may bind localhost:2019
    from inside a check); the remote default is caddy's own -/
def defaultLocalListen : Bytes := str "unix/c13-default.sock"
def defaultRemoteListen : Bytes := str ":2021"

def listenByteOK (b : UInt8) : Bool := 32 ≤ b && b ≤ 126

/-- the environment the harness sets for placeholders in `listen` (same table in c13.go); every
    other `env.` name is unset, i.e. expands to the empty string -/
def listenEnvTable : List (Bytes × Bytes) :=
  [(str "C13_HOST", str "localhost"), (str "C13_IP", str "192.168.1.5"), (str "C13_PORT", str "2019"),
   (str "C13_WILD", str "0.0.0.0"), (str "C13_EMPTY", []), (str "C13_BRACE", str "{env.C13_HOST}")]

/-- the global placeholder providers as far as the protocol lets them be reached: `env.NAME`
    (always known, empty when unset); everything else is unknown -/
def listenEnv : C18.Env := fun key =>
  if hasPrefix key (str "env.") then
    some (match listenEnvTable.find? (·.1 == key.drop 4) with | some kv => kv.2 | none => [])
  else none

/-- placeholders of the other global providers (host name, working directory, clock, files) are
    outside the protocol, and `env.` names are confined to the harness's own variables -/
def listenPlaceholdersInDomain (s : Bytes) : Bool :=
  !containsSub s (str "system.") && !containsSub s (str "time.") && !containsSub s (str "file.") && envNamesOK s
where
  envNamesOK : Bytes → Bool
    | [] => true
    | c :: cs => (!hasPrefix (c :: cs) (str "env.") || hasPrefix (c :: cs) (str "env.C13_")) && envNamesOK cs

def parseUrlT (ok sc h : String) : Option Url := do
  pure ⟨← parseBool ok, ← Hex.decode sc, ← Hex.decode h⟩

/-- a header / origin value with its `url.Parse` table; inside the domain of `Url.lean` the model
    parses the bytes itself and the table is ignored (the harness still checks it against net/url) -/
def parseHeaderUrl (s : String) : Option (Bytes × Url) :=
  match s.splitOn ":" with
  | [raw, ok, sc, h] => do
    let raw ← Hex.decode raw
    let t ← parseUrlT ok sc h
    pure (raw, if urlInDomain raw then urlParse raw else t)
  | _ => none

def parseOrigins (s : String) : Option (Option (List OriginEntry)) :=
  if s == "~" then some none
  else if s == "." then some (some [])
  else ((s.splitOn ";").mapM fun e => (parseHeaderUrl e).map fun (raw, u) => (⟨raw, u⟩ : OriginEntry)).map some

def parseNats (s : String) : Option (List Nat) :=
  if s == "." then some [] else (s.splitOn ",").mapM (·.toNat?)

def parsePerm (s : String) : Option Perm :=
  match s.splitOn "|" with
  | [m, p] => do pure ⟨← decOptList m ",", ← decOptList p ","⟩
  | _ => none

def parseAccess (s : String) : Option Access :=
  match s.splitOn "/" with
  | [ks, ps] => do
    let ks ← parseNats ks
    let ps ← if ps == "." then some [] else (ps.splitOn "+").mapM parsePerm
    if ks.all (· < 8) then pure ⟨ks, ps⟩ else none
  | _ => none

def parseAcl (s : String) : Option (Option (List Access)) :=
  if s == "~" then some none
  else if s == "." then some (some [])
  else ((s.splitOn ";").mapM parseAccess).map some

def parseIdx (s : String) : Option Index :=
  if s == "." then some [] else
  (s.splitOn ";").mapM fun e =>
    match e.splitOn ":" with
    | [i, p] => do pure (← Hex.decode i, ← Hex.decode p)
    | _ => none

def parseTls (s : String) : Option (Option (List (List Nat))) :=
  if s == "~" then some none
  else if s == "." then some (some [])
  else ((s.splitOn ";").mapM fun c => do
    let ks ← parseNats c
    if ks.isEmpty || !ks.all (· < 8) then none else pure ks).map some

def safeByte (b : UInt8) : Bool :=
  (48 ≤ b && b ≤ 57) || (65 ≤ b && b ≤ 90) || (97 ≤ b && b ≤ 122) || b == 47 || b == 46 || b == 95 || b == 45 || b == 126

def alpha (b : UInt8) : Bool := (65 ≤ b && b ≤ 90) || (97 ≤ b && b ≤ 122)

/-- routes of the real admin.api modules linked into the harness binary (caddyconfig: /load, /adapt;
    caddypki: /pki/) — registered next to the probe routes;
    the harness checks this list against `caddy.GetModules("admin.api")` at start-up -/
def linkedModulePats : List Bytes := [str "/adapt", str "/load", str "/pki/"]

def validPat (p : Bytes) : Bool :=
  p.all safeByte && isCleanPath p && !builtinPats.contains p && !linkedModulePats.contains p

def distinct : List Bytes → Bool
  | [] => true
  | a :: t => !t.contains a && distinct t

def sPOST : Bytes := [80, 79, 83, 84]

def showRefusal : Refusal → String
  | .aclMethod => "acl-method" | .aclPath => "acl-path" | .aclIdentity => "acl-identity"
  | .websocket => "websocket" | .host => "host"
  | .originMissing => "origin-missing" | .originDenied => "origin-denied"

def showFinal : Final → String
  | .refused w => "refused:" ++ showRefusal w
  | .handled p => "handled:" ++ Hex.encode p
  | .idBadRequest => "id-bad" | .idUnknown => "id-unknown"
  | .muxRedirect => "mux-redirect" | .muxNotFound => "mux-notfound"
  | .panic => "panic" | .fuel => "model-out-of-fuel"

/-- the driver's handler effect: the state is the hit counter of the probe module's routes -/
def probeHits (pat : Bytes) (_ : Req) (s : Nat) : Nat :=
  if builtinPats.contains pat || pat == str "/adapt" || pat == str "/load" || pat == str "/pki/" then s else s + 1

/-- what the `load` op can bind from inside the harness: loopback / wildcard TCP on an ephemeral
    port, or a unix socket `c13-load…` in the (private) working directory -/
def bindableHosts : List Bytes := [str "localhost", str "127.0.0.1", str "127.0.0.2", [], str "0.0.0.0"]
def loadable (network host : Bytes) (port : Nat) : Bool :=
  (network == sTcp && port == 0 && bindableHosts.contains host) ||
  (network == sUnix && (hasPrefix host (str "c13-load") || host == str "c13-default.sock"))

/-- the (expanded) listen string names a unix network and carries more than 6 bytes after the
    first `|` of its address part -/
def permBitsTooLong (input : Bytes) : Bool :=
  match cutAt slash input with
  | some (before, after) =>
    hasPrefix (asciiLower (trimSpace before)) sUnix &&
    (match cutAt 124 after with
     | some (_, bits) => bits.length > 6
     | none => false)
  | none => false

/-- the permission-bits suffix of a unix socket address is modelled up to 6 octal digits -/
def unixPermInDomain (network host : Bytes) : Bool :=
  !hasPrefix network sUnix ||
  (match cutAt 124 host with
   | none => true
   | some (_, bits) => bits.length ≤ 6)

/-- `req`: the handler is built by `newAdminHandler` from the parsed address (hook);
    `load`: the same case driven through `caddy.Load` of a JSON config (real JSON decoding,
    replaceLocalAdminServer / replaceRemoteAdminServer, real key extraction) — same answer. -/
def handleReq (load : Bool) : List String → String
  | [side, addr, origins, eo, acl, pats, idx, method, host, path, upg, origin, referer, tls] =>
    match parseAddr addr, parseOrigins origins, parseBool eo, parseAcl acl, decList pats ",", parseIdx idx with
    | some (listen, ip), some os, some eo, some acl, some pats, some idx =>
      match Hex.decode method, Hex.decode host, Hex.decode path, decList upg ",",
            parseHeaderUrl origin, parseHeaderUrl referer, parseTls tls with
      | some m, some h, some p, some up, some (o, ou), some (rf, ru), some tls =>
        if side != "L" && side != "R" then "bad-op"
        else if !listen.all listenByteOK || !listenPlaceholdersInDomain listen then "bad-op"
        else if !up.all (fun v => v.all (· < 128)) then "bad-op"   -- strings.ToLower is only modelled on ASCII
        else if !(pats.all validPat) || !distinct pats || !distinct (idx.map (·.1)) then "bad-op"
        else if !idx.all (fun e => e.2.all safeByte) then "bad-op"   -- rewritten paths stay in the mux's unescaped alphabet
        else if m.isEmpty || !m.all alpha then "bad-op"
        else if p.head? != some slash || !p.all safeByte then "bad-op"
        else match idChain idx maxHops p with
          | none => "too-many-redirects"
          | some chain =>
            -- the routing tree's handling of a CONNECT path that lost its leading slash in an /id/
            -- rewrite (slash counting in exactMatch) is outside the modelled mux
            if m == sCONNECT && chain.any (fun q => q != [] && q.head? != some slash) then "bad-op"
            -- unix permission bits beyond 6 octal digits (FileMode type bits) are outside the model
            else if permBitsTooLong (match C18.replaceOrErr listen true true listenEnv with
                                     | .ok input => if input = [] then (if side == "R" then defaultRemoteListen else defaultLocalListen) else input
                                     | _ => []) then "bad-op"
            else
            match parseAdminListenAddrP listenEnv listen (if side == "R" then defaultRemoteListen else defaultLocalListen) with
              | .err => "listen-error"
              | .ok network ahost port =>
                if !unixPermInDomain network ahost then "bad-op"
                else if load && !loadable network ahost port then "bad-op"
                else if load && side == "R" && acl.isNone then "bad-op"
                else
                  -- the netip class of the host is computed by the model (Netip.lean); the table value `ip` is
                  -- only checked by the harness against net/netip
                  let hd := newAdminHandler ⟨os, eo, acl⟩ ⟨network, ahost, port, (fun (_ : IpClass) => ipClassOf ahost) ip⟩ (side == "R") (pats ++ linkedModulePats)
                  let r : Req := ⟨m, h, p, up, o, rf, ou, ru, tls⟩
                  let res := serveReal probeHits hd idx (maxHops + 1) r 0
                  s!"{showFinal res.final} {Hex.encode res.path} {res.cors} {res.state}"
      | _, _, _, _, _, _, _ => "bad-op"
    | _, _, _, _, _, _ => "bad-op"
  | _ => "bad-op"

def sImport : Bytes := str "import"

def cfTokenOK (t : Bytes) : Bool :=
  !t.isEmpty && t != sImport &&
  t.all (fun b => (48 ≤ b && b ≤ 58) || (65 ≤ b && b ≤ 90) || (97 ≤ b && b ≤ 122) || b == 46 || b == 95 || b == 47 || b == 45)

def parseCfBlock (s : String) : Option (Option (List (List Bytes))) :=
  if s == "~" then some none
  else if s == "." then some (some [])
  else ((s.splitOn ";").mapM fun (l : String) => (l.splitOn ",").mapM Hex.decode).map some

/-- `cf <args> <block>`: the Caddyfile `admin` global option → the AdminConfig it produces -/
def handleCf : List String → String
  | [args, block] =>
    match decList args ",", parseCfBlock block with
    | some args, some block =>
      if !args.all cfTokenOK || !(match block with | some ls => ls.all (fun l => !l.isEmpty && l.all cfTokenOK) | none => true) then "bad-op"
      else match parseOptAdmin defaultLocalListen args block with
        | none => "err"
        | some a =>
          let os := match a.origins with
            | none => "~"
            | some l => ",".intercalate (l.map Hex.encode)
          s!"ok {if a.disabled then 1 else 0} {Hex.encode a.listen} {if a.enforceOrigin then 1 else 0} {os}"
    | _, _ => "bad-op"
  | _ => "bad-op"

/-- `url <hex>`: the model of net/url.Parse on its domain → `ok <scheme> <host>` | `err` -/
def handleUrl : List String → String
  | [raw] =>
    match Hex.decode raw with
    | some raw =>
      if !urlInDomain raw then "bad-op"
      else
        let u := urlParse raw
        if u.ok then s!"ok {Hex.encode u.scheme} {Hex.encode u.host}" else "err"
    | none => "bad-op"
  | _ => "bad-op"

def showIp : IpClass → String
  | .notIP => "n" | .unspecified => "u" | .loopback => "l" | .other => "o"

/-- `ip <hex>`: the model of netip.ParseAddr + IsUnspecified / IsLoopback → n | u | l | o -/
def handleIp : List String → String
  | [raw] => match Hex.decode raw with
    | some raw => showIp (ipClassOf raw)
    | none => "bad-op"
  | _ => "bad-op"

/-- one step of a `hist` line: `<local>@<remote>`; `<local>!` = the config is rejected while its
    apps are provisioned, `x2=`/`x3=` = the access list ends in an entry with an undecodable key -/
def parseHistStep (s : String) : Option Attempt :=
  match s.splitOn "@" with
  | [l0, r0] =>
    let prov := l0.length > 1 && l0.endsWith "!" && l0 != "n!" && l0 != "b!"
    let l := if prov then (l0.dropRight 1) else l0
    let key := !prov && (r0.startsWith "x2=" || r0.startsWith "x3=")
    let r := if key then "a" ++ r0.drop 1 else r0
    let fail : Fail := if prov then .prov else if key then .key else .none
    let loc : Option LocalCfg :=
      if l == "n" then some .absent else if l == "d" then some .disabled else if l == "b" then some .blocked
      else if l == "a0" then some (.listen 0 false) else if l == "a1" then some (.listen 1 false)
      else if l == "t0" then some (.listen 0 true) else if l == "t1" then some (.listen 1 true) else none
    match loc with
    | none => none
    | some loc =>
      if r == "~" then some ⟨⟨loc, none⟩, fail⟩
      else match r.splitOn "=" with
        | [a, acl] =>
          if (a != "a2" && a != "a3") || l == "n" || l == "b" then none
          else match parseAcl acl with
            | some (some acl) =>
              if acl.all (fun e => e.keys.all (· < 4)) then some ⟨⟨loc, some (if a == "a2" then 2 else 3, acl)⟩, fail⟩ else none
            | _ => none
        | _ => none
  | _ => none

def histSeen (hist : List LoadCfg) : List Nat × List Nat :=
  (([0, 1] : List Nat).filter (fun a => hist.any (fun c => c.loc == .listen a false || c.loc == .listen a true)),
   ([2, 3] : List Nat).filter (fun a => hist.any (fun c => match c.remote with | some (b, _) => a == b | none => false)))

def showLife (s : Life) (seen : List Nat × List Nat) : String :=
  " ".intercalate
    (seen.1.map (fun a => s!"L{a}:" ++
       (if !s.liveLocal.any (·.addr == a) then "dn"
        else if (s.liveLocal.filter (·.addr == a)).all (fun v => !v.tight) then "ok"
        else if (s.liveLocal.filter (·.addr == a)).all (·.tight) then "no" else "mix")) ++
     seen.2.map (fun a => s!"R{a}:" ++
       (match s.liveRemote.find? (·.addr == a) with
        | some srv => String.ofList ([0, 1, 2, 3].map (keyAnswer srv.acl))
        | none => "dn")))

/-- the answers after each prefix of the history -/
def histAnswers : List LoadCfg → List Attempt → Life → List String
  | _, [], _ => []
  | done, a :: rest, s =>
    showLife (attempt s a) (histSeen (done ++ [a.cfg])) :: histAnswers (done ++ [a.cfg]) rest (attempt s a)

/-- `hist <step> …`: a history of config loads; after each load, for every admin address configured
    so far: is a server up there, and what does it answer the keys 0..3 -/
def handleHist (steps : List String) : String :=
  if steps.isEmpty || steps.length > 8 then "bad-op"
  else match steps.mapM parseHistStep with
    | some hist => " / ".intercalate (histAnswers [] hist Life.init)
    | none => "bad-op"

/-- the protocol writes the (unknown, free) TCP port of a `cli` case as the word PORT; the model
    takes 2019 for it (no outcome depends on the number) -/
def substPort : Bytes → Bytes
  | [] => []
  | c :: cs => if hasPrefix (c :: cs) (str "PORT") then str "2019" ++ substPort (cs.drop 3) else c :: substPort cs
termination_by s => s.length
decreasing_by all_goals simp_wf <;> omega

def cliBindable (network host : Bytes) (port : Nat) : Bool :=
  (network == sTcp && port == 2019 && [str "127.0.0.1", str "localhost", str "127.0.0.2"].contains host) ||
  (network == sUnix && (host == str "c13-cli.sock" || host == str "c13-default.sock"))

/-- `cli <addressFlag> <admin.listen | ~> <origins> <eo>`: the real `DetermineAdminAPIAddress` +
    `AdminAPIRequest` (GET /config/) against the endpoint the real `caddy.Load` of that config starts
    → `<address the CLI chose> served | refused:<why> | invalid-address` -/
def handleCli : List String → String
  | [flag, cfgl, origins, eo] =>
    match Hex.decode flag, (if cfgl == "~" then some [] else Hex.decode cfgl), parseOrigins origins, parseBool eo with
    | some flag, some cfgl, some os, some eo =>
      if !(flag.all listenByteOK) || !(cfgl.all listenByteOK) || flag.contains 123 || cfgl.contains 123 then "bad-op"
      else
        let adminAddr := determineAdminAddr flag (some cfgl) defaultLocalListen
        let serverListen := if cfgl = [] then defaultLocalListen else cfgl
        match parseNetworkAddress (substPort serverListen) with
        | .err => "bad-op"
        | .ok sn sh sp =>
          if !cliBindable sn sh sp then "bad-op"
          else
            let same := adminAddr == serverListen ||
              (match parseNetworkAddress (substPort adminAddr) with
               | .ok an ah ap => an == sTcp && sn == sTcp && ap == sp &&
                   [str "127.0.0.1", str "localhost"].contains ah && [str "127.0.0.1", str "localhost"].contains sh
               | .err => true)
            if !same then "bad-op"
            else match cliRequestFor (substPort adminAddr) with
              | none => s!"{Hex.encode adminAddr} invalid-address"
              | some (_, _, host, origin) =>
                let os' := os.map (fun l => l.map (fun e => (⟨substPort e.raw, urlParse (substPort e.raw)⟩ : OriginEntry)))
                let hd := newAdminHandler ⟨os', eo, none⟩ ⟨sn, sh, sp, ipClassOf sh⟩ false linkedModulePats
                let r : Req := ⟨str "GET", host, pConfig, [], origin, [], urlParse origin, urlParse [], none⟩
                let res := serveReal probeHits hd [] 2 r 0
                let out := match res.final with
                  | .handled _ => "served"
                  | f => showFinal f
                s!"{Hex.encode adminAddr} {out}"
    | _, _, _, _ => "bad-op"
  | _ => "bad-op"

def handle : List String → String
  | "cli" :: rest => handleCli rest
  | "hist" :: rest => handleHist rest
  | "ip" :: rest => handleIp rest
  | "url" :: rest => handleUrl rest
  | "req" :: rest => handleReq false rest
  | "load" :: rest => handleReq true rest
  | "cf" :: rest => handleCf rest
  | _ => "bad-op"

end CaddyModel.C13

namespace CaddyModel.C13
/-- counter-example lines replayed on the implementation on every run (see Witness.lean) -/
def witnessLines : List String :=
  ["hist t0@~ a0!@~",          -- Witness.local_endpoint_of_running_config_full_fails (1): origins of a rejected config enforced
   "hist a0@~ a1!@~"]          -- (2): the endpoint of a rejected config listens on an address the running config never named
end CaddyModel.C13
