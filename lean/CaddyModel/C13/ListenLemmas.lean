/-
C13 — facts about the listen-address parser model (Listen.lean).
-/
import CaddyModel.C13.Listen

namespace CaddyModel.C13

theorem cutAt_none (c : UInt8) : ∀ s : Bytes, (∀ b ∈ s, b ≠ c) → cutAt c s = none := by
  intro s
  induction s with
  | nil => intro _; rfl
  | cons x xs ih =>
    intro h
    have hx : x ≠ c := h x (by simp)
    have := ih (fun b hb => h b (by simp [hb]))
    simp [cutAt, hx, this]

theorem lastIndexOfB_none (c : UInt8) : ∀ s : Bytes, (∀ b ∈ s, b ≠ c) → lastIndexOfB c s = none := by
  intro s
  induction s with
  | nil => intro _; rfl
  | cons x xs ih =>
    intro h
    have hx : x ≠ c := h x (by simp)
    have := ih (fun b hb => h b (by simp [hb]))
    simp [lastIndexOfB, hx, this]

theorem lastIndexOfB_append (c : UInt8) (t : Bytes) (ht : ∀ b ∈ t, b ≠ c) :
    ∀ s : Bytes, lastIndexOfB c (s ++ c :: t) = some s.length := by
  intro s
  induction s with
  | nil => simp [lastIndexOfB, lastIndexOfB_none c t ht]
  | cons x xs ih => simp [lastIndexOfB, ih]

theorem contains_false_of_forall (c : UInt8) (s : Bytes) (h : ∀ b ∈ s, b ≠ c) : s.contains c = false := by
  cases hc : s.contains c with
  | false => rfl
  | true =>
    have : c ∈ s := by simpa using hc
    exact absurd rfl (h c this)

/-- a byte that may occur in a plain host name / IPv4 address -/
def plainHostByte (b : UInt8) : Prop := b ≠ colon ∧ b ≠ slash ∧ b ≠ lbrack ∧ b ≠ rbrack

instance (b : UInt8) : Decidable (plainHostByte b) := by unfold plainHostByte; infer_instance

theorem digit_ne {b : UInt8} (hb : isDigitB b = true) :
    b ≠ colon ∧ b ≠ slash ∧ b ≠ lbrack ∧ b ≠ rbrack ∧ b ≠ 45 := by
  simp [isDigitB] at hb
  obtain ⟨h1, h2⟩ := hb
  refine ⟨?_, ?_, ?_, ?_, ?_⟩ <;> intro h <;> subst h <;> revert h1 h2 <;> decide

theorem splitHostPort_plain (h ds : Bytes) (hh : ∀ b ∈ h, plainHostByte b)
    (hd : ∀ b ∈ ds, isDigitB b = true) :
    splitHostPort (h ++ colon :: ds) = some (h, ds) := by
  have hdc : ∀ b ∈ ds, b ≠ colon := fun b hb => (digit_ne (hd b hb)).1
  have hall : ∀ (c : UInt8), c ≠ colon → (∀ b ∈ h, b ≠ c) → (∀ b ∈ ds, b ≠ c) →
      (h ++ colon :: ds).contains c = false := by
    intro c hc h1 h2
    apply contains_false_of_forall
    intro b hb
    simp at hb
    rcases hb with hb | hb | hb
    · exact h1 b hb
    · subst hb; exact fun e => hc e.symm
    · exact h2 b hb
  have hl : (h ++ colon :: ds).contains lbrack = false :=
    hall lbrack (by decide) (fun b hb => (hh b hb).2.2.1) (fun b hb => (digit_ne (hd b hb)).2.2.1)
  have hr : (h ++ colon :: ds).contains rbrack = false :=
    hall rbrack (by decide) (fun b hb => (hh b hb).2.2.2) (fun b hb => (digit_ne (hd b hb)).2.2.2.1)
  have hhead : (h ++ colon :: ds).head? ≠ some lbrack := by
    cases h with
    | nil => simp; decide
    | cons x xs => simp; exact (hh x (by simp)).2.2.1
  have htake : (h ++ colon :: ds).take h.length = h := by simp
  have hdrop : (h ++ colon :: ds).drop (h.length + 1) = ds := by
    rw [← List.drop_drop]; simp
  have hcol : h.contains colon = false := contains_false_of_forall _ _ (fun b hb => (hh b hb).1)
  unfold splitHostPort
  rw [lastIndexOfB_append colon ds hdc h]
  simp only [hhead, if_false, htake, hcol, hl, hr, hdrop]
  simp

theorem parsePort_digits (ds : Bytes) (hne : ds ≠ []) (hd : ∀ b ∈ ds, isDigitB b = true)
    (hle : digitsVal 10 ds ≤ 65535) : parsePort ds = some (digitsVal 10 ds) := by
  have : ds.all isDigitB = true := List.all_eq_true.2 hd
  simp [parsePort, hne, this, hle]

/-- **`host:port` reads back as written**: for a plain host (a name or an IPv4 address: no colon,
    slash or bracket; the empty host included) and a decimal port up to 65535,
    `parseAdminListenAddr` yields network `tcp`, exactly that host and that port — whatever the
    default address is. -/
theorem parse_plain_host_port (h ds dflt : Bytes) (hh : ∀ b ∈ h, plainHostByte b)
    (hne : ds ≠ []) (hd : ∀ b ∈ ds, isDigitB b = true) (hle : digitsVal 10 ds ≤ 65535) :
    parseAdminListenAddr (h ++ colon :: ds) dflt = .ok sTcp h (digitsVal 10 ds) := by
  have hnoslash : ∀ b ∈ h ++ colon :: ds, b ≠ slash := by
    intro b hb
    simp at hb
    rcases hb with hb | hb | hb
    · exact (hh b hb).2.1
    · subst hb; decide
    · exact (digit_ne (hd b hb)).2.1
  have hnodash : ∀ b ∈ ds, b ≠ 45 := fun b hb => (digit_ne (hd b hb)).2.2.2.2
  have hnonempty : h ++ colon :: ds ≠ [] := by simp
  have h1 : hasPrefix sTcp sUnix = false := by decide
  have h2 : hasPrefix sTcp sFd = false := by decide
  unfold parseAdminListenAddr parseNetworkAddress splitNetworkAddress splitHostPortLenient
  simp only [hnonempty, if_false]
  rw [cutAt_none slash _ hnoslash, splitHostPort_plain h ds hh hd]
  simp only [Option.map, if_true, h1, h2]
  simp [singlePort, hne, cutAt_none 45 ds hnodash, parsePort_digits ds hne hd hle]

/-- on a listen string without braces the replacer step is the identity -/
theorem parseAdminListenAddrP_no_braces (env : C18.Env) (addr dflt : Bytes)
    (h1 : addr.contains C18.phOpen = false) (h2 : addr.contains C18.phClose = false) :
    parseAdminListenAddrP env addr dflt = parseAdminListenAddr addr dflt := by
  have hid : ∀ m, C18.replace addr env m = .ok addr := by
    intro m; unfold C18.replace; rw [h1, h2]; rfl
  unfold parseAdminListenAddrP parseAdminListenAddr C18.replaceOrErr
  rw [hid]

theorem cutAt_unix_prefix (path : Bytes) : cutAt slash (sUnix ++ slash :: path) = some (sUnix, path) := by
  simp [cutAt, sUnix, slash]

/-- **`unix/<path>` is a unix socket address**: network `unix`, the path as host (permission bits
    absent), port 0 — whatever else the path contains (colons, brackets, further slashes). -/
theorem parse_unix_socket (path dflt : Bytes) (hp : ∀ b ∈ path, b ≠ 124) :
    parseAdminListenAddr (sUnix ++ slash :: path) dflt = .ok sUnix path 0 := by
  have hne : sUnix ++ slash :: path ≠ [] := by simp [sUnix]
  have h1 : asciiLower (trimSpace sUnix) = sUnix := by decide
  have h2 : hasPrefix sUnix sUnix = true := by decide
  have h3 : (sUnix = ([] : Bytes)) = False := by simp [sUnix]
  unfold parseAdminListenAddr parseNetworkAddress splitNetworkAddress
  simp only [hne, if_false, cutAt_unix_prefix, h1, h2, Bool.true_or, if_true, h3]
  simp [unixPermOK, cutAt_none 124 path hp]

end CaddyModel.C13
