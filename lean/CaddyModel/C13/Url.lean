/-
C13 — a byte-level model of what the gate needs from `net/url.Parse` (Go 1.24): whether the
string parses, its (lower-cased) scheme and its (percent-decoded) host, for EVERY byte string:
control characters, the structural errors, malformed percent-escapes in path / fragment /
userinfo, the escapes and bytes a host or an IPv6 zone may contain.  Transliterated from url.go:
`Parse` (cut `#`), `parse` (scheme, cut `?`, rootless / colon-in-first-segment rule, authority),
`getScheme`, `parseAuthority` (last `@`, `validUserinfo`), `parseHost` (brackets, `validOptionalPort`,
`%25` zones), `unescape` (checking pass per mode, decoding pass), `shouldEscape` for hosts.
The model replaces the harness-supplied table (the harness still compares the table it sends,
and every `url` case, with net/url).
-/
import CaddyModel.C13.Listen

namespace CaddyModel.C13

def isAlphaB (b : UInt8) : Bool := (65 ≤ b && b ≤ 90) || (97 ≤ b && b ≤ 122)

/-- the model is total: every byte string is in its domain (kept as a definition because the
    driver and the harness name it) -/
def urlInDomain (_ : Bytes) : Bool := true

/-- `getScheme`: `none` = "missing protocol scheme"; `some none` = no scheme (rest = the whole
    string); `some (some (scheme, rest))` -/
def getSchemeAux : Bytes → Bool → Bytes → Option (Option (Bytes × Bytes))
  | [], _, _ => some none
  | c :: cs, first, acc =>
    if isAlphaB c then getSchemeAux cs false (c :: acc)
    else if isDigitB c || c = 43 || c = 45 || c = 46 then
      (if first then some none else getSchemeAux cs false (c :: acc))
    else if c = colon then (if first then none else some (some (acc.reverse, cs)))
    else some none

def getScheme (s : Bytes) : Option (Option (Bytes × Bytes)) := getSchemeAux s true []

/-- `validOptionalPort` -/
def validOptionalPort (p : Bytes) : Bool :=
  match p with
  | [] => true
  | c :: ds => c = colon && ds.all isDigitB

/-- a byte `unescape(host, encodeHost)` accepts unescaped (ASCII, no `%`) -/
def hostByteOK (b : UInt8) : Bool :=
  isAlphaB b || isDigitB b ||
  b = 33 || b = 36 || b = 38 || b = 39 || b = 40 || b = 41 || b = 42 || b = 43 || b = 44 || b = 59 || b = 61 ||
  b = 58 || b = 91 || b = 93 || b = 60 || b = 62 || b = 34 ||
  b = 45 || b = 95 || b = 46 || b = 126

/-- `validUserinfo` (ASCII) -/
def userinfoByteOK (b : UInt8) : Bool :=
  isAlphaB b || isDigitB b ||
  b = 45 || b = 46 || b = 95 || b = 58 || b = 126 || b = 33 || b = 36 || b = 38 || b = 39 ||
  b = 40 || b = 41 || b = 42 || b = 43 || b = 44 || b = 59 || b = 61 || b = 37 || b = 64

def isHexB (b : UInt8) : Bool := isDigitB b || (97 ≤ b && b ≤ 102) || (65 ≤ b && b ≤ 70)
def unhexB (b : UInt8) : UInt8 := if isDigitB b then b - 48 else if 97 ≤ b then b - 87 else b - 55

/-- the checking pass of `unescape`: every `%` is followed by two hex digits that the mode accepts
    (`okEsc hi lo`), every other byte is one the mode accepts unescaped (`okByte`) -/
def escScan (okEsc : UInt8 → UInt8 → Bool) (okByte : UInt8 → Bool) : Bytes → Bool
  | [] => true
  | [c] => c != 37 && okByte c
  | [c, d] => c != 37 && okByte c && d != 37 && okByte d
  | c :: a :: b :: rest =>
    if c = 37 then isHexB a && isHexB b && okEsc a b && escScan okEsc okByte rest
    else okByte c && escScan okEsc okByte (a :: b :: rest)

/-- the decoding pass of `unescape` (on a string that passed `escScan`) -/
def unescapeB : Bytes → Bytes
  | c :: a :: b :: rest =>
    if c = 37 then (unhexB a * 16 + unhexB b) :: unescapeB rest else c :: unescapeB (a :: b :: rest)
  | s => s

/-- path, fragment and userinfo modes: any well-formed escape, any byte -/
def escAny (s : Bytes) : Bool := escScan (fun _ _ => true) (fun _ => true) s

/-- host mode: only `%25` and escapes of non-ASCII bytes; ASCII bytes must be host characters -/
def escHost (s : Bytes) : Bool :=
  escScan (fun a b => !(unhexB a < 8) || (a = 50 && b = 53)) (fun c => 128 ≤ c || hostByteOK c) s

/-- zone mode: `%25`, `%20`, or the escape of a byte that could stand there unescaped -/
def escZone (s : Bytes) : Bool :=
  escScan (fun a b => (a = 50 && b = 53) || unhexB a * 16 + unhexB b = 32 || hostByteOK (unhexB a * 16 + unhexB b))
    (fun c => 128 ≤ c || hostByteOK c) s

/-- `strings.Index(s, sub)` -/
def indexOfSub (sub : Bytes) : Bytes → Option Nat
  | [] => if sub.isEmpty then some 0 else none
  | c :: cs => if sub.isPrefixOf (c :: cs) then some 0 else (indexOfSub sub cs).map (· + 1)

def sPct25 : Bytes := [37, 50, 53]   -- "%25"

/-- `parseHost`; `none` = error -/
def parseHost (h : Bytes) : Option Bytes :=
  if h.head? = some lbrack then
    match lastIndexOfB rbrack h with
    | none => none
    | some i =>
      if !validOptionalPort (h.drop (i + 1)) then none
      else match indexOfSub sPct25 (h.take i) with
        | some z =>
          if escHost (h.take z) && escZone ((h.take i).drop z) && escHost (h.drop i) then
            some (unescapeB (h.take z) ++ unescapeB ((h.take i).drop z) ++ unescapeB (h.drop i))
          else none
        | none => if escHost h then some (unescapeB h) else none
  else
    match lastIndexOfB colon h with
    | some i => if validOptionalPort (h.drop i) && escHost h then some (unescapeB h) else none
    | none => if escHost h then some (unescapeB h) else none

/-- `parseAuthority` → host; `none` = error -/
def parseAuthority (a : Bytes) : Option Bytes :=
  match lastIndexOfB 64 a with
  | none => parseHost a
  | some i =>
    match parseHost (a.drop (i + 1)) with
    | none => none
    | some h => if (a.take i).all userinfoByteOK && escAny (a.take i) then some h else none

/-- the part of `s` before the first `c` (`strings.Cut`, first result) -/
def beforeB (c : UInt8) (s : Bytes) : Bytes :=
  match cutAt c s with
  | some (b, _) => b
  | none => s

/-- the part of `s` after the first `c`, empty when there is none (`strings.Cut`, second result) -/
def afterB (c : UInt8) (s : Bytes) : Bytes :=
  match cutAt c s with
  | some (_, a) => a
  | none => []

def isCtlB (b : UInt8) : Bool := b < 32 || b = 127

/-- `parse(u, false)` on the part before `#`: (ok, scheme, host) -/
def urlParseNoFrag (u : Bytes) : Url :=
  if u.any isCtlB then ⟨false, [], []⟩
  else if u = [42] then ⟨true, [], []⟩                                  -- "*"
  else match getScheme u with
  | none => ⟨false, [], []⟩
  | some none =>
    -- no scheme: rest is the whole string up to `?`
    if (beforeB 63 u).head? ≠ some slash && (beforeB slash (beforeB 63 u)).contains colon then ⟨false, [], []⟩
    else if hasPrefix (beforeB 63 u) [slash, slash] && !hasPrefix (beforeB 63 u) [slash, slash, slash] then
      (match parseAuthority (beforeB slash ((beforeB 63 u).drop 2)) with
       | some h =>
         if escAny (((beforeB 63 u).drop 2).drop (beforeB slash ((beforeB 63 u).drop 2)).length) then ⟨true, [], h⟩
         else ⟨false, [], []⟩
       | none => ⟨false, [], []⟩)
    else if escAny (beforeB 63 u) then ⟨true, [], []⟩ else ⟨false, [], []⟩
  | some (some (scheme, rest)) =>
    if hasPrefix (beforeB 63 rest) [slash, slash] then
      (match parseAuthority (beforeB slash ((beforeB 63 rest).drop 2)) with
       | some h =>
         if escAny (((beforeB 63 rest).drop 2).drop (beforeB slash ((beforeB 63 rest).drop 2)).length) then
           ⟨true, asciiLower scheme, h⟩
         else ⟨false, [], []⟩
       | none => ⟨false, [], []⟩)
    else if (beforeB 63 rest).head? = some slash then
      (if escAny (beforeB 63 rest) then ⟨true, asciiLower scheme, []⟩ else ⟨false, [], []⟩)  -- a path, no authority
    else ⟨true, asciiLower scheme, []⟩                                 -- opaque: no path is decoded

/-- `url.Parse(raw)` then `Scheme`, `Host` (what `getOrigin` / `allowedOrigins` keep) -/
def urlParse (raw : Bytes) : Url :=
  if (urlParseNoFrag (beforeB 35 raw)).ok && !escAny (afterB 35 raw) then ⟨false, [], []⟩
  else urlParseNoFrag (beforeB 35 raw)

end CaddyModel.C13
