/-
C13 — a byte-level model of what the gate needs from `net/url.Parse` (Go 1.24): whether the
string parses, its (lower-cased) scheme and its host, for strings of printable ASCII without `%`
(so no percent-decoding can happen anywhere: path, fragment, userinfo and host are taken as they
are, and the only errors left are the structural ones).  Transliterated from url.go:
`Parse` (cut `#`), `parse` (scheme, cut `?`, rootless / colon-in-first-segment rule, authority),
`getScheme`, `parseAuthority` (last `@`, `validUserinfo`), `parseHost` (brackets, `validOptionalPort`,
the characters `unescape(…, encodeHost)` rejects).
Inside this domain the model replaces the harness-supplied table; outside it the table stays.
-/
import CaddyModel.C13.Listen

namespace CaddyModel.C13

def isAlphaB (b : UInt8) : Bool := (65 ≤ b && b ≤ 90) || (97 ≤ b && b ≤ 122)

/-- the domain of the model: printable ASCII (space included), no `%` -/
def urlByteOK (b : UInt8) : Bool := 32 ≤ b && b ≤ 126 && b != 37
def urlInDomain (s : Bytes) : Bool := s.all urlByteOK

/-- `getScheme`: `none` = "missing protocol scheme"; `some none` = no scheme (rest = the whole
    string); `some (some (scheme, rest))` -/
def getSchemeAux : Bytes → Bool → Bytes → Option (Option (Bytes × Bytes))
  | [], _, _ => some none
  | c :: cs, first, acc =>
    if isAlphaB c then getSchemeAux cs false (c :: acc)
    else if isDigitB c || c = 43 || c = 45 || c = 46 then
      (if first then some none else getSchemeAux cs false (c :: acc))
    else if c = colon then (if first then none else some (some (acc.reverse, cs)))
    else some none

def getScheme (s : Bytes) : Option (Option (Bytes × Bytes)) := getSchemeAux s true []

/-- `validOptionalPort` -/
def validOptionalPort (p : Bytes) : Bool :=
  match p with
  | [] => true
  | c :: ds => c = colon && ds.all isDigitB

/-- a byte `unescape(host, encodeHost)` accepts unescaped (ASCII, no `%`) -/
def hostByteOK (b : UInt8) : Bool :=
  isAlphaB b || isDigitB b ||
  b = 33 || b = 36 || b = 38 || b = 39 || b = 40 || b = 41 || b = 42 || b = 43 || b = 44 || b = 59 || b = 61 ||
  b = 58 || b = 91 || b = 93 || b = 60 || b = 62 || b = 34 ||
  b = 45 || b = 95 || b = 46 || b = 126

/-- `validUserinfo` (ASCII) -/
def userinfoByteOK (b : UInt8) : Bool :=
  isAlphaB b || isDigitB b ||
  b = 45 || b = 46 || b = 95 || b = 58 || b = 126 || b = 33 || b = 36 || b = 38 || b = 39 ||
  b = 40 || b = 41 || b = 42 || b = 43 || b = 44 || b = 59 || b = 61 || b = 37 || b = 64

/-- `parseHost` without percent-escapes; `none` = error -/
def parseHost (h : Bytes) : Option Bytes :=
  if h.head? = some lbrack then
    match lastIndexOfB rbrack h with
    | none => none
    | some i => if validOptionalPort (h.drop (i + 1)) && h.all hostByteOK then some h else none
  else
    match lastIndexOfB colon h with
    | some i => if validOptionalPort (h.drop i) && h.all hostByteOK then some h else none
    | none => if h.all hostByteOK then some h else none

/-- `parseAuthority` → host; `none` = error -/
def parseAuthority (a : Bytes) : Option Bytes :=
  match lastIndexOfB 64 a with
  | none => parseHost a
  | some i =>
    match parseHost (a.drop (i + 1)) with
    | none => none
    | some h => if (a.take i).all userinfoByteOK then some h else none

/-- the part of `s` before the first `c` (`strings.Cut`, first result) -/
def beforeB (c : UInt8) (s : Bytes) : Bytes :=
  match cutAt c s with
  | some (b, _) => b
  | none => s

/-- `url.Parse(raw)` then `Scheme`, `Host` (what `getOrigin` / `allowedOrigins` keep) -/
def urlParse (raw : Bytes) : Url :=
  if beforeB 35 raw = [42] then ⟨true, [], []⟩                       -- "*"
  else match getScheme (beforeB 35 raw) with
  | none => ⟨false, [], []⟩
  | some none =>
    -- no scheme: rest is the whole string up to `?`
    if (beforeB 63 (beforeB 35 raw)).head? ≠ some slash &&
        (beforeB slash (beforeB 63 (beforeB 35 raw))).contains colon then ⟨false, [], []⟩
    else if hasPrefix (beforeB 63 (beforeB 35 raw)) [slash, slash] &&
        !hasPrefix (beforeB 63 (beforeB 35 raw)) [slash, slash, slash] then
      (match parseAuthority (beforeB slash ((beforeB 63 (beforeB 35 raw)).drop 2)) with
       | some h => ⟨true, [], h⟩
       | none => ⟨false, [], []⟩)
    else ⟨true, [], []⟩
  | some (some (scheme, rest)) =>
    if hasPrefix (beforeB 63 rest) [slash, slash] then
      (match parseAuthority (beforeB slash ((beforeB 63 rest).drop 2)) with
       | some h => ⟨true, asciiLower scheme, h⟩
       | none => ⟨false, [], []⟩)
    else ⟨true, asciiLower scheme, []⟩                                 -- opaque, or a path without authority

end CaddyModel.C13
