/-
C13 — facts about the net/url model (Url.lean): serialised origins `scheme://host[:port]`.
-/
import CaddyModel.C13.Url
import CaddyModel.C13.ListenLemmas

namespace CaddyModel.C13

theorem beforeB_of_absent (c : UInt8) (s : Bytes) (h : ∀ b ∈ s, b ≠ c) : beforeB c s = s := by
  simp [beforeB, cutAt_none c s h]

theorem getSchemeAux_alpha (rest : Bytes) :
    ∀ (sch acc : Bytes) (first : Bool), (∀ b ∈ sch, isAlphaB b = true) → (sch ≠ [] ∨ first = false) →
      getSchemeAux (sch ++ colon :: rest) first acc = some (some (acc.reverse ++ sch, rest)) := by
  intro sch
  induction sch with
  | nil =>
    intro acc first _ hf
    have hf' : first = false := by rcases hf with h | h; exact absurd rfl h; exact h
    subst hf'
    simp [getSchemeAux, colon, isAlphaB, isDigitB]
  | cons c cs ih =>
    intro acc first hs _
    have hc : isAlphaB c = true := hs c (by simp)
    have := ih (c :: acc) false (fun b hb => hs b (by simp [hb])) (Or.inr rfl)
    simp [getSchemeAux, hc, this]

/-- a byte of a host NAME or IPv4 address: letter, digit, `.` or `-` -/
def nameByte (b : UInt8) : Bool := isAlphaB b || isDigitB b || b = 46 || b = 45

theorem alpha_ne {b : UInt8} (hb : isAlphaB b = true) :
    b ≠ 35 ∧ b ≠ 63 ∧ b ≠ slash ∧ b ≠ 64 ∧ b ≠ colon ∧ b ≠ lbrack ∧ b ≠ 42 := by
  refine ⟨?_, ?_, ?_, ?_, ?_, ?_, ?_⟩ <;> intro h <;> subst h <;> revert hb <;> decide

theorem name_ne {b : UInt8} (hb : nameByte b = true) :
    b ≠ 35 ∧ b ≠ 63 ∧ b ≠ slash ∧ b ≠ 64 ∧ b ≠ colon ∧ b ≠ lbrack := by
  refine ⟨?_, ?_, ?_, ?_, ?_, ?_⟩ <;> intro h <;> subst h <;> revert hb <;> decide

theorem name_hostOK {b : UInt8} (hb : nameByte b = true) : hostByteOK b = true := by
  simp only [nameByte, Bool.or_eq_true, decide_eq_true_eq] at hb
  unfold hostByteOK
  rcases hb with ((h | h) | h) | h <;> simp [h]

theorem digit_hostOK {b : UInt8} (hb : isDigitB b = true) : hostByteOK b = true := by
  unfold hostByteOK; simp [hb]

/-- `parseHost` on `name` and on `name:port` -/
theorem parseHost_name (h : Bytes) (hh : ∀ b ∈ h, nameByte b = true) : parseHost h = some h := by
  have hhead : h.head? ≠ some lbrack := by
    cases h with
    | nil => simp
    | cons x xs => simp; exact (name_ne (hh x (by simp))).2.2.2.2.2
  have hcol : lastIndexOfB colon h = none :=
    lastIndexOfB_none colon h (fun b hb => (name_ne (hh b hb)).2.2.2.2.1)
  have hall : h.all hostByteOK = true := List.all_eq_true.2 (fun b hb => name_hostOK (hh b hb))
  unfold parseHost
  rw [if_neg hhead, hcol]
  simp [hall]

theorem parseHost_name_port (h ds : Bytes) (hh : ∀ b ∈ h, nameByte b = true) (hne : h ≠ [])
    (hd : ∀ b ∈ ds, isDigitB b = true) : parseHost (h ++ colon :: ds) = some (h ++ colon :: ds) := by
  have hhead : (h ++ colon :: ds).head? ≠ some lbrack := by
    cases h with
    | nil => exact absurd rfl hne
    | cons x xs => simp; exact (name_ne (hh x (by simp))).2.2.2.2.2
  have hcol : lastIndexOfB colon (h ++ colon :: ds) = some h.length :=
    lastIndexOfB_append colon ds (fun b hb => (digit_ne (hd b hb)).1) h
  have hdrop : (h ++ colon :: ds).drop h.length = colon :: ds := by simp
  have hport : validOptionalPort (colon :: ds) = true := by
    simp [validOptionalPort]; exact hd
  have hall : (h ++ colon :: ds).all hostByteOK = true := by
    apply List.all_eq_true.2
    intro b hb
    simp at hb
    rcases hb with hb | hb | hb
    · exact name_hostOK (hh b hb)
    · subst hb; decide
    · exact digit_hostOK (hd b hb)
  unfold parseHost
  rw [if_neg hhead, hcol]
  simp [hdrop, hport, hall]

/-- **serialised origins parse to what they say**: for a scheme of letters and an authority `a`
    without `#`, `?`, `/`, `@`, `url.Parse(scheme ++ "://" ++ a)` has the lower-cased scheme and
    the host `parseHost a` (an error if that is one). -/
theorem urlParse_scheme_authority (sch a : Bytes) (hs : ∀ b ∈ sch, isAlphaB b = true) (hsne : sch ≠ [])
    (ha : ∀ b ∈ a, b ≠ 35 ∧ b ≠ 63 ∧ b ≠ slash ∧ b ≠ 64) :
    urlParse (sch ++ colon :: slash :: slash :: a) =
      match parseHost a with
      | some h => ⟨true, asciiLower sch, h⟩
      | none => ⟨false, [], []⟩ := by
  have hno : ∀ (c : UInt8), (∀ b ∈ sch, b ≠ c) → c ≠ colon → c ≠ slash → (∀ b ∈ a, b ≠ c) →
      ∀ b ∈ sch ++ colon :: slash :: slash :: a, b ≠ c := by
    intro c h1 h2 h3 h4 b hb
    rcases List.mem_append.1 hb with hb | hb
    · exact h1 b hb
    · simp only [List.mem_cons] at hb
      rcases hb with hb | hb | hb | hb
      · subst hb; exact fun e => h2 e.symm
      · subst hb; exact fun e => h3 e.symm
      · subst hb; exact fun e => h3 e.symm
      · exact h4 b hb
  have hhash : beforeB 35 (sch ++ colon :: slash :: slash :: a) = sch ++ colon :: slash :: slash :: a :=
    beforeB_of_absent _ _ (hno 35 (fun b hb => (alpha_ne (hs b hb)).1) (by decide) (by decide) (fun b hb => (ha b hb).1))
  have hstar : sch ++ colon :: slash :: slash :: a ≠ [42] := by
    cases sch with
    | nil => exact absurd rfl hsne
    | cons x xs =>
      intro h
      simp at h
  have hscheme : getScheme (sch ++ colon :: slash :: slash :: a) = some (some (sch, slash :: slash :: a)) := by
    have := getSchemeAux_alpha (slash :: slash :: a) sch [] true hs (Or.inl hsne)
    simpa [getScheme] using this
  have hq : beforeB 63 (slash :: slash :: a) = slash :: slash :: a :=
    beforeB_of_absent _ _ (by
      intro b hb; simp at hb
      rcases hb with hb | hb
      · subst hb; decide
      · exact (ha b hb).2.1)
  have hsl : beforeB slash a = a := beforeB_of_absent _ _ (fun b hb => (ha b hb).2.2.1)
  have hat : lastIndexOfB 64 a = none := lastIndexOfB_none 64 a (fun b hb => (ha b hb).2.2.2)
  unfold urlParse
  rw [hhash]
  simp only [hstar, if_false, hscheme, hq]
  have hpre : hasPrefix (slash :: slash :: a) [slash, slash] = true := by simp [hasPrefix, List.isPrefixOf]
  simp only [hpre, if_true, List.drop_succ_cons, List.drop_zero, hsl, parseAuthority, hat]
  rfl

end CaddyModel.C13
