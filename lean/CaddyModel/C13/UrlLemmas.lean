/-
C13 — facts about the net/url model (Url.lean): serialised origins `scheme://host[:port]`.
-/
import CaddyModel.C13.Url
import CaddyModel.C13.ListenLemmas

namespace CaddyModel.C13

theorem beforeB_of_absent (c : UInt8) (s : Bytes) (h : ∀ b ∈ s, b ≠ c) : beforeB c s = s := by
  simp [beforeB, cutAt_none c s h]

theorem getSchemeAux_alpha (rest : Bytes) :
    ∀ (sch acc : Bytes) (first : Bool), (∀ b ∈ sch, isAlphaB b = true) → (sch ≠ [] ∨ first = false) →
      getSchemeAux (sch ++ colon :: rest) first acc = some (some (acc.reverse ++ sch, rest)) := by
  intro sch
  induction sch with
  | nil =>
    intro acc first _ hf
    have hf' : first = false := by rcases hf with h | h; exact absurd rfl h; exact h
    subst hf'
    simp [getSchemeAux, colon, isAlphaB, isDigitB]
  | cons c cs ih =>
    intro acc first hs _
    have hc : isAlphaB c = true := hs c (by simp)
    have := ih (c :: acc) false (fun b hb => hs b (by simp [hb])) (Or.inr rfl)
    simp [getSchemeAux, hc, this]

/-- a byte of a host NAME or IPv4 address: letter, digit, `.` or `-` -/
def nameByte (b : UInt8) : Bool := isAlphaB b || isDigitB b || b = 46 || b = 45

theorem alpha_ne {b : UInt8} (hb : isAlphaB b = true) :
    b ≠ 35 ∧ b ≠ 63 ∧ b ≠ slash ∧ b ≠ 64 ∧ b ≠ colon ∧ b ≠ lbrack ∧ b ≠ 42 := by
  refine ⟨?_, ?_, ?_, ?_, ?_, ?_, ?_⟩ <;> intro h <;> subst h <;> revert hb <;> decide

theorem name_ne {b : UInt8} (hb : nameByte b = true) :
    b ≠ 35 ∧ b ≠ 63 ∧ b ≠ slash ∧ b ≠ 64 ∧ b ≠ colon ∧ b ≠ lbrack := by
  refine ⟨?_, ?_, ?_, ?_, ?_, ?_⟩ <;> intro h <;> subst h <;> revert hb <;> decide

theorem name_hostOK {b : UInt8} (hb : nameByte b = true) : hostByteOK b = true := by
  simp only [nameByte, Bool.or_eq_true, decide_eq_true_eq] at hb
  unfold hostByteOK
  rcases hb with ((h | h) | h) | h <;> simp [h]

theorem digit_hostOK {b : UInt8} (hb : isDigitB b = true) : hostByteOK b = true := by
  unfold hostByteOK; simp [hb]

theorem alpha_not_ctl (b : UInt8) (h : isAlphaB b = true) : isCtlB b = false := by
  simp only [isAlphaB, isCtlB, Bool.or_eq_true, Bool.and_eq_true, decide_eq_true_eq, Bool.or_eq_false_iff,
    decide_eq_false_iff_not, UInt8.le_iff_toNat_le, UInt8.lt_iff_toNat_lt, ← UInt8.toNat_inj] at *
  have e1 : (65 : UInt8).toNat = 65 := rfl
  have e2 : (90 : UInt8).toNat = 90 := rfl
  have e3 : (97 : UInt8).toNat = 97 := rfl
  have e4 : (122 : UInt8).toNat = 122 := rfl
  have e5 : (32 : UInt8).toNat = 32 := rfl
  have e6 : (127 : UInt8).toNat = 127 := rfl
  simp only [e1, e2, e3, e4, e5, e6] at *
  omega

theorem digit_not_ctl (b : UInt8) (h : isDigitB b = true) : isCtlB b = false := by
  simp only [isDigitB, isCtlB, Bool.or_eq_true, Bool.and_eq_true, decide_eq_true_eq, Bool.or_eq_false_iff,
    decide_eq_false_iff_not, UInt8.le_iff_toNat_le, UInt8.lt_iff_toNat_lt, ← UInt8.toNat_inj] at *
  have e1 : (48 : UInt8).toNat = 48 := rfl
  have e2 : (57 : UInt8).toNat = 57 := rfl
  have e5 : (32 : UInt8).toNat = 32 := rfl
  have e6 : (127 : UInt8).toNat = 127 := rfl
  simp only [e1, e2, e5, e6] at *
  omega

theorem name_not_ctl (b : UInt8) (h : nameByte b = true) : isCtlB b = false := by
  simp only [nameByte, Bool.or_eq_true, decide_eq_true_eq] at h
  rcases h with ((h | h) | h) | h
  · exact alpha_not_ctl b h
  · exact digit_not_ctl b h
  · subst h; decide
  · subst h; decide

theorem escScan_no_pct (okEsc : UInt8 → UInt8 → Bool) (okByte : UInt8 → Bool) :
    ∀ s : Bytes, (∀ b ∈ s, b ≠ 37 ∧ okByte b = true) → escScan okEsc okByte s = true
  | [], _ => rfl
  | [c], h => by simp [escScan, (h c (by simp)).1, (h c (by simp)).2]
  | [c, d], h => by
    simp [escScan, (h c (by simp)).1, (h c (by simp)).2, (h d (by simp)).1, (h d (by simp)).2]
  | c :: a :: b :: rest, h => by
    have := escScan_no_pct okEsc okByte (a :: b :: rest) (fun x hx => h x (by simp [hx]))
    simp [escScan, (h c (by simp)).1, (h c (by simp)).2, this]

theorem unescapeB_no_pct : ∀ s : Bytes, (∀ b ∈ s, b ≠ 37) → unescapeB s = s
  | [], _ => rfl
  | [_], _ => rfl
  | [_, _], _ => rfl
  | c :: a :: b :: rest, h => by
    have := unescapeB_no_pct (a :: b :: rest) (fun x hx => h x (by simp [hx]))
    simp [unescapeB, h c (by simp), this]

theorem name_ne_pct {b : UInt8} (hb : nameByte b = true) : b ≠ 37 := by
  intro h; subst h; revert hb; decide

theorem digit_ne_pct {b : UInt8} (hb : isDigitB b = true) : b ≠ 37 := by
  intro h; subst h; revert hb; decide

/-- `parseHost` on `name` and on `name:port` -/
theorem parseHost_name (h : Bytes) (hh : ∀ b ∈ h, nameByte b = true) : parseHost h = some h := by
  have hhead : h.head? ≠ some lbrack := by
    cases h with
    | nil => simp
    | cons x xs => simp; exact (name_ne (hh x (by simp))).2.2.2.2.2
  have hcol : lastIndexOfB colon h = none :=
    lastIndexOfB_none colon h (fun b hb => (name_ne (hh b hb)).2.2.2.2.1)
  have hesc : escHost h = true :=
    escScan_no_pct _ _ h (fun b hb => ⟨name_ne_pct (hh b hb), by simp [name_hostOK (hh b hb)]⟩)
  have hun : unescapeB h = h := unescapeB_no_pct h (fun b hb => name_ne_pct (hh b hb))
  unfold parseHost
  rw [if_neg hhead, hcol]
  simp [hesc, hun]

theorem parseHost_name_port (h ds : Bytes) (hh : ∀ b ∈ h, nameByte b = true) (hne : h ≠ [])
    (hd : ∀ b ∈ ds, isDigitB b = true) : parseHost (h ++ colon :: ds) = some (h ++ colon :: ds) := by
  have hhead : (h ++ colon :: ds).head? ≠ some lbrack := by
    cases h with
    | nil => exact absurd rfl hne
    | cons x xs => simp; exact (name_ne (hh x (by simp))).2.2.2.2.2
  have hcol : lastIndexOfB colon (h ++ colon :: ds) = some h.length :=
    lastIndexOfB_append colon ds (fun b hb => (digit_ne (hd b hb)).1) h
  have hdrop : (h ++ colon :: ds).drop h.length = colon :: ds := by simp
  have hport : validOptionalPort (colon :: ds) = true := by
    simp [validOptionalPort]; exact hd
  have hbytes : ∀ b ∈ h ++ colon :: ds, b ≠ 37 ∧ hostByteOK b = true := by
    intro b hb
    rcases List.mem_append.1 hb with hb | hb
    · exact ⟨name_ne_pct (hh b hb), name_hostOK (hh b hb)⟩
    · simp only [List.mem_cons] at hb
      rcases hb with hb | hb
      · subst hb; exact ⟨by decide, by decide⟩
      · exact ⟨digit_ne_pct (hd b hb), digit_hostOK (hd b hb)⟩
  have hesc : escHost (h ++ colon :: ds) = true :=
    escScan_no_pct _ _ _ (fun b hb => ⟨(hbytes b hb).1, by simp [(hbytes b hb).2]⟩)
  have hun : unescapeB (h ++ colon :: ds) = h ++ colon :: ds :=
    unescapeB_no_pct _ (fun b hb => (hbytes b hb).1)
  unfold parseHost
  rw [if_neg hhead, hcol]
  simp [hdrop, hport, hesc, hun]

/-- **serialised origins parse to what they say**: for a scheme of letters and an authority `a`
    without `#`, `?`, `/`, `@`, `url.Parse(scheme ++ "://" ++ a)` has the lower-cased scheme and
    the host `parseHost a` (an error if that is one). -/
theorem urlParse_scheme_authority (sch a : Bytes) (hs : ∀ b ∈ sch, isAlphaB b = true) (hsne : sch ≠ [])
    (ha : ∀ b ∈ a, b ≠ 35 ∧ b ≠ 63 ∧ b ≠ slash ∧ b ≠ 64) (hctl : ∀ b ∈ a, isCtlB b = false) :
    urlParse (sch ++ colon :: slash :: slash :: a) =
      match parseHost a with
      | some h => ⟨true, asciiLower sch, h⟩
      | none => ⟨false, [], []⟩ := by
  have hno : ∀ (c : UInt8), (∀ b ∈ sch, b ≠ c) → c ≠ colon → c ≠ slash → (∀ b ∈ a, b ≠ c) →
      ∀ b ∈ sch ++ colon :: slash :: slash :: a, b ≠ c := by
    intro c h1 h2 h3 h4 b hb
    rcases List.mem_append.1 hb with hb | hb
    · exact h1 b hb
    · simp only [List.mem_cons] at hb
      rcases hb with hb | hb | hb | hb
      · subst hb; exact fun e => h2 e.symm
      · subst hb; exact fun e => h3 e.symm
      · subst hb; exact fun e => h3 e.symm
      · exact h4 b hb
  have hhash : beforeB 35 (sch ++ colon :: slash :: slash :: a) = sch ++ colon :: slash :: slash :: a :=
    beforeB_of_absent _ _ (hno 35 (fun b hb => (alpha_ne (hs b hb)).1) (by decide) (by decide) (fun b hb => (ha b hb).1))
  have hstar : sch ++ colon :: slash :: slash :: a ≠ [42] := by
    cases sch with
    | nil => exact absurd rfl hsne
    | cons x xs =>
      intro h
      simp at h
  have hscheme : getScheme (sch ++ colon :: slash :: slash :: a) = some (some (sch, slash :: slash :: a)) := by
    have := getSchemeAux_alpha (slash :: slash :: a) sch [] true hs (Or.inl hsne)
    simpa [getScheme] using this
  have hq : beforeB 63 (slash :: slash :: a) = slash :: slash :: a :=
    beforeB_of_absent _ _ (by
      intro b hb; simp at hb
      rcases hb with hb | hb
      · subst hb; decide
      · exact (ha b hb).2.1)
  have hsl : beforeB slash a = a := beforeB_of_absent _ _ (fun b hb => (ha b hb).2.2.1)
  have hat : lastIndexOfB 64 a = none := lastIndexOfB_none 64 a (fun b hb => (ha b hb).2.2.2)
  have hfrag : afterB 35 (sch ++ colon :: slash :: slash :: a) = [] := by
    simp [afterB, cutAt_none 35 _ (hno 35 (fun b hb => (alpha_ne (hs b hb)).1) (by decide) (by decide) (fun b hb => (ha b hb).1))]
  have hnoctl : (sch ++ colon :: slash :: slash :: a).any isCtlB = false := by
    cases hc : (sch ++ colon :: slash :: slash :: a).any isCtlB with
    | false => rfl
    | true =>
      obtain ⟨b, hb, hcb⟩ := List.any_eq_true.1 hc
      rcases List.mem_append.1 hb with hb | hb
      · rw [alpha_not_ctl b (hs b hb)] at hcb; cases hcb
      · simp only [List.mem_cons] at hb
        rcases hb with hb | hb | hb | hb
        · subst hb; revert hcb; decide
        · subst hb; revert hcb; decide
        · subst hb; revert hcb; decide
        · rw [hctl b hb] at hcb; cases hcb
  have hpre : hasPrefix (slash :: slash :: a) [slash, slash] = true := by simp [hasPrefix, List.isPrefixOf]
  have hrem : (a.drop a.length) = [] := by simp
  unfold urlParse
  rw [hhash, hfrag]
  have hmain : urlParseNoFrag (sch ++ colon :: slash :: slash :: a) =
      match parseHost a with
      | some h => ⟨true, asciiLower sch, h⟩
      | none => ⟨false, [], []⟩ := by
    unfold urlParseNoFrag
    simp only [hnoctl, hstar, if_false, hscheme, hq, hpre, if_true, List.drop_succ_cons, List.drop_zero, hsl,
      parseAuthority, hat, hrem, Bool.false_eq_true]
    cases parseHost a with
    | none => rfl
    | some h => simp [escAny, escScan]
  rw [hmain]
  simp [escAny, escScan]

end CaddyModel.C13
