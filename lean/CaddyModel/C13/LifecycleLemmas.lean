/-
C13 — invariants of the admin server lifecycle (Lifecycle.lean).
-/
import CaddyModel.C13.Lifecycle

namespace CaddyModel.C13

/-- at most one remote server is listening, and it is the one `remoteAdminServer` points to -/
def RemoteInv (s : Life) : Prop :=
  s.liveRemote = [] ∨ ∃ srv, s.remoteVar = some srv ∧ s.liveRemote = [srv]

/-- at most one local server is listening, and it is the one `localAdminServer` points to -/
def LocalInv (s : Life) : Prop :=
  s.liveLocal = [] ∨ ∃ srv, s.localVar = some srv ∧ s.liveLocal = [srv]

theorem stopR_inv (s : Life) (h : RemoteInv s) : stopR s.liveRemote s.remoteVar = [] := by
  rcases h with h | ⟨srv, hv, hl⟩
  · rw [h]; cases s.remoteVar <;> simp [stopR]
  · rw [hv, hl]; simp [stopR]

theorem stopL_inv (s : Life) (h : LocalInv s) : stopL s.liveLocal s.localVar = [] := by
  rcases h with h | ⟨srv, hv, hl⟩
  · rw [h]; cases s.localVar <;> simp [stopL]
  · rw [hv, hl]; simp [stopL]

theorem replaceLocal_remote (s : Life) (c : LoadCfg) :
    (replaceLocal s c).liveRemote = s.liveRemote ∧ (replaceLocal s c).remoteVar = s.remoteVar := by
  unfold replaceLocal; cases c.loc <;> simp

theorem replaceRemote_local (s : Life) (c : LoadCfg) :
    (replaceRemote s c).liveLocal = s.liveLocal ∧ (replaceRemote s c).localVar = s.localVar := by
  unfold replaceRemote; cases c.remote with
  | none => simp
  | some p => cases p; simp

/-- a load whose admin listener cannot be bound changes nothing at all -/
theorem load_blocked (s : Life) (c : LoadCfg) (hb : c.loc = .blocked) : load s c = s := by
  simp [load, hb, replaceLocal]

/-- one successful load: the invariants are kept, and afterwards exactly the servers of THIS config
    listen -/
theorem load_step (s : Life) (c : LoadCfg) (hnb : c.loc ≠ .blocked) (hr : RemoteInv s) (hl : LocalInv s) :
    RemoteInv (load s c) ∧ LocalInv (load s c) ∧
    (c.remote = none → (load s c).liveRemote = []) ∧
    (∀ a acl, c.remote = some (a, acl) → ∃ id, (load s c).liveRemote = [⟨id, a, acl⟩]) ∧
    (c.loc = .disabled → (load s c).liveLocal = []) ∧
    (∀ a t, c.loc = .listen a t → ∃ id, (load s c).liveLocal = [⟨id, a, t⟩]) := by
  have hr' : RemoteInv (replaceLocal s c) := by
    unfold RemoteInv; rw [(replaceLocal_remote s c).1, (replaceLocal_remote s c).2]; exact hr
  have hstopR := stopR_inv _ hr'
  have hstopL := stopL_inv s hl
  have hlocal : LocalInv (replaceLocal s c) ∧ (c.loc = .disabled → (replaceLocal s c).liveLocal = []) ∧
      (∀ a t, c.loc = .listen a t → ∃ id, (replaceLocal s c).liveLocal = [⟨id, a, t⟩]) := by
    unfold replaceLocal LocalInv
    cases hc : c.loc with
    | disabled => simp [hstopL]
    | absent => simp [hstopL]
    | listen a t => simp [hstopL]
    | blocked => exact absurd hc hnb
  have hloc2 := replaceRemote_local (replaceLocal s c) c
  have hload : load s c = replaceRemote (replaceLocal s c) c := by simp [load, hnb]
  rw [hload]
  refine ⟨?_, ?_, ?_, ?_, ?_, ?_⟩
  · unfold replaceRemote RemoteInv
    cases hc : c.remote with
    | none => simp [hstopR]
    | some p => cases p; simp [hstopR]
  · unfold LocalInv; rw [hloc2.1, hloc2.2]; exact hlocal.1
  · intro hc; unfold replaceRemote; simp [hc, hstopR]
  · intro a acl hc; unfold replaceRemote; simp [hc, hstopR]
  · intro hc; rw [hloc2.1]; exact hlocal.2.1 hc
  · intro a t hc; rw [hloc2.1]; exact hlocal.2.2 a t hc

theorem foldl_inv : ∀ (hist : List LoadCfg) (s : Life), RemoteInv s → LocalInv s →
    RemoteInv (hist.foldl load s) ∧ LocalInv (hist.foldl load s) := by
  intro hist
  induction hist with
  | nil => intro s hr hl; exact ⟨hr, hl⟩
  | cons c cs ih =>
    intro s hr hl
    by_cases hb : c.loc = .blocked
    · simp only [List.foldl_cons, load_blocked s c hb]; exact ih s hr hl
    · have h := load_step s c hb hr hl
      exact ih (load s c) h.1 h.2.1

/-- failed loads can be struck out of a history: the state is that of the successful loads alone -/
theorem foldl_filter_blocked : ∀ (hist : List LoadCfg) (s : Life),
    hist.foldl load s = (hist.filter (fun c => c.loc != .blocked)).foldl load s := by
  intro hist
  induction hist with
  | nil => intro s; rfl
  | cons c cs ih =>
    intro s
    by_cases hb : c.loc = .blocked
    · simp [List.foldl_cons, load_blocked s c hb, hb, ih s]
    · have : (c.loc != .blocked) = true := by simpa using hb
      simp [List.filter_cons, this, ih (load s c)]

theorem init_inv : RemoteInv Life.init ∧ LocalInv Life.init := ⟨Or.inl rfl, Or.inl rfl⟩

end CaddyModel.C13
