/-
C13 — invariants of the admin server lifecycle (Lifecycle.lean).
-/
import CaddyModel.C13.Lifecycle

namespace CaddyModel.C13

/-- at most one remote server is listening, and it is the one `remoteAdminServer` points to -/
def RemoteInv (s : Life) : Prop :=
  s.liveRemote = [] ∨ ∃ srv, s.remoteVar = some srv ∧ s.liveRemote = [srv]

/-- at most one local server is listening, and it is the one `localAdminServer` points to -/
def LocalInv (s : Life) : Prop :=
  s.liveLocal = [] ∨ ∃ srv, s.localVar = some srv ∧ s.liveLocal = [srv]

theorem stopR_inv (s : Life) (h : RemoteInv s) : stopR s.liveRemote s.remoteVar = [] := by
  rcases h with h | ⟨srv, hv, hl⟩
  · rw [h]; cases s.remoteVar <;> simp [stopR]
  · rw [hv, hl]; simp [stopR]

theorem stopL_inv (s : Life) (h : LocalInv s) : stopL s.liveLocal s.localVar = [] := by
  rcases h with h | ⟨srv, hv, hl⟩
  · rw [h]; cases s.localVar <;> simp [stopL]
  · rw [hv, hl]; simp [stopL]

theorem replaceLocal_remote (s : Life) (c : LoadCfg) :
    (replaceLocal s c).liveRemote = s.liveRemote ∧ (replaceLocal s c).remoteVar = s.remoteVar := by
  unfold replaceLocal; cases c.loc <;> simp

theorem replaceRemote_local (s : Life) (c : LoadCfg) :
    (replaceRemote s c).liveLocal = s.liveLocal ∧ (replaceRemote s c).localVar = s.localVar := by
  unfold replaceRemote; cases c.remote with
  | none => simp
  | some p => cases p; simp

/-- one load: the invariants are kept, and afterwards exactly the servers of THIS config listen -/
theorem load_step (s : Life) (c : LoadCfg) (hr : RemoteInv s) (hl : LocalInv s) :
    RemoteInv (load s c) ∧ LocalInv (load s c) ∧
    (c.remote = none → (load s c).liveRemote = []) ∧
    (∀ a acl, c.remote = some (a, acl) → ∃ id, (load s c).liveRemote = [⟨id, a, acl⟩]) ∧
    (c.loc = .disabled → (load s c).liveLocal = []) ∧
    (∀ a, c.loc = .listen a → ∃ id, (load s c).liveLocal = [⟨id, a⟩]) := by
  have hr' : RemoteInv (replaceLocal s c) := by
    unfold RemoteInv; rw [(replaceLocal_remote s c).1, (replaceLocal_remote s c).2]; exact hr
  have hstopR := stopR_inv _ hr'
  have hstopL := stopL_inv s hl
  have hlocal : LocalInv (replaceLocal s c) ∧ (c.loc = .disabled → (replaceLocal s c).liveLocal = []) ∧
      (∀ a, c.loc = .listen a → ∃ id, (replaceLocal s c).liveLocal = [⟨id, a⟩]) := by
    unfold replaceLocal LocalInv
    cases hc : c.loc with
    | disabled => simp [hstopL]
    | absent => simp [hstopL]
    | listen a => simp [hstopL]
  have hloc2 := replaceRemote_local (replaceLocal s c) c
  unfold load
  refine ⟨?_, ?_, ?_, ?_, ?_, ?_⟩
  · unfold replaceRemote RemoteInv
    cases hc : c.remote with
    | none => simp [hstopR]
    | some p => cases p; simp [hstopR]
  · unfold LocalInv; rw [hloc2.1, hloc2.2]; exact hlocal.1
  · intro hc; unfold replaceRemote; simp [hc, hstopR]
  · intro a acl hc; unfold replaceRemote; simp [hc, hstopR]
  · intro hc; rw [hloc2.1]; exact hlocal.2.1 hc
  · intro a hc; rw [hloc2.1]; exact hlocal.2.2 a hc

theorem foldl_inv : ∀ (hist : List LoadCfg) (s : Life), RemoteInv s → LocalInv s →
    RemoteInv (hist.foldl load s) ∧ LocalInv (hist.foldl load s) := by
  intro hist
  induction hist with
  | nil => intro s hr hl; exact ⟨hr, hl⟩
  | cons c cs ih =>
    intro s hr hl
    have h := load_step s c hr hl
    exact ih (load s c) h.1 h.2.1

theorem init_inv : RemoteInv Life.init ∧ LocalInv Life.init := ⟨Or.inl rfl, Or.inl rfl⟩

end CaddyModel.C13
