/-
C13 — invariants of the admin server lifecycle (Lifecycle.lean).
-/
import CaddyModel.C13.Lifecycle

namespace CaddyModel.C13

/-- at most one remote server is listening, and it is the one `remoteAdminServer` points to -/
def RemoteInv (s : Life) : Prop :=
  s.liveRemote = [] ∨ ∃ srv, s.remoteVar = some srv ∧ s.liveRemote = [srv]

/-- at most one local server is listening, and it is the one `localAdminServer` points to -/
def LocalInv (s : Life) : Prop :=
  s.liveLocal = [] ∨ ∃ srv, s.localVar = some srv ∧ s.liveLocal = [srv]

theorem stopR_inv (s : Life) (h : RemoteInv s) : stopR s.liveRemote s.remoteVar = [] := by
  rcases h with h | ⟨srv, hv, hl⟩
  · rw [h]; cases s.remoteVar <;> simp [stopR]
  · rw [hv, hl]; simp [stopR]

theorem stopL_inv (s : Life) (h : LocalInv s) : stopL s.liveLocal s.localVar = [] := by
  rcases h with h | ⟨srv, hv, hl⟩
  · rw [h]; cases s.localVar <;> simp [stopL]
  · rw [hv, hl]; simp [stopL]

theorem replaceLocal_remote (s : Life) (c : LoadCfg) :
    (replaceLocal s c).liveRemote = s.liveRemote ∧ (replaceLocal s c).remoteVar = s.remoteVar := by
  unfold replaceLocal; cases c.loc <;> simp

theorem replaceRemote_local (s : Life) (c : LoadCfg) :
    (replaceRemote s c).liveLocal = s.liveLocal ∧ (replaceRemote s c).localVar = s.localVar := by
  unfold replaceRemote; cases c.remote with
  | none => simp
  | some p => cases p; simp

/-- a load whose admin listener cannot be bound changes nothing at all -/
theorem load_blocked (s : Life) (c : LoadCfg) (hb : c.loc = .blocked) : load s c = s := by
  simp [load, hb, replaceLocal]

/-- one successful load: the invariants are kept, and afterwards exactly the servers of THIS config
    listen -/
theorem load_step (s : Life) (c : LoadCfg) (hnb : c.loc ≠ .blocked) (hr : RemoteInv s) (hl : LocalInv s) :
    RemoteInv (load s c) ∧ LocalInv (load s c) ∧
    (c.remote = none → (load s c).liveRemote = []) ∧
    (∀ a acl, c.remote = some (a, acl) → ∃ id, (load s c).liveRemote = [⟨id, a, acl⟩]) ∧
    (c.loc = .disabled → (load s c).liveLocal = []) ∧
    (∀ a t, c.loc = .listen a t → ∃ id, (load s c).liveLocal = [⟨id, a, t⟩]) := by
  have hr' : RemoteInv (replaceLocal s c) := by
    unfold RemoteInv; rw [(replaceLocal_remote s c).1, (replaceLocal_remote s c).2]; exact hr
  have hstopR := stopR_inv _ hr'
  have hstopL := stopL_inv s hl
  have hlocal : LocalInv (replaceLocal s c) ∧ (c.loc = .disabled → (replaceLocal s c).liveLocal = []) ∧
      (∀ a t, c.loc = .listen a t → ∃ id, (replaceLocal s c).liveLocal = [⟨id, a, t⟩]) := by
    unfold replaceLocal LocalInv
    cases hc : c.loc with
    | disabled => simp [hstopL]
    | absent => simp [hstopL]
    | listen a t => simp [hstopL]
    | blocked => exact absurd hc hnb
  have hloc2 := replaceRemote_local (replaceLocal s c) c
  have hload : load s c = replaceRemote (replaceLocal s c) c := by simp [load, hnb]
  rw [hload]
  refine ⟨?_, ?_, ?_, ?_, ?_, ?_⟩
  · unfold replaceRemote RemoteInv
    cases hc : c.remote with
    | none => simp [hstopR]
    | some p => cases p; simp [hstopR]
  · unfold LocalInv; rw [hloc2.1, hloc2.2]; exact hlocal.1
  · intro hc; unfold replaceRemote; simp [hc, hstopR]
  · intro a acl hc; unfold replaceRemote; simp [hc, hstopR]
  · intro hc; rw [hloc2.1]; exact hlocal.2.1 hc
  · intro a t hc; rw [hloc2.1]; exact hlocal.2.2 a t hc

theorem foldl_inv : ∀ (hist : List LoadCfg) (s : Life), RemoteInv s → LocalInv s →
    RemoteInv (hist.foldl load s) ∧ LocalInv (hist.foldl load s) := by
  intro hist
  induction hist with
  | nil => intro s hr hl; exact ⟨hr, hl⟩
  | cons c cs ih =>
    intro s hr hl
    by_cases hb : c.loc = .blocked
    · simp only [List.foldl_cons, load_blocked s c hb]; exact ih s hr hl
    · have h := load_step s c hb hr hl
      exact ih (load s c) h.1 h.2.1

/-- failed loads can be struck out of a history: the state is that of the successful loads alone -/
theorem foldl_filter_blocked : ∀ (hist : List LoadCfg) (s : Life),
    hist.foldl load s = (hist.filter (fun c => c.loc != .blocked)).foldl load s := by
  intro hist
  induction hist with
  | nil => intro s; rfl
  | cons c cs ih =>
    intro s
    by_cases hb : c.loc = .blocked
    · simp [List.foldl_cons, load_blocked s c hb, hb, ih s]
    · have : (c.loc != .blocked) = true := by simpa using hb
      simp [List.filter_cons, this, ih (load s c)]


-- ---------------------------------------------------------------- loads that are rejected late

theorem attempt_none (s : Life) (c : LoadCfg) : attempt s ⟨c, .none⟩ = load s c := by
  unfold attempt load
  by_cases h : c.loc = .blocked <;> simp [h, replaceLocal]

theorem foldl_attempt_none : ∀ (hist : List LoadCfg) (s : Life),
    (hist.map (fun c => (⟨c, .none⟩ : Attempt))).foldl attempt s = hist.foldl load s := by
  intro hist
  induction hist with
  | nil => intro s; rfl
  | cons c cs ih => intro s; simp only [List.map_cons, List.foldl_cons, attempt_none, ih]

/-- `replaceLocalAdminServer` past the bind: afterwards exactly the endpoint THIS config asks for
    listens, and the variable points at it -/
theorem replaceLocal_step (s : Life) (c : LoadCfg) (hnb : c.loc ≠ .blocked) (hl : LocalInv s) :
    LocalInv (replaceLocal s c) ∧
    (replaceLocal s c).liveLocal =
      (match c.loc.endpoint with | some (a, t) => [⟨s.next, a, t⟩] | none => []) := by
  have hstopL := stopL_inv s hl
  unfold replaceLocal LocalInv LocalCfg.endpoint
  cases hc : c.loc with
  | disabled => simp [hstopL]
  | absent => simp [hstopL]
  | listen a t => simp [hstopL]
  | blocked => exact absurd hc hnb

/-- the remote server that listens (if any) is the one the RUNNING config configures -/
def RemoteCur (s : Life) (cur : Option LoadCfg) : Prop :=
  ∀ srv, srv ∈ s.liveRemote → ∃ c, cur = some c ∧ c.remote = some (srv.addr, srv.acl)

theorem attempt_blocked (s : Life) (a : Attempt) (hb : a.cfg.loc = .blocked) : attempt s a = s := by
  simp [attempt, hb]

theorem runningStep_not_accepted (cur : Option LoadCfg) (a : Attempt) (h : a.accepted = false) :
    runningStep cur a = cur := by simp [runningStep, h]

/-- one load that gets past the bind of its local listener, ACCEPTED OR REJECTED LATE -/
theorem attempt_step (s : Life) (cur : Option LoadCfg) (a : Attempt) (hnb : a.cfg.loc ≠ .blocked)
    (hr : RemoteInv s) (hl : LocalInv s) (hc : RemoteCur s cur) :
    RemoteInv (attempt s a) ∧ LocalInv (attempt s a) ∧ RemoteCur (attempt s a) (runningStep cur a) ∧
    (attempt s a).liveLocal =
      (match a.cfg.loc.endpoint with | some (ad, t) => [⟨s.next, ad, t⟩] | none => []) := by
  have hloc := replaceLocal_step s a.cfg hnb hl
  have hrl := replaceLocal_remote s a.cfg
  have hr' : RemoteInv (replaceLocal s a.cfg) := by
    unfold RemoteInv; rw [hrl.1, hrl.2]; exact hr
  have hstopR := stopR_inv _ hr'
  have hloc2 := replaceRemote_local (replaceLocal s a.cfg) a.cfg
  cases hf : a.fail with
  | none =>
    have hatt : attempt s a = replaceRemote (replaceLocal s a.cfg) a.cfg := by simp [attempt, hnb, hf]
    have hacc : runningStep cur a = some a.cfg := by simp [runningStep, Attempt.accepted, hnb, hf]
    rw [hatt, hacc]
    refine ⟨?_, ?_, ?_, ?_⟩
    · unfold replaceRemote RemoteInv
      cases a.cfg.remote with
      | none => simp [hstopR]
      | some p => cases p; simp [hstopR]
    · unfold LocalInv; rw [hloc2.1, hloc2.2]; exact hloc.1
    · intro srv hsrv
      refine ⟨a.cfg, rfl, ?_⟩
      unfold replaceRemote at hsrv
      cases hrem : a.cfg.remote with
      | none => simp [hrem, hstopR] at hsrv
      | some p => cases p; simp [hrem, hstopR] at hsrv; subst hsrv; rfl
    · rw [hloc2.1]; exact hloc.2
  | prov =>
    have hatt : attempt s a = replaceLocal s a.cfg := by simp [attempt, hnb, hf]
    have hacc : runningStep cur a = cur := runningStep_not_accepted cur a (by simp [Attempt.accepted, hf])
    rw [hatt, hacc]
    refine ⟨hr', hloc.1, ?_, hloc.2⟩
    intro srv hsrv; rw [hrl.1] at hsrv; exact hc srv hsrv
  | key =>
    have hatt : attempt s a = replaceRemoteKeyErr (replaceLocal s a.cfg) := by simp [attempt, hnb, hf]
    have hacc : runningStep cur a = cur := runningStep_not_accepted cur a (by simp [Attempt.accepted, hf])
    rw [hatt, hacc]
    refine ⟨?_, ?_, ?_, ?_⟩
    · left; simp [replaceRemoteKeyErr, hstopR]
    · exact hloc.1
    · intro srv hsrv; simp [replaceRemoteKeyErr, hstopR] at hsrv
    · exact hloc.2

theorem foldl_attempt_inv : ∀ (hist : List Attempt) (s : Life) (cur : Option LoadCfg),
    RemoteInv s → LocalInv s → RemoteCur s cur →
    RemoteInv (hist.foldl attempt s) ∧ LocalInv (hist.foldl attempt s) ∧
    RemoteCur (hist.foldl attempt s) (hist.foldl runningStep cur) := by
  intro hist
  induction hist with
  | nil => intro s cur hr hl hc; exact ⟨hr, hl, hc⟩
  | cons a as ih =>
    intro s cur hr hl hc
    by_cases hb : a.cfg.loc = .blocked
    · have hna : a.accepted = false := by simp [Attempt.accepted, hb]
      simp only [List.foldl_cons, attempt_blocked s a hb, runningStep_not_accepted cur a hna]
      exact ih s cur hr hl hc
    · have h := attempt_step s cur a hb hr hl hc
      exact ih (attempt s a) (runningStep cur a) h.1 h.2.1 h.2.2.1

theorem init_remoteCur : RemoteCur Life.init none := by
  intro srv hsrv; simp [Life.init] at hsrv

theorem init_inv : RemoteInv Life.init ∧ LocalInv Life.init := ⟨Or.inl rfl, Or.inl rfl⟩

end CaddyModel.C13
