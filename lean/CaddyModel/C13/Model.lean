/-
C13 — model of the admin endpoint's request gate (admin.go), as the code is:

  newAdminHandler      enforceHost from the listen address kind, allowedOrigins, enforceOrigin,
                       remoteControl; every route (built-in and module) registered on one mux
  allowedOrigins       configured origins, or the default set derived from the listen address
  serveHTTP            remote ACL → websocket → host → origin (+CORS headers) → mux,
                       re-entered from handleError on errInternalRedir (the /id/ handler)
  checkHost / checkOrigin / getOrigin / originAllowed
  enforceAccessControls  chains → certificates → ACL entries → keys; the FIRST listed key found
                       decides; EVERY permission entry of that ACL entry must allow
  handleConfigID       "/id/<id>/rest…" → path.Join(index[id], rest…), errInternalRedir
  http.ServeMux        only for the pattern forms admin.go and the harness register
                       ("/exact" and "/subtree/"), incl. the 301 for unclean paths and "/x" → "/x/"

Everything the Go code delegates to the standard library's parsers is a table that travels with
the case (DESIGN §2): `url.Parse` results (`Url`), `netip.ParseAddr` classification (`IpClass`),
the split listen address (`Addr`).  Public keys are small numbers; `Equal` is `=`.
Byte strings are `List UInt8`; constants are spelled as byte lists so that `decide` can
evaluate the model (no `String` at run time of a proof).
-/
import CaddyModel.Util.Hex

namespace CaddyModel.C13

-- ---------------------------------------------------------------- constants
def sUnix : Bytes := [117, 110, 105, 120]   -- "unix"
def sFd : Bytes := [102, 100]   -- "fd"
def sLocalhost : Bytes := [108, 111, 99, 97, 108, 104, 111, 115, 116]   -- "localhost"
def sV6Loop : Bytes := [58, 58, 49]   -- "::1"
def sV4Loop : Bytes := [49, 50, 55, 46, 48, 46, 48, 46, 49]   -- "127.0.0.1"
def sWebsocket : Bytes := [119, 101, 98, 115, 111, 99, 107, 101, 116]   -- "websocket"
def sSchemeSep : Bytes := [58, 47, 47]   -- "://"
def sId : Bytes := [105, 100]   -- "id"
def sDot : Bytes := [46]   -- "."
def sDotDot : Bytes := [46, 46]   -- ".."
def sOPTIONS : Bytes := [79, 80, 84, 73, 79, 78, 83]   -- "OPTIONS"
def pConfig : Bytes := [47, 99, 111, 110, 102, 105, 103, 47]   -- "/config/"
def pId : Bytes := [47, 105, 100, 47]   -- "/id/"
def pStop : Bytes := [47, 115, 116, 111, 112]   -- "/stop"
def pPprof : Bytes := [47, 100, 101, 98, 117, 103, 47, 112, 112, 114, 111, 102, 47]   -- "/debug/pprof/"
def pCmdline : Bytes := [47, 100, 101, 98, 117, 103, 47, 112, 112, 114, 111, 102, 47, 99, 109, 100, 108, 105, 110, 101]   -- "/debug/pprof/cmdline"
def pProfile : Bytes := [47, 100, 101, 98, 117, 103, 47, 112, 112, 114, 111, 102, 47, 112, 114, 111, 102, 105, 108, 101]   -- "/debug/pprof/profile"
def pSymbol : Bytes := [47, 100, 101, 98, 117, 103, 47, 112, 112, 114, 111, 102, 47, 115, 121, 109, 98, 111, 108]   -- "/debug/pprof/symbol"
def pTrace : Bytes := [47, 100, 101, 98, 117, 103, 47, 112, 112, 114, 111, 102, 47, 116, 114, 97, 99, 101]   -- "/debug/pprof/trace"
def pVars : Bytes := [47, 100, 101, 98, 117, 103, 47, 118, 97, 114, 115]   -- "/debug/vars"

def slash : UInt8 := 47
def colon : UInt8 := 58
def percent : UInt8 := 37

-- ---------------------------------------------------------------- Go string helpers
/-- `strings.HasPrefix(s, p)` -/
def hasPrefix (s p : Bytes) : Bool := p.isPrefixOf s

/-- `strings.Contains(s, sub)` -/
def containsSub : Bytes → Bytes → Bool
  | [], sub => sub.isEmpty
  | c :: cs, sub => sub.isPrefixOf (c :: cs) || containsSub cs sub

/-- `strings.Split(s, "/")` -/
def splitSlash : Bytes → List Bytes
  | [] => [[]]
  | c :: cs =>
    if c = slash then [] :: splitSlash cs
    else match splitSlash cs with
      | [] => [[c]]
      | h :: t => (c :: h) :: t

/-- `strings.Join(l, "/")` -/
def joinSlash : List Bytes → Bytes
  | [] => []
  | [a] => a
  | a :: b :: t => a ++ slash :: joinSlash (b :: t)

def decDigits : Nat → Nat → List UInt8 → List UInt8
  | 0, _, acc => acc
  | fuel + 1, n, acc =>
    if n < 10 then (48 + n).toUInt8 :: acc
    else decDigits fuel (n / 10) ((48 + n % 10).toUInt8 :: acc)

/-- `strconv.FormatUint(n, 10)` -/
def natToDec (n : Nat) : Bytes := decDigits (n + 1) n []

/-- the element loop of `path.Clean` on the `/`-separated elements; `st` is the output so far
    (reversed). Empty and `.` elements vanish, `..` removes the previous element, cannot climb
    above the root of a rooted path and accumulates at the front of a relative one. -/
def cleanSegs (rooted : Bool) : List Bytes → List Bytes → List Bytes
  | [], st => st.reverse
  | s :: ss, st =>
    if s = [] || s = sDot then cleanSegs rooted ss st
    else if s = sDotDot then
      match st with
      | t :: st' => if t = sDotDot then cleanSegs rooted ss (s :: st) else cleanSegs rooted ss st'
      | [] => if rooted then cleanSegs rooted ss [] else cleanSegs rooted ss [s]
    else cleanSegs rooted ss (s :: st)

/-- `path.Clean(p)` -/
def pathClean (p : Bytes) : Bytes :=
  if p = [] then sDot
  else if p.head? = some slash then slash :: joinSlash (cleanSegs true (splitSlash p) [])
  else if cleanSegs false (splitSlash p) [] = [] then sDot
  else joinSlash (cleanSegs false (splitSlash p) [])

/-- `path.Join(elems…)`: empty elements are ignored, the rest is joined and cleaned -/
def pathJoin (elems : List Bytes) : Bytes :=
  if elems.filter (· ≠ []) = [] then [] else pathClean (joinSlash (elems.filter (· ≠ [])))

-- ---------------------------------------------------------------- listen address
/-- what `netip.ParseAddr(host)` says about the host part (table supplied with the case) -/
inductive IpClass where
  | notIP | unspecified | loopback | other
deriving DecidableEq, Repr

/-- `NetworkAddress` after `parseAdminListenAddr` (exactly one port) -/
structure Addr where
  network : Bytes
  host : Bytes
  port : Nat
  ip : IpClass
deriving DecidableEq, Repr

def Addr.isUnix (a : Addr) : Bool := hasPrefix a.network sUnix
def Addr.isFd (a : Addr) : Bool := hasPrefix a.network sFd
def Addr.isLoopback (a : Addr) : Bool :=
  a.isUnix || a.isFd || a.host == sLocalhost || a.ip == IpClass.loopback
def Addr.isWildcard (a : Addr) : Bool := a.host == [] || a.ip == IpClass.unspecified

/-- `net.JoinHostPort` (Go 1.24: square brackets iff the host contains a colon) -/
def joinHostPort (host port : Bytes) : Bytes :=
  if host.contains colon then 91 :: host ++ 93 :: colon :: port
  else host ++ colon :: port

def Addr.joinHostPort (a : Addr) : Bytes :=
  if a.isUnix || a.isFd then a.host else C13.joinHostPort a.host (natToDec a.port)

-- ---------------------------------------------------------------- configuration
/-- `url.Parse(s)` followed by clearing Path/RawPath/Fragment/RawQuery: what the gate looks at -/
structure Url where
  ok : Bool
  scheme : Bytes
  host : Bytes
deriving DecidableEq, Repr

/-- one entry of `admin.origins` with the table value `url.Parse(raw)` (consulted only when
    `raw` contains "://") -/
structure OriginEntry where
  raw : Bytes
  parsed : Url
deriving DecidableEq, Repr

/-- an element of `adminHandler.allowedOrigins` -/
structure Allowed where
  scheme : Bytes
  host : Bytes
deriving DecidableEq, Repr

/-- `AdminPermissions`; `none` is a nil slice (no restriction), `some []` allows nothing -/
structure Perm where
  methods : Option (List Bytes)
  paths : Option (List Bytes)
deriving DecidableEq, Repr

/-- `AdminAccess` after key extraction -/
structure Access where
  keys : List Nat
  perms : List Perm
deriving DecidableEq, Repr

structure AdminCfg where
  origins : Option (List OriginEntry)     -- `none` = JSON null / absent
  enforceOrigin : Bool
  remote : Option (List Access)           -- `admin.remote` (`none` = not configured)
deriving DecidableEq, Repr

/-- body of the loop over `uniqueOrigins` in `allowedOrigins` -/
def entryAllowed (e : OriginEntry) : Option Allowed :=
  if containsSub e.raw sSchemeSep then
    (if e.parsed.ok then some ⟨e.parsed.scheme, e.parsed.host⟩ else none)
  else some ⟨[], e.raw⟩

/-- the default origins added when `admin.origins` is null (never contain "://") -/
def defaultOrigins (a : Addr) : List Bytes :=
  if a.isLoopback then
    [joinHostPort sLocalhost (natToDec a.port), joinHostPort sV6Loop (natToDec a.port),
     joinHostPort sV4Loop (natToDec a.port)]
  else [a.joinHostPort]

/-- `AdminConfig.allowedOrigins(addr)`; Go collects the strings in a map first, so the order of
    the result is unspecified — every consumer below is an existential over the list. -/
def allowedOrigins (origins : Option (List OriginEntry)) (a : Addr) : List Allowed :=
  match origins with
  | some l => l.filterMap entryAllowed
  | none =>
    if !a.isUnix && !a.isFd then (defaultOrigins a).map (fun h => (⟨[], h⟩ : Allowed)) else []

/-- the fields of `adminHandler` plus the patterns registered on its mux -/
structure Handler where
  remote : Option (List Access)
  enforceHost : Bool
  enforceOrigin : Bool
  allowed : List Allowed
  pats : List Bytes
deriving DecidableEq, Repr

def builtinPats : List Bytes :=
  [pConfig, pId, pStop, pPprof, pCmdline, pProfile, pSymbol, pTrace, pVars]

/-- `newAdminHandler(addr, remote, _)`; `modulePats` are the patterns of every `admin.api` module -/
def newAdminHandler (cfg : AdminCfg) (a : Addr) (remote : Bool) (modulePats : List Bytes) : Handler :=
  if remote then
    { remote := cfg.remote, enforceHost := false, enforceOrigin := false, allowed := [],
      pats := builtinPats ++ modulePats }
  else
    { remote := none,
      enforceHost := !a.isWildcard && !a.isUnix && !a.isFd,
      enforceOrigin := cfg.enforceOrigin,
      allowed := allowedOrigins cfg.origins a,
      pats := builtinPats ++ modulePats }

-- ---------------------------------------------------------------- request
structure Req where
  method : Bytes
  host : Bytes                      -- r.Host
  path : Bytes                      -- r.URL.Path (the only field an internal redirect rewrites)
  upgrade : List Bytes              -- values of the Upgrade header, in order
  origin : Bytes                    -- r.Header.Get("Origin")  ("" when absent)
  referer : Bytes                   -- r.Header.Get("Referer")
  originUrl : Url                   -- table: url.Parse(origin), cleared
  refererUrl : Url                  -- table: url.Parse(referer), cleared
  tls : Option (List (List Nat))    -- r.TLS.VerifiedChains as key ids; `none` = r.TLS == nil
deriving DecidableEq, Repr

def Req.withPath (r : Req) (p : Bytes) : Req := { r with path := p }

-- ---------------------------------------------------------------- enforceAccessControls
inductive AclRes where
  | allow | methodDenied | pathDenied
deriving DecidableEq, Repr

def methodOK (p : Perm) (method : Bytes) : Bool :=
  match p.methods with
  | none => true
  | some ms => ms.contains method

def pathOK (p : Perm) (path : Bytes) : Bool :=
  match p.paths with
  | none => true
  | some ps => ps.any (fun allowedPath => hasPrefix path allowedPath)

/-- `for _, accessPerm := range adminAccess.Permissions { … }` -/
def permsCheck (method path : Bytes) : List Perm → AclRes
  | [] => .allow
  | p :: ps =>
    if !methodOK p method then .methodDenied
    else if !pathOK p path then .pathDenied
    else permsCheck method path ps

/-- `for _, adminAccess := range remote.AccessControl` for one peer certificate -/
def accessScan (method path : Bytes) (k : Nat) : List Access → Option AclRes
  | [] => none
  | a :: as => if a.keys.contains k then some (permsCheck method path a.perms) else accessScan method path k as

/-- `for _, peerCert := range chain` -/
def certScan (acl : List Access) (method path : Bytes) : List Nat → Option AclRes
  | [] => none
  | k :: ks =>
    match accessScan method path k acl with
    | some r => some r
    | none => certScan acl method path ks

/-- `for _, chain := range r.TLS.VerifiedChains`; `none` = fell through to the final 401 -/
def chainScan (acl : List Access) (method path : Bytes) : List (List Nat) → Option AclRes
  | [] => none
  | c :: cs =>
    match certScan acl method path c with
    | some r => some r
    | none => chainScan acl method path cs

-- ---------------------------------------------------------------- the gate (one pass of serveHTTP before the mux)
inductive Refusal where
  | aclMethod | aclPath | aclIdentity     -- 403 / 403 / 401
  | websocket                             -- 500 (plain error)
  | host | originMissing | originDenied   -- 403
deriving DecidableEq, Repr

inductive Gate where
  | pass (cors : Nat)      -- 0: no CORS header, 1: Allow-Origin, 2: Allow-Origin + Allow-Methods/-Headers/-Credentials
  | refuse (why : Refusal)
  | panic                  -- nil dereference of r.TLS on the remote endpoint
deriving DecidableEq, Repr

/-- `r.Header.Get("Upgrade")`: the first value -/
def firstUpgrade (r : Req) : Bytes :=
  match r.upgrade with
  | [] => []
  | v :: _ => v

def lowerByte (b : UInt8) : UInt8 := if 65 ≤ b ∧ b ≤ 90 then b + 32 else b
/-- `strings.ToLower` on an ASCII string (the protocol only carries ASCII Upgrade values) -/
def asciiLower (s : Bytes) : Bytes := s.map lowerByte

/-- the websocket test of `serveHTTP` as it is now (since /repo cc84cea):
    `slices.ContainsFunc(r.Header.Values("Upgrade"), v ↦ strings.Contains(strings.ToLower(v), "websocket"))` -/
def wsCheck (r : Req) : Bool := r.upgrade.any (fun v => containsSub (asciiLower v) sWebsocket)

/-- the test as it was before cc84cea: `strings.Contains(r.Header.Get("Upgrade"), "websocket")` —
    first value only, case-sensitive.  Kept for `websocket_old_code_fails`. -/
def wsCheckOld (r : Req) : Bool := containsSub (firstUpgrade r) sWebsocket

def checkHost (h : Handler) (r : Req) : Bool := h.allowed.any (fun a => r.host == a.host)

/-- `getOrigin`: Origin, else Referer; the parse result is the table value -/
def getOrigin (r : Req) : Url := if r.origin = [] then r.refererUrl else r.originUrl

def originMatches (u : Url) (a : Allowed) : Bool :=
  !(a.scheme != [] && u.scheme != a.scheme) && u.host == a.host

def originAllowed (h : Handler) (u : Url) : Bool := h.allowed.any (originMatches u)

/-- the remote half of the gate; `none` = continue with the local checks -/
def aclGate (h : Handler) (r : Req) : Option Gate :=
  match h.remote with
  | none => none
  | some acl =>
    match r.tls with
    | none => some .panic
    | some chains =>
      match chainScan acl r.method r.path chains with
      | some .allow => none
      | some .methodDenied => some (.refuse .aclMethod)
      | some .pathDenied => some (.refuse .aclPath)
      | none => some (.refuse .aclIdentity)

/-- `originStr` of `getOrigin`: the Origin header, else the Referer header ("" = neither) -/
def originStr (r : Req) : Bytes := if r.origin = [] then r.referer else r.origin

/-- the checks after the ACL.  `ws` is the websocket test; `strictMissing` says whether
    `checkOrigin` refuses an absent Origin/Referer outright (`originStr == "" || origin == nil`, the
    code as it is now) or only an unparsable one (`origin == nil`, the code before the fix, for
    which the absent header is the empty URL and goes on to `originAllowed`). -/
def localGateWith (ws : Req → Bool) (strictMissing : Bool) (h : Handler) (r : Req) : Gate :=
  if ws r then .refuse .websocket
  else if h.enforceHost && !checkHost h r then .refuse .host
  else if h.enforceOrigin then
    (if (strictMissing && originStr r == []) || !(getOrigin r).ok then .refuse .originMissing
     else if !originAllowed h (getOrigin r) then .refuse .originDenied
     else .pass (if r.method = sOPTIONS then 2 else 1))
  else .pass 0

def localGate (h : Handler) (r : Req) : Gate := localGateWith wsCheck true h r

def gate (h : Handler) (r : Req) : Gate :=
  match aclGate h r with
  | some g => g
  | none => localGate h r

/-- the gate with the websocket test of the old code (before cc84cea) -/
def gateOld (h : Handler) (r : Req) : Gate :=
  match aclGate h r with
  | some g => g
  | none => localGateWith wsCheckOld false h r

/-- the gate with the `checkOrigin` of the old code (absent header not refused outright) -/
def gateOldOrigin (h : Handler) (r : Req) : Gate :=
  match aclGate h r with
  | some g => g
  | none => localGateWith wsCheck false h r

/-- which top-level statement of `serveHTTP` answers the request: the name of the refusing check,
    or "mux" when all pass (names as in the regenerated `Gen.adminGateSequence`) -/
def answeredBy (h : Handler) (r : Req) : String :=
  match gate h r with
  | .refuse .aclMethod => "acl" | .refuse .aclPath => "acl" | .refuse .aclIdentity => "acl"
  | .refuse .websocket => "websocket"
  | .refuse .host => "host"
  | .refuse .originMissing => "origin" | .refuse .originDenied => "origin"
  | .pass _ => "mux"
  | .panic => "panic"

-- ---------------------------------------------------------------- http.ServeMux (restricted pattern forms)
inductive Route where
  | handler (pat : Bytes)
  | redirect               -- 301: unclean path, or "/tree" → "/tree/"
  | notFound               -- 404 from the mux itself
deriving DecidableEq, Repr

def okSeg (s : Bytes) : Bool := s != [] && s != sDot && s != sDotDot

/-- all elements but the last must be proper names; the last may be empty (trailing slash) -/
def okSegs : List Bytes → Bool
  | [] => true
  | [s] => s = [] || okSeg s
  | s :: t => okSeg s && okSegs t

/-- the mux serves `p` itself (instead of redirecting to the cleaned path) -/
def isCleanPath (p : Bytes) : Bool :=
  match p with
  | [] => false
  | c :: rest => c = slash && okSegs (splitSlash rest)

def isSubtree (pat : Bytes) : Bool := pat.getLast? = some slash

def matchesPat (pat p : Bytes) : Bool := if isSubtree pat then hasPrefix p pat else p == pat

/-- the most specific (= longest) registered pattern matching `p` -/
def bestMatch (p : Bytes) : List Bytes → Option Bytes → Option Bytes
  | [], acc => acc
  | pat :: pats, acc =>
    if matchesPat pat p then
      match acc with
      | none => bestMatch p pats (some pat)
      | some b => if b.length < pat.length then bestMatch p pats (some pat) else bestMatch p pats acc
    else bestMatch p pats acc

/-- `matchOrRedirect` on a path the mux takes as it is: an exactly registered path wins, "/tree" is
    redirected to a registered "/tree/", else the longest matching subtree pattern -/
def routeRaw (pats : List Bytes) (p : Bytes) : Route :=
  if pats.contains p then .handler p
  else if p.getLast? != some slash && pats.contains (p ++ [slash]) then .redirect
  else match bestMatch p pats none with
    | some pat => .handler pat
    | none => .notFound

/-- every method but CONNECT: the path is canonicalised first, an unclean one is redirected -/
def route (pats : List Bytes) (p : Bytes) : Route :=
  if !isCleanPath p then .redirect else routeRaw pats p

def sCONNECT : Bytes := [67, 79, 78, 78, 69, 67, 84]   -- "CONNECT"

/-- CONNECT requests are not canonicalised ("//", "." and ".." segments are matched as they are).
    The routing tree drops the first byte of the path without looking at it (`firstSegment`), so a
    path that lost its leading slash in an `/id/` rewrite is matched as if it had one; the empty
    path matches nothing, but is redirected to "/" when "/" is registered. -/
def routeConnect (pats : List Bytes) (p : Bytes) : Route :=
  match p with
  | [] => if pats.contains [slash] then .redirect else .notFound
  | _ :: t => routeRaw pats (slash :: t)

-- ---------------------------------------------------------------- handleConfigID
inductive IdRes where
  | badRequest | unknownId
  | redirect (newPath : Bytes)
deriving DecidableEq, Repr

abbrev Index := List (Bytes × Bytes)   -- rawCfgIndex: id ↦ expanded path

def lookupId (idx : Index) (id : Bytes) : Option Bytes := (idx.find? (·.1 = id)).map (·.2)

def sConfigRoot : Bytes := [47, 99, 111, 110, 102, 105, 103]   -- "/config"

/-- `path.Join` drops a trailing slash, but the config as a whole is only served at "/config/"
    (since /repo dc51022): `if r.URL.Path == "/"+rawConfigKey { r.URL.Path += "/" }` -/
def topLevelSlash (p : Bytes) : Bytes := if p = sConfigRoot then p ++ [slash] else p

def handleConfigID (idx : Index) (path : Bytes) : IdRes :=
  match splitSlash path with
  | p0 :: p1 :: p2 :: rest =>
    if p2 = [] then .badRequest
    else if p0 ≠ [] || p1 ≠ sId then .badRequest
    else match lookupId idx p2 with
      | none => .unknownId
      | some expanded => .redirect (topLevelSlash (pathJoin (expanded :: rest)))
  | _ => .badRequest

/-- the paths `handleConfigID` alone would produce from `p`, ignoring the gate and the mux (an
    over-approximation of the real redirect chain); `none` = longer than `n` hops.  Used by the
    driver and the harness to keep cyclic indexes (on which the Go code recurses for ever) out of
    the protocol, and by `serve_never_runs_out_of_fuel`. -/
def idChain (idx : Index) : Nat → Bytes → Option (List Bytes)
  | 0, p => match handleConfigID idx p with
    | .redirect _ => none
    | _ => some [p]
  | n + 1, p => match handleConfigID idx p with
    | .redirect np => (idChain idx n np).map (p :: ·)
    | _ => some [p]

-- ---------------------------------------------------------------- serveHTTP
/-- one invocation of a registered handler: which route, with which `r.URL.Path` -/
structure Dispatch where
  pat : Bytes
  path : Bytes
deriving DecidableEq, Repr

inductive Final where
  | refused (why : Refusal)
  | handled (pat : Bytes)      -- a handler other than a redirecting /id/ ran and answered
  | idBadRequest | idUnknown   -- the /id/ handler answered 400 / 404 itself
  | muxRedirect | muxNotFound
  | panic
  | fuel                       -- model artefact: more internal redirects than the budget
deriving DecidableEq, Repr

structure Result (σ : Type) where
  trace : List Dispatch        -- every handler invocation, in order
  final : Final
  path : Bytes                 -- r.URL.Path when the request ended
  cors : Nat                   -- CORS headers present on the response (0/1/2)
  state : σ

/-- `serveHTTP`, re-entered through `handleError` on `errInternalRedir`.
    `H pat r s` is the effect on the server state of the handler registered for `pat`
    (anything: config mutation, process stop, a module's own state).  `mux method path` is the
    routing decision of the `http.ServeMux` the handler wraps — a parameter, so that the theorems
    hold for every route table a module can register (methods, wildcards, host patterns …); the
    driver instantiates it with `muxOf` below.  `fuel` bounds the number of
    passes; the Go code has no bound (it recurses as long as `/id/` targets lead to `/id/`). -/
def serve {σ : Type} (H : Bytes → Req → σ → σ) (mux : Bytes → Bytes → Route) (h : Handler) (idx : Index) :
    Nat → Req → σ → List Dispatch → Nat → Result σ
  | 0, r, s, tr, c => ⟨tr, .fuel, r.path, c, s⟩
  | fuel + 1, r, s, tr, c =>
    match gate h r with
    | .panic => ⟨tr, .panic, r.path, c, s⟩
    | .refuse why => ⟨tr, .refused why, r.path, c, s⟩
    | .pass c' =>
      match mux r.method r.path with
      | .redirect => ⟨tr, .muxRedirect, r.path, max c c', s⟩
      | .notFound => ⟨tr, .muxNotFound, r.path, max c c', s⟩
      | .handler pat =>
        if pat = pId then
          match handleConfigID idx r.path with
          | .badRequest => ⟨tr ++ [⟨pat, r.path⟩], .idBadRequest, r.path, max c c', s⟩
          | .unknownId => ⟨tr ++ [⟨pat, r.path⟩], .idUnknown, r.path, max c c', s⟩
          | .redirect np => serve H mux h idx fuel (r.withPath np) s (tr ++ [⟨pat, r.path⟩]) (max c c')
        else ⟨tr ++ [⟨pat, r.path⟩], .handled pat, r.path, max c c', H pat r s⟩

/-- external entry point `adminHandler.ServeHTTP` -/
def serveHTTP {σ : Type} (H : Bytes → Req → σ → σ) (mux : Bytes → Bytes → Route) (h : Handler)
    (idx : Index) (fuel : Nat) (r : Req) (s : σ) : Result σ :=
  serve H mux h idx fuel r s [] 0

/-- the mux `newAdminHandler` fills: Go's ServeMux on the registered "/exact" and "/subtree/"
    patterns (the method matters only through CONNECT, which is not canonicalised) -/
def muxOf (h : Handler) : Bytes → Bytes → Route :=
  fun m p => if m = sCONNECT then routeConnect h.pats p else route h.pats p

/-- the handler as `newAdminHandler` builds it: gate + its own mux -/
def serveReal {σ : Type} (H : Bytes → Req → σ → σ) (h : Handler) (idx : Index) (fuel : Nat)
    (r : Req) (s : σ) : Result σ :=
  serveHTTP H (muxOf h) h idx fuel r s

end CaddyModel.C13
