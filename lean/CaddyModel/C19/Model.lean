/-
C19 — executable model of the code that exists.

  modules/caddytls/connpolicy.go   ConnectionPolicies.TLSConfig: the `indexedBySNI` map built when
                                   `len(cp) > 30` (guarded by the type assertion `m.(MatchServerName)`),
                                   and the `getConfigForClient` closure (candidate selection, policy loop,
                                   `continue policyLoop` on the first matcher that says no, `Drop`).
  modules/caddytls/matchers.go     MatchServerName.Match (certmagic.MatchWildcard on each name);
                                   remote_ip / local_ip / sni_regexp are opaque: their verdicts for a
                                   given hello are part of the hello (observed on the real matchers).
  modules/caddyhttp/app.go         `StrictSNIHost == nil && hasTLSClientAuth()` ⇒ strict.
  modules/caddyhttp/server.go      enforcementHandler (net.SplitHostPort, `!isASCII(sni) || !strings.EqualFold(sni, host)` ⇒ 421).
  modules/caddyhttp/matchers.go    MatchHost's host extraction (SplitHostPort, else trim one `[` / `]`),
                                   which decides the site a request is routed to.

Names are sequences of SYMBOLS, one `UInt8` each: 0–127 are the ASCII bytes; 128 = `ſ` U+017F
(LATIN SMALL LETTER LONG S), 129 = `K` U+212A (KELVIN SIGN), 130 = `É`, 131 = `é`.  The driver
decodes UTF-8 into symbols and rejects every other non-ASCII byte sequence; all delimiters the code
looks for (`.`, `*`, `:`, `[`, `]`) are ASCII and UTF-8 is self-synchronising, so Go's byte-wise
`Split`/`SplitHostPort`/`==`/map keys act on symbol sequences exactly as on the bytes.  On this
alphabet `strings.ToLower` (what certmagic.MatchWildcard uses) and `strings.EqualFold` (what the
strict check and the host matcher use) are DIFFERENT equivalences: `ToLower("ſ") = "ſ"` but
`EqualFold("ſ", "s")` (Unicode simple folding: s ↔ S ↔ ſ, k ↔ K ↔ K).
-/
import CaddyModel.Util.Hex
import CaddyModel.Gen.Consts

namespace CaddyModel.C19

/-! ## Go `strings` on the symbol alphabet -/

def symLongS : UInt8 := 128
def symKelvin : UInt8 := 129
def symEacuteUp : UInt8 := 130
def symEacute : UInt8 := 131

/-- `unicode.ToLower` of one symbol: `A–Z` ↦ `a–z`, `K` ↦ `k`, `É` ↦ `é`; `ſ` is already lower case -/
def lowerByte (b : UInt8) : UInt8 :=
  if 65 ≤ b ∧ b ≤ 90 then b + 32 else if b = 129 then 107 else if b = 130 then 131 else b

/-- representative of the symbol's `unicode.SimpleFold` orbit: as `lowerByte`, and `ſ` ↦ `s` -/
def foldByte (b : UInt8) : UInt8 := if b = 128 then 115 else lowerByte b

/-- `strings.ToLower` -/
def lower (s : Bytes) : Bytes := s.map lowerByte

/-- both strings mapped to orbit representatives, symbol by symbol -/
def foldKey (s : Bytes) : Bytes := s.map foldByte

/-- `strings.EqualFold`: same length and symbol-wise in the same simple-fold orbit -/
def equalFold (a b : Bytes) : Bool := foldKey a == foldKey b

def cStar : UInt8 := 42
def cDot : UInt8 := 46
def cColon : UInt8 := 58
def cLbr : UInt8 := 91
def cRbr : UInt8 := 93

/-- `strings.Split(s, ".")` — never empty -/
def splitDot : Bytes → List Bytes
  | [] => [[]]
  | c :: rest =>
    if c = cDot then [] :: splitDot rest
    else match splitDot rest with
      | [] => [[c]]
      | l :: ls => (c :: l) :: ls

/-- `strings.Join(labels, ".")` -/
def joinDot : List Bytes → Bytes
  | [] => []
  | [l] => l
  | l :: m :: ls => l ++ cDot :: joinDot (m :: ls)

/-- certmagic.MatchWildcard's label loop. `done` are the labels already visited — every non-empty
    one of them has been overwritten with `*` **and stays overwritten** (the Go loop mutates
    `labels` in place), `todo` the labels still to visit. -/
def wildLoop (w : Bytes) : List Bytes → List Bytes → Bool
  | _, [] => false
  | done, l :: rest =>
    if l.isEmpty then wildLoop w (done ++ [l]) rest
    else if joinDot (done ++ ([cStar] :: rest)) = w then true
    else wildLoop w (done ++ [[cStar]]) rest

/-- certmagic.MatchWildcard(subject, wildcard) -/
def matchWildcard (subject wildcard : Bytes) : Bool :=
  if lower subject = lower wildcard then true
  else if !(lower wildcard).contains cStar then false
  else wildLoop (lower wildcard) [] (splitDot (lower subject))

/-! ## connection policies -/

/-- a handshake matcher of one policy -/
inductive Matcher where
  /-- `tls.handshake_match.sni` with its configured names -/
  | sni (names : List Bytes)
  /-- remote_ip / local_ip / sni_regexp: `id` selects the verdict the hello carries for it -/
  | other (id : Nat)

/-- what a ClientHello looks like to the matchers -/
structure Hello where
  sni : Bytes
  verdict : Nat → Bool

/-- MatchServerName.Match: first name that wildcard-matches -/
def sniMatch (sni : Bytes) : List Bytes → Bool
  | [] => false
  | n :: ns => if matchWildcard sni n then true else sniMatch sni ns

def Matcher.eval (h : Hello) : Matcher → Bool
  | .sni names => sniMatch h.sni names
  | .other id => h.verdict id

structure Policy where
  matchers : List Matcher
  drop : Bool
  /-- `ClientAuthentication != nil && ClientAuthentication.Active()` -/
  clientAuth : Bool

/-- `for _, matcher := range pol.matchers { if !matcher.Match(hello) { continue policyLoop } }` -/
def matchersLoop (h : Hello) : List Matcher → Bool
  | [] => true
  | m :: ms => if !m.eval h then false else matchersLoop h ms

/-- outcome of GetConfigForClient; `i` is the position of the policy in the configured list -/
inductive Choice where
  | config (i : Nat)
  | dropped (i : Nat)
  | noMatch
  deriving DecidableEq, Repr

/-- the `policyLoop` over the candidate policies (each with its position in the configured list) -/
def policyLoop (h : Hello) : List (Nat × Policy) → Choice
  | [] => .noMatch
  | (i, p) :: rest =>
    if matchersLoop h p.matchers then (if p.drop then .dropped i else .config i)
    else policyLoop h rest

/-- policies paired with their positions, counting from `k` -/
def enumFrom (k : Nat) : List Policy → List (Nat × Policy)
  | [] => []
  | p :: ps => (k, p) :: enumFrom (k + 1) ps

/-- Go `map[string]ConnectionPolicies` as an association list -/
abbrev Index := List (Bytes × List (Nat × Policy))

/-- `indexedBySNI[k] = append(indexedBySNI[k], v)` -/
def idxAppend (k : Bytes) (v : Nat × Policy) : Index → Index
  | [] => [(k, [v])]
  | (k', vs) :: rest => if k' = k then (k', vs ++ [v]) :: rest else (k', vs) :: idxAppend k v rest

/-- `indexedBySNI[k]` with the comma-ok -/
def idxGet (k : Bytes) : Index → Option (List (Nat × Policy))
  | [] => none
  | (k', vs) :: rest => if k' = k then some vs else idxGet k rest

/-- `for _, sniName := range sni { indexedBySNI[sniName] = append(…, p) }` -/
def indexNames (v : Nat × Policy) : Index → List Bytes → Index
  | m, [] => m
  | m, n :: ns => indexNames v (idxAppend n v m) ns

/-- `for _, m := range p.matchers { if sni, ok := m.(MatchServerName); ok { … } }`.
    `live` says whether that type assertion can succeed for a provisioned sni matcher
    (on the pinned tree it cannot: the module value is a `*MatchServerName`). -/
def indexMatchers (live : Bool) (v : Nat × Policy) : Index → List Matcher → Index
  | m, [] => m
  | m, .sni names :: ms => indexMatchers live v (if live then indexNames v m names else m) ms
  | m, .other _ :: ms => indexMatchers live v m ms

/-- `for _, p := range cp { … }` -/
def indexPolicies (live : Bool) : Index → List (Nat × Policy) → Index
  | m, [] => m
  | m, v :: ps => indexPolicies live (indexMatchers live v m v.2.matchers) ps

/-- `len(cp) > 30`: the constant is REGENERATED from connpolicy.go on every run (Gen/Consts.lean,
    tools/extract); 30 only if the extractor cannot find the comparison. Nothing below depends on
    its value. -/
def sniIndexThreshold : Nat :=
  match Gen.sniIndexThreshold with
  | some n => n
  | none => 30

/-- the map built once by `TLSConfig` -/
def buildIndex (live : Bool) (ps : List Policy) : Index :=
  if ps.length > sniIndexThreshold then indexPolicies live [] (enumFrom 0 ps) else []

/-- `possiblePolicies` -/
def candidates (live : Bool) (ps : List Policy) (h : Hello) : List (Nat × Policy) :=
  match idxGet h.sni (buildIndex live ps) with
  | some c => c
  | none => enumFrom 0 ps

/-- `getConfigForClient` -/
def choose (live : Bool) (ps : List Policy) (h : Hello) : Choice :=
  policyLoop h (candidates live ps h)

/-! ## strict SNI-Host -/

/-- `bytealg.IndexByteString` -/
def indexByte (c : UInt8) : Bytes → Option Nat
  | [] => none
  | x :: xs => if x = c then some 0 else (indexByte c xs).map (· + 1)

/-- `bytealg.LastIndexByteString` -/
def lastIndexByte (c : UInt8) : Bytes → Option Nat
  | [] => none
  | x :: xs =>
    match lastIndexByte c xs with
    | some i => some (i + 1)
    | none => if x = c then some 0 else none

/-- tail of net.SplitHostPort: the two "unexpected bracket" checks, then the port -/
def shpFinish (hp host : Bytes) (i j k : Nat) : Option (Bytes × Bytes) :=
  if (hp.drop j).contains cLbr then none
  else if (hp.drop k).contains cRbr then none
  else some (host, hp.drop (i + 1))

/-- net.SplitHostPort; `none` = any of its errors -/
def splitHostPort (hp : Bytes) : Option (Bytes × Bytes) :=
  match lastIndexByte cColon hp with
  | none => none
  | some i =>
    if hp.head? = some cLbr then
      match indexByte cRbr hp with
      | none => none
      | some e =>
        if e + 1 = hp.length then none
        else if e + 1 = i then shpFinish hp ((hp.take e).drop 1) i 1 (e + 1)
        else none
    else if (hp.take i).contains cColon then none
    else shpFinish hp (hp.take i) i 0 0

/-- server.go enforcementHandler: `hostname, _, err := net.SplitHostPort(r.Host); if err != nil { hostname = r.Host }` -/
def enforcementHost (host : Bytes) : Bytes :=
  match splitHostPort host with
  | some (h, _) => h
  | none => host

def trimPrefixByte (c : UInt8) : Bytes → Bytes
  | [] => []
  | x :: xs => if x = c then xs else x :: xs

def trimSuffixByte (c : UInt8) (s : Bytes) : Bytes :=
  if s.getLast? = some c then s.dropLast else s

/-- caddyhttp MatchHost: same split, but on error one leading `[` and one trailing `]` are removed -/
def routingHost (host : Bytes) : Bytes :=
  match splitHostPort host with
  | some (h, _) => h
  | none => trimSuffixByte cRbr (trimPrefixByte cLbr host)

/-- `Server.hasTLSClientAuth` -/
def hasTLSClientAuth (ps : List Policy) : Bool := ps.any (·.clientAuth)

/-- value of `s.StrictSNIHost != nil && *s.StrictSNIHost` after App.Provision -/
def effectiveStrict (cfg : Option Bool) (ps : List Policy) : Bool :=
  match cfg with
  | some b => b
  | none => hasTLSClientAuth ps

/-- MatchHost's label loop for a pattern that contains `*`: the label counts must agree, a pattern
    label that is exactly `*` matches any NON-EMPTY label, every other label must be EqualFold-equal -/
def labelsMatch : List Bytes → List Bytes → Bool
  | [], [] => true
  | p :: ps, l :: ls =>
    if p = [cStar] then (if l.isEmpty then false else labelsMatch ps ls)
    else if equalFold p l then labelsMatch ps ls
    else false
  | _, _ => false

/-- caddyhttp MatchHost for one configured host: wildcard patterns label by label, others by EqualFold -/
def hostMatch (rh site : Bytes) : Bool :=
  if site.contains cStar then labelsMatch (splitDot site) (splitDot rh) else equalFold rh site

/-- the routes the harness configures: one host route per site (exact name or wildcard pattern), then a catch-all.
    `some k` = handler of site `k`, `none` = catch-all handler. -/
def routeFrom (k : Nat) (rh : Bytes) : List Bytes → Option Nat
  | [] => none
  | s :: ss => if hostMatch rh s then some k else routeFrom (k + 1) rh ss

def route (sites : List Bytes) (host : Bytes) : Option Nat := routeFrom 0 (routingHost host) sites

inductive Served where
  /-- `Error(http.StatusMisdirectedRequest, …)`: the handler chain is not entered -/
  | misdirected
  /-- `next.ServeHTTP`: the route chain runs and this site's handler is entered -/
  | handler (site : Option Nat)
  deriving DecidableEq, Repr

/-- `isASCII(r.TLS.ServerName)` (RFC 6066: a server_name is ASCII; IDNs travel as A-labels) -/
def isAscii (s : Bytes) : Bool := s.all (· < 128)

/-- enforcementHandler followed by the compiled routes; `tlsSNI = none` ⇔ `r.TLS == nil` -/
def serve (strict : Bool) (sites : List Bytes) (tlsSNI : Option Bytes) (host : Bytes) : Served :=
  match tlsSNI with
  | none => .handler (route sites host)
  | some sni =>
    if strict && !(isAscii sni && equalFold sni (enforcementHost host)) then .misdirected
    else .handler (route sites host)

end CaddyModel.C19
