/-
C19 — proved counter-examples (kernel-evaluated) and their protocol lines.
Imports only Model/Spec/Driver so that `drv_C19` links independently of the proofs.
-/
import CaddyModel.C19.Spec
import CaddyModel.C19.Driver
import CaddyModel.C19.ClientAuth
import CaddyModel.C19.Quic

namespace CaddyModel.C19

/-! ### a populated SNI index is not first-match -/

def wA : Bytes := [97, 46, 116, 101, 115, 116]        -- "a.test"
def wZ : Bytes := [122, 122, 46, 116, 101, 115, 116]  -- "zz.test"

/-- one policy more than the index threshold (31 on the pinned tree): policy 0 has no matchers
    (catch-all), policy 1 is `sni a.test`, every other one `sni zz.test` -/
def trapPolicies : List Policy :=
  (List.range (sniIndexThreshold + 1)).map fun i =>
    if i = 0 then ⟨[], false, false⟩
    else if i = 1 then ⟨[.sni [wA]], false, false⟩
    else ⟨[.sni [wZ]], false, false⟩

def trapHello : Hello := ⟨wA, fun _ => false⟩

/-- First match is the catch-all policy 0; a populated index answers policy 1. -/
theorem live_index_breaks_first_match : ∃ ps h, choose true ps h ≠ firstMatch ps h :=
  ⟨trapPolicies, trapHello, by decide⟩

example : firstMatch trapPolicies trapHello = .config 0 := by decide
example : choose true trapPolicies trapHello = .config 1 := by decide
example : choose false trapPolicies trapHello = .config 0 := by decide
example : indexHarmless trapPolicies trapHello = false := by decide

/-! ### strict SNI-Host does not bind the routing host when the Host is bracketed without a port -/

def wSecret : Bytes := [115, 101, 99, 114, 101, 116, 46, 116, 101, 115, 116]   -- "secret.test"
def wBracketed : Bytes := 91 :: wSecret ++ [93]                                -- "[secret.test]"

/-- negation of the full statement kept in `Props.strict_binds_routing_host_partial`:
    SNI `[secret.test]`, Host `[secret.test]`, strict checking on — the request is routed to the
    handler of site `secret.test`, which is not the SNI. -/
theorem strict_binds_routing_host_full_fails :
    ¬ ∀ (sites : List Bytes) (sni host : Bytes) (k : Nat),
        serve true sites (some sni) host = .handler (some k) →
        ∃ site, sites[k]? = some site ∧ foldSame sni site := by
  intro hall
  obtain ⟨site, h1, h2⟩ := hall [wSecret] wBracketed wBracketed 0 (by decide)
  simp at h1; subst h1
  revert h2; decide

example : bracketTrimmed wBracketed = true := by decide
example : serve true [wSecret] (some wBracketed) wBracketed = .handler (some 0) := by decide
-- with a port the two computations agree and the request is refused
example : serve true [wSecret] (some wBracketed) (wBracketed ++ [58, 52, 52, 51]) = .misdirected := by decide

/-! ### regression: before 110cdf0 strict SNI-Host (EqualFold alone) did not bind the TLS policy (ToLower) for the SNI `ſecret.test` -/

def wLongSecret : Bytes := symLongS :: [101, 99, 114, 101, 116, 46, 116, 101, 115, 116]   -- "ſecret.test"

/-- a client-auth policy for `secret.test`, then a catch-all without client auth -/
def wPolicies : List Policy := [⟨[.sni [wSecret]], false, true⟩, ⟨[], false, false⟩]

/-- `serve` as it was before /repo commit 110cdf0: the strict check is `EqualFold` alone -/
def serveOld (strict : Bool) (sites : List Bytes) (tlsSNI : Option Bytes) (host : Bytes) : Served :=
  match tlsSNI with
  | none => .handler (route sites host)
  | some sni =>
    if strict && !equalFold sni (enforcementHost host) then .misdirected
    else .handler (route sites host)

/-- the old check did not bind the routed site to a name that selects the SNI's policies … -/
theorem strict_unicode_fold_old_code_fails :
    ¬ ∀ (sites : List Bytes) (sni host : Bytes) (k : Nat), noBrackets sni = true →
        serveOld true sites (some sni) host = .handler (some k) →
        ∃ site, sites[k]? = some site ∧ namesSameHost sni site := by
  intro hall
  obtain ⟨site, h1, h2⟩ := hall [wSecret] wLongSecret wSecret 0 (by decide) (by decide)
  simp at h1; subst h1
  revert h2; decide

/-- … so the no-bypass clause failed: strict SNI-Host on by default (client-auth policy present),
    the connection with SNI `ſecret.test` gets the catch-all policy 1, and its request with
    `Host: secret.test` was routed to the site whose own name gets the client-auth policy 0. -/
theorem client_auth_not_bypassed_old_code_fails :
    ∃ (ps : List Policy) (sites : List Bytes) (sni host site : Bytes) (v : Nat → Bool) (k : Nat),
      (∃ p ∈ ps, p.clientAuth = true) ∧ noBrackets sni = true ∧ (∀ s ∈ sites, isAscii s = true) ∧
      serveOld (effectiveStrict none ps) sites (some sni) host = .handler (some k) ∧
      sites[k]? = some site ∧ choose false ps ⟨sni, v⟩ ≠ choose false ps ⟨site, v⟩ :=
  ⟨wPolicies, [wSecret], wLongSecret, wSecret, wSecret, fun _ => false, 0,
    ⟨_, List.mem_cons_self .., rfl⟩, by decide, by decide, by decide, by decide, by decide⟩

-- the code as it is now refuses the same request
example : serve (effectiveStrict none wPolicies) [wSecret] (some wLongSecret) wSecret = .misdirected := by decide
example : choose false wPolicies ⟨wLongSecret, fun _ => false⟩ = .config 1 := by decide
example : choose false wPolicies ⟨wSecret, fun _ => false⟩ = .config 0 := by decide
example : isAscii wLongSecret = false := by decide
-- the Kelvin sign is harmless: `K.t` lowers to `k.t`, so it selects the policy of `k.t`
example : choose false [⟨[.sni [[107, 46, 116]]], false, true⟩, ⟨[], false, false⟩] ⟨[129, 46, 116], fun _ => false⟩ = .config 0 := by decide

/-! ### regression: a wildcard host route used to match an EMPTY label, the TLS wildcard matcher never did -/

def wWildSecret : Bytes := [42, 46] ++ wSecret     -- "*.secret.test"
def wDotSecret : Bytes := 46 :: wSecret            -- ".secret.test"

/-- client-auth policy for `*.secret.test`, then a catch-all without client auth -/
def wWildPolicies : List Policy := [⟨[.sni [wWildSecret]], false, true⟩, ⟨[], false, false⟩]

/-- the label loop as it was before the host-matcher fix: `*` matched ANY label, an empty one too -/
def labelsMatchOld : List Bytes → List Bytes → Bool
  | [], [] => true
  | p :: ps, l :: ls =>
    if p = [cStar] then labelsMatchOld ps ls
    else if equalFold p l then labelsMatchOld ps ls
    else false
  | _, _ => false

def hostMatchOld (rh site : Bytes) : Bool :=
  if site.contains cStar then labelsMatchOld (splitDot site) (splitDot rh) else equalFold rh site

def routeFromOld (k : Nat) (rh : Bytes) : List Bytes → Option Nat
  | [] => none
  | s :: ss => if hostMatchOld rh s then some k else routeFromOld (k + 1) rh ss

/-- `serve` with the old host matcher -/
def serveWildOld (strict : Bool) (sites : List Bytes) (tlsSNI : Option Bytes) (host : Bytes) : Served :=
  match tlsSNI with
  | none => .handler (routeFromOld 0 (routingHost host) sites)
  | some sni =>
    if strict && !(isAscii sni && equalFold sni (enforcementHost host)) then .misdirected
    else .handler (routeFromOld 0 (routingHost host) sites)

/-- with the old host matcher the no-bypass clause failed for a WILDCARD client-auth site: strict
    SNI-Host on by default, SNI `.secret.test` ASCII, bracket-free and equal to the Host, yet the
    connection gets the catch-all policy 1 (MatchWildcard skips the empty label) while the request
    was routed to the site `*.secret.test`, whose proper instances get the client-auth policy 0.
    Reproduced then with a real handshake (wildcard certificate loaded); regression lines in corpus/C19. -/
theorem wildcard_empty_label_old_code_fails :
    ∃ (ps : List Policy) (sites : List Bytes) (sni host : Bytes) (v : Nat → Bool) (k : Nat),
      (∃ p ∈ ps, p.clientAuth = true) ∧ noBrackets sni = true ∧ isAscii sni = true ∧
      serveWildOld (effectiveStrict none ps) sites (some sni) host = .handler (some k) ∧
      sites[k]? = some wWildSecret ∧
      choose false ps ⟨sni, v⟩ = .config 1 ∧
      choose false ps ⟨120 :: sni, v⟩ = .config 0 :=
  ⟨wWildPolicies, [wWildSecret], wDotSecret, wDotSecret, fun _ => false, 0,
    ⟨_, List.mem_cons_self .., rfl⟩, by decide, by decide, by decide, by decide, by decide, by decide⟩

-- now the empty label is not matched on either side; a proper instance is matched on both
example : hostMatch wDotSecret wWildSecret = false ∧ matchWildcard wDotSecret wWildSecret = false := by decide
example : hostMatch (120 :: wDotSecret) wWildSecret = true ∧ matchWildcard (120 :: wDotSecret) wWildSecret = true := by decide
example : serve (effectiveStrict none wWildPolicies) [wWildSecret] (some wDotSecret) wDotSecret = .handler none := by decide

/-! ### regression: an IDN site written in Unicode form — the sni matcher used to keep the U-label, the host matcher converts -/

def wEacuteTest : Bytes := [symEacute, 46, 116, 101, 115, 116]                       -- "é.test"
def wIdnATest : Bytes := [120, 110, 45, 45, 57, 99, 97, 46, 116, 101, 115, 116]      -- "xn--9ca.test" = idna.ToASCII("é.test")

/-- the config says `é.test` twice: connection policy `sni é.test` with client auth, route
    `host é.test` (converted to `xn--9ca.test` by MatchHost.Provision); then a catch-all policy.
    BEFORE the sni-matcher fix the provisioned policy kept the name as written — this list; now
    MatchServerName.Provision converts it too (Driver.provisionedSniName) -/
def wIdnPolicies : List Policy := [⟨[.sni [wEacuteTest]], false, true⟩, ⟨[], false, false⟩]

/-- an ordinary client sends the A-label as SNI and Host: strict SNI-Host is on and passes, the
    request is routed to the site, yet NO client-auth policy accepts the connection — it gets the
    catch-all policy 1.  Reproduced then with a real handshake (e2e server 4) and, through the
    Caddyfile adapter, over TCP; regression lines in corpus/C19.  With the converted name
    `strict_binds_site_policy` applies (the provisioned site name is ASCII). -/
theorem idn_site_policy_never_matches_old_code_fails :
    ∃ (ps : List Policy) (sites : List Bytes) (sni host : Bytes) (v : Nat → Bool) (k : Nat),
      (∃ p ∈ ps, p.clientAuth = true) ∧ noBrackets sni = true ∧ isAscii sni = true ∧
      serve (effectiveStrict none ps) sites (some sni) host = .handler (some k) ∧
      sites[k]? = some wIdnATest ∧
      choose false ps ⟨sni, v⟩ = .config 1 ∧
      sniMatch sni [wEacuteTest] = false :=
  ⟨wIdnPolicies, [wIdnATest], wIdnATest, wIdnATest, fun _ => false, 0,
    ⟨_, List.mem_cons_self .., rfl⟩, by decide, by decide, by decide, by decide, by decide, by decide⟩

-- had the sni matcher been given the IDNA form, the client-auth policy would be the one chosen
example : choose false [⟨[.sni [wIdnATest]], false, true⟩, ⟨[], false, false⟩] ⟨wIdnATest, fun _ => false⟩ = .config 0 := by decide

/-! ### regression: one site block on two ports — both servers used to get the policy matcher of the last one -/

def wATest : Bytes := [97, 46, 116, 101, 115, 116]    -- "a.test"
def wBTest : Bytes := [98, 46, 116, 101, 115, 116]    -- "b.test"

/-- `a.test:443, b.test:8443 { tls { client_auth { mode require } } }`: what the adapter USED to give
    the server on `:443` (the policy object in the block's pile was shared and overwritten; it is
    copied per server now) — the client-auth policy carries `sni b.test` (the other server's name), then
    the catch-all -/
def wAliasedPolicies : List Policy := [⟨[.sni [wBTest]], false, true⟩, ⟨[], false, false⟩]

/-- on that server strict SNI-Host is on and a request for `a.test` reaches the site, yet the
    connection got the catch-all policy 1: the site whose block demands client certificates is
    served without one.  Reproduced then through the real adapter (`cf2` cases) and over TCP;
    regression line in corpus/C19. -/
theorem multi_port_block_aliasing_old_code_fails :
    ∃ (ps : List Policy) (sites : List Bytes) (sni host : Bytes) (v : Nat → Bool) (k : Nat),
      (∃ p ∈ ps, p.clientAuth = true) ∧ noBrackets sni = true ∧ isAscii sni = true ∧
      serve (effectiveStrict none ps) sites (some sni) host = .handler (some k) ∧
      sites[k]? = some sni ∧ choose false ps ⟨sni, v⟩ = .config 1 :=
  ⟨wAliasedPolicies, [wATest], wATest, wATest ++ [58, 52, 52, 51], fun _ => false, 0,
    ⟨_, List.mem_cons_self .., rfl⟩, by decide, by decide, by decide, by decide, by decide⟩

-- with its own name in the matcher (what the Caddyfile means) the client-auth policy is chosen
example : choose false [⟨[.sni [wATest]], false, true⟩, ⟨[], false, false⟩] ⟨wATest, fun _ => false⟩ = .config 0 := by decide

/-! ### HTTP/3: a cancel function that does not unregister leaves a CLOSED config active -/

/-- if only the config that created the listener gets the wrapping cancel function and later ones
    the bare `context.CancelFunc` (one return path of `addState` returning `cancel` instead of
    `wrappedCancel`), the first reload still works, but after the second one the ClientHello is
    answered by config 2 — whose server has stopped — although only config 3 runs: the policy list
    consulted over HTTP/3 is a stale one.  (The code hands out the wrapping function on both
    paths: `Props.quic_reloads_consult_newest`.) -/
theorem bare_cancel_consults_closed_config :
    ∃ s answers, qrun (fun k => k == 1) QState.init [] (reloads 2) = some (s, answers) ∧
      answers = [some 1, some 1, some 2, some 2, some 2] ∧ s.active = 2 ∧ s.openL = [3] :=
  ⟨_, _, rfl, by decide, by decide, by decide⟩

example : qrun allWrapped QState.init [] (reloads 2) =
    some (⟨1, [3], 3, [3]⟩, [some 1, some 1, some 2, some 2, some 3]) := by decide

/-! ### `Active()` is not stable under provisioning -/

/-- a block with verifier modules only: the built tls.Config requires a certificate, yet `Active()`
    asked after provisioning says false (`VerifiersRaw` was zeroed by LoadModule) -/
theorem active_after_provision_full_fails :
    ∃ c b, provisionPolicyCA (some c) = some b ∧ activeBefore (some c) = true ∧
      b.bits.auth = .requireAnyClientCert ∧ b.activeAfter = false :=
  ⟨⟨.none, .none, .none, .none, true, .empty⟩, _, rfl, by decide, by decide, by decide⟩

/-- observation (client-auth correctness, not this property): `provision` swallows the error of an
    unreadable PEM file / undecodable CA certificate (`return nil`), so the policy demands
    verification (`RequireAndVerifyClientCert`) with `ClientCAs == nil` — crypto/tls then verifies
    against the system roots. -/
theorem swallowed_ca_load_error :
    ∃ c b, c.pemFiles = .bad ∧ provisionPolicyCA (some c) = some b ∧
      b.bits.auth = .requireAndVerifyClientCert ∧ b.bits.clientCAs = false :=
  ⟨⟨.none, .none, .bad, .none, false, .empty⟩, _, rfl, rfl, by decide, by decide⟩

/-- Protocol lines of the counter-examples; replayed on the implementation first on every run.
    Line 1 is `trapPolicies`/`trapHello` (written with the liveness flag 0 that the pinned tree
    shows: there first-match holds, the answer is `c0`; on a tree whose index is populated the
    harness observes live=1, answers `c1`, and the first-match oracle fails on exactly this input).
    Line 2 is the bracketed-Host request (known finding). -/
def witnessLines : List String := [
  "C19 pol 0 -/~/~;-/612e74657374/~;-/7a7a2e74657374/~;-/7a7a2e74657374/~;-/7a7a2e74657374/~;-/7a7a2e74657374/~;-/7a7a2e74657374/~;-/7a7a2e74657374/~;-/7a7a2e74657374/~;-/7a7a2e74657374/~;-/7a7a2e74657374/~;-/7a7a2e74657374/~;-/7a7a2e74657374/~;-/7a7a2e74657374/~;-/7a7a2e74657374/~;-/7a7a2e74657374/~;-/7a7a2e74657374/~;-/7a7a2e74657374/~;-/7a7a2e74657374/~;-/7a7a2e74657374/~;-/7a7a2e74657374/~;-/7a7a2e74657374/~;-/7a7a2e74657374/~;-/7a7a2e74657374/~;-/7a7a2e74657374/~;-/7a7a2e74657374/~;-/7a7a2e74657374/~;-/7a7a2e74657374/~;-/7a7a2e74657374/~;-/7a7a2e74657374/~;-/7a7a2e74657374/~ 612e74657374/0/6/1000011010111110",
  "C19 enf t . 7365637265742e74657374 1/5b7365637265742e746573745d/5b7365637265742e746573745d",
  -- three reloads of an HTTP/3 listener, a ClientHello after every step (ready-made failing input for a stale active config)
  "C19 quic o1,p,o2,p,c1,p,o3,p,c2,p,o4,p,c3,p",
  -- verifier-only block (Active() flips with provisioning) and a CA file that does not load
  "C19 ca 1000010",
  "C19 ca 1002000"
]

/-! ### what "compare SNI and Host once per connection" would do

NOT the code (`Props.enforcement_is_per_request`, `enforcement_reads_only_sni_and_host_matches_source`,
`conn_context_values_match_source`): a flag in the connection context set by the first request that
passes the strict check and exempting later requests.  The SNI is constant for a connection, the
Host is not: after one request for the connection's own name, the client-auth site is served on
the same connection, although the connection's policy (catch-all) never asked for a certificate. -/
theorem checked_once_per_connection_fails :
    ∃ (ps : List Policy) (sites : List Bytes) (sni : Bytes) (hosts : List Bytes),
      choose false ps ⟨sni, fun _ => false⟩ = .config 1 ∧ ps[1]?.map (·.clientAuth) = some false ∧
      choose false ps ⟨e2eSecret, fun _ => false⟩ = .config 0 ∧ ps[0]?.map (·.clientAuth) = some true ∧
      serveConnMemoFrom (effectiveStrict none ps) sites ⟨sni, false⟩ hosts = [.handler (some 1), .handler (some 0)] ∧
      serveConn (effectiveStrict none ps) sites sni hosts = [.handler (some 1), .misdirected] :=
  ⟨e2ePolicies, e2eSites, e2ePublic, [e2ePublic, e2eSecret], by decide, by decide, by decide, by decide, by decide, by decide⟩

-- a first request is still checked by the memoised variant: single-request probes cannot tell the two apart
example : serveConnMemoFrom true e2eSites ⟨e2ePublic, false⟩ [e2eSecret] = serveConn true e2eSites e2ePublic [e2eSecret] := by decide

end CaddyModel.C19
