import CaddyModel.C19.Driver

namespace CaddyModel.C19
def witnessLines : List String := []
end CaddyModel.C19
