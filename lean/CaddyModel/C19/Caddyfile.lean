/-
C19 — Caddyfile glue: how `tls { client_auth { … } }` of a site block and the `servers
{ strict_sni_host … }` option become connection policies and the server's strict setting.

* `parseClientAuth`: `ClientAuthentication.UnmarshalCaddyfile` (modules/caddytls/connpolicy.go),
  transliterated at the abstraction of `ClientAuth.lean` (fields empty / loadable / not loadable):
  the order-dependent "cannot specify both" errors, files read at parse time, the final
  conversion of `trusted_ca_cert*` into an inline `ca` module.
* `strictOption`: `strict_sni_host [on|insecure_off]` (httpcaddyfile/serveroptions.go).
* `adaptPolicies`: what httpcaddyfile's server assembly yields for the fragment the harness
  generates (distinct exact host names, `auto_https off`): one policy `sni [host]` per site block
  that has a `tls` directive with a `client_auth` block, then the catch-all policy the adapter
  appends.  This one is a specification of the adapter's output, not a transliteration of
  `serversFromPairings`/`consolidateConnPolicies`; it is compared with the real adapter + real
  provisioning on behaviour (policy chosen per SNI, strict flag, routing), not on JSON.
-/
import CaddyModel.C19.Model
import CaddyModel.C19.ClientAuth

namespace CaddyModel.C19

/-- one subdirective of `client_auth { … }`, as far as the parser and provisioning distinguish -/
inductive Sub where
  /-- `mode <m>` (`m` ≠ empty) -/
  | mode (m : Mode)
  /-- `trusted_ca_cert <base64 DER>`; `ok` = decodable (the parser does not look) -/
  | trustedCACert (ok : Bool)
  /-- `trusted_ca_cert_file <path>`; read at parse time -/
  | trustedCACertFile (readable : Bool)
  | trustedLeafCert (ok : Bool)
  | trustedLeafCertFile (readable : Bool)
  /-- `trust_pool inline { trust_der <base64 DER> }` -/
  | trustPool (ok : Bool)
  /-- `verifier <module> { … }` -/
  | verifier
  deriving DecidableEq, Repr

def Listed.add (a : Listed) (ok : Bool) : Listed :=
  if a = .bad then .bad else if ok then .good else .bad

structure CFState where
  mode : Mode
  caRaw : Listed
  tca : Listed
  leaf : Listed
  ver : Bool

/-- one iteration of the `for d.NextBlock` loop; `none` = the parser returns an error -/
def parseSub (s : CFState) : Sub → Option CFState
  | .mode m => some { s with mode := m }
  | .trustedCACert ok => if s.caRaw.nonEmpty then none else some { s with tca := s.tca.add ok }
  | .trustedCACertFile r =>
    if s.caRaw.nonEmpty then none else if !r then none else some { s with tca := s.tca.add true }
  | .trustedLeafCert ok => some { s with leaf := s.leaf.add ok }
  | .trustedLeafCertFile r => if !r then none else some { s with leaf := s.leaf.add true }
  | .trustPool ok => if s.tca.nonEmpty then none else some { s with caRaw := if ok then .good else .bad }
  | .verifier => some { s with ver := true }

def parseSubs (s : CFState) : List Sub → Option CFState
  | [] => some s
  | x :: xs =>
    match parseSub s x with
    | none => none
    | some s' => parseSubs s' xs

/-- `ClientAuthentication.UnmarshalCaddyfile`: the block the JSON config will contain -/
def parseClientAuth (subs : List Sub) : Option CAConf :=
  match parseSubs ⟨.empty, .none, .none, .none, false⟩ subs with
  | none => none
  | some s =>
    -- "only trust_ca_cert or trust_ca_cert_file was specified": they become an inline `ca` module
    if s.tca.nonEmpty then some ⟨s.tca, .none, .none, s.leaf, s.ver, s.mode⟩
    else some ⟨s.caRaw, .none, .none, s.leaf, s.ver, s.mode⟩

/-- `servers { strict_sni_host [arg] }`: `none` = option absent; inner `none` = rejected argument -/
inductive StrictOpt where
  | absent | bare | on | insecureOff | otherArg
  deriving DecidableEq, Repr

def strictOption : StrictOpt → Option (Option Bool)
  | .absent => some none
  | .bare => some (some true)
  | .on => some (some true)
  | .insecureOff => some (some false)
  | .otherArg => none

/-- a site block: its host name and, if it has `tls { client_auth { … } }`, the parsed block -/
abbrev Site := Bytes × Option CAConf

/-- the connection policies of the server (with the block each carries) -/
def adaptPolicies (sites : List Site) : List (Policy × Option CAConf) :=
  (sites.filterMap fun (name, c) =>
      c.map fun conf => (⟨[.sni [name]], false, activeBefore (some conf)⟩, some conf)) ++
    [(⟨[], false, false⟩, none)]

end CaddyModel.C19
