/-
C19 — the glue that feeds the first-match algorithm over HTTP/3 (listeners.go, package caddy).

One QUIC (UDP) listener per address lives in `listenerPool` across config reloads.  Its tls.Config
forwards every ClientHello to `sharedQUICState.getConfigForClient`, i.e. to
`activeTlsConf.GetConfigForClient` — the first-match loop of ONE config's connection policies.
A starting server calls `ListenQUIC(tlsConf)` (`LoadOrNew` + `addState`), a stopping server calls
`Close` on what it got (`contextCancel` = the wrapping cancel returned by `addState`, then
`listenerPool.Delete`).  Configs are numbered; a history is a list of such calls.
-/
namespace CaddyModel.C19

/-- the pooled listener with its sharedQUICState -/
structure QState where
  /-- usage count in `listenerPool` (0 = there is no listener) -/
  refs : Nat
  /-- keys of `tlsConfs` -/
  confs : List Nat
  /-- `activeTlsConf` -/
  active : Nat
  /-- configs of the fakeCloseQuicListeners that have not been closed -/
  openL : List Nat
  deriving DecidableEq, Repr

def QState.init : QState := ⟨0, [], 0, []⟩

inductive QOp where
  /-- a starting server: `ListenQUIC` with config `k` -/
  | open (k : Nat)
  /-- a stopping server: `Close` of the listener it got for config `k` -/
  | close (k : Nat)
  /-- a QUIC ClientHello arrives -/
  | probe
  deriving DecidableEq, Repr

/-- the wrapping cancel: `delete(tlsConfs, k)`; if `k` was active, "select another tls.Config" -/
def removeConf (s : QState) (k : Nat) : QState :=
  { s with confs := s.confs.erase k,
           active := if s.active = k then (match s.confs.erase k with | c :: _ => c | [] => s.active) else s.active }

/-- `ListenQUIC`: `LoadOrNew` (a new listener starts with `newSharedQUICState(k)`: registered and
    active), then `addState(k)` (registers `k` if it is not; the active config does not change) -/
def openConf (s : QState) (k : Nat) : QState :=
  if s.refs = 0 then ⟨1, [k], k, [k]⟩
  else { s with refs := s.refs + 1, confs := if s.confs.contains k then s.confs else s.confs ++ [k],
                openL := k :: s.openL }

/-- `fakeCloseQuicListener.Close`: the cancel function it holds, then `listenerPool.Delete`
    (the last user destroys the listener).  `wrapped` says whether that cancel function is the
    wrapping one (`addState` returns it on both of its paths). -/
def closeConf (wrapped : Bool) (s : QState) (k : Nat) : QState :=
  if s.refs ≤ 1 then QState.init
  else if wrapped then
    { removeConf s k with refs := s.refs - 1, openL := s.openL.erase k }
  else { s with refs := s.refs - 1, openL := s.openL.erase k }

/-- one call; `none` = outside the protocol (re-opening a config, closing what is not open, more
    than two registered configs — beyond two the successor of a removed active config depends on
    Go's map iteration order).  The second component is what a probe observes. -/
def qstep (wrapped : Nat → Bool) (s : QState) (used : List Nat) : QOp → Option (QState × List Nat × Option (Option Nat))
  | .open k =>
    if used.contains k then none
    else if (openConf s k).openL.length > 2 then none
    else some (openConf s k, k :: used, none)
  | .close k =>
    if !s.openL.contains k then none
    else some (closeConf (wrapped k) s k, used, none)
  | .probe => some (s, used, some (if s.refs = 0 then none else some s.active))

/-- run a history; the answers of its probes -/
def qrun (wrapped : Nat → Bool) : QState → List Nat → List QOp → Option (QState × List (Option Nat))
  | s, _, [] => some (s, [])
  | s, used, op :: ops =>
    match qstep wrapped s used op with
    | none => none
    | some (s', used', obs) =>
      match qrun wrapped s' used' ops with
      | none => none
      | some (sf, answers) => some (sf, (match obs with | some a => [a] | none => []) ++ answers)

/-- the code: every cancel function handed out is the wrapping one -/
def allWrapped : Nat → Bool := fun _ => true

/-- the reload history a running process produces, with a ClientHello after every call: config 1
    starts; each reload starts the next config's server and then stops the previous one -/
def reloadsFrom (k : Nat) : Nat → List QOp
  | 0 => []
  | n + 1 => QOp.open (k + 1) :: QOp.probe :: QOp.close k :: QOp.probe :: reloadsFrom (k + 1) n

def reloads (n : Nat) : List QOp := QOp.open 1 :: QOp.probe :: reloadsFrom 1 n

/-- what those ClientHellos must be answered by: while both servers run, the old config (it is
    still serving); once the old one has stopped, the new config -/
def reloadAnswersFrom (k : Nat) : Nat → List (Option Nat)
  | 0 => []
  | n + 1 => some k :: some (k + 1) :: reloadAnswersFrom (k + 1) n

end CaddyModel.C19
